"""What tools/symtrans.py translates: per generated file, the functions (as small Python callables on the real classes) with the
types of their parameters and of the observed result.  'Z' integer, 'B' boolean, 'Y' byte string, ('opt', 'Z'), ('tuple', [...])."""
OZ = ('opt', 'Z')


def T(*tys):
    return ('tuple', list(tys))


def helpers(u):
    from udsoncan import MemoryLocation, AddressAndLengthFormatIdentifier, CommunicationType, DataFormatIdentifier, Baudrate, Filesize
    ml0 = MemoryLocation(0, 1)

    def memloc_wire(a, s, af, sf):
        m = MemoryLocation(a, s, af, sf)
        return m.alfid.get_byte() + m.get_address_bytes() + m.get_memorysize_bytes()

    def memloc_formats(a, s, af, sf, ca, cs):
        m = MemoryLocation(a, s, af, sf)
        m.set_format_if_none(address_format=ca, memorysize_format=cs)
        return (m.address_format, m.memorysize_format, m.alfid.address_format, m.alfid.memorysize_format)

    def commtype_from_byte(v):
        c = CommunicationType.from_byte(v)
        return (c.subnet.value(), c.normal_msg, c.network_management_msg)

    def dfi_from_byte(b):
        d = DataFormatIdentifier.from_byte(b)
        return (d.compression, d.encryption)

    def baud(r, t):
        b = Baudrate(r, t)
        return (b.baudrate, b.baudtype)

    def baud_new(r, t, nt):
        b = Baudrate(r, t).make_new_type(nt)
        return (b.baudrate, b.baudtype)

    def filesize(uv, cv, w):
        f = Filesize(uv, cv, w)
        return f.get_width()

    return [
        dict(name='fn_autosize_address', params=[('v', 'Z')], result='Z', call=lambda v: ml0.autosize_address(v)),
        dict(name='fn_autosize_memorysize', params=[('v', 'Z')], result='Z', call=lambda v: ml0.autosize_memorysize(v)),
        dict(name='fn_alfid_byte', params=[('af', 'Z'), ('sf', 'Z')], result='Z',
             call=lambda af, sf: AddressAndLengthFormatIdentifier(address_format=af, memorysize_format=sf).get_byte_as_int()),
        dict(name='fn_addr_bytes', params=[('a', 'Z'), ('af', 'Z')], result='Y', call=lambda a, af: MemoryLocation(a, 0, af, 8).get_address_bytes()),
        dict(name='fn_size_bytes', params=[('s', 'Z'), ('sf', 'Z')], result='Y', call=lambda s, sf: MemoryLocation(0, s, 8, sf).get_memorysize_bytes()),
        dict(name='fn_memloc_formats', params=[('a', 'Z'), ('s', 'Z'), ('af', OZ), ('sf', OZ), ('ca', OZ), ('cs', OZ)],
             result=T(OZ, OZ, 'Z', 'Z'), call=memloc_formats),
        dict(name='fn_commtype_byte', params=[('subnet', 'Z'), ('normal', 'B'), ('nm', 'B')], result='Z',
             call=lambda sn, n, m: CommunicationType(sn, n, m).get_byte_as_int()),
        dict(name='fn_commtype_from_byte', params=[('v', 'Z')], result=T('Z', 'B', 'B'), call=commtype_from_byte),
        dict(name='fn_dfi_byte', params=[('c', 'Z'), ('e', 'Z')], result='Z', call=lambda c, e: DataFormatIdentifier(c, e).get_byte_as_int()),
        dict(name='fn_dfi_from_byte', params=[('b', 'Z')], result=T('Z', 'Z'), call=dfi_from_byte),
        dict(name='fn_baud', params=[('r', 'Z'), ('t', 'Z')], result=T('Z', 'Z'), call=baud),
        dict(name='fn_baud_bytes', params=[('r', 'Z'), ('t', 'Z')], result='Y', call=lambda r, t: Baudrate(r, t).get_bytes()),
        dict(name='fn_baud_effective', params=[('r', 'Z'), ('t', 'Z')], result='Z', call=lambda r, t: Baudrate(r, t).effective_baudrate()),
        dict(name='fn_filesize_width', params=[('uv', OZ), ('cv', OZ), ('w', OZ)], result='Z', call=filesize),
    ]


OY = ('opt', 'Y')


def client_env(u):
    """a Client whose send_request is replaced: the translated function is the client method's own code - building the request (the
    stand-in raises Sent with the payload it is handed) or what it does with a positive response carrying the given data bytes"""
    import symtrans as st
    import udsoncan.client as uc
    from udsoncan.connections import BaseConnection
    from udsoncan import Response
    from udsoncan.BaseService import BaseSubfunction

    class Conn(BaseConnection):
        def open(self): return self
        def close(self): pass
        def is_open(self): return True
        def empty_rxqueue(self): pass
        def specific_send(self, payload): raise st.Refuse('the connection was used')
        def specific_wait_frame(self, timeout=2): raise st.Refuse('the connection was used')

    # names looked up for log lines only (the text of log lines is not modelled)
    class NameProxy:
        def __init__(self, real):
            self.__dict__['_real'] = real

        def __getattr__(self, k):
            return getattr(self._real, k)

        def name_from_id(self, x):
            return '<name>' if isinstance(x, st.SymInt) else self._real.name_from_id(x)
    if not isinstance(uc.Routine, NameProxy):
        uc.Routine = NameProxy(uc.Routine)
        uc.DataIdentifier = NameProxy(uc.DataIdentifier)
        real_get_name = BaseSubfunction.get_name.__func__
        BaseSubfunction.get_name = classmethod(lambda cls, x: '<name>' if isinstance(x, st.SymInt) else real_get_name(cls, x))

        class Hex:
            @staticmethod
            def hexlify(x):
                import binascii
                return b'<sym>' if isinstance(x, (st.SymBytes, st.SymSeq)) else binascii.hexlify(x)
        uc.binascii = Hex

    def mk(cfg=None):
        return uc.Client(Conn(), config=dict(cfg or {}))

    def request(call, cfg=None):
        def f(*args):
            c = mk(cfg)

            def sr(req, timeout=-1):
                raise st.Sent(req.get_payload())
            c.send_request = sr
            call(c, *args)
            raise st.Refuse('the method returned without sending a request')
        return f

    def interpret(call, rsid, observe, cfg=None):
        def f(*args):
            c = mk(cfg)
            data = args[-1]

            def sr(req, timeout=-1):
                return Response.from_payload(st.SymSeq([rsid]) + data)
            c.send_request = sr
            return observe(call(c, *args[:-1]))
        return f
    return request, interpret


def opt(v):
    return -1 if v is None else v


def micro(v):
    """a duration in seconds (the float a / k the code computed) as microseconds"""
    if v is None:
        return -1
    if hasattr(v, 'micro'):
        return v.micro()
    return round(v * 1000000)


def simple_services(u):
    request, interpret = client_env(u)
    D = ('seq', 4, 1)
    def sd(*fields):
        """observer: the named service_data fields, in the canonical rendering of the model (None -> -1, bytes -> length-prefixed)"""
        def obs(r):
            out = []
            for f in fields:
                kind, name = f if isinstance(f, tuple) else ('int', f)
                v = getattr(r.service_data, name)
                out.append(('bytes', v) if kind == 'bytes' else opt(v))
            return out
        return obs

    def both(name, params, call, rsid, observe, cfg=None, dlen=4):
        return [dict(name='fn_%s_request' % name, params=params, result='Y', call=request(call, cfg)),
                dict(name='fn_%s_interpret' % name, params=params + [('d', ('seq', dlen, 1))], result='S', call=interpret(call, rsid, observe, cfg))]
    L = []
    L += both('ecu_reset', [('t', 'Z')], lambda c, t: c.ecu_reset(t), 0x51, sd('reset_type_echo', 'powerdown_time'))
    L += both('routine_control', [('rid', 'Z'), ('ct', 'Z'), ('data', OY)], lambda c, rid, ct, data: c.routine_control(rid, ct, data), 0x71,
              sd('control_type_echo', 'routine_id_echo', ('bytes', 'routine_status_record')))
    L += both('tester_present', [], lambda c: c.tester_present(), 0x7E, sd('subfunction_echo'), dlen=2)
    L += both('change_session', [('s', 'Z')], lambda c, s: c.change_session(s), 0x50,
              lambda r: [r.service_data.session_echo, micro(r.service_data.p2_server_max), micro(r.service_data.p2_star_server_max),
                         ('bytes', r.service_data.session_param_records)], dlen=6)
    L += both('change_session_2006', [('s', 'Z')], lambda c, s: c.change_session(s), 0x50,
              lambda r: [r.service_data.session_echo, opt(r.service_data.p2_server_max), opt(r.service_data.p2_star_server_max),
                         ('bytes', r.service_data.session_param_records)], cfg={'standard_version': 2006}, dlen=3)
    L += both('request_seed', [('level', 'Z'), ('data', 'Y')], lambda c, lv, data: c.request_seed(lv, data), 0x67,
              lambda r: [r.service_data.security_level_echo, 1, ('bytes', r.service_data.seed)], dlen=3)
    L += both('send_key', [('level', 'Z'), ('key', 'Y')], lambda c, lv, key: c.send_key(lv, key), 0x67,
              lambda r: [r.service_data.security_level_echo, 0], dlen=3)
    L += both('access_timing_parameter', [('atype', 'Z'), ('record', OY)], lambda c, at, rec: c.access_timing_parameter(at, rec), 0xC3,
              sd('access_type_echo', ('bytes', 'timing_param_record')), dlen=3)
    L += both('communication_control', [('ct', 'Z'), ('cty', 'Z'), ('node', ('opt', 'Z'))], lambda c, ct, cty, node: c.communication_control(ct, cty, node), 0x68,
              sd('control_type_echo'), dlen=2)
    L += both('transfer_data', [('seq', 'Z'), ('data', OY)], lambda c, seq, data: c.transfer_data(seq, data), 0x76,
              sd('sequence_number_echo', ('bytes', 'parameter_records')), dlen=3)
    L += both('control_dtc_setting', [('st', 'Z'), ('data', OY)], lambda c, t, data: c.control_dtc_setting(t, data), 0xC5, sd('setting_type_echo'), dlen=2)
    L += both('clear_dtc', [('group', 'Z'), ('memsel', ('opt', 'Z'))], lambda c, g, m: c.clear_dtc(g, m), 0x54, lambda r: [], dlen=2)
    return L


def edition(u):
    """C18: where the edition in the configuration is looked at"""
    import symtrans as st
    request, interpret = client_env(u)
    import udsoncan.client as uc
    from udsoncan.exceptions import ConfigError
    from udsoncan.connections import BaseConnection

    class Conn(BaseConnection):
        def open(self): return self
        def close(self): pass
        def is_open(self): return True
        def empty_rxqueue(self): pass
        def specific_send(self, payload): raise st.Refuse('the connection was used')
        def specific_wait_frame(self, timeout=2): raise st.Refuse('the connection was used')

    def construct(v):
        uc.Client(Conn(), config={'standard_version': v})
        return 0

    def construct_no_timeout(v):
        uc.Client(Conn(), config={'standard_version': v, 'request_timeout': None})
        return 0

    def set_config(v):
        c = uc.Client(Conn(), config={})
        c.set_config('standard_version', v)
        return 0

    def later_change(v, w):
        """a change of the edition (possibly refused), then a change of another entry, then the edition once more, then a re-stated entry"""
        c = uc.Client(Conn(), config={})
        out = []
        for key, val in (('standard_version', v), ('request_timeout', 3), ('standard_version', w), ('request_timeout', 3), ('p2_timeout', 1)):
            try:
                if key == 'p2_timeout':
                    c.set_configs({key: val})
                else:
                    c.set_config(key, val)
                out.append(0)
            except ConfigError:
                out.append(2)
        return out

    def isolated(v, w):
        """two clients built from one dictionary; one is reconfigured (also its edition), the dictionary is edited afterwards"""
        cfg = {'request_timeout': 1, 'standard_version': 2013}
        c1 = uc.Client(Conn(), config=cfg)
        c2 = uc.Client(Conn(), config=cfg)
        c1.set_config('request_timeout', v)
        c1.set_config('standard_version', 2006)
        cfg['request_timeout'] = w
        cfg['standard_version'] = 1999
        c2.set_config('p2_timeout', 2)           # validates c2's own configuration: its edition is still 2013
        return [c1.config['request_timeout'], c1.config['standard_version'], c2.config['request_timeout'], c2.config['standard_version']]

    def with_std(call):
        def f(std, *args):
            c = uc.Client(Conn(), config={'standard_version': std})

            def sr(req, timeout=-1):
                raise st.Sent(req.get_payload())
            c.send_request = sr
            call(c, *args)
            raise st.Refuse('returned without sending')
        return f
    return [
        dict(name='fn_edition_at_construction', params=[('v', 'Z')], result='Z', call=construct),
        dict(name='fn_edition_at_construction_no_timeout', params=[('v', 'Z')], result='Z', call=construct_no_timeout),
        dict(name='fn_edition_set_config', params=[('v', 'Z')], result='Z', call=set_config),
        dict(name='fn_edition_later_changes', params=[('v', 'Z'), ('w', 'Z')], result='S', call=later_change),
        dict(name='fn_config_isolated', params=[('v', 'Z'), ('w', 'Z')], result='S', call=isolated),
        dict(name='fn_edition_clear_dtc_request', params=[('std', 'Z'), ('g', 'Z'), ('m', ('opt', 'Z'))], result='Y', call=with_std(lambda c, g, m: c.clear_dtc(g, m))),
        dict(name='fn_edition_communication_control_request', params=[('std', 'Z'), ('ct', 'Z'), ('node', ('opt', 'Z'))], result='Y',
             call=with_std(lambda c, ct, node: c.communication_control(ct, 1, node))),
    ]


def names(u):
    """C20: the identifier-to-name lookups, executed on a symbolic identifier"""
    import udsoncan.services as services
    from udsoncan import DataIdentifier, Routine, Dtc
    from udsoncan.ResponseCode import ResponseCode
    L = []
    seen = set()
    for sname in dir(services):
        svc = getattr(services, sname)
        if not isinstance(svc, type):
            continue
        for cname, cls in vars(svc).items():
            if isinstance(cls, type) and issubclass(cls, u.BaseService.BaseSubfunction) and cls not in seen:
                seen.add(cls)
                L.append(dict(name='fn_name_%s_%s' % (sname, cname), params=[('v', 'Z')], result='T', call=(lambda c: lambda v: c.get_name(v))(cls)))
    L.append(dict(name='fn_name_nrc', params=[('v', 'Z')], result='T', call=lambda v: ResponseCode.get_name(v)))
    L.append(dict(name='fn_name_did', params=[('v', 'Z')], result=('opt', 'T'), call=lambda v: DataIdentifier.name_from_id(v)))
    L.append(dict(name='fn_name_routine', params=[('v', 'Z')], result=('opt', 'T'), call=lambda v: Routine.name_from_id(v)))
    L.append(dict(name='fn_name_dtc_format', params=[('v', 'Z')], result=('opt', 'T'), call=lambda v: Dtc.Format.get_name(v)))
    return L


def messages(u):
    """C17: Request / Response objects from and to bytes, executed on symbolic bytes (by length class) and symbolic fields"""
    import symtrans as st
    from udsoncan import Request, Response
    from udsoncan.BaseService import BaseService

    # the NAME of a response code is an attribute nothing here observes (the lookup itself is translated in Fn_Names.v)
    from udsoncan.ResponseCode import ResponseCode
    if not getattr(ResponseCode, '_verif_standin', False):
        real = ResponseCode.get_name.__func__
        ResponseCode.get_name = classmethod(lambda cls, x: '<name>' if isinstance(x, st.SymInt) else real(cls, x))
        ResponseCode._verif_standin = True

    def sid_of(svc, resp=False):
        return -1 if svc is None else svc.request_id()

    def req_from(p):
        r = Request.from_payload(p)
        return [sid_of(r.service), opt(r.subfunction), bool(r.suppress_positive_response), ('obytes', r.data)]

    def resp_from(p):
        r = Response.from_payload(p)
        return [sid_of(r.service), opt(r.code), bool(r.positive), bool(r.valid), bool(r.unexpected), ('bytes', r.data)]

    def req_payload(sid, sub, spr, data, ov):
        return Request(BaseService.from_request_id(sid), sub, spr, data).get_payload(ov)

    def resp_payload(sid, code, data):
        return Response(BaseService.from_request_id(sid), code, data).get_payload()
    return [
        dict(name='fn_request_from_payload', params=[('p', ('seq', 3, 0))], result='S', call=req_from),
        dict(name='fn_response_from_payload', params=[('p', ('seq', 4, 0))], result='S', call=resp_from),
        dict(name='fn_request_payload', params=[('sid', 'Z'), ('sub', 'Z'), ('spr', 'B'), ('data', 'Y'), ('ov', ('opt', 'B'))], result='Y', call=req_payload),
        dict(name='fn_response_payload', params=[('sid', 'Z'), ('code', 'Z'), ('data', 'Y')], result='Y', call=resp_payload),
    ]


def decorator(u):
    """C08: Client.standard_error_management around an inner function whose ending is chosen by `kind`"""
    import symtrans as st
    import udsoncan.client as uc
    from udsoncan import Response, services
    from udsoncan.exceptions import (NegativeResponseException, InvalidResponseException, UnexpectedResponseException, TimeoutException,
                                     ConfigError)
    from udsoncan.connections import BaseConnection

    class Conn(BaseConnection):
        def open(self): return self
        def close(self): pass
        def is_open(self): return True
        def empty_rxqueue(self): pass
        def specific_send(self, payload): raise st.Refuse('the connection was used')
        def specific_wait_frame(self, timeout=2): raise st.Refuse('the connection was used')

    def run(kind, ex_neg, ex_inv, ex_unx):
        c = uc.Client(Conn(), config={'exception_on_negative_response': ex_neg, 'exception_on_invalid_response': ex_inv,
                                      'exception_on_unexpected_response': ex_unx})
        resp = Response(services.ECUReset, 0x22 if False else Response.Code.PositiveResponse, b'\x01')
        neg = Response(services.ECUReset, 0x22, b'')

        def inner(self, k):
            if k == 1:
                raise NegativeResponseException(neg)
            if k == 2:
                raise InvalidResponseException(resp)
            if k == 3:
                raise UnexpectedResponseException(resp)
            if k == 4:
                raise ValueError('bad argument')
            if k == 5:
                raise TimeoutException('silence')
            if k == 6:
                raise ConfigError('key')
            if k == 7:
                raise NotImplementedError('edition')
            if k == 8:
                raise RuntimeError('transport')
            return resp
        dec = uc.Client.standard_error_management(inner)
        try:
            r = dec(c, kind)
            how = 0 if r is resp and kind not in (1, 2, 3) else 1        # 0: the inner function's value, 1: e.response handed back
        except (NegativeResponseException, InvalidResponseException, UnexpectedResponseException) as e:
            r, how = e.response, 2
        flags = lambda x: [int(bool(x.positive)), int(bool(x.valid)), int(bool(x.unexpected))]
        return [how] + flags(r)
    def run_twice(first, kind, ex_neg, ex_inv, ex_unx):
        """the same, after an earlier decorated call on the same client that ended in the way `first`"""
        holder = {}
        orig_client = uc.Client

        class Once(orig_client):
            pass

        def make(*a, **k):
            holder['c'] = orig_client(*a, **k)
            return holder['c']
        c = orig_client(Conn(), config={'exception_on_negative_response': ex_neg, 'exception_on_invalid_response': ex_inv,
                                        'exception_on_unexpected_response': ex_unx})
        r0 = Response(services.ECUReset, Response.Code.PositiveResponse, b'\x01')
        n0 = Response(services.ECUReset, 0x22, b'')

        def inner(self, k, resp, neg):
            if k == 1:
                raise NegativeResponseException(neg)
            if k == 2:
                raise InvalidResponseException(resp)
            if k == 3:
                raise UnexpectedResponseException(resp)
            if k == 4:
                raise ValueError('bad argument')
            if k == 5:
                raise TimeoutException('silence')
            if k == 6:
                raise ConfigError('key')
            if k == 7:
                raise NotImplementedError('edition')
            if k == 8:
                raise RuntimeError('transport')
            return resp
        dec = uc.Client.standard_error_management(inner)
        try:
            dec(c, first, r0, n0)
        except Exception:
            pass
        resp = Response(services.ECUReset, Response.Code.PositiveResponse, b'\x01')
        neg = Response(services.ECUReset, 0x22, b'')
        try:
            r = dec(c, kind, resp, neg)
            how = 0 if r is resp and kind not in (1, 2, 3) else 1
        except (NegativeResponseException, InvalidResponseException, UnexpectedResponseException) as e:
            r, how = e.response, 2
        return [how, int(bool(r.positive)), int(bool(r.valid)), int(bool(r.unexpected))]
    return [dict(name='fn_decorated', params=[('kind', 'Z'), ('ex_neg', 'B'), ('ex_inv', 'B'), ('ex_unx', 'B')], result='S', call=run),
            dict(name='fn_decorated_after', params=[('first', 'Z'), ('kind', 'Z'), ('ex_neg', 'B'), ('ex_inv', 'B'), ('ex_unx', 'B')], result='S', call=run_twice)]


CTX_KINDS = ('bare_after_wait', 'after_wait_block', 'ov_const', 'ov_fun', 'after_ov')


def send_request(u):
    """C05 / C06 / C09 / C15: the real Client.send_request on a symbolic clock - symbolic timeouts (request_timeout, p2, p2*), symbolic
    start time and symbolic arrival instants of the frames of a schedule of fixed shape (kinds of frames chosen per function)"""
    import types
    import symtrans as st
    import udsoncan.client as uc
    from udsoncan import Request, services
    from udsoncan.exceptions import (NegativeResponseException, InvalidResponseException, UnexpectedResponseException, TimeoutException)
    from udsoncan.connections import BaseConnection
    uc.float = lambda x: 0.0 if isinstance(x, st.SymInt) else float(x)        # float() is used on a timeout for the text of a message only
    FRAMES = {'P': b'\x7e\x00', 'W': b'\x7f\x3e\x78', 'N': b'\x7f\x3e\x22', 'I': b'\x7f', 'U': b'\x51\x01'}

    class Clock:
        pass

    def make(shape, overall, spr=None, cb=False, percall=False, server=False, flush=False, ctx=None):
        def f(*args):
            args = list(args)
            T = args.pop(0) if overall else None
            Tp = args.pop(0) if percall else -1
            S2, S2S = (args.pop(0), args.pop(0)) if server else (None, None)
            P2, P2S, now = args[0], args[1], args[2]
            arrivals = args[3:]
            clk = Clock()
            clk.now, clk.waits, clk.events, clk.log, clk.sent = now, [], 0, [], b''
            sched = [(a, FRAMES[k]) for a, k in zip(arrivals, shape)]

            class Conn(BaseConnection):
                def open(self): return self
                def close(self): pass
                def is_open(self): return True

                def empty_rxqueue(self):
                    # without `flush` the schedules considered hold no frame that arrived before the call (hypothesis of the theorems)
                    clk.log.append(1)
                    while flush and sched and sched[0][0] <= clk.now:
                        sched.pop(0)

                def specific_send(self, payload):
                    clk.log.append(2)
                    clk.sent = payload

                def specific_wait_frame(self, timeout=2):
                    clk.waits.append((timeout, clk.now))
                    if sched:
                        a, fr = sched[0]
                        if a <= clk.now + timeout:
                            sched.pop(0)
                            if a > clk.now:
                                clk.now = a
                            return fr
                    clk.now = clk.now + timeout
                    raise TimeoutException('silence')
            saved = uc.time
            uc.time = types.SimpleNamespace(monotonic=lambda: clk.now)
            try:
                c = uc.Client(Conn(), config={})
                c.config['request_timeout'], c.config['p2_timeout'], c.config['p2_star_timeout'] = T, P2, P2S
                if cb:
                    def called():
                        clk.events += 1
                    c.config['nrc78_callback'] = called
                if server:
                    c.session_timing.p2_server_max, c.session_timing.p2_star_server_max = S2, S2S
                req = Request(services.TesterPresent, subfunction=0)
                try:
                    if ctx == 'bare_after_wait':
                        # an earlier block asked to wait for negative replies; this one is entered in the bare form
                        with c.suppress_positive_response(wait_nrc=True):
                            pass
                        with c.suppress_positive_response:
                            r = c.send_request(req)
                    elif ctx == 'after_wait_block':
                        with c.suppress_positive_response(wait_nrc=True):
                            pass
                        r = c.send_request(req)
                    elif ctx == 'ov_const':
                        with c.payload_override(b'\x11\x22\x33'):
                            r = c.send_request(req)
                    elif ctx == 'ov_fun':
                        with c.payload_override(lambda p: b'\xaa' + p + b'\xbb\xcc'):
                            r = c.send_request(req)
                    elif ctx == 'after_ov':
                        with c.payload_override(b'\x11\x22\x33'):
                            pass
                        r = c.send_request(req)
                    elif spr is None:
                        r = c.send_request(req, timeout=Tp) if percall else c.send_request(req)
                    else:
                        with c.suppress_positive_response(wait_nrc=spr):
                            r = c.send_request(req)
                    out = [0, 0 if r is None else 1]
                except TimeoutException as e:
                    m = str(e)
                    out = [4, 2 if 'P2* timeout' in m else (1 if 'P2 timeout' in m else (3 if 'Global request timeout' in m else 0))]
                except NegativeResponseException as e:
                    out = [5, e.response.code]
                except InvalidResponseException:
                    out = [6, 0]
                except UnexpectedResponseException:
                    out = [7, 0]
            finally:
                uc.time = saved
            res = out + [clk.events, len(clk.waits)]
            for w, t in clk.waits:
                res += [w, t]
            res = res + [clk.now]
            if flush:       # also: the order of the calls on the connection before the first wait (1 = empty_rxqueue, 2 = send) and the frame sent
                res = res + [len(clk.log)] + clk.log + [('bytes', clk.sent)]
            return res
        return f
    L = []
    base = [('P2', 'Z'), ('P2S', 'Z'), ('now', 'Z')]

    def arr(shape):
        return [('a%d' % (i + 1), 'Z') for i in range(len(shape))]
    for shape in ('', 'P', 'W', 'N', 'I', 'U', 'WP', 'WN', 'WW'):
        for overall in (True, False):
            params = ([('T', 'Z')] if overall else []) + base + arr(shape)
            L.append(dict(name='fn_send_request_%s%s' % (shape or 'silence', '' if overall else '_no_overall'), params=params, result='S',
                          call=make(shape, overall)))
    for shape in ('W', 'WP', 'WW'):       # a pending-response callback is configured
        L.append(dict(name='fn_send_request_cb_%s' % shape, params=[('T', 'Z')] + base + arr(shape), result='S', call=make(shape, True, cb=True)))
    for shape in ('', 'P', 'N', 'W', 'WP', 'WN'):      # inside `with client.suppress_positive_response(wait_nrc=True)`
        L.append(dict(name='fn_send_request_spr_wait_%s' % (shape or 'silence'), params=[('T', 'Z')] + base + arr(shape), result='S',
                      call=make(shape, True, spr=True)))
    for shape in ('', 'P'):                             # inside `with client.suppress_positive_response(wait_nrc=False)`
        L.append(dict(name='fn_send_request_spr_%s' % (shape or 'silence'), params=[('T', 'Z')] + base + arr(shape), result='S',
                      call=make(shape, True, spr=False)))
    for shape in ('', 'P', 'WP', 'W'):                  # send_request(request, timeout=Tp)
        L.append(dict(name='fn_send_request_percall_%s' % (shape or 'silence'), params=[('T', 'Z'), ('Tp', 'Z')] + base + arr(shape), result='S',
                      call=make(shape, True, percall=True)))
    for shape in ('P', 'PP', 'WP', 'NP'):               # frames that arrived before the call are flushed, not taken for the answer (no hypothesis on the instants)
        L.append(dict(name='fn_send_request_flush_%s' % shape, params=[('T', 'Z')] + base + arr(shape), result='S', call=make(shape, True, flush=True)))
    for ctx in ('bare_after_wait', 'after_wait_block', 'ov_const', 'ov_fun', 'after_ov'):      # what the context managers leave behind / put on the wire
        for shape in ('', 'P'):
            L.append(dict(name='fn_send_request_%s_%s' % (ctx, shape or 'silence'), params=[('T', 'Z')] + base + arr(shape), result='S',
                          call=make(shape, True, flush=True, ctx=ctx)))
    for shape in ('', 'P', 'W'):                        # ... with request_timeout None in the configuration
        L.append(dict(name='fn_send_request_percall_no_overall_%s' % (shape or 'silence'), params=[('Tp', 'Z')] + base + arr(shape), result='S',
                      call=make(shape, False, percall=True)))
    for shape in ('W', 'WP'):                           # ... after a session change that supplied server timings
        L.append(dict(name='fn_send_request_percall_server_%s' % shape, params=[('T', 'Z'), ('Tp', 'Z'), ('S2', 'Z'), ('S2S', 'Z')] + base + arr(shape), result='S',
                      call=make(shape, True, percall=True, server=True)))
    for shape in ('', 'P', 'WP', 'W'):                  # after a session change that supplied server timings
        L.append(dict(name='fn_send_request_server_%s' % (shape or 'silence'), params=[('T', 'Z'), ('S2', 'Z'), ('S2S', 'Z')] + base + arr(shape), result='S',
                      call=make(shape, True, server=True)))
        L.append(dict(name='fn_send_request_server_no_overall_%s' % (shape or 'silence'), params=[('S2', 'Z'), ('S2S', 'Z')] + base + arr(shape), result='S',
                      call=make(shape, False, server=True)))
    return L


def unlock(u):
    """C13: unlock_security_access with send_request replaced by two scripted positive replies (seed reply data d1, key reply data d2)"""
    import symtrans as st
    request, interpret = client_env(u)
    import udsoncan.client as uc
    from udsoncan import Response
    from udsoncan.exceptions import InvalidResponseException, UnexpectedResponseException, NegativeResponseException
    from udsoncan.connections import BaseConnection

    class Conn(BaseConnection):
        def open(self): return self
        def close(self): pass
        def is_open(self): return True
        def empty_rxqueue(self): pass
        def specific_send(self, payload): raise st.Refuse('the connection was used')
        def specific_wait_frame(self, timeout=2): raise st.Refuse('the connection was used')

    def algo(seed):
        return seed[::-1]          # the key is the seed reversed (the model's algorithm flavour 1)

    def run(level, params, d1, d2, lenient=False):
        cfg = {'security_algo': algo}
        if lenient:
            cfg.update({'exception_on_negative_response': False, 'exception_on_invalid_response': False, 'exception_on_unexpected_response': False})
        c = uc.Client(Conn(), config=cfg)
        sent = []
        replies = [st.SymSeq([0x67]) + d1, st.SymSeq([0x67]) + d2]

        def sr(req, timeout=-1):
            sent.append(req.get_payload())
            if len(sent) > 2:
                raise st.Refuse('a third request')
            return Response.from_payload(replies[len(sent) - 1])
        c.send_request = sr
        try:
            r = c.unlock_security_access(level, params)
            # with the switches off the flagged response is handed back instead of raised: same code as the exception would give
            code = 0 if r is None else (7 if r.unexpected else (6 if not r.valid else 0))
        except ValueError:
            code = 1
        except NotImplementedError:
            code = 3
        except InvalidResponseException:
            code = 6
        except UnexpectedResponseException:
            code = 7
        return [code, len(sent)] + [('bytes', p) for p in sent]
    P = [('level', 'Z'), ('params', 'Y'), ('d1', ('seqx', 4, 1)), ('d2', ('seq', 2, 1))]
    return [dict(name='fn_unlock', params=P, result='S', call=run),
            dict(name='fn_unlock_lenient', params=P, result='S', call=lambda *a: run(*a, lenient=True))]


def client_state(u):
    """what a call leaves behind in the client: the session timing after change_session (C10), the formats of the caller's MemoryLocation after
    the configured server formats were applied (C14)"""
    import symtrans as st
    request, interpret = client_env(u)
    import udsoncan.client as uc
    from udsoncan import Response, MemoryLocation
    from udsoncan.exceptions import InvalidResponseException, UnexpectedResponseException, NegativeResponseException
    from udsoncan.connections import BaseConnection

    class Conn(BaseConnection):
        def open(self): return self
        def close(self): pass
        def is_open(self): return True
        def empty_rxqueue(self): pass
        def specific_send(self, payload): raise st.Refuse('the connection was used')
        def specific_wait_frame(self, timeout=2): raise st.Refuse('the connection was used')

    def timing_after(cfg):
        def f(s, d):
            c = uc.Client(Conn(), config=dict(cfg))

            def sr(req, timeout=-1):
                return Response.from_payload(st.SymSeq([0x50]) + d)
            c.send_request = sr
            try:
                c.change_session(s)
            except (ValueError, InvalidResponseException, UnexpectedResponseException):
                pass
            return [micro(c.session_timing.p2_server_max), micro(c.session_timing.p2_star_server_max)]
        return f

    def formats_after(method):
        import udsoncan.services as services
        svc = {'read': services.ReadMemoryByAddress, 'write': services.WriteMemoryByAddress, 'download': services.RequestDownload}[method]

        def f(a, s, af, sf, ca, cs):
            c = uc.Client(Conn(), config={'server_address_format': ca, 'server_memorysize_format': cs})
            ml = MemoryLocation(a, s, af, sf)
            saved = svc.__dict__['make_request']

            def stop(*args, **kw):
                raise st.Sent(b'')        # the formats have been applied by now; building the request is translated elsewhere
            svc.make_request = stop
            try:
                if method == 'read':
                    c.read_memory_by_address(ml)
                elif method == 'write':
                    c.write_memory_by_address(ml, b'\x00')
                else:
                    c.request_download(ml)
            except st.Sent:
                pass
            finally:
                svc.make_request = saved
            return (ml.address_format, ml.memorysize_format, ml.alfid.address_format, ml.alfid.memorysize_format)
        return f
    D6 = ('seq', 6, 1)
    FP = [('a', 'Z'), ('s', 'Z'), ('af', OZ), ('sf', OZ), ('ca', OZ), ('cs', OZ)]
    FR = T(OZ, OZ, 'Z', 'Z')
    return [dict(name='fn_change_session_timing', params=[('s', 'Z'), ('d', D6)], result='S', call=timing_after({})),
            dict(name='fn_change_session_timing_2006', params=[('s', 'Z'), ('d', D6)], result='S', call=timing_after({'standard_version': 2006})),
            dict(name='fn_change_session_timing_unused', params=[('s', 'Z'), ('d', D6)], result='S', call=timing_after({'use_server_timing': False})),
            dict(name='fn_client_formats_read', params=FP, result=FR, call=formats_after('read')),
            dict(name='fn_client_formats_write', params=FP, result=FR, call=formats_after('write')),
            dict(name='fn_client_formats_download', params=FP, result=FR, call=formats_after('download'))]


def composite(u):
    """C14: the consistency check of a composite definition by memory address (DynamicDidDefinition.get_alfid)"""
    from udsoncan import MemoryLocation, DynamicDidDefinition

    def alfid_of(*fmts):
        d = DynamicDidDefinition()
        for k in range(0, len(fmts), 2):
            d.add(MemoryLocation(0x10 + k, 4, fmts[k], fmts[k + 1]))
        return d.get_alfid().get_byte_as_int()
    P = [('af1', 'Z'), ('sf1', 'Z'), ('af2', 'Z'), ('sf2', 'Z'), ('af3', 'Z'), ('sf3', 'Z')]
    return [dict(name='fn_composite_alfid2', params=P[:4], result='Z', call=alfid_of),
            dict(name='fn_composite_alfid3', params=P, result='Z', call=alfid_of)]


def did_services(u):
    """C07 / C01: read_data_by_identifier and write_data_by_identifier with SYMBOLIC identifiers against a configured table
    {0xF190: 3 bytes, 0x0102: 1 byte, 0xFFFF: reads all that is left}"""
    import symtrans as st
    request, interpret = client_env(u)
    from udsoncan import DidCodec

    class Raw(DidCodec):
        def __init__(self, n):
            self.n = n

        def encode(self, v):
            return v

        def decode(self, b):
            return b

        def __len__(self):
            if self.n < 0:
                raise DidCodec.ReadAllRemainingData
            return self.n

    def cfg(with_default=False):
        t = {0xF190: Raw(3), 0x0102: Raw(1), 0xFFFF: Raw(-1)}
        if with_default:
            t['default'] = Raw(2)
        return {'data_identifiers': st.SymDictFork(t)}
    return [
        dict(name='fn_rdbi_request_1', params=[('d1', 'Z')], result='Y', call=request(lambda c, d1: c.read_data_by_identifier([d1]), cfg())),
        dict(name='fn_rdbi_request_2', params=[('d1', 'Z'), ('d2', 'Z')], result='Y', call=request(lambda c, d1, d2: c.read_data_by_identifier([d1, d2]), cfg())),
        dict(name='fn_rdbi_interpret', params=[('d', ('seqx', 9, 1))], result='S',
             call=interpret(lambda c: c.read_data_by_identifier([0xF190, 0x0102]), 0x62,
                            lambda r: [len(r.service_data.values)] + [x for k in sorted(r.service_data.values, key=lambda z: z if isinstance(z, int) else hash(z))
                                                                      for x in (k if isinstance(k, int) else hash(k), ('bytes', r.service_data.values[k]))], cfg())),
        dict(name='fn_rdbi_request_2_default', params=[('d1', 'Z'), ('d2', 'Z')], result='Y',
             call=request(lambda c, d1, d2: c.read_data_by_identifier([d1, d2]), cfg(True))),
    ]


def memory_echo(u):
    """C03 / C14: write_memory_by_address with explicit formats: the request, and what is done with the server's echo"""
    import symtrans as st
    request, interpret = client_env(u)
    from udsoncan import MemoryLocation
    L = []
    for af, sf, K in ((16, 8, 6), (64, 64, 19)):
        call = (lambda af, sf: lambda c, a, s, data: c.write_memory_by_address(MemoryLocation(a, s, af, sf), data))(af, sf)
        obs = lambda r: [r.service_data.alfid_echo, r.service_data.memory_location_echo.address, r.service_data.memory_location_echo.memorysize]
        P = [('a', 'Z'), ('s', 'Z'), ('data', 'Y')]
        L.append(dict(name='fn_write_memory_request_%d_%d' % (af, sf), params=P, result='Y', call=request(call)))
        L.append(dict(name='fn_write_memory_interpret_%d_%d' % (af, sf), params=P + [('d', ('seqx', K, 1))], result='S', call=interpret(call, 0x7D, obs)))
    return L


def more_services(u):
    """further client methods: read_memory_by_address (the padding rule of C11), request_transfer_exit, clear_dynamically_defined_did"""
    import symtrans as st
    request, interpret = client_env(u)
    from udsoncan import MemoryLocation
    L = []
    rd = lambda c: c.read_memory_by_address(MemoryLocation(0x1000, 2, 16, 8))
    for name, cfg in (('tolerant', {}), ('strict', {'tolerate_zero_padding': False})):
        L.append(dict(name='fn_read_memory_2_%s' % name, params=[('d', ('seqx', 7, 1))], result='S',
                      call=interpret(rd, 0x63, lambda r: [('bytes', r.service_data.memory_block)], cfg)))
    P = [('data', OY)]
    call = lambda c, data: c.request_transfer_exit(data)
    L.append(dict(name='fn_request_transfer_exit_request', params=P, result='Y', call=request(call)))
    L.append(dict(name='fn_request_transfer_exit_interpret', params=P + [('d', ('seq', 3, 1))], result='S',
                  call=interpret(call, 0x77, lambda r: [('bytes', r.service_data.parameter_records)])))
    from udsoncan import DataFormatIdentifier, DynamicDidDefinition
    for up in (False, True):       # request_download / request_upload with explicit 16/8-bit formats, with and without a data format identifier
        nm = 'request_upload' if up else 'request_download'
        m = (lambda up: lambda c, a, s: (c.request_upload if up else c.request_download)(MemoryLocation(a, s, 16, 8)))(up)
        md = (lambda up: lambda c, a, s, cm, en: (c.request_upload if up else c.request_download)(MemoryLocation(a, s, 16, 8), DataFormatIdentifier(cm, en)))(up)
        L.append(dict(name='fn_%s_request' % nm, params=[('a', 'Z'), ('s', 'Z')], result='Y', call=request(m)))
        L.append(dict(name='fn_%s_dfi_request' % nm, params=[('a', 'Z'), ('s', 'Z'), ('cm', 'Z'), ('en', 'Z')], result='Y', call=request(md)))

    def define1(c, did, src, pos, size):
        d = DynamicDidDefinition()
        d.add(source_did=src, position=pos, memorysize=size)
        return c.dynamically_define_did(did, d)

    def define2(c, did, src, pos, size, src2, pos2, size2):
        d = DynamicDidDefinition()
        d.add(source_did=src, position=pos, memorysize=size)
        d.add(source_did=src2, position=pos2, memorysize=size2)
        return c.dynamically_define_did(did, d)
    E = [('src', 'Z'), ('pos', 'Z'), ('size', 'Z')]
    L.append(dict(name='fn_define_by_did_1_request', params=[('did', 'Z')] + E, result='Y', call=request(define1)))
    L.append(dict(name='fn_define_by_did_2_request', params=[('did', 'Z')] + E + [('src2', 'Z'), ('pos2', 'Z'), ('size2', 'Z')], result='Y', call=request(define2)))
    P = [('did', 'Z')]
    call = lambda c, did: c.clear_dynamically_defined_did(did)
    obs = lambda r: [r.service_data.subfunction_echo, opt(r.service_data.did_echo)]
    L.append(dict(name='fn_clear_did_request', params=P, result='Y', call=request(call)))
    L.append(dict(name='fn_clear_did_interpret', params=P + [('d', ('seq', 4, 1))], result='S', call=interpret(call, 0x6C, obs)))
    return L


def io_services(u):
    """C01 / C07: io_control on a configured entry {codec of 2 bytes, masks m0 = 0x01, m1 = 0x03 (overlapping m0), m2 = 0x80, mask_size 1}: symbolic control parameter,
    symbolic values, the masks in their dict form (three names set or cleared, also a name the table does not define), as one boolean, absent"""
    import symtrans as st
    request, interpret = client_env(u)
    from udsoncan import DidCodec

    class Raw2(DidCodec):
        def encode(self, v):
            n = st.sym_len(v)
            if n != 2:
                raise ValueError('2 bytes expected')
            return v

        def decode(self, b):
            return b

        def __len__(self):
            return 2
    cfg = {'input_output': {0x0132: {'codec': Raw2(), 'mask': {'m0': 0x01, 'm1': 0x03, 'm2': 0x80}, 'mask_size': 1}}}
    B3 = [('b0', 'B'), ('b1', 'B'), ('b2', 'B')]
    P = [('cp', OZ), ('values', OY)]
    return [
        dict(name='fn_io_request_dict', params=P + B3, result='Y',
             call=request(lambda c, cp, v, b0, b1, b2: c.io_control(0x0132, control_param=cp, values=(None if v is None else [v]), masks={'m0': b0, 'm1': b1, 'm2': b2}), cfg)),
        dict(name='fn_io_request_undefined_name', params=P + [('b0', 'B'), ('bx', 'B')], result='Y',
             call=request(lambda c, cp, v, b0, bx: c.io_control(0x0132, control_param=cp, values=(None if v is None else [v]), masks={'m0': b0, 'mX': bx}), cfg)),
        dict(name='fn_io_request_bool', params=P + [('b', 'B')], result='Y',
             call=request(lambda c, cp, v, b: c.io_control(0x0132, control_param=cp, values=(None if v is None else [v]), masks=b), cfg)),
        dict(name='fn_io_request_nomask', params=P, result='Y',
             call=request(lambda c, cp, v: c.io_control(0x0132, control_param=cp, values=(None if v is None else [v])), cfg)),
    ]


def pick(names):
    return lambda u: [sp for sp in helpers(u) if sp['name'] in names]


# one generated file per group of properties: a function that changes (or is refused) touches the theorems of its own group only
def files(u):
    # Fn_Names first: the groups about client methods replace the name lookups (used there for log lines only) by stand-ins
    return [('Fn_Names.v', 'udsoncan/BaseService.py (BaseSubfunction.get_name on every table), ResponseCode.py, common/dids.py, common/Routine.py, common/dtc.py', names),
            ('Fn_Messages.v', 'udsoncan/Request.py, Response.py, BaseService.py (from_request_id, from_response_id)', messages),
            ('Fn_MemLoc.v', 'udsoncan/common/MemoryLocation.py, AddressAndLengthFormatIdentifier.py',
             pick(['fn_autosize_address', 'fn_autosize_memorysize', 'fn_alfid_byte', 'fn_addr_bytes', 'fn_size_bytes', 'fn_memloc_formats'])),
            ('Fn_Codecs.v', 'udsoncan/common/CommunicationType.py, DataFormatIdentifier.py, AddressAndLengthFormatIdentifier.py, Baudrate.py',
             pick(['fn_alfid_byte', 'fn_commtype_byte', 'fn_commtype_from_byte', 'fn_dfi_byte', 'fn_dfi_from_byte', 'fn_baud', 'fn_baud_bytes', 'fn_baud_effective'])),
            ('Fn_Filesize.v', 'udsoncan/common/Filesize.py', pick(['fn_filesize_width'])),
            ('Fn_Timing.v', 'udsoncan/client.py (change_session: what it leaves in session_timing)',
             lambda u: [sp for sp in client_state(u) if 'timing' in sp['name']]),
            ('Fn_ClientFormats.v', 'udsoncan/client.py (read_memory_by_address, write_memory_by_address, request_download: the configured server formats applied to the caller\'s MemoryLocation)',
             lambda u: [sp for sp in client_state(u) if 'formats' in sp['name']]),
            ('Fn_Composite.v', 'udsoncan/common/DynamicDidDefinition.py (add, get_alfid), MemoryLocation.py', composite),
            ('Fn_Did.v', 'udsoncan/client.py (read_data_by_identifier), services/ReadDataByIdentifier.py (make_request), common/dids.py',
             lambda u: [sp for sp in did_services(u) if 'request' in sp['name']]),
            ('Fn_DidInt.v', 'udsoncan/client.py (read_data_by_identifier), services/ReadDataByIdentifier.py (interpret_response), common/dids.py',
             lambda u: [sp for sp in did_services(u) if 'interpret' in sp['name']]),
            ('Fn_MemoryEcho.v', 'udsoncan/client.py (write_memory_by_address), services/WriteMemoryByAddress.py, common/MemoryLocation.py', memory_echo),
            ('Fn_More.v', 'udsoncan/client.py (read_memory_by_address, request_transfer_exit, clear_dynamically_defined_did) and their services',
             lambda u: [sp for sp in more_services(u) if not any(k in sp['name'] for k in ('load', 'define'))]),
            ('Fn_More2.v', 'udsoncan/client.py (request_download, request_upload, dynamically_define_did by source DID) and their services',
             lambda u: [sp for sp in more_services(u) if any(k in sp['name'] for k in ('load', 'define'))]),
            ('Fn_Io.v', 'udsoncan/client.py (io_control), services/InputOutputControlByIdentifier.py (make_request), tools.py, common/IOControls.py', io_services),
            ('Fn_Unlock.v', 'udsoncan/client.py (unlock_security_access, request_seed, send_key; send_request replaced by two scripted replies)', unlock),
            ('Fn_SendRequest.v', 'udsoncan/client.py (send_request, on a symbolic clock)',
             lambda u: [sp for sp in send_request(u) if not any(k in sp['name'] for k in CTX_KINDS)]),
            ('Fn_SendContext.v', 'udsoncan/client.py (send_request on a symbolic clock, inside / after suppress_positive_response and payload_override blocks)',
             lambda u: [sp for sp in send_request(u) if any(k in sp['name'] for k in CTX_KINDS)]),
            ('Fn_Decorator.v', 'udsoncan/client.py (standard_error_management)', decorator),
            ('Fn_Edition.v', 'udsoncan/client.py (__init__, set_config, set_configs, refresh_config, validate_config, clear_dtc, communication_control)', edition),
            ('Fn_SimpleReq.v', 'udsoncan/client.py (the methods up to the call of send_request), udsoncan/services/*.py, Request.py',
             lambda u: [sp for sp in simple_services(u) if sp['name'].endswith('_request')]),
            ('Fn_SimpleInt.v', 'udsoncan/client.py (the methods, send_request replaced by a positive response with the given data), udsoncan/services/*.py, Response.py',
             lambda u: [sp for sp in simple_services(u) if sp['name'].endswith('_interpret')])]
