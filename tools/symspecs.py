"""What tools/symtrans.py translates: per generated file, the functions (as small Python callables on the real classes) with the
types of their parameters and of the observed result.  'Z' integer, 'B' boolean, 'Y' byte string, ('opt', 'Z'), ('tuple', [...])."""
OZ = ('opt', 'Z')


def T(*tys):
    return ('tuple', list(tys))


def helpers(u):
    from udsoncan import MemoryLocation, AddressAndLengthFormatIdentifier, CommunicationType, DataFormatIdentifier, Baudrate, Filesize
    ml0 = MemoryLocation(0, 1)

    def memloc_wire(a, s, af, sf):
        m = MemoryLocation(a, s, af, sf)
        return m.alfid.get_byte() + m.get_address_bytes() + m.get_memorysize_bytes()

    def memloc_formats(a, s, af, sf, ca, cs):
        m = MemoryLocation(a, s, af, sf)
        m.set_format_if_none(address_format=ca, memorysize_format=cs)
        return (m.address_format, m.memorysize_format, m.alfid.address_format, m.alfid.memorysize_format)

    def commtype_from_byte(v):
        c = CommunicationType.from_byte(v)
        return (c.subnet.value(), c.normal_msg, c.network_management_msg)

    def dfi_from_byte(b):
        d = DataFormatIdentifier.from_byte(b)
        return (d.compression, d.encryption)

    def baud(r, t):
        b = Baudrate(r, t)
        return (b.baudrate, b.baudtype)

    def baud_new(r, t, nt):
        b = Baudrate(r, t).make_new_type(nt)
        return (b.baudrate, b.baudtype)

    def filesize(uv, cv, w):
        f = Filesize(uv, cv, w)
        return f.get_width()

    return [
        dict(name='fn_autosize_address', params=[('v', 'Z')], result='Z', call=lambda v: ml0.autosize_address(v)),
        dict(name='fn_autosize_memorysize', params=[('v', 'Z')], result='Z', call=lambda v: ml0.autosize_memorysize(v)),
        dict(name='fn_alfid_byte', params=[('af', 'Z'), ('sf', 'Z')], result='Z',
             call=lambda af, sf: AddressAndLengthFormatIdentifier(address_format=af, memorysize_format=sf).get_byte_as_int()),
        dict(name='fn_addr_bytes', params=[('a', 'Z'), ('af', 'Z')], result='Y', call=lambda a, af: MemoryLocation(a, 0, af, 8).get_address_bytes()),
        dict(name='fn_size_bytes', params=[('s', 'Z'), ('sf', 'Z')], result='Y', call=lambda s, sf: MemoryLocation(0, s, 8, sf).get_memorysize_bytes()),
        dict(name='fn_memloc_formats', params=[('a', 'Z'), ('s', 'Z'), ('af', OZ), ('sf', OZ), ('ca', OZ), ('cs', OZ)],
             result=T(OZ, OZ, 'Z', 'Z'), call=memloc_formats),
        dict(name='fn_commtype_byte', params=[('subnet', 'Z'), ('normal', 'B'), ('nm', 'B')], result='Z',
             call=lambda sn, n, m: CommunicationType(sn, n, m).get_byte_as_int()),
        dict(name='fn_commtype_from_byte', params=[('v', 'Z')], result=T('Z', 'B', 'B'), call=commtype_from_byte),
        dict(name='fn_dfi_byte', params=[('c', 'Z'), ('e', 'Z')], result='Z', call=lambda c, e: DataFormatIdentifier(c, e).get_byte_as_int()),
        dict(name='fn_dfi_from_byte', params=[('b', 'Z')], result=T('Z', 'Z'), call=dfi_from_byte),
        dict(name='fn_baud', params=[('r', 'Z'), ('t', 'Z')], result=T('Z', 'Z'), call=baud),
        dict(name='fn_baud_bytes', params=[('r', 'Z'), ('t', 'Z')], result='Y', call=lambda r, t: Baudrate(r, t).get_bytes()),
        dict(name='fn_baud_effective', params=[('r', 'Z'), ('t', 'Z')], result='Z', call=lambda r, t: Baudrate(r, t).effective_baudrate()),
        dict(name='fn_filesize_width', params=[('uv', OZ), ('cv', OZ), ('w', OZ)], result='Z', call=filesize),
    ]


def pick(names):
    return lambda u: [sp for sp in helpers(u) if sp['name'] in names]


# one generated file per group of properties: a function that changes (or is refused) touches the theorems of its own group only
def files(u):
    return [('Fn_MemLoc.v', 'udsoncan/common/MemoryLocation.py, AddressAndLengthFormatIdentifier.py',
             pick(['fn_autosize_address', 'fn_autosize_memorysize', 'fn_alfid_byte', 'fn_addr_bytes', 'fn_size_bytes', 'fn_memloc_formats'])),
            ('Fn_Codecs.v', 'udsoncan/common/CommunicationType.py, DataFormatIdentifier.py, AddressAndLengthFormatIdentifier.py, Baudrate.py',
             pick(['fn_alfid_byte', 'fn_commtype_byte', 'fn_commtype_from_byte', 'fn_dfi_byte', 'fn_dfi_from_byte', 'fn_baud', 'fn_baud_bytes', 'fn_baud_effective'])),
            ('Fn_Filesize.v', 'udsoncan/common/Filesize.py', pick(['fn_filesize_width']))]
