#!/bin/sh
# usage: tools/seedround.sh <round> [ids...]   -- runs tools/seedtest.sh for every /tmp/wt<round>_<id> worktree that has a SEEDED/patch.diff
cd "$(dirname "$0")/.." || exit 2
R=$1; shift
ids=${*:-C01 C02 C03 C04 C05 C06 C07 C08 C09 C10 C11 C12 C13 C14 C15 C16 C17 C18 C19 C20}
for id in $ids; do
  wt=/tmp/wt${R}_$id
  [ -f "$wt/SEEDED/patch.diff" ] || { echo "$id: no seeded change yet"; continue; }
  echo "=== $id"
  tools/seedtest.sh "$id" "$wt" "$id-$R" 2>&1 | tail -12
done
