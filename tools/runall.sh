#!/bin/sh
# runs every claimed check (quick tier) and prints one line each; exit 1 if any raised an alarm
cd "$(dirname "$0")/.." || exit 2
rc=0
for id in $(/venv/bin/python -c "import json;print(' '.join(c['property_id'] for c in json.load(open('MANIFEST.json'))['checks']))"); do
  out=$(./check $id --tier ${1:-quick} 2>&1 | grep -v conda | tail -4)
  echo "$out" | cut -c1-230
  echo "$out" | grep -q VIOLATION && rc=1
done
exit $rc
