#!/usr/bin/env python3
"""Writes MANIFEST.json from the table below (one place to keep it valid)."""
import json, os
ROOT = os.path.dirname(os.path.dirname(os.path.abspath(__file__)))
props = [json.loads(l) for l in open(os.path.join(ROOT, 'properties.jsonl'))]
CLAIMS = json.load(open(os.path.join(ROOT, 'tools', 'claims.json')))
checks, na = [], []
for p in props:
    pid = p['id']
    c = CLAIMS.get(pid)
    if c and c.get('claimed'):
        checks.append({
            'property_id': pid,
            'quick_cmd': './check %s --tier quick' % pid,
            'thorough_cmd': './check %s --tier thorough' % pid,
            'evidence_file': 'evidence/%s.json' % pid,
            'replay_cmd_template': './check %s --replay {path}' % pid,
            'engine': 'coq-model',
            'level_claimed': {'category': 'proof', 'text': c['text'], 'design_ref': c.get('design_ref', 'DESIGN.md section 5, ' + pid)},
            'level_note': c['note'],
            'technique': c['technique'],
        })
    else:
        na.append({'property_id': pid, 'reason': (c or {}).get('reason', 'not built yet in this development; see DESIGN.md section 9 (staging)')})
m = {
    'version': 1,
    'setup_cmd': 'PYTHONDONTWRITEBYTECODE=1 /venv/bin/python tools/build.py all',
    'hooks': {'guard': 'UDSONCAN_VERIF',
              'enable': 'none needed: the clock, the connection and the selector are substituted from the harness; /repo is imported as it is',
              'baseline_off_cmd': 'cd /repo && /venv/bin/python -m pytest -ra -q -p no:cacheprovider --timeout=900 --continue-on-collection-errors',
              'source_commits': [], 'add_only': True},
    'engines': [
        {'name': 'coq-model', 'path': 'coq/', 'serves_properties': [c['property_id'] for c in checks],
         'kind_free_text': 'Rocq/Coq 8.16 development: Lib (bytes, sweeps, error monad), Gen (tables regenerated from /repo every run), Spec, Model (executable Gallina mirror of the Python), Proofs, Props (theorem statements + Print Assumptions)'},
        {'name': 'translator', 'path': 'tools/translate.py', 'serves_properties': [c['property_id'] for c in checks],
         'kind_free_text': 'fail-closed Python-ast translator: data tables of udsoncan -> coq/Gen/*.v'},
        {'name': 'function-translator', 'path': 'tools/symtrans.py', 'serves_properties': ['C01', 'C02', 'C03', 'C04', 'C05', 'C06', 'C07', 'C08', 'C09', 'C10', 'C11', 'C13', 'C14', 'C15', 'C17', 'C18', 'C19', 'C20'],
         'kind_free_text': 'executes selected functions of udsoncan on symbolic arguments (operator overloading), enumerates every path and prints the complete decision tree as Gallina (coq/Gen/Fn_*.v); Proofs/Tie_*.v prove generated = model for all arguments'},
        {'name': 'correspondence', 'path': 'tools/harness/', 'serves_properties': [c['property_id'] for c in checks],
         'kind_free_text': 'runs the real udsoncan and the OCaml-extracted model on the same cases, diffs canonical observables, evaluates the property oracle on the implementation, decides violations / known findings, writes evidence'},
    ],
    'checks': checks,
    'not_applicable': na,
    'notes': 'Technique: machine-checked proof in Coq 8.16.1 over an executable model tied to /repo by regeneration (Gen) and by differential correspondence (extracted model vs real code). See DESIGN.md.',
}
json.dump(m, open(os.path.join(ROOT, 'MANIFEST.json'), 'w'), indent=1)
print('MANIFEST: %d checks, %d not claimed' % (len(checks), len(na)))
