#!/usr/bin/env python3
"""Function translator: the *bodies* of selected functions of /repo/udsoncan -> coq/Gen/Fn_*.v.

How: the real function is executed on SYMBOLIC arguments (operator overloading).  Integers are `SymInt` objects carrying an
expression tree; every comparison gives a `SymBool`; whenever Python asks a SymBool for its truth value (`if`, `and`, `not`,
`max`, `in` ...) the explorer forks: the function is re-executed once per outcome, depth first, until every path has been walked.
The result is the COMPLETE decision tree of the function over its integer / boolean / optional arguments - conditions on the
arguments at the inner nodes, `return <expression>` or `raise <class>` at the leaves - which is printed as a Gallina term in the
error monad.  No bound, no sampling: a function whose paths cannot all be enumerated (a loop on a symbolic value, more than
MAX_PATHS paths) is refused.  Nothing is parsed, so helper calls, class constants, `isinstance`, `|=`, tuple loops ... need no
support of their own: they simply run.

Fail-closed: everything through which CPython could read a concrete value out of a symbolic one (`__index__`, `__int__`,
`__float__`, `__hash__`, `__len__`, `__iter__`) raises `Refuse` (a BaseException, so no `except Exception` of the library swallows
it); the one exception is `%`-formatting of messages (the text of an exception is not modelled).  A refused function becomes a
definition that does not type-check in its Gen file, so exactly the theorems that depend on it fail.

usage: symtrans.py REPO OUTDIR     (always exit 0 unless the output cannot be written; refusals are inside the files)
"""
import importlib
import os
import struct as _struct
import sys
import types

MAX_PATHS = 4000
PER_FUNCTION_SECONDS = 60


class Refuse(BaseException):
    pass


class SymbolicText(BaseException):
    """a returned string contains the text of a symbolic value (str(x), '%d' % x): no Gallina counterpart - an unmodelled leaf"""


class Unmodelled(BaseException):
    """this path does something the translation has no counterpart for (a float, a division by a variable ...).  It becomes a leaf
    `fail EOutOfFuel`, an outcome the model never has: the equivalence theorem is provable only if the path cannot be taken"""


# ------------------------------------------------------------------------------------------------- expressions
class E:
    """expression node; ty in {'Z', 'B', 'Y'} (integer, boolean, byte string)"""
    __slots__ = ('op', 'args', 'ty', '_key')

    def __init__(self, op, args, ty):
        self.op, self.args, self.ty = op, tuple(args), ty
        self._key = None

    def key(self):
        if self._key is None:
            self._key = (self.op,) + tuple(a.key() if isinstance(a, E) else ('c', a) for a in self.args)
        return self._key


def zc(v):
    return '(%d)' % v if v < 0 else '%d' % v


BIN = {'add': '(%s + %s)', 'sub': '(%s - %s)', 'mul': '(%s * %s)', 'fdiv': '(%s / %s)', 'mod': '(%s mod %s)',
       'and': '(Z.land %s %s)', 'or': '(Z.lor %s %s)', 'xor': '(Z.lxor %s %s)', 'shl': '(Z.shiftl %s %s)', 'shr': '(Z.shiftr %s %s)',
       'pow': '(%s ^ %s)', 'cdiv': '(py_ceil_div %s %s)', 'lt': '(%s <? %s)', 'eq': '(%s =? %s)', 'max': '(Z.max %s %s)', 'min': '(Z.min %s %s)'}


def coq(e):
    if isinstance(e, bool):
        return 'true' if e else 'false'
    if isinstance(e, int):
        return zc(e)
    if e.op == 'var':
        return e.args[0]
    if e.op == 'neg':
        return '(- %s)' % coq(e.args[0])
    if e.op == 'bitlen':
        return '(py_bit_length %s)' % coq(e.args[0])
    if e.op == 'len':
        return '(Z.of_nat (List.length %s))' % coq(e.args[0])
    if e.op == 'not':
        return '(negb %s)' % coq(e.args[0])
    if e.op in ('dmem', 'dget'):
        return '(py_dict_%s %s %s)' % (e.op[1:], table_name(e.args[0]), coq(e.args[1]))
    if e.op in BIN:
        return BIN[e.op] % (coq(e.args[0]), coq(e.args[1]))
    raise Refuse('no Coq form for %s' % e.op)


TABLES = {}      # (name, items) of the class-level tables met, in order of first use (printed at the top of the generated file)


def table_name(key):
    name, items = key
    TABLES[name] = items
    return name


# ------------------------------------------------------------------------------------------------- explorer
class Explorer:
    def __init__(self):
        self.prefix, self.trace = [], []

    def decide(self, atom):
        """atom: E of type B in canonical form (lt / eq); -> bool, forking on first sight"""
        k = atom.key()
        for a, b in self.trace:
            if a.key() == k:
                return b
        known = self.implied(atom)
        if known is not None:
            return known
        i = len(self.trace)
        b = self.prefix[i][1] if i < len(self.prefix) else True
        if i < len(self.prefix) and self.prefix[i][0] != k:
            raise Refuse('the function is not deterministic: decision %d differs between two executions' % i)
        self.trace.append((atom, b))
        return b

    @staticmethod
    def var_const(atom):
        """(variable name, constant, shape) for the atoms  var < c ('vc'),  c < var ('cv'),  var = c ('eq');  else None"""
        a, b = atom.args
        av = a.args[0] if isinstance(a, E) and a.op == 'var' and a.ty == 'Z' else None
        bv = b.args[0] if isinstance(b, E) and b.op == 'var' and b.ty == 'Z' else None
        ac = a if isinstance(a, int) and not isinstance(a, bool) else None
        bc = b if isinstance(b, int) and not isinstance(b, bool) else None
        if atom.op == 'lt':
            if av is not None and bc is not None:
                return av, bc, 'vc'
            if ac is not None and bv is not None:
                return bv, ac, 'cv'
        elif atom.op == 'eq':
            if av is not None and bc is not None:
                return av, bc, 'eq'
            if ac is not None and bv is not None:
                return bv, ac, 'eq'
        return None

    def implied(self, atom):
        """the truth of `atom` when the decisions already taken on this path fix it - only for comparisons of ONE integer variable with
        a constant (interval of the variable + excluded values).  Saves walking paths no argument can take; part of the trusted base."""
        vc = self.var_const(atom)
        if vc is None:
            return None
        var, c, shape = vc
        lo, hi, excluded = None, None, set()
        for a, b in self.trace:
            t = self.var_const(a)
            if t is None or t[0] != var:
                continue
            _, d, sh = t
            if sh == 'vc':        # var < d
                if b:
                    hi = d - 1 if hi is None else min(hi, d - 1)
                else:
                    lo = d if lo is None else max(lo, d)
            elif sh == 'cv':      # d < var
                if b:
                    lo = d + 1 if lo is None else max(lo, d + 1)
                else:
                    hi = d if hi is None else min(hi, d)
            else:
                if b:
                    lo = d if lo is None else max(lo, d)
                    hi = d if hi is None else min(hi, d)
                else:
                    excluded.add(d)
        if shape == 'vc':         # var < c
            if hi is not None and hi < c:
                return True
            if lo is not None and lo >= c:
                return False
        elif shape == 'cv':       # c < var
            if lo is not None and lo > c:
                return True
            if hi is not None and hi <= c:
                return False
        else:
            if (lo is not None and c < lo) or (hi is not None and c > hi) or c in excluded:
                return False
            if lo is not None and hi is not None and lo == hi == c:
                return True
        return None

    def run_all(self, thunk):
        leaves = []
        self.prefix = []
        while True:
            self.trace = []
            try:
                out = ('ret', thunk())
            except Refuse:
                raise
            except Unmodelled:
                out = ('unmodelled', None)
            except Sent as sn:
                out = ('ret', sn.payload)
            except Exception as ex:       # noqa - every exception class the library may raise is a leaf
                if 'Sym' in str(ex) and type(ex).__name__ in ('TypeError', 'AttributeError'):
                    raise Refuse('a C-level operation met a symbolic value: %s' % ex)
                out = ('raise', type(ex))
            leaves.append(([(a, b) for a, b in self.trace], out))
            if len(leaves) > MAX_PATHS:
                raise Refuse('more than %d paths' % MAX_PATHS)
            t = [(a.key(), b) for a, b in self.trace]
            while t and t[-1][1] is False:
                t.pop()
            if not t:
                break
            t[-1] = (t[-1][0], False)
            self.prefix = t
        return leaves


EXP = Explorer()


def atom_truth(op, a, b):
    """truth of the comparison `a op b` (op in lt, le, gt, ge, eq, ne) with at least one symbolic side"""
    if op == 'gt':
        op, a, b = 'lt', b, a
    elif op == 'ge':
        op, a, b = 'le', b, a
    neg = False
    if op == 'le':      # a <= b  ==  not (b < a)
        op, a, b, neg = 'lt', b, a, True
    elif op == 'ne':
        op, neg = 'eq', True
    if op == 'eq':
        ka = a.key() if isinstance(a, E) else ('c', a)
        kb = b.key() if isinstance(b, E) else ('c', b)
        if repr(kb) < repr(ka):
            a, b = b, a
    r = EXP.decide(E(op, (a, b), 'B'))
    return (not r) if neg else r


def ex(v):
    """operand -> E | int"""
    if isinstance(v, SymInt):
        return v.e
    if isinstance(v, bool):
        return int(v)
    if isinstance(v, int):
        return v
    return None


class SymBool:
    """a comparison whose outcome is not known yet; asking for its truth forks the execution"""

    def __init__(self, op, a, b):
        self.op, self.a, self.b = op, a, b

    def __bool__(self):
        return atom_truth(self.op, self.a, self.b)

    def __eq__(self, other):
        return bool(self) == bool(other)

    def __ne__(self, other):
        return bool(self) != bool(other)

    def __hash__(self):
        raise Refuse('hash of a symbolic boolean')

    def __repr__(self):
        return '<cond>'


def _in_percent_formatting():
    """True iff the Python instruction that (indirectly) asked for the integer value is a `%` (text formatting of a message)"""
    import opcode
    f = sys._getframe(2)
    code = f.f_code.co_code
    i = f.f_lasti
    return opcode.opname[code[i]] == 'BINARY_OP' and code[i + 1] in (6, 19)       # NB_REMAINDER, NB_INPLACE_REMAINDER


class SymInt:
    def __init__(self, e):
        self.e = e

    # --- arithmetic
    def _bin(self, op, other, swap=False):
        o = ex(other)
        if o is None:
            return NotImplemented
        a, b = (o, self.e) if swap else (self.e, o)
        return SymInt(E(op, (a, b), 'Z'))

    def __add__(self, o): return self._bin('add', o)
    def __radd__(self, o): return self._bin('add', o, True)
    def __sub__(self, o): return self._bin('sub', o)
    def __rsub__(self, o): return self._bin('sub', o, True)
    def __mul__(self, o): return self._bin('mul', o)
    def __rmul__(self, o): return self._bin('mul', o, True)
    def _div(self, op, o):
        if not _real_isinstance(o, int) or _real_isinstance(o, bool) or o == 0:
            raise Refuse('division by something else than a non-zero constant')
        return self._bin(op, o)

    def __floordiv__(self, o): return self._div('fdiv', o)
    def __rfloordiv__(self, o): raise Refuse('division by a symbolic value')
    def __mod__(self, o): return self._div('mod', o)
    def __rmod__(self, o): raise Refuse('division by a symbolic value')
    def __and__(self, o): return self._bin('and', o)
    def __rand__(self, o): return self._bin('and', o, True)
    def __or__(self, o): return self._bin('or', o)
    def __ror__(self, o): return self._bin('or', o, True)
    def __xor__(self, o): return self._bin('xor', o)
    def __rxor__(self, o): return self._bin('xor', o, True)

    def _shift(self, op, o, swap=False):
        # Python raises ValueError for a negative shift count; Z.shiftl / Z.shiftr do something else: the count must be known non-negative
        cnt = self if swap else o
        if isinstance(cnt, SymInt):
            if cnt < 0:
                raise ValueError('negative shift count')
        elif cnt < 0:
            raise ValueError('negative shift count')
        return self._bin(op, o, swap)

    def __lshift__(self, o): return self._shift('shl', o)
    def __rlshift__(self, o): return self._shift('shl', o, True)
    def __rshift__(self, o): return self._shift('shr', o)
    def __rrshift__(self, o): return self._shift('shr', o, True)

    def __pow__(self, o, m=None):
        raise Refuse('symbolic base of a power')

    def __rpow__(self, o, m=None):
        if m is not None or not isinstance(o, int) or o <= 0:
            raise Refuse('power')
        if self < 0:
            raise Unmodelled('negative exponent (a float in Python)')
        return SymInt(E('pow', (o, self.e), 'Z'))

    def __neg__(self): return SymInt(E('neg', (self.e,), 'Z'))
    def __pos__(self): return self

    def __abs__(self):
        return -self if self < 0 else self

    def __truediv__(self, o):
        if not isinstance(o, int) or isinstance(o, bool) or o <= 0:
            raise Refuse('true division by something else than a positive constant')
        return SymQuot(self.e, o)

    def bit_length(self):
        return SymInt(E('bitlen', (self.e,), 'Z'))

    def to_bytes(self, length, byteorder='big', *, signed=False):
        if byteorder != 'big' or signed:
            raise Refuse('to_bytes: only big-endian unsigned')
        if isinstance(length, SymInt):
            if length < 0:
                raise ValueError('length argument must be non-negative')
            if self < 0:
                raise OverflowError("can't convert negative int to unsigned")
            if self >= 256 ** length:
                raise OverflowError('int too big to convert')
            return SymBytes([('be', length.e, self.e)])
        if length < 0:
            raise ValueError('length argument must be non-negative')
        if self < 0:
            raise OverflowError("can't convert negative int to unsigned")
        if self >= 256 ** length:
            raise OverflowError('int too big to convert')
        return SymBytes([('be', length, self.e)])

    # --- comparisons
    def _cmp(self, op, o):
        x = ex(o)
        if x is None:
            if op == 'eq':
                return False
            if op == 'ne':
                return True
            return NotImplemented
        return SymBool(op, self.e, x)

    def __lt__(self, o): return self._cmp('lt', o)
    def __le__(self, o): return self._cmp('le', o)
    def __gt__(self, o): return self._cmp('gt', o)
    def __ge__(self, o): return self._cmp('ge', o)
    def __eq__(self, o): return self._cmp('eq', o)
    def __ne__(self, o): return self._cmp('ne', o)

    def __bool__(self):
        return atom_truth('ne', self.e, 0)

    # --- everything through which a concrete value could leak
    def __hash__(self):
        # on a path that has decided `self == c` for a constant c the value IS c: hash like c (dict / set keys after an equality test)
        k = self.e.key() if isinstance(self.e, E) else None
        for atom, val in EXP.trace:
            if val and atom.op == 'eq':
                a, b = atom.args
                if isinstance(a, int) and isinstance(b, E) and b.key() == k:
                    return hash(a)
                if isinstance(b, int) and isinstance(a, E) and a.key() == k:
                    return hash(b)
        raise Refuse('hash of a symbolic integer (set / dict key)')

    def __index__(self):
        if _in_percent_formatting():
            return 0
        raise Refuse('a symbolic integer used as an index / count / C-level integer')

    def __int__(self):
        if _in_percent_formatting():
            return 0
        raise Refuse('int() of a symbolic integer outside a patched module')

    def __float__(self):
        if _in_percent_formatting():
            return 0.0
        raise Refuse('float() of a symbolic integer')

    def __iter__(self):
        raise Refuse('iteration over a symbolic integer')

    def __format__(self, spec):
        return '<sym>'

    def __repr__(self):
        return '<sym>'

    __str__ = __repr__


class SymQuot:
    """a / k (true division): only math.ceil / math.floor may consume it.  Exact as long as |a| < 2**53 (bit lengths, sizes)"""

    def __init__(self, a, k):
        self.a, self.k = a, k

    def __ceil__(self):
        return SymInt(E('cdiv', (self.a, self.k), 'Z'))

    def __floor__(self):
        return SymInt(E('fdiv', (self.a, self.k), 'Z'))

    def __float__(self):
        if _in_percent_formatting():
            return 0.0
        raise Refuse('float value of a quotient')

    def micro(self):
        """observer's view of a duration a / k seconds: the number of microseconds it denotes (k divides 10^6)"""
        if 1000000 % self.k:
            raise Refuse('a quotient that is not a whole number of microseconds')
        return SymInt(E('mul', (self.a, 1000000 // self.k), 'Z'))

    def __format__(self, spec):
        return '<sym>'

    def __repr__(self):
        return '<sym>'

    __str__ = __repr__

    def __lt__(self, o): raise Refuse('comparison of a float quotient')
    __le__ = __gt__ = __ge__ = __eq__ = __ne__ = __lt__
    __hash__ = None


class SymBytes:
    """a byte string made of segments: ('lit', bytes) | ('be', n, value) big-endian unsigned on n bytes (n int or E) | ('var', E of type Y)"""

    def __init__(self, segs):
        out = []
        for s in segs:
            if s[0] == 'lit' and not s[1]:
                continue
            if s[0] == 'lit' and out and out[-1][0] == 'lit':
                out[-1] = ('lit', out[-1][1] + s[1])
            else:
                out.append(s)
        self.segs = out

    def __add__(self, o):
        if isinstance(o, SymBytes):
            return SymBytes(self.segs + o.segs)
        if isinstance(o, (bytes, bytearray)):
            return SymBytes(self.segs + [('lit', bytes(o))])
        if isinstance(o, SymSeq):
            return SymBytes(self.segs + [('seq', o)])
        return NotImplemented

    def __radd__(self, o):
        if isinstance(o, (bytes, bytearray)):
            return SymBytes([('lit', bytes(o))] + self.segs)
        return NotImplemented

    def sym_len(self):
        total = 0
        for s in self.segs:
            if s[0] == 'lit':
                n = len(s[1])
            elif s[0] == 'be':
                n = s[1] if isinstance(s[1], int) else SymInt(s[1])
            elif s[0] == 'seq':
                n = s[1].sym_len()
            else:
                n = SymInt(E('len', (s[1],), 'Z'))
            total = total + n
        return total

    def __len__(self):
        raise Refuse('len() of a symbolic byte string outside a patched module')

    def __iter__(self):
        raise Refuse('iteration over a symbolic byte string')

    def __getitem__(self, i):
        raise Refuse('indexing a symbolic byte string')

    def __hash__(self):
        raise Refuse('hash of a symbolic byte string')

    def __eq__(self, o):
        # two big-endian encodings of the same (concrete) width are equal iff the encoded values are (both were range-checked when packed)
        if isinstance(o, SymBytes) and len(self.segs) == 1 and len(o.segs) == 1 and self.segs[0][0] == 'be' and o.segs[0][0] == 'be' \
                and isinstance(self.segs[0][1], int) and self.segs[0][1] == o.segs[0][1]:
            return SymInt(self.segs[0][2]) == SymInt(o.segs[0][2]) if isinstance(self.segs[0][2], E) or isinstance(o.segs[0][2], E) \
                else self.segs[0][2] == o.segs[0][2]
        raise Refuse('comparison of symbolic byte strings')

    def __ne__(self, o):
        r = self.__eq__(o)
        return (not r) if isinstance(r, bool) else SymBool('ne', r.a, r.b)

    def __bool__(self):
        n = self.sym_len()
        return bool(n != 0) if isinstance(n, SymInt) else n != 0

    def __repr__(self):
        return '<symbytes>'

    def coq(self):
        parts = []
        for s in self.segs:
            if s[0] == 'lit':
                parts.append('[' + '; '.join(str(b) for b in s[1]) + ']')
            elif s[0] == 'be':
                n = ('%d%%nat' % s[1]) if isinstance(s[1], int) else '(Z.to_nat %s)' % coq(s[1])
                parts.append('(be_enc %s %s)' % (n, coq(s[2])))
            elif s[0] == 'seq':
                parts.append(s[1].coq())
            else:
                parts.append(coq(s[1]))
        return '(' + ' ++ '.join(parts) + ')' if parts else '[]'


class SymSeq:
    """received bytes: a known number of leading elements (int or SymInt each) and, optionally, an opaque tail of unknown length"""

    def __init__(self, elems, tail=None):
        self.elems, self.tail = list(elems), tail

    def sym_len(self):
        n = _real_len(self.elems)
        return n if self.tail is None else n + SymInt(E('len', (self.tail,), 'Z'))

    def __len__(self):
        if self.tail is None:
            return _real_len(self.elems)
        raise Refuse('len() of received bytes of unknown length outside a patched module')

    def __iter__(self):
        if self.tail is None:
            return iter(self.elems)
        raise Unmodelled('iteration over received bytes of unknown length')

    def __getitem__(self, i):
        n = _real_len(self.elems)
        if _real_isinstance(i, slice):
            if i.step is not None and self.tail is not None:
                raise Refuse('slice with a step of bytes of unknown length')
            a, b = i.start, i.stop
            if _real_isinstance(a, SymInt) or _real_isinstance(b, SymInt):
                raise Unmodelled('slice of received bytes at a symbolic position')
            if self.tail is None:
                return SymSeq(self.elems[i])
            a = 0 if a is None else a
            if a < 0 or (b is not None and b < 0):
                raise Refuse('slice from the end of received bytes of unknown length')
            if b is None:
                if a > n:
                    raise Unmodelled('slice starting inside the opaque tail')
                return SymSeq(self.elems[a:], self.tail)
            if b <= n:
                return SymSeq(self.elems[a:b])
            raise Unmodelled('slice ending inside the opaque tail')
        if _real_isinstance(i, SymInt):
            raise Refuse('received bytes indexed at a symbolic position')
        if self.tail is None:
            return self.elems[i]
        if 0 <= i < n:
            return self.elems[i]
        raise Unmodelled('index into the opaque tail')

    def __add__(self, o):
        if _real_isinstance(o, SymSeq) and self.tail is None:
            return SymSeq(self.elems + o.elems, o.tail)
        if _real_isinstance(o, (bytes, bytearray)) and self.tail is None:
            return SymSeq(self.elems + list(o))
        raise Unmodelled('concatenation after an opaque tail')

    def __radd__(self, o):
        if _real_isinstance(o, (bytes, bytearray)):
            return SymSeq(list(o) + self.elems, self.tail)
        return NotImplemented

    def __eq__(self, o):
        if _real_isinstance(o, (bytes, bytearray)):
            o = SymSeq(list(o))
        if not _real_isinstance(o, SymSeq):
            return False
        if self.tail is not None or o.tail is not None:
            raise Unmodelled('comparison of received bytes of unknown length')
        if _real_len(self.elems) != _real_len(o.elems):
            return False
        for x, y in zip(self.elems, o.elems):
            if x != y:
                return False
        return True

    def __ne__(self, o):
        return not self.__eq__(o)

    def __bool__(self):
        n = self.sym_len()
        return bool(n != 0) if _real_isinstance(n, SymInt) else n != 0

    def __hash__(self):
        raise Refuse('hash of received bytes')

    def __repr__(self):
        return '<symseq>'

    def coq(self):
        items = [coq(x.e) if _real_isinstance(x, SymInt) else zc(x) for x in self.elems]
        if self.tail is None:
            return '[' + '; '.join(items) + ']'
        return '(' + ' :: '.join(items + [coq(self.tail)]) + ')'


class Sent(BaseException):
    """raised by the stand-in for Client.send_request: the request the method built"""

    def __init__(self, payload):
        self.payload = payload


class SymDict(dict):
    """a class-level table with integer keys and integer values, looked up with a symbolic key: membership is one condition
    (py_dict_mem table key), the value one expression (py_dict_get table key)"""

    tname = 'tbl_anonymous'

    def _items(self):
        return (self.tname, tuple(dict.items(self)))

    def __contains__(self, k):
        if isinstance(k, SymInt):
            return EXP.decide(E('dmem', (self._items(), k.e), 'B'))
        return dict.__contains__(self, k)

    def __getitem__(self, k):
        if isinstance(k, SymInt):
            if k not in self:
                raise KeyError('symbolic key')
            return SymInt(E('dget', (self._items(), k.e), 'Z'))
        return dict.__getitem__(self, k)

    def get(self, k, default=None):
        if isinstance(k, SymInt):
            return self[k] if k in self else default
        return dict.get(self, k, default)


class SymDictFork(dict):
    """a configuration table (DID -> codec ...) looked up with a symbolic key: the key is compared with each integer key in turn (the value
    found is an object, so each key gets its own branch); keys of other types ('default') are ordinary"""

    def _find(self, k):
        if isinstance(k, SymInt):
            for kk in dict.keys(self):
                if isinstance(kk, int) and not isinstance(kk, bool) and k == kk:
                    return kk
            return None
        return k if dict.__contains__(self, k) else None

    def __contains__(self, k):
        return self._find(k) is not None

    def __getitem__(self, k):
        kk = self._find(k)
        if kk is None:
            raise KeyError(k)
        return dict.__getitem__(self, kk)

    def get(self, k, default=None):
        kk = self._find(k)
        return default if kk is None else dict.__getitem__(self, kk)


# ------------------------------------------------------------------------------------------------- patched builtins
_real_isinstance, _real_len, _real_int = isinstance, len, int


def sym_isinstance(obj, cls):
    cs = cls if _real_isinstance(cls, tuple) else (cls,)
    cs = tuple(int if c is sym_int else c for c in cs)
    if _real_isinstance(obj, SymInt):
        return any(c is int or c is object for c in cs)
    if _real_isinstance(obj, (SymBytes, SymSeq)):
        return any(c is bytes or c is object for c in cs)
    return _real_isinstance(obj, cs)


def sym_len(x):
    if _real_isinstance(x, (SymBytes, SymSeq)):
        return x.sym_len()
    return _real_len(x)


class _SymIntCtor:
    """stands for the name `int` in the package's modules: int(x) keeps a symbolic integer symbolic; int.from_bytes of received bytes of
    known length is the big-endian combination of the (symbolic) bytes"""

    def __call__(self, x=0, *a):
        if _real_isinstance(x, SymInt):
            return x
        return _real_int(x, *a)

    @staticmethod
    def from_bytes(b, byteorder='big', *, signed=False):
        if _real_isinstance(b, SymSeq):
            if byteorder != 'big' or signed:
                raise Refuse('int.from_bytes: only big-endian unsigned')
            if b.tail is not None:
                raise Unmodelled('int.from_bytes of bytes of unknown length')
            v = 0
            for x in b.elems:
                v = v * 256 + x
            return v
        return _real_int.from_bytes(b, byteorder, signed=signed)

    def __repr__(self):
        return "<class 'int'>"


sym_int = _SymIntCtor()


def sym_hex(x):
    """hex() is used for the text of log lines and messages only"""
    return '<sym>' if _real_isinstance(x, SymInt) else hex(x)


_FMT = {'B': 1, 'H': 2, 'L': 4, 'I': 4, 'Q': 8}


def sym_pack(fmt, *vals):
    if not any(_real_isinstance(v, SymInt) for v in vals):
        return _struct_pack(fmt, *vals)
    f = fmt.lstrip('>!')
    if fmt[:1] in '<=@' and any(_FMT.get(c, 0) > 1 for c in f):
        raise Refuse('struct.pack(%r): byte order' % fmt)
    if _real_len(f) != _real_len(vals) or any(c not in _FMT for c in f):
        raise Refuse('struct.pack(%r): format not supported with symbolic values' % fmt)
    segs = []
    for c, v in zip(f, vals):
        n = _FMT[c]
        if _real_isinstance(v, SymInt):
            if v < 0 or v >= 256 ** n:
                raise _struct.error('argument out of range')
            segs.append(('be', n, v.e))
        else:
            segs.append(('lit', _struct_pack('>' + c, v)))
    return SymBytes(segs)


_struct_pack = _struct.pack
_struct_unpack = _struct.unpack


def sym_unpack(fmt, data):
    if not _real_isinstance(data, SymSeq):
        return _struct_unpack(fmt, data)
    f = fmt.lstrip('>!')
    if fmt[:1] in '<=@' and any(_FMT.get(c, 0) > 1 for c in f):
        raise Refuse('struct.unpack(%r): byte order' % fmt)
    if any(c not in _FMT for c in f):
        raise Refuse('struct.unpack(%r): format not supported with symbolic bytes' % fmt)
    if data.tail is not None:
        raise Unmodelled('struct.unpack of bytes of unknown length')
    if _real_len(data.elems) != sum(_FMT[c] for c in f):
        raise _struct.error('unpack requires a buffer of %d bytes' % sum(_FMT[c] for c in f))
    out, pos = [], 0
    for c in f:
        v = None
        for b in data.elems[pos:pos + _FMT[c]]:
            v = b if v is None else v * 256 + b
        out.append(v)
        pos += _FMT[c]
    return tuple(out)


def install(pkg_modules):
    """symbolic-aware names in the namespace of every module of the package; class-level integer-keyed dicts become SymDicts"""
    _struct.pack = sym_pack
    _struct.unpack = sym_unpack
    for m in pkg_modules:
        m.isinstance = sym_isinstance
        m.len = sym_len
        m.int = sym_int
        m.hex = sym_hex
        seen = set()

        def walk(c):
            if id(c) in seen:
                return
            seen.add(id(c))
            for k, v in list(vars(c).items()):
                if type(v) is dict and v and all(type(x) is int for x in v) and all(type(x) is int for x in v.values()):
                    d = SymDict(v)
                    d.tname = 'tbl_%s_%s' % (c.__qualname__.replace('.', '_'), k)
                    setattr(c, k, d)
                elif _real_isinstance(v, type) and getattr(v, '__module__', '') == m.__name__:
                    walk(v)
        for v in list(vars(m).values()):
            if _real_isinstance(v, type) and getattr(v, '__module__', '') == m.__name__:
                walk(v)


# ------------------------------------------------------------------------------------------------- tree -> Gallina
ERR = {'ValueError': 'EValue', 'ConfigError': 'EConfig', 'NotImplementedError': 'ENotImpl', 'TimeoutException': 'ETimeout',
       'NegativeResponseException': 'ENegative', 'InvalidResponseException': 'EInvalid', 'UnexpectedResponseException': 'EUnexpected',
       'RuntimeError': 'ERuntime', 'IndexError': 'EIndex', 'error': 'EStruct', 'AttributeError': 'EAttr', 'TypeError': 'EType',
       'OverflowError': 'EOverflow', 'AssertionError': 'EAssert', 'KeyError': 'EKey'}


def force(v, ty):
    """inside an execution: make every boolean of the result concrete (asking forks), check the shape"""
    if ty == 'B':
        if _real_isinstance(v, SymBool):
            return bool(v)
        return v
    if ty in ('Z', 'Y', 'S', 'T'):
        return v
    if ty[0] == 'opt':
        return None if v is None else force(v, ty[1])
    if ty[0] == 'tuple':
        if not _real_isinstance(v, tuple) or _real_len(v) != _real_len(ty[1]):
            raise Refuse('result is not a %d-tuple' % _real_len(ty[1]))
        return tuple(force(x, t) for x, t in zip(v, ty[1]))
    raise Refuse('type %r' % (ty,))


def render_value(v, ty):
    """ty: 'Z' | 'B' | 'Y' | ('opt', ty) | ('tuple', [ty...])"""
    if ty == 'Z':
        if _real_isinstance(v, SymInt):
            return coq(v.e)
        if _real_isinstance(v, bool) or not _real_isinstance(v, int):
            raise Refuse('result is not an integer: %r' % (v,))
        return zc(v)
    if ty == 'B':
        if not _real_isinstance(v, bool):
            raise Refuse('result is not a boolean: %r' % (v,))
        return 'true' if v else 'false'
    if ty == 'Y':
        if _real_isinstance(v, (SymBytes, SymSeq)):
            return v.coq()
        if _real_isinstance(v, (bytes, bytearray)):
            return '[' + '; '.join(str(b) for b in v) + ']'
        raise Refuse('result is not a byte string: %r' % (v,))
    if ty == 'T':
        if not _real_isinstance(v, str) or '"' in v or any(ord(c) < 32 or ord(c) > 126 for c in v):
            raise Refuse('result is not a printable string: %r' % (v,))
        if '<sym>' in v:
            raise SymbolicText()
        return '"%s"%%string' % v
    if ty == 'S':
        parts = []
        for it in v:
            if _real_isinstance(it, tuple) and it[0] == 'bytes':
                parts.append('enc_bytes %s' % render_value(it[1] if it[1] is not None else b'', 'Y'))
            elif _real_isinstance(it, tuple) and it[0] == 'obytes':
                parts.append('enc_opt enc_bytes %s' % ('None' if it[1] is None else '(Some %s)' % render_value(it[1], 'Y')))
            elif _real_isinstance(it, bool):
                parts.append('[%d]' % int(it))
            else:
                parts.append('[%s]' % render_value(it, 'Z'))
        return '(' + ' ++ '.join(parts) + ')' if parts else '[]'
    if ty[0] == 'opt':
        return 'None' if v is None else '(Some %s)' % render_value(v, ty[1])
    if ty[0] == 'tuple':
        if not _real_isinstance(v, tuple) or _real_len(v) != _real_len(ty[1]):
            raise Refuse('result is not a %d-tuple' % _real_len(ty[1]))
        return '(' + ', '.join(render_value(x, t) for x, t in zip(v, ty[1])) + ')'
    raise Refuse('type %r' % (ty,))


def coq_type(ty):
    if ty == 'Z':
        return 'Z'
    if ty == 'B':
        return 'bool'
    if ty == 'Y':
        return 'bytes'
    if ty == 'S':
        return '(list Z)'
    if ty == 'T':
        return 'string'
    if ty[0] in ('seq', 'seqx'):
        return 'bytes'
    if ty[0] == 'opt':
        return '(option %s)' % coq_type(ty[1])
    if ty[0] == 'tuple':
        return '(' + ' * '.join(coq_type(t) for t in ty[1]) + ')'


def tree(leaves, depth, ind):
    """leaves: [(trace, outcome-text)] sharing the first `depth` decisions"""
    if _real_len(leaves) == 1 and _real_len(leaves[0][0]) == depth:
        return leaves[0][1]
    atom = None
    yes, no = [], []
    for tr, out in leaves:
        if _real_len(tr) <= depth:
            raise Refuse('inconsistent decision tree')
        a, b = tr[depth]
        if atom is None:
            atom = a
        elif atom.key() != a.key():
            raise Refuse('inconsistent decision tree (different conditions at one node)')
        (yes if b else no).append((tr, out))
    if not yes or not no:
        raise Refuse('a decision with one outcome only')
    pad = '  ' * ind
    return 'if %s\n%sthen %s\n%selse %s' % (coq(atom), pad, tree(yes, depth + 1, ind + 1), pad, tree(no, depth + 1, ind + 1))


def translate(spec):
    """spec: dict(name, params=[(name, ty)], result=ty, call=callable(*symbolic args) -> value)
    ty of a parameter: 'Z' | 'B' | ('opt', 'Z') | 'Y'.  Booleans and the None / not-None cases of optional parameters are enumerated."""
    params = spec['params']

    def cases(i, actual):
        if i == _real_len(params):
            def thunk():
                return force(spec['call'](*actual), spec['result'])
            leaves = EXP.run_all(thunk)
            outs = []
            for tr, (kind, v) in leaves:
                if kind == 'ret':
                    try:
                        outs.append((tr, 'ret %s' % render_value(v, spec['result'])))
                    except SymbolicText:
                        outs.append((tr, 'fail EOutOfFuel (* the result contains the text of a symbolic value: not expressed *)'))
                elif kind == 'unmodelled':
                    outs.append((tr, 'fail EOutOfFuel (* a path the translation cannot express: provably never taken, or the theorem fails *)'))
                else:
                    nm = v.__name__
                    if nm not in ERR:
                        raise Refuse('exception class %s has no counterpart in the model' % nm)
                    outs.append((tr, 'fail %s' % ERR[nm]))
            return tree(outs, 0, i + 2)
        n, ty = params[i]
        pad = '  ' * (i + 1)
        if ty == 'Z':
            return cases(i + 1, actual + [SymInt(E('var', (n,), 'Z'))])
        if ty == 'Y':
            return cases(i + 1, actual + [SymBytes([('var', E('var', (n,), 'Y'))])])
        if ty == 'B':
            return 'if %s\n%sthen %s\n%selse %s' % (n, pad, cases(i + 1, actual + [True]), pad, cases(i + 1, actual + [False]))
        if _real_isinstance(ty, tuple) and ty[0] in ('seq', 'seqx'):
            K, minlen = ty[1], ty[2]
            arms = []
            for ln in range(0, K + 1):
                names = ['%s_%d' % (n, j) for j in range(ln)]
                if ln == K and ty[0] == 'seqx':
                    arms.append('%s| _ => fail EOutOfFuel (* longer than anything the translated function is given *)' % pad)
                    continue
                if ln < K:
                    pat = '[' + '; '.join(names) + ']'
                    val = SymSeq([SymInt(E('var', (x,), 'Z')) for x in names])
                else:
                    pat = ' :: '.join(names + ['%s_rest' % n])
                    val = SymSeq([SymInt(E('var', (x,), 'Z')) for x in names], E('var', ('%s_rest' % n,), 'Y'))
                if ln < minlen:
                    arms.append('%s| %s => fail EOutOfFuel (* shorter than anything the translated function is given *)' % (pad, pat))
                else:
                    arms.append('%s| %s => %s' % (pad, pat, cases(i + 1, actual + [val])))
            return 'match %s with\n%s\n%send' % (n, '\n'.join(arms), pad)
        if ty == ('opt', 'B'):
            return 'match %s with\n%s| Some true => %s\n%s| Some false => %s\n%s| None => %s\n%send' % (
                n, pad, cases(i + 1, actual + [True]), pad, cases(i + 1, actual + [False]), pad, cases(i + 1, actual + [None]), pad)
        if ty == ('opt', 'Y'):
            return 'match %s with\n%s| Some %s_v => %s\n%s| None => %s\n%send' % (
                n, pad, n, cases(i + 1, actual + [SymBytes([('var', E('var', (n + '_v',), 'Y'))])]), pad, cases(i + 1, actual + [None]), pad)
        if ty == ('opt', 'Z'):
            return 'match %s with\n%s| Some %s_v => %s\n%s| None => %s\n%send' % (
                n, pad, n, cases(i + 1, actual + [SymInt(E('var', (n + '_v',), 'Z'))]), pad, cases(i + 1, actual + [None]), pad)
        raise Refuse('parameter type %r' % (ty,))
    body = cases(0, [])
    sig = ' '.join('(%s : %s)' % (n, coq_type(t)) for n, t in params)
    return 'Definition %s %s : M %s :=\n  %s.\n' % (spec['name'], sig, coq_type(spec['result']), body)


HEADER = '''(* GENERATED by tools/symtrans.py from %s (the functions were executed on symbolic arguments; every path is a branch below)
   -- do not edit; rewritten on every run. *)
From Coq Require Import ZArith List Bool String.
From UDS Require Import Lib.Bytes Lib.ErrM Lib.PyOps.
Import ListNotations.
Open Scope Z_scope.
Open Scope list_scope.

'''


def main():
    repo, out = sys.argv[1], sys.argv[2]
    sys.path.insert(0, repo)
    sys.path.insert(0, os.path.dirname(os.path.abspath(__file__)))
    import logging
    logging.disable(logging.CRITICAL)
    import udsoncan                      # noqa
    import udsoncan.client               # noqa
    import udsoncan.services             # noqa
    mods = [m for n, m in sys.modules.items() if n.startswith('udsoncan') and isinstance(m, types.ModuleType)]
    install(mods)
    sys.modules.setdefault('symtrans', sys.modules['__main__'])      # symspecs refers to the classes of THIS module
    import symspecs
    files = {}
    report = []
    import signal

    class TimeLimit(BaseException):
        pass

    def on_alarm(signum, frame):
        raise TimeLimit()
    signal.signal(signal.SIGALRM, on_alarm)
    for fname, source, specs in symspecs.files(udsoncan):
        txt = ''
        TABLES.clear()
        try:
            speclist = specs(udsoncan)
        except BaseException as ex:       # the functions of this group cannot even be named any more (an API they use is gone): the whole file is refused
            msg = ('%s: %s' % (type(ex).__name__, ex)).replace('*)', '* )').replace('"', "'")[:300]
            files[fname] = HEADER % source + '(* REFUSED: %s *)\nDefinition translation_refused : True := "%s".\n' % (msg, msg)
            report.append((fname, 'REFUSED (whole file): ' + msg))
            continue
        for sp in speclist:
            def refused(msg):
                msg = msg.replace('*)', '* )').replace('"', "'")[:300]
                report.append((sp['name'], 'REFUSED: ' + msg))
                return '(* REFUSED: %s *)\nDefinition %s : True := "translation refused: %s".\n\n' % (msg, sp['name'], msg)
            try:
                signal.setitimer(signal.ITIMER_REAL, PER_FUNCTION_SECONDS)
                try:
                    piece = translate(sp) + '\n'
                finally:
                    signal.setitimer(signal.ITIMER_REAL, 0)
                txt += piece
                report.append((sp['name'], 'ok'))
            except Refuse as r:
                txt += refused(str(r))
            except TimeLimit:
                txt += refused('the paths of the function could not be enumerated within %d s' % PER_FUNCTION_SECONDS)
            except RecursionError:
                txt += refused('recursion')
            except (Unmodelled, SymbolicText, Sent) as ex:
                txt += refused('%s outside an execution' % type(ex).__name__)
            except Exception as ex:       # the stand-ins / observers of symspecs.py no longer fit the code: refuse this function, not the run
                txt += refused('%s: %s' % (type(ex).__name__, ex))
        tabs = ''.join('Definition %s : list (Z * Z) := [%s].\n' % (n, '; '.join('(%s, %s)' % (zc(k), zc(v)) for k, v in items))
                       for n, items in TABLES.items())
        files[fname] = HEADER % source + tabs + '\n' + txt
    os.makedirs(out, exist_ok=True)
    for fname, txt in files.items():
        path = os.path.join(out, fname)
        old = open(path).read() if os.path.exists(path) else None
        if old != txt:
            tmp = path + '.tmp%d' % os.getpid()
            open(tmp, 'w').write(txt)
            os.replace(tmp, path)
    for n, s in report:
        print('symtrans: %-40s %s' % (n, s))
    return 0


if __name__ == '__main__':
    sys.exit(main())
