#!/bin/sh
# re-applies every kept seeded change (seeded/<name>/patch.diff) to /repo, runs the check of its property, undoes it, and
# records whether the check raised the alarm.  /repo must be clean; it is left clean.  Usage: tools/seedall.sh [name ...]
cd "$(dirname "$0")/.." || exit 2
REPO=${VERIF_REPO:-/repo}      # a scratch copy of the repository may be named (vp run --with-repo: VERIF_REPO=$VP_RUN_REPO)
export VERIF_REPO="$REPO"
[ -n "$(git -C "$REPO" status --porcelain)" ] && { echo "$REPO not clean"; exit 2; }
names=${*:-$(ls seeded)}
missed=0
for n in $names; do
  d=seeded/$n
  [ -f "$d/patch.diff" ] || continue
  id=$(echo "$n" | cut -c1-3)
  git -C "$REPO" apply "$PWD/$d/patch.diff" || { echo "$n: patch does not apply"; missed=1; continue; }
  timeout 1500 ./check "$id" > "$d/check_output.txt" 2>&1; rc=$?
  git -C "$REPO" checkout -- .
  rp=$(grep -m1 "^VIOLATION property=$id " "$d/check_output.txt" | sed 's/.*replay=\([^ ]*\).*/\1/')
  [ -n "$rp" ] && [ -f "$rp" ] && cp "$rp" "$d/replay.json"
  kind=$(grep -q "no-failing-input-found" "$d/check_output.txt" && echo "no-failing-input-found" || echo "failing-input")
  if [ $rc -eq 1 ] && grep -q "^VIOLATION property=$id " "$d/check_output.txt"; then echo "$n: caught ($kind)"; else echo "$n: MISSED (exit $rc)"; missed=1; fi
  /venv/bin/python - "$d" "$id" "$rc" "$kind" <<'PY'
import json, sys, os
d, pid, rc, kind = sys.argv[1:5]
p = os.path.join(d, 'ran.json')
r = json.load(open(p)) if os.path.exists(p) else {}
r.update({'check': './check %s' % pid, 'check_exit': int(rc), 'caught': int(rc) == 1, 'report': kind})
json.dump(r, open(p, 'w'), indent=1)
PY
done
git checkout -- evidence 2>/dev/null
exit $missed
