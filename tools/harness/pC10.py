"""C10 - server P2/P2* are adopted only from an accepted session change, correctly scaled.
Histories with virtual time: session changes (replies of every class, fields at 0,1,0x7FFF,0x8000,0xFFFF and random)
interleaved with other calls whose waits are observed.  Oracle: the property's own rule tracked over the history."""
import random
from harness.core import Case
from harness import clientlib as cl
from harness import histgen
from harness.callreg import invocations

WIDE = 200000        # thorough tier: histories of the wide correspondence stream (widegen.py), judged by the model and the generic rule
WIDE_QUICK = 2000
PROP = 'C10'
EXHAUSTIVE = False
RULE = ('systematic: edition {2006,2013,2020} x use_server_timing x reply class {accepted, negative, truncated, wrong echo, other '
        'service, silence, suppressed} x field values {0,1,0x7FFF,0x8000,0xFFFF,random}, each followed by three probing calls '
        '(silence; pending then silence; send_request with its own timeout, pending then silence); random grammar histories. non-trivial = history contains a session change (distinct)')
ASSUMPTIONS = ['timeouts derived from the server fields are compared after rounding to the microsecond (the client keeps float seconds)']

FIELDS = [0, 1, 50, 0x7FFF, 0x8000, 0xFFFF]


def gen_cases(tier, seed):
    rnd = random.Random(seed)
    invs = invocations()
    for std in (2006, 2013, 2020):
        for use in (1, 0):
            for a in FIELDS + [rnd.randrange(65536)]:
                for b in FIELDS + [rnd.randrange(65536)]:
                    good = bytes([0x50, 3]) + a.to_bytes(2, 'big') + b.to_bytes(2, 'big')
                    kinds = [('accepted', [(100, good)]), ('negative', [(100, b'\x7f\x10\x22')]), ('truncated', [(100, good[:4])]),
                             ('wrong-echo', [(100, bytes([0x50, 2]) + good[2:])]), ('other-service', [(100, b'\x51\x03' + good[2:])]),
                             ('silence', []), ('extended', [(100, good + b'\x00')]), ('pending-accepted', [(10, b'\x7f\x10\x78'), (300, good)])]
                    if tier == 'quick' and (a not in (50, 0xFFFF) and b not in (500, 0x8000)):
                        kinds = kinds[:2]
                    for kname, reps in kinds + [('suppressed', [(100, good)])]:
                        cfgv = list(cl.DEFAULT_CFG)
                        cfgv[cl.STD], cfgv[cl.USE_SRV] = std, use
                        cfgv[cl.REQ_TO] = rnd.choice([-1, 20000000])
                        h = cl.H(cfgv)
                        if kname == 'suppressed':
                            h.spr_enter(False)
                        h.call(2, [3], [], reps)
                        if kname == 'suppressed':
                            h.spr_exit()
                        h.call(6, [], [], [])
                        h.call(7, [1], [], [(7, b'\x7f\x11\x78')])
                        # ... and a request sent through send_request with a timeout of its own: after a pending reply the server's P2* still applies
                        h.call(1, [0x3E, 0, 0, 0, rnd.choice([64000000, 2000000])], [b''], [(7, b'\x7f\x3e\x78')])
                        yield h.case(5000, 'systematic %s' % kname)
    # the edition / the use of server timing changed at run time between two session changes: what was adopted stays in force under 2006
    # or with server timing off, and is replaced under a later edition with server timing on
    good = bytes([0x50, 3, 0x00, 0x32, 0x00, 0xC8])
    for std1, use1 in ((2020, 1), (2013, 1), (2006, 1), (2020, 0)):
        for slot, v in ((cl.STD, 2006), (cl.STD, 2013), (cl.USE_SRV, 0), (cl.USE_SRV, 1), (cl.STD, 2020)):
            for second in (bytes([0x50, 1]), bytes([0x50, 1, 0x01, 0x00, 0x02, 0x00]), bytes([0x50, 1, 0x01, 0x00]), b'\x7f\x10\x22'):
                cfgv = list(cl.DEFAULT_CFG)
                cfgv[cl.STD], cfgv[cl.USE_SRV] = std1, use1
                h = cl.H(cfgv).call(2, [3], [], [(100, good)]).set_cfg(slot, v).call(2, [1], [], [(100, second)])
                h.call(6, [], [], []).call(7, [1], [], [(7, b'\x7f\x11\x78')])
                yield h.case(5000, 'configuration changed between two session changes')
    n, m = (2000, 12) if tier == 'quick' else (100000, 40)
    for _ in range(n):
        h, tags = histgen.gen_history(rnd, m, invs, p_stale=0.05, sessions=0.35)
        yield h.case(5000, 'random history')


def worker_init():
    cl.setup()


def impl(c):
    return cl.run_history_case(c)


def oracle(c, r):
    cfgv, ops = cl.case_ops(c)
    calls, final = cl.parse_calls(r, histgen.ncalls(c))
    cur = list(cfgv)
    timing = (None, None)
    i = 0
    inside = False
    for o in ops:
        if o[0] == 'set_cfg':
            cur[o[1]] = o[2]
        elif o[0] == 'spr_enter':
            inside = True
        elif o[0] == 'spr_exit':
            inside = False
        elif o[0] == 'call':
            d = calls[i]
            i += 1
            _, callid, args, cb, reps = o
            # waits of this call must use the timing in force
            waits = [e for e in d['events'] if e[0] == 'W']
            per_call = args[4] if callid == 1 else -1
            if waits:
                p2 = timing[0] if timing[0] is not None else cur[cl.P2]
                p2s = timing[1] if timing[1] is not None else cur[cl.P2S]
                overall = None if cur[cl.REQ_TO] < 0 else cur[cl.REQ_TO]
                if per_call >= 0:      # a timeout of its own replaces the first window and the overall limit; P2* stays the one in force
                    p2 = overall = per_call
                # a composite call (unlock) restarts its windows at each send
                sends = [k for k, e in enumerate(d['events']) if e[0] == 'S']
                for si, sidx in enumerate(sends):
                    seg = d['events'][sidx:(sends[si + 1] if si + 1 < len(sends) else None)]
                    segw = [e for e in seg if e[0] == 'W']
                    if not segw:
                        continue
                    t0 = segw[0][2]
                    dl = None if overall is None else t0 + overall
                    for wi, (_, w, now) in enumerate(segw):
                        win = p2 if wi == 0 else p2s
                        want = win if dl is None else max(0, min(win, dl - now))
                        if w != want:
                            return ('wait-not-server-timing', 'wait %d of a request lasted %d us, expected %d (P2=%r P2*=%r in force)' % (wi, w, want, p2, p2s))
            if callid == 2:
                accepted = d['kind'] == 'ok'
                if accepted and cur[cl.STD] >= 2013 and cur[cl.USE_SRV] == 1:
                    live = [f for dlt, f in reps if dlt > 0 and f is not None and f[:1] == b'\x50']
                    f = live[0]
                    timing = (int.from_bytes(f[2:4], 'big') * 1000, int.from_bytes(f[4:6], 'big') * 10000)
                    if d['sdata'][1:3] != list(timing):
                        return ('scaling', 'service data P2/P2* = %r us for fields %s' % (d['sdata'][1:3], f[2:6].hex()))
    got = (None if final[0] < 0 else final[0], None if final[1] < 0 else final[1])
    if got != timing:
        return ('timing-state', 'session timing after the history is %r, expected %r' % (got, timing))
    return None


def nontrivial(c, r):
    return any(o[0] == 'call' and o[1] == 2 for o in cl.case_ops(c)[1])


def describe(c):
    return 'cfg=%r ops=%r' % cl.case_ops(c)
