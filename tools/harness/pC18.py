"""C18 - features of a later ISO-14229 edition are refused under an earlier edition.
Exhaustive over edition x feature x parameter presence: memory selection on clear_dtc, every ReadDTCInformation
subfunction 0..0xFF, communication_control control types x node id presence, session-change replies of length 1..8,
and the edition values accepted at construction, set_config and after a rejected change."""
from harness.core import Case, err_code
from harness import clientlib as cl
from harness.callreg_ext import a_clear_dtc, a_comm, a_dtc

WIDE = 200000        # thorough tier: histories of the wide correspondence stream (widegen.py), judged by the model and the generic rule
WIDE_QUICK = 2000
PROP = 'C18'
EXHAUSTIVE = True
RULE = ('3 editions x {clear_dtc with/without memory selection, read_dtc_information subfunction 0..0xFF (all parameters supplied), '
        'communication_control types 0..7 x node id present/absent, change_session replies of length 1..8}; edition values '
        '{2006,2013,2020,0,-1,1999,2007,2012,2014,2019,2021,20200} at construction and through set_config / set_configs, histories of configuration changes '
        'after a refused edition (other entries, re-stated values). '
        'non-trivial = every case (distinct case lines)')
ASSUMPTIONS = []
DTC_2020 = {0x16, 0x17, 0x18, 0x19, 0x1A, 0x42, 0x55, 0x56}
DEFINED = set(range(1, 0x1B)) | {0x42, 0x55, 0x56}
EDITIONS = [2006, 2013, 2020]
VALUES = [2006, 2013, 2020, 0, -1, 1999, 2007, 2012, 2014, 2019, 2021, 20200]


def gen_cases(tier, seed):
    for std in EDITIONS:
        cfgv = list(cl.DEFAULT_CFG)
        cfgv[cl.STD] = std
        cfgv[cl.EXT_SIZE] = 2
        for ms in (None, 0, 0x55, 0xFF):
            yield cl.H(cfgv).call(8, a_clear_dtc(0x123456, ms), [], []).case(5000, 'clear_dtc memory selection')
        for sub in range(0, 0x100):
            args = a_dtc(sub, status=1, severity=0x20, dtc_class=1, dtc=0x123456, snap=1, ext=1, memsel=1, fgid=0x33, ext_size=2)
            yield cl.H(cfgv).call(29, args, [], []).case(5000, 'read_dtc_information subfunction')
        for ct in range(0, 8):
            for node in (None, 0, 0x1234):
                yield cl.H(cfgv).call(11, a_comm(ct, 0x01, node), [], []).case(5000, 'communication_control node id')
        for n in range(0, 9):
            yield cl.H(cfgv).call(2, [3], [], [(10, bytes([0x50, 3] + [1] * n))]).case(5000, 'change_session reply length')
    for v in VALUES:
        yield Case(5018, [v], [], 'edition at construction')
        yield Case(5018, [v, -1], [], 'edition at construction, overall timeout disabled')
        for std, rto in [(e, t) for e in EDITIONS for t in (5000000, -1)]:
            cfgv = list(cl.DEFAULT_CFG)
            cfgv[cl.STD] = std
            cfgv[cl.REQ_TO] = rto      # -1 = request_timeout None (the documented way to disable the overall timeout)
            h = cl.H(cfgv).set_cfg(cl.STD, v)
            h.call(8, a_clear_dtc(0x123456, 1), [], [])
            h.set_cfg(cl.STD, 2020).call(8, a_clear_dtc(0x123456, 1), [], [])
            yield h.case(5000, 'edition through set_config')
        # a refused edition stays in the configuration: every later configuration change, whichever entry it writes (set_config or
        # set_configs of several entries), is refused as well until a valid edition is set
        for std in EDITIONS:
            cfgv = list(cl.DEFAULT_CFG)
            cfgv[cl.STD] = std
            h = cl.H(cfgv).set_cfg(cl.REQ_TO, 3000000).set_cfg(cl.STD, v).set_cfg(cl.REQ_TO, 4000000).set_cfg(cl.P2, 500000)
            h.set_cfg(cl.TOL_PAD, 0).set_cfg(cl.STD, 2013).set_cfg(cl.P2S, 6000000).set_cfg(cl.EX_NEG, 0)
            yield h.case(5000, 'later configuration changes')
            # ... also a change that writes the value an entry already has (the refused edition once more, another entry re-stated)
            h = cl.H(cfgv).set_cfg(cl.REQ_TO, 3000000).set_cfg(cl.STD, v).set_cfg(cl.STD, v).set_cfg(cl.REQ_TO, 3000000).set_cfg(cl.P2, cfgv[cl.P2])
            h.set_cfg(cl.STD, 2013).set_cfg(cl.STD, 2013).set_cfg(cl.EX_NEG, cfgv[cl.EX_NEG])
            yield h.case(5000, 'later configuration changes')


def worker_init():
    cl.setup()


def impl(c):
    if c.entry == 5018:
        import udsoncan.client as uc
        cl.setup()
        conn = cl._Conn(cl.VClock())
        try:
            cfg = {'standard_version': c.ints[0]}
            if len(c.ints) > 1 and c.ints[1] < 0:
                cfg['request_timeout'] = None
            uc.Client(conn, config=cfg)
            return [0]
        except Exception as e:
            return [2, err_code(e)]
    return cl.run_history_case(c)


def sent_of(d):
    return [e[1] for e in d['events'] if e[0] == 'S']


def oracle(c, r):
    if c.entry == 5018:
        ok = c.ints[0] in EDITIONS
        if (r == [0]) != ok:
            return ('edition-value', 'Client(config standard_version=%d) %s' % (c.ints[0], 'accepted' if r == [0] else 'refused'))
        return None
    cfgv, ops = cl.case_ops(c)
    std = cfgv[cl.STD]
    if c.tag == 'edition through set_config':
        v = ops[0][2]
        bad = v not in EDITIONS
        if (r[:2] == [2, 2]) != bad:
            return ('edition-value', 'set_config(standard_version=%d) %s' % (v, 'raised' if r[:2] == [2, 2] else 'did not raise'))
        return None
    if c.tag == 'later configuration changes':
        cur, want = list(cfgv), []
        for o in ops:
            cur[o[1]] = o[2]
            if cur[cl.STD] not in EDITIONS:
                want += [2, 2]
        if r[:len(want)] != want or len(r) != len(want) + 5:
            return ('edition-on-later-change', 'configuration changes %r: ConfigError pattern %r, expected %r (a change is refused exactly while the '
                    'edition in the configuration is not 2006/2013/2020)' % ([(o[1], o[2]) for o in ops], r[:-5], want))
        return None
    d = cl.parse_calls(r, 1)[0][0]
    _, callid, args, cb, reps = ops[0]
    sent = sent_of(d)
    if callid == 8:
        ms = args[2] if args[1] == 1 else None
        refused = ms is not None and std < 2020
        if refused != (not sent) or (refused and d['kind'] != 'raised'):
            return ('memory-selection', 'edition %d, memory selection %r: frames sent %r' % (std, ms, [s.hex() for s in sent]))
    elif callid == 29:
        sub = args[0]
        lay = sub in DEFINED and sub not in (0x1A, 0x56)
        refused = sub not in DEFINED or (sub in DTC_2020 and std < 2020)
        if refused and sent:
            return ('dtc-subfunction-not-refused', 'edition %d: subfunction %#x was sent (%s)' % (std, sub, sent[0].hex()))
        if not refused and lay and not sent:
            return ('dtc-subfunction-refused', 'edition %d: subfunction %#x of that edition was refused (err %r)' % (std, sub, d['err']))
    elif callid == 11:
        ct = args[0]
        node = args[6] if args[5] == 1 else None
        require = std >= 2013 and ct in (4, 5)
        ok = (node is not None) == require
        if ok != bool(sent):
            return ('node-id', 'edition %d control type %d node id %r: frames sent %r' % (std, ct, node, [s.hex() for s in sent]))
    elif callid == 2:
        n = len(reps[0][1]) - 2
        want_ok = (n == 4) if std >= 2013 else True
        if (d['kind'] == 'ok') != want_ok:
            return ('session-reply-length', 'edition %d: reply with %d parameter bytes -> %s' % (std, n, d['kind']))
    return None


def nontrivial(c, r):
    return True


def describe(c):
    if c.entry == 5018:
        return 'Client(conn, config={standard_version: %d})' % c.ints[0]
    return 'cfg=%r ops=%r' % cl.case_ops(c)
