"""C06 - every negative response code ends the request as negative; only 0x78 prolongs.
Exhaustive in the code: every modelled entry point x all 256 codes x k in 0..3 preceding 0x78 frames x tails
x both settings of exception_on_negative_response x callback configured or not."""
import random
from harness.core import Case
from harness import clientlib as cl
from harness.callreg import invocations

WIDE = 200000        # thorough tier: histories of the wide correspondence stream (widegen.py), judged by the model and the generic rule
WIDE_QUICK = 2000
PROP = 'C06'
EXHAUSTIVE = True
RULE = ('every modelled client entry point x code 0x00..0xFF x k in {0,1,3} pending frames x tail in {"", 00, FF01} x '
        'exception_on_negative_response on/off (+ callback on for k>0). non-trivial = a negative frame for the pending request '
        'was delivered (distinct case lines)')
ASSUMPTIONS = ['all frames are placed inside their windows (timing is C05)']


def gen_cases(tier, seed):
    rnd = random.Random(seed)
    tails = [b'', b'\x00', b'\xff\x01']
    ks = [0, 1, 3] if tier == 'quick' else [0, 1, 2, 3, 7]
    for inv in invocations():
        for code in range(256):
            for k in ks:
                for ti, tail in enumerate(tails):
                    if tier == 'quick' and ti > 0 and k > 0:
                        continue
                    for ex in (1, 0):
                        cfgv = list(cl.DEFAULT_CFG)
                        for s, v in inv.cfg.items():
                            cfgv[s] = v
                        cfgv[cl.EX_NEG] = ex
                        cfgv[cl.HAS_CB] = 1 if k > 0 else 0
                        reps = [(100 * (i + 1), bytes([0x7F, inv.sid, 0x78]) + (b'\x55' if i == 1 else b'')) for i in range(k)]
                        reps.append((100 * (k + 1), bytes([0x7F, inv.sid, code]) + tail))
                        yield cl.H(cfgv).call(inv.callid, inv.args, inv.blobs, reps).case(5000, inv.name)
    # the edition changes which codes the client knows: every code under the 2006 and 2013 editions as well
    from harness import isospec
    for std in (2006, 2013):
        usable = []
        for inv in invocations():
            cfgv = list(cl.DEFAULT_CFG)
            for s, v in inv.cfg.items():
                cfgv[s] = v
            cfgv[cl.STD] = std
            if inv.callid != 1 and isospec.expected(cl.H(cfgv).cfg, inv.callid, inv.args, inv.blobs)[0] == 'send':
                usable.append(inv)
        for inv in usable[::max(1, len(usable) // 12)]:      # a dozen services spread over the registry: the rule does not depend on the service
            for code in range(256):
                for ex in (1, 0):
                    for k in (0, 2):
                        cfgv = list(cl.DEFAULT_CFG)
                        for s, v in inv.cfg.items():
                            cfgv[s] = v
                        cfgv[cl.EX_NEG], cfgv[cl.STD], cfgv[cl.HAS_CB] = ex, std, (1 if k else 0)
                        reps = [(100 * (i + 1), bytes([0x7F, inv.sid, 0x78])) for i in range(k)]
                        reps.append((100 * (k + 1), bytes([0x7F, inv.sid, code]) + (b'\x01' if k else b'')))
                        yield cl.H(cfgv).call(inv.callid, inv.args, inv.blobs, reps).case(5000, inv.name + ' / edition %d' % std)


    # the negative response inside a with-block of either context manager of the client: it must get out of the block
    invs = invocations()
    for inv in invs[::max(1, len(invs) // 16)]:
        for code in (0x10, 0x22, 0x31, 0x78, 0x7F, 0x95, 0x00):
            for ex in (1, 0):
                for k in (0, 2):
                    for blk in ('override', 'suppress'):
                        cfgv = list(cl.DEFAULT_CFG)
                        for s, v in inv.cfg.items():
                            cfgv[s] = v
                        cfgv[cl.EX_NEG], cfgv[cl.HAS_CB] = ex, (1 if k else 0)
                        reps = [(100 * (i + 1), bytes([0x7F, inv.sid, 0x78])) for i in range(k)]
                        reps.append((100 * (k + 1), bytes([0x7F, inv.sid, code])))
                        h = cl.H(cfgv)
                        if blk == 'override':
                            h.ov_fun(b'', b'')            # identity modifier: the bytes on the wire are unchanged
                        else:
                            h.spr_enter(True)            # wait for an NRC: a negative reply is processed normally
                        h.call(inv.callid, inv.args, inv.blobs, reps)
                        if blk == 'override':
                            h.ov_exit()
                        else:
                            h.spr_exit()
                        yield h.case(5000, inv.name + ' / inside a %s block' % blk)


def has_sub(sid):
    from udsoncan.BaseService import BaseService
    svc = BaseService.from_request_id(sid)
    return svc is not None and svc.use_subfunction()


def worker_init():
    cl.setup()


def impl(c):
    return cl.run_history_case(c)


def oracle(c, r):
    cfgv, ops = cl.case_ops(c)
    calls, _ = cl.parse_calls(r, 1)
    d = calls[0]
    _, callid, args, cb, reps = [o for o in ops if o[0] == 'call'][0]
    in_spr = any(o[0] == 'spr_enter' for o in ops)
    final = reps[-1][1]
    code = final[2]
    k = len(reps) - 1
    ncb = len([e for e in d['events'] if e[0] == 'CB'])
    if cfgv[cl.HAS_CB] == 1:
        want = k + (1 if code == 0x78 else 0)
        if ncb != want:
            return ('callback-count', '%d callbacks for %d pending frames (code %#x)' % (ncb, want, code))
        ev = d['events']
        for i, e in enumerate(ev):
            if e[0] == 'CB' and not (i + 1 < len(ev) and ev[i + 1][0] == 'W'):
                return ('callback-order', 'callback not followed by a wait')
    if code == 0x78:
        # the last frame is itself a pending frame: the request stays pending and then times out (inside a suppress block that
        # waits for an NRC, silence is the expected end: None)
        if d['kind'] == 'raised' and d['err'] == 4:
            return None
        if in_spr and d['kind'] == 'none':
            return None
        return ('78-surfaced', 'after a final 0x78 frame the call did not stay pending: %r' % d['kind'])
    if d['resp'] is None:
        return ('negative-dropped', 'code %#x: no negative response reported (%s, err=%r)' % (code, d['kind'], d['err']))
    resp = d['resp']
    ok_kind = (d['kind'] == 'raised' and d['err'] == 5) if (cfgv[cl.EX_NEG] == 1 or callid == 1) else (d['kind'] == 'returned')
    if not ok_kind:
        return ('negative-class', 'code %#x delivered as %s err=%r' % (code, d['kind'], d['err']))
    if resp['code'] != code or resp['positive'] or resp['payload'] != final:
        return ('negative-code', 'code %#x reported as code=%r positive=%r payload=%r' % (code, resp['code'], resp['positive'], resp['payload']))
    return None


def nontrivial(c, r):
    return True


def describe(c):
    cfgv, ops = cl.case_ops(c)
    return 'cfg=%r ops=%r' % (cfgv, ops)
