"""Registry of the client entry points the model covers: one or more sample invocations each, with the request
service id and a well-formed positive response.  Shared by the generators of C03/C04/C06/C08/C09/C15."""


class Inv:
    def __init__(self, name, callid, args, blobs, sid, positive, has_sub=True, cfg=None):
        self.name, self.callid, self.args, self.blobs = name, callid, list(args), list(blobs)
        self.sid, self.positive, self.has_sub = sid, positive, has_sub
        self.cfg = cfg or {}     # {slot: value} overrides of the configuration vector
        self.dids = None         # None = the shared tables of callreg_ext
        self.ios = None
        self.echo = None         # offsets in `positive` that echo request parameters (C03); None = [1] for services with a subfunction


def invocations():
    L = [
        Inv('send_request(TesterPresent)', 1, [0x3E, 0, 0, 0, -1], [b''], 0x3E, b'\x7e\x00'),
        Inv('send_request(ReadDataByIdentifier raw)', 1, [0x22, -1, 0, 1, -1], [b'\xf1\x90'], 0x22, b'\x62\xf1\x90\x41', has_sub=False),
        Inv('change_session', 2, [3], [], 0x10, b'\x50\x03\x00\x32\x01\xf4'),
        Inv('request_seed', 3, [5], [b'\xaa'], 0x27, b'\x67\x05\x11\x22\x33'),
        Inv('send_key', 4, [5], [b'\x01\x02'], 0x27, b'\x67\x06'),
        Inv('unlock_security_access', 5, [3], [b''], 0x27, b'\x67\x03\x00\x00', cfg={15: 3, 16: 9}),
        Inv('tester_present', 6, [], [], 0x3E, b'\x7e\x00'),
        Inv('ecu_reset', 7, [1], [], 0x11, b'\x51\x01'),
        Inv('ecu_reset(4)', 7, [4], [], 0x11, b'\x51\x04\x0a'),
    ]
    from harness import callreg_ext
    L = L + callreg_ext.invocations(Inv)
    for i in L:
        if i.echo is None:
            i.echo = ECHO.get(i.name, [1] if i.has_sub else [])
    return L


# offsets, in the registry's positive response, of the bytes that echo a request parameter
ECHO = {
    'send_request(ReadDataByIdentifier raw)': [],
    'routine_control': [1, 2, 3],
    'transfer_data': [1],
    'write_memory_by_address': [1, 2, 3, 4],
    'write_memory_by_address(48-bit)': [1, 2, 3, 4, 5, 6, 7, 8],
    'dynamically_define_did(by did)': [1, 2, 3],
    'dynamically_define_did(by memory)': [1, 2, 3],
    'clear_dynamically_defined_did': [1, 2, 3],
    'clear_all_dynamically_defined_did': [1],
    'read_data_by_identifier': [1, 2, 6, 7],
    'read_data_by_identifier(read-all last)': [1, 2, 5, 6],
    'read_data_by_identifier_first': [1, 2, 4, 5],
    'write_data_by_identifier': [1, 2],
    'io_control(values, masks)': [1, 2, 3],
    'io_control(no control param)': [1, 2],
    'io_control(bool mask)': [1, 2, 3],
    'add_file': [1, 5],
    'send_request(TesterPresent)': [],
    'delete_file': [1],
    'read_file': [1, 4],
    'read_dir': [1],
    'resume_file': [1, 4],
    'get_user_defined_memory_dtc_by_status_mask': [1, 2],
    'get_dtc_snapshot_by_dtc_number': [1, 2, 3, 4, 6],
    'get_user_defined_dtc_snapshot_by_dtc_number': [1, 2, 3, 4, 5],
    'get_dtc_snapshot_by_record_number': [1, 2],
    'get_dtc_extended_data_by_dtc_number': [1, 6],
    'get_mirrormemory_dtc_extended_data_by_dtc_number': [1],
    'get_user_defined_dtc_extended_data_by_dtc_number': [1, 2, 7],
    'get_dtc_extended_data_by_record_number': [1, 2],
    'get_wwh_obd_dtc_by_status_mask': [1, 2],
    'get_wwh_obd_dtc_with_permanent_status': [1, 2],
}
