"""Registry of the client entry points the model covers: one or more sample invocations each, with the request
service id and a well-formed positive response.  Shared by the generators of C03/C04/C06/C08/C09/C15."""


class Inv:
    def __init__(self, name, callid, args, blobs, sid, positive, has_sub=True, cfg=None):
        self.name, self.callid, self.args, self.blobs = name, callid, list(args), list(blobs)
        self.sid, self.positive, self.has_sub = sid, positive, has_sub
        self.cfg = cfg or {}     # {slot: value} overrides of the configuration vector
        self.dids = None         # None = the shared tables of callreg_ext
        self.ios = None


def invocations():
    L = [
        Inv('send_request(TesterPresent)', 1, [0x3E, 0, 0, 0, -1], [b''], 0x3E, b'\x7e\x00'),
        Inv('send_request(ReadDataByIdentifier raw)', 1, [0x22, -1, 0, 1, -1], [b'\xf1\x90'], 0x22, b'\x62\xf1\x90\x41', has_sub=False),
        Inv('change_session', 2, [3], [], 0x10, b'\x50\x03\x00\x32\x01\xf4'),
        Inv('request_seed', 3, [5], [b'\xaa'], 0x27, b'\x67\x05\x11\x22\x33'),
        Inv('send_key', 4, [5], [b'\x01\x02'], 0x27, b'\x67\x06'),
        Inv('unlock_security_access', 5, [3], [b''], 0x27, b'\x67\x03\x00\x00', cfg={15: 3, 16: 9}),
        Inv('tester_present', 6, [], [], 0x3E, b'\x7e\x00'),
        Inv('ecu_reset', 7, [1], [], 0x11, b'\x51\x01'),
        Inv('ecu_reset(4)', 7, [4], [], 0x11, b'\x51\x04\x0a'),
    ]
    from harness import callreg_ext
    return L + callreg_ext.invocations(Inv)
