"""C02 - well-formed positive responses decode to exactly the values the server encoded.
Structured-valid stream: the reference server encoder of respspec.py produces, for every modelled call, responses with
0..N records and fields at their minima / maxima / random values; the client's decoded service data must equal the
values that were encoded.  Configurations: three editions, snapshot DID sizes 1..4, both padding settings."""
import random
from harness.core import Case
from harness import clientlib as cl, respspec
from harness.callreg import invocations

WIDE = 200000        # thorough tier: histories of the wide correspondence stream (widegen.py), judged by the model and the generic rule
WIDE_QUICK = 2000
PROP = 'C02'
EXHAUSTIVE = False
RULE = ('every modelled entry point x responses from the reference encoder (0..3 records quick / 0..8 thorough, length prefixes '
        '1..8 bytes with top-bit-set values, all authentication tasks, every ReadDTCInformation response shape) x '
        '{tolerant, strict} configuration x repeated random draws. non-trivial = the response carries at least one value beyond '
        'the echoes (distinct case lines)')
ASSUMPTIONS = ['DID values are raw bytes (codec = identity on strings of the configured length); duplicate DIDs in one response and '
               'all-zero DTC records are excluded (the wire format cannot express them unambiguously)']


def worker_init():
    cl.setup()


def impl(c):
    return cl.run_history_case(c)


EXPECT = {}   # case line -> service data the reference server encoded (filled by gen_cases in the parent, inherited by the workers)


def oracle(c, r):
    exp = EXPECT.get(c.line())
    if exp is None:
        return None
    d = cl.parse_calls(r, 1)[0][0]
    if isinstance(exp, tuple):
        if d['kind'] != 'value' or d['value'] != exp[1]:
            return ('decode/%s' % c.tag.split(' / ')[0], 'returned %r, the server encoded %r' % (d.get('value'), exp[1]))
        return None
    if d['kind'] != 'ok':
        return ('rejected/%s' % c.tag.split(' / ')[0], 'well-formed response was not accepted: %s err=%r (%s)' % (d['kind'], d['err'], c.tag))
    if d['sdata'] != exp:
        return ('decode/%s' % c.tag.split(' / ')[0], 'decoded %r, the server encoded %r' % (d['sdata'][:40], exp[:40]))
    return None


def gen_cases(tier, seed):
    rnd = random.Random(seed)
    reps = 3 if tier == 'quick' else 40
    nrec = (0, 1, 2, 3) if tier == 'quick' else (0, 1, 2, 3, 5, 8)
    import copy
    invs = []
    for inv in invocations():
        invs.append(inv)
        if inv.callid == 29 and inv.args[0] in (0x06, 0x10, 0x19):
            # the record numbers 0xF0..0xFE designate groups of records (0xFE: all OBD records): the answer holds records of other numbers
            for grp in (0xF0, 0xFE):
                v = copy.copy(inv)
                v.args = list(inv.args)
                v.args[12], v.args[13] = 1, grp
                v.name = inv.name + ' group %#x' % grp
                invs.append(v)
    for inv in invs:
        if inv.callid in (1, 5):
            continue
        for strict in (0, 1):
            for std in ((2020,) if inv.callid != 2 else (2006, 2013, 2020)):
                # (snapshot DID size, configured extended data size): a size given with the call wins over the configured one
                for sds, esz in ([(2, None)] if inv.callid != 29 else [(1, None), (2, None), (3, None), (4, None)] + ([(2, 7), (2, 1)] if inv.args[18] == 1 else [])):
                    cfgv = list(cl.DEFAULT_CFG)
                    for s, v in inv.cfg.items():
                        cfgv[s] = v
                    cfgv[cl.STD] = std
                    cfgv[cl.SNAP_DID] = sds
                    if esz is not None:
                        cfgv[cl.EXT_SIZE] = esz
                    if strict:
                        cfgv[cl.TOL_PAD] = 0
                        cfgv[cl.IGN_ZERO] = 0
                    from harness.callreg_ext import DIDS
                    dt = None if inv.callid != 29 else DIDS + [(0xFE, -1), (0xFFFFFE, -1)]   # read-all codecs reachable with 1- and 3-byte snapshot DIDs
                    h0 = cl.H(cfgv, dids=dt)
                    for _ in range(reps):
                        for reply, sd, rs, tag in respspec.gen(inv, h0.cfg, rnd, nrec):
                            c = cl.H(cfgv, dids=dt).call(inv.callid, inv.args, inv.blobs, [(10, reply)]).case(5000, '%s / %s' % (inv.name, tag))
                            EXPECT[c.line()] = sd
                            yield c
                    # tables with a 'default' entry (a codec instance of fixed length, of length 0, one that takes whatever is left): the
                    # identifiers the table does not list are decoded by it - snapshot DIDs, and the DIDs of read_data_by_identifier
                    if (inv.callid == 29 and inv.args[0] in (0x04, 0x05, 0x18) and esz is None) or inv.callid in (22, 23):
                        for dflt in (2, 0, -1):
                            keep = DIDS[:1] if inv.callid != 29 else DIDS[:3]
                            dtd = keep + [(-1, dflt)]
                            if inv.callid in (22, 23) and dflt < 0 and cl.H(cfgv, dids=dtd).cfg and inv.args[1:1 + inv.args[0]][:-1] != [d for d, _ in keep][:inv.args[0] - 1]:
                                continue       # a DID served by a read-all default may only come last in the request
                            hd = cl.H(cfgv, dids=dtd)
                            for reply, sd, rs, tag in respspec.gen(inv, hd.cfg, rnd, nrec):
                                c = cl.H(cfgv, dids=dtd).call(inv.callid, inv.args, inv.blobs, [(10, reply)]).case(5000, '%s / %s (default codec %d)' % (inv.name, tag, dflt))
                                EXPECT[c.line()] = sd
                                yield c
                    # responses of several hundred bytes (40 and 70 records)
                    if inv.callid == 29 and sds == 2:
                        for reply, sd, rs, tag in respspec.gen(inv, h0.cfg, rnd, (40, 70)):
                            if len(reply) >= 200:
                                c = cl.H(cfgv, dids=dt).call(inv.callid, inv.args, inv.blobs, [(10, reply)]).case(5000, '%s / %s (long)' % (inv.name, tag))
                                EXPECT[c.line()] = sd
                                yield c


def nontrivial(c, r):
    return r[0] == 0 and r[1] in (1, 2)


def describe(c):
    return 'cfg=%r ops=%r' % cl.case_ops(c)
