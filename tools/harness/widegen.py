"""Wide correspondence stream: instead of varying one dimension at a time around a template, draw every dimension at once -
configuration vector (all 17 slots, including the rarely used values: an older edition, request_timeout None, P2 = 0, DID sizes
1..4, extended data sizes 0 / 1, falsy algorithm parameters, invalid formats), codec tables (with a 'default' codec, with read-all
codecs), the entry point, its arguments (a boundary variant of argspace), the reply (the reference server's answer to exactly these
arguments, or a padded / mutated / truncated / negative / pending / silent one, two legs for the composite) and whether the application
reuses its argument objects.  Judged by the model (any disagreement breaks the tie) and by the generic rule that no undocumented
exception may escape."""
import random
from harness import clientlib as cl, argspace, respspec
from harness.callreg import invocations
from harness.callreg_ext import DIDS, IOS

U = 1000
TABLES = [None, DIDS + [(-1, 2)], DIDS + [(-1, 0)], DIDS + [(0xFE, -1), (0xFFFFFE, -1)], [(0xF190, 3), (0x0102, 1)]]


def random_cfg(rnd, inv):
    cfgv = list(cl.DEFAULT_CFG)
    for s, v in inv.cfg.items():
        cfgv[s] = v
    pick = rnd.choice
    cfgv[cl.EX_NEG], cfgv[cl.EX_INV], cfgv[cl.EX_UNX] = pick([1, 1, 0]), pick([1, 1, 0]), pick([1, 1, 0])
    cfgv[cl.TOL_PAD], cfgv[cl.IGN_ZERO] = pick([1, 0]), pick([1, 0])
    cfgv[cl.USE_SRV] = pick([1, 1, 0])
    cfgv[cl.STD] = pick([2006, 2013, 2020, 2020])
    cfgv[cl.REQ_TO] = pick([-1, 5000 * U, 300 * U, 5000 * U, 0])
    cfgv[cl.P2] = pick([1000 * U, 50 * U, 0, 1000 * U])
    cfgv[cl.P2S] = pick([5000 * U, 200 * U, 0, 5000 * U])
    cfgv[cl.HAS_CB] = pick([0, 1])
    cfgv[cl.SRV_ADDR] = pick([-1, -1, 8, 16, 24, 32, 40, 64, 12])
    cfgv[cl.SRV_SIZE] = pick([-1, -1, 8, 16, 32, 64, 0])
    cfgv[cl.SNAP_DID] = pick([2, 2, 1, 3, 4, 8, 0, 9])
    cfgv[cl.EXT_SIZE] = pick([-1, 0, 1, 2, 5, 4095, 4096]) if inv.cfg.get(cl.EXT_SIZE) is None else inv.cfg[cl.EXT_SIZE]
    if inv.cfg.get(cl.ALGO) is None:
        cfgv[cl.ALGO] = pick([0, 1, 2, 3, 4, 5, 6, 7, 8])
    cfgv[cl.ALGO_PRM] = pick([-1, 0, 7, 300])
    return cfgv


def reply_for(inv, args, blobs, h, rnd):
    """-> list of (delta, frame | None)"""
    class V:
        pass
    v = V()
    v.__dict__.update(inv.__dict__)
    v.args, v.blobs = list(args), list(blobs)
    good = None
    try:
        out = respspec.gen(v, h.cfg, rnd, (rnd.choice([0, 1, 2, 3]),))
        if out:
            good = rnd.choice(out)[0]
    except Exception:
        good = None
    if good is None:
        good = inv.positive
    k = rnd.random()
    neg = bytes([0x7F, inv.sid, rnd.choice([0x10, 0x22, 0x31, 0x33, 0x78 if False else 0x35, 0x50, 0x94, 0x00])])
    pend = bytes([0x7F, inv.sid, 0x78])
    if k < 0.40:
        reps = [(1000, good)]
    elif k < 0.50:
        reps = [(1000, good + b'\x00' * rnd.choice([1, 2, 3, 4, 5, 6, 9]))]
    elif k < 0.60 and len(good) > 1:
        i = rnd.randrange(1, len(good))
        reps = [(1000, good[:i] + bytes([rnd.choice([0, 1, 0x7F, 0x80, 0xFF, (good[i] + 1) & 0xFF])]) + good[i + 1:])]
    elif k < 0.66:
        reps = [(1000, good[:rnd.randrange(0, len(good) + 1)])]
    elif k < 0.74:
        reps = [(1000, neg + bytes(rnd.choice([0, 0, 1])))]
    elif k < 0.82:
        reps = [(1000, pend), (rnd.choice([2000, 300 * U, 4000 * U]), rnd.choice([good, neg, pend]))]
    elif k < 0.88:
        reps = []
    elif k < 0.92:
        reps = [(1000, None)]
    elif k < 0.96:
        reps = [(-5, good), (0, neg), (1000, good)]
    else:
        reps = [(1000, bytes(rnd.randrange(256) for _ in range(rnd.choice([1, 2, 5, 17]))))]
    if inv.callid == 5 and reps and reps[-1][1] is not None and rnd.random() < 0.7:
        lvl = max(1, min(0x7E, args[0] & 0x7F))
        t = reps[-1][0]
        seed = bytes([0x67, ((lvl + 1) // 2) * 2 - 1]) + bytes(rnd.randrange(1, 256) for _ in range(rnd.choice([1, 2, 4])))
        second = rnd.choice([bytes([0x67, ((lvl + 1) // 2) * 2]), bytes([0x7F, 0x27, 0x35]), b'\x50\x01\x00\x32\x01\xf4', b'\x67', None, bytes([0x67, lvl | 1])])
        reps = reps[:-1] + [(t, seed)] + ([(t + 1000, second)] if second is not None else [])
    return reps


def gen(seed, n):
    rnd = random.Random(seed * 7919 + 17)
    invs = invocations()
    variants = {}
    for _ in range(n):
        inv = rnd.choice(invs)
        if inv.name not in variants:
            variants[inv.name] = [(a, b) for o, a, b, t in argspace.variants(inv, random.Random(1), 'quick') if 'dids' not in o
                                  if not (b and max(len(x) for x in b) > 300)][:4000]
        cfgv = random_cfg(rnd, inv)
        dt = rnd.choice(TABLES) if inv.dids is None else inv.dids
        h = cl.H(cfgv, dids=dt)
        ncalls = rnd.choice([1, 1, 2])
        if rnd.random() < 0.25:
            # what went before on this client: a session change the server answered with its own timings (adopted or not, depending on the
            # edition and use_server_timing), possibly a configuration change after it
            sess = rnd.choice([1, 2, 3, 0x40])
            p2v, p2sv = rnd.choice([0, 1, 0x32, 0x1F4, 0xFFFF]), rnd.choice([0, 1, 0x64, 0x1F4, 0xFFFF])
            h.call(2, [sess], [], [(10, bytes([0x50, sess, p2v >> 8, p2v & 0xFF, p2sv >> 8, p2sv & 0xFF]))])
            if rnd.random() < 0.3:
                slot = rnd.choice([cl.REQ_TO, cl.USE_SRV, cl.STD, cl.P2S])
                h.set_cfg(slot, {cl.REQ_TO: rnd.choice([-1, 5000 * U, 0]), cl.USE_SRV: rnd.choice([0, 1]), cl.STD: rnd.choice([2006, 2013, 2020]),
                                 cl.P2S: rnd.choice([0, 200 * U, 5000 * U])}[slot])
        for _ in range(ncalls):
            if rnd.random() < 0.5 or not variants[inv.name]:
                args, blobs = list(inv.args), list(inv.blobs)
            else:
                args, blobs = rnd.choice(variants[inv.name])
                args, blobs = list(args), list(blobs)
            if inv.callid == 1 and rnd.random() < 0.3:
                args = args[:5] + [1]
            reps = reply_for(inv, args, blobs, h, rnd)
            if rnd.random() < 0.1 and all(d > 0 for d, f in reps):
                h.send_cost(rnd.choice([1, 1000, 600 * U, 6000 * U]))     # a transmission that takes time (nothing can answer before it is out)
            x = rnd.random()
            if x < 0.08:
                h.spr_enter(rnd.choice([False, True, None]))
                h.call(inv.callid, args, blobs, reps)
                h.spr_exit()
            elif x < 0.14:
                if rnd.random() < 0.5:
                    h.ov_fun(b'', b'')
                else:
                    h.ov_fun(bytes([rnd.randrange(256)]), bytes([rnd.randrange(256)]) if rnd.random() < 0.5 else b'')
                h.call(inv.callid, args, blobs, reps)
                h.ov_exit()
            else:
                h.call(inv.callid, args, blobs, reps)
            if rnd.random() < 0.3:
                h.advance(rnd.choice([1, 1000, 6000 * U]))
        yield h.case(5000, 'wide / %s' % inv.name.split('(')[0])
