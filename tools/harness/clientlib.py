"""Runs histories of client operations on the real udsoncan.Client with a virtual clock and a recording
connection, and renders the observables exactly as Model/History.v does."""
import types
from harness.core import enc_bool, enc_bytes, enc_opt, err_code

CFG_LEN = 17
# slots of the configuration vector (Model/History.v cfg_of)
EX_NEG, EX_INV, EX_UNX, TOL_PAD, IGN_ZERO, USE_SRV, STD, REQ_TO, P2, P2S, HAS_CB, SRV_ADDR, SRV_SIZE, SNAP_DID, EXT_SIZE, ALGO, ALGO_PRM = range(17)
DEFAULT_CFG = [1, 1, 1, 1, 1, 1, 2020, 5000000, 1000000, 5000000, 0, -1, -1, 2, -1, 0, -1]


class VClock:
    """virtual time in integer microseconds; every reading is a picosecond later than the previous one (a real clock never
    stands still between two statements), which rounds away in everything the harness records but makes 'deadline - now'
    strictly negative once the deadline has been reached"""

    def __init__(self):
        self.us = 0
        self.reads = 0

    def monotonic(self):
        self.reads += 1
        return self.us / 1e6 + self.reads * 1e-12


class RecConn:
    """BaseConnection subclass is created lazily (udsoncan import happens in the worker)."""


def make_conn_class():
    from udsoncan.connections import BaseConnection
    from udsoncan.exceptions import TimeoutException

    class Conn(BaseConnection):
        def __init__(self, clk):
            BaseConnection.__init__(self, 'verif')
            self.clk = clk
            self.opened = True
            self.log = []
            self.sched = []       # [(abs arrival us, frame bytes | None for fault)]
            self.open_calls = 0
            self.close_calls = 0
            self.send_fault = None    # exception class raised once by the next specific_send, after it has recorded the frame
            self.send_cost = 0        # microseconds the next specific_send takes
            self.silence_none = False  # a transport that reports silence by returning None (its documented 'bytes or None') instead of raising

        def open(self):
            self.open_calls += 1
            if getattr(self, 'open_fault', False):
                self.open_fault = False
                raise OSError('interface is down')     # the transport cannot be opened this time
            self.opened = True
            return self

        def close(self):
            self.opened = False
            self.close_calls += 1

        def is_open(self):
            return self.opened

        def empty_rxqueue(self):
            self.log.append([1])
            while self.sched and self.sched[0][0] <= self.clk.us:
                self.sched.pop(0)

        def specific_send(self, payload, timeout=None):
            self.log.append([2] + enc_bytes(payload))
            if self.send_cost:
                self.clk.us += self.send_cost      # a blocking transport: the call returns when the frame is out
                self.send_cost = 0
            if self.send_fault is not None:
                f, self.send_fault = self.send_fault, None
                raise f('injected transport fault after the frame was written')

        def specific_wait_frame(self, timeout=2):
            if timeout is not None and timeout < 0:
                raise ValueError("'timeout' must be a non-negative number")      # what queue.Queue.get does, hence every connection of the library
            t = int(round(timeout * 1e6))
            self.log.append([3, t, self.clk.us])
            if self.sched and self.sched[0][0] <= self.clk.us + t:
                a, f = self.sched.pop(0)
                self.clk.us = max(self.clk.us, a)
                if f is None:
                    raise OSError('injected connection fault')
                return f
            self.clk.us += t
            if self.silence_none:
                return None
            raise TimeoutException('virtual timeout')
    return Conn


_Conn = None


class _StructError(Exception):
    pass


def _send_faults():
    import struct
    from udsoncan.exceptions import TimeoutException
    return {1: ValueError, 4: TimeoutException, 8: OSError, 20: IndexError, 21: struct.error, 22: AttributeError, 23: TypeError,
            24: OverflowError, 26: KeyError}


class _LazyFaults(dict):
    def __missing__(self, k):
        self.update(_send_faults())
        return dict.__getitem__(self, k)


SEND_FAULTS = _LazyFaults()


def setup():
    global _Conn
    if _Conn is None:
        _Conn = make_conn_class()


class Algo4:
    """callable object without __code__"""

    def __init__(self, conn):
        self.conn = conn

    def __call__(self, seed=None, params=None, level=None):
        self.conn.log.append([5, level, -1 if params is None else params] + enc_bytes(seed))
        return bytes(reversed(seed)) + bytes([level & 0xFF, (params or 0) & 0xFF])


class _CbOwner:
    """an application object whose method (or which itself) is the nrc78_callback"""

    def __init__(self, conn):
        self.conn = conn
        self.seen = 0

    def pending(self):
        self.seen += 1
        self.conn.log.append([4])

    __call__ = pending


class _CodecFailure(Exception):
    """an application codec's own exception class"""


class AlgoFailure(RuntimeError, TypeError):
    """what a failing security algorithm raises: an application exception (it happens to be a TypeError as well, as errors raised
    by 'None + bytes' or a missing table entry inside an algorithm are)"""


def make_algo(kind, conn):
    if kind == 1:
        def algo(seed):
            conn.log.append([5, -1, -1] + enc_bytes(seed))
            return bytes(reversed(seed))
        return algo
    if kind == 2:
        def algo(seed, params):
            conn.log.append([5, -1, -1 if params is None else params] + enc_bytes(seed))
            return bytes(reversed(seed)) + bytes([(params or 0) & 0xFF])
        return algo
    if kind == 3:
        def algo(level, seed, params):
            conn.log.append([5, level, -1 if params is None else params] + enc_bytes(seed))
            return bytes(reversed(seed)) + bytes([level & 0xFF, (params or 0) & 0xFF])
        return algo
    if kind == 5:
        def algo(seed, params):
            level = -1          # a local variable that happens to carry the name of an optional argument
            conn.log.append([5, level, -1 if params is None else params] + enc_bytes(seed))
            return bytes(reversed(seed)) + bytes([(params or 0) & 0xFF])
        return algo
    if kind == 6:
        def algo(seed):
            level, params = -1, -1
            conn.log.append([5, level, params] + enc_bytes(seed))
            return bytes(reversed(seed))
        return algo
    if kind == 7:
        def algo(seed, params):
            conn.log.append([5, -1, -1 if params is None else params] + enc_bytes(seed))
            raise AlgoFailure('this tool holds no secret for that unit')      # the application's own error, raised inside the algorithm
        return algo
    if kind == 8:
        import functools

        def routine(level, seed, params):       # what the application wraps: another signature
            raise AssertionError('the wrapped routine is called by the adapter only')

        @functools.wraps(routine)
        def algo(seed, params):                 # the configured callable: an adapter with the documented (seed, params) signature
            conn.log.append([5, -1, -1 if params is None else params] + enc_bytes(seed))
            return bytes(reversed(seed)) + bytes([(params or 0) & 0xFF])
        return algo
    if kind >= 4:
        return Algo4(conn)
    return None


CFG_KEYS = {EX_NEG: 'exception_on_negative_response', EX_INV: 'exception_on_invalid_response', EX_UNX: 'exception_on_unexpected_response',
            TOL_PAD: 'tolerate_zero_padding', IGN_ZERO: 'ignore_all_zero_dtc', USE_SRV: 'use_server_timing', STD: 'standard_version',
            REQ_TO: 'request_timeout', P2: 'p2_timeout', P2S: 'p2_star_timeout', HAS_CB: 'nrc78_callback', SRV_ADDR: 'server_address_format',
            SRV_SIZE: 'server_memorysize_format', SNAP_DID: 'dtc_snapshot_did_size', EXT_SIZE: 'extended_data_size', ALGO: 'security_algo',
            ALGO_PRM: 'security_algo_params'}


def cfg_value(slot, v, conn):
    if slot in (EX_NEG, EX_INV, EX_UNX, TOL_PAD, IGN_ZERO, USE_SRV):
        return v == 1
    if slot == REQ_TO:
        return None if v < 0 else v / 1e6
    if slot in (P2, P2S):
        return v / 1e6
    if slot == HAS_CB:
        if v != 1:
            return None
        form = getattr(conn, 'cb_form', 0)      # the callback as a closure / a bound method of an application object / a callable object / a partial
        if form == 1:
            return _CbOwner(conn).pending
        if form == 2:
            return _CbOwner(conn)
        if form == 3:
            import functools
            return functools.partial(_CbOwner.pending, _CbOwner(conn))
        return lambda: conn.log.append([4])
    if slot in (SRV_ADDR, SRV_SIZE, EXT_SIZE, ALGO_PRM):
        return None if v < 0 else v
    if slot == ALGO:
        return make_algo(v, conn)
    return v


_codec_classes = None


def codec_classes():
    global _codec_classes
    if _codec_classes is None:
        from udsoncan import DidCodec

        class RawCodec(DidCodec):
            def __init__(self, n):
                self.n = n

            def encode(self, v):
                if not isinstance(v, bytes) or len(v) != self.n:
                    raise ValueError('value must be %d bytes' % self.n)
                return v

            refuse = ValueError      # how this codec refuses a payload that is not its length (an application codec may use any class)

            def decode(self, b):
                if len(b) != self.n:
                    raise self.refuse('payload must be %d bytes' % self.n)
                return b

            def __len__(self):
                return self.n

        class RawAll(DidCodec):
            def encode(self, v):
                if not isinstance(v, bytes):
                    raise ValueError('value must be bytes')
                return v

            def decode(self, b):
                return b

            def __len__(self):
                raise DidCodec.ReadAllRemainingData
        _codec_classes = (RawCodec, RawAll)
    return _codec_classes


def apply_codec_form(client, form):
    """the application describes its fixed-length DIDs in another documented way; the bytes on the wire stay the same, the values it hands
    over and gets back become tuples of integers:  1: a pack string ('>BBB')   2: a DidCodec instance built from that pack string
    3: its own DidCodec subclass that hands the pack string to DidCodec.__init__ (so it inherits __len__) and overrides encode / decode
    to take and give ONE tuple"""
    from udsoncan import DidCodec
    RawCodec, RawAll = codec_classes()

    class TupleCodec(DidCodec):
        def __init__(self, n):
            DidCodec.__init__(self, '>' + 'B' * n)

        def encode(self, value):
            if not isinstance(value, tuple):
                raise ValueError('one tuple expected')
            return bytes(value)

        def decode(self, payload):
            return tuple(payload)
    d = client.config['data_identifiers']
    client._verif_tuple_dids = set()
    for k in list(d):
        if isinstance(d[k], RawCodec) and d[k].n >= 1:
            ps = '>' + 'B' * d[k].n
            d[k] = ps if form == 1 else (DidCodec(ps) if form == 2 else TupleCodec(d[k].n))
            client._verif_tuple_dids.add(k)


def did_value(client, did, raw):
    """what the application hands to write_data_by_identifier for the bytes `raw`"""
    return tuple(raw) if did in getattr(client, '_verif_tuple_dids', ()) else raw


def mk_codec(shape, refuse=None):
    RawCodec, RawAll = codec_classes()
    c = RawAll() if shape < 0 else RawCodec(shape)
    if refuse is not None and shape >= 0:
        c.refuse = refuse
    return c


def split_cfg(cfgv):
    """-> (base 17 slots, [(did, shape)], [(did, shape, has_mask, mask_size, [masks])])"""
    base = list(cfgv[:CFG_LEN])
    rest = list(cfgv[CFG_LEN:])
    dids, ios = [], []
    if rest:
        nd = rest[0]
        for i in range(nd):
            dids.append((rest[1 + 2 * i], rest[2 + 2 * i]))
        rest = rest[1 + 2 * nd:]
    if rest:
        nio = rest[0]
        pos = 1
        for _ in range(nio):
            did, sh, hm, ms, nm = rest[pos:pos + 5]
            ios.append((did, sh, hm, ms, rest[pos + 5:pos + 5 + nm]))
            pos += 5 + nm
    return base, dids, ios


def make_client(cfgv, extra_cfg=None, io_refuse=None, cb_form=0):
    import udsoncan.client as uc
    setup()
    clk = VClock()
    uc.time = types.SimpleNamespace(monotonic=clk.monotonic)
    conn = _Conn(clk)
    conn.cb_form = cb_form
    cfg = {}
    base, dids, ios = split_cfg(cfgv)
    for slot, key in CFG_KEYS.items():
        cfg[key] = cfg_value(slot, base[slot], conn)
    dcfg = {}
    for did, sh in dids:
        k = 'default' if did < 0 else did
        if k not in dcfg:
            dcfg[k] = mk_codec(sh)
    cfg['data_identifiers'] = dcfg
    icfg = {}
    for did, sh, hm, ms, masks in ios:
        k = 'default' if did < 0 else did
        if k in icfg:
            continue
        if hm or ms >= 0:
            e = {'codec': mk_codec(sh, io_refuse)}
            if hm:
                e['mask'] = {'m%d' % i: v for i, v in enumerate(masks)}
            if ms >= 0:
                e['mask_size'] = ms
            icfg[k] = e
        else:
            icfg[k] = mk_codec(sh, io_refuse)
    cfg['input_output'] = icfg
    if extra_cfg:
        cfg.update(extra_cfg)
    client = uc.Client(conn, config=cfg)
    client._verif_cfg_dict = cfg
    return client, conn, clk


def second_client(client, clk):
    """another Client in the same process, built by the application from the SAME configuration dictionary, on its own connection,
    reconfigured and left inside a suppress block and a payload override; the dictionary itself is edited afterwards as well.  A client
    owns its configuration and its state: nothing of this may change what the first client does."""
    import udsoncan.client as uc
    cfg = client._verif_cfg_dict
    saved = (clk.us, clk.reads)      # what the second client does happened before the history starts
    conn2 = _Conn(clk)
    c2 = uc.Client(conn2, config=cfg)
    conn2.sched = [(clk.us + 1, bytes([0x50, 3, 0x00, 0x01, 0x00, 0x01]))]
    try:
        c2.change_session(3)
    except Exception:
        pass
    mine = client.config['standard_version']
    for key, val in (('standard_version', 2006 if mine != 2006 else 2020), ('exception_on_negative_response', not client.config['exception_on_negative_response']),
                     ('exception_on_invalid_response', not client.config['exception_on_invalid_response']),
                     ('exception_on_unexpected_response', not client.config['exception_on_unexpected_response']),
                     ('tolerate_zero_padding', not client.config['tolerate_zero_padding']), ('ignore_all_zero_dtc', not client.config['ignore_all_zero_dtc']),
                     ('use_server_timing', not client.config['use_server_timing']), ('request_timeout', 0.125), ('p2_timeout', 0.0625), ('p2_star_timeout', 0.25),
                     ('server_address_format', 8), ('server_memorysize_format', 8), ('dtc_snapshot_did_size', 1), ('extended_data_size', 1)):
        try:
            c2.set_config(key, val)
        except Exception:
            pass
    for key, val in (('standard_version', 2013 if mine != 2013 else 2020), ('request_timeout', 0.375), ('security_algo_params', 0x77)):
        cfg[key] = val            # the application edits its own dictionary after having built its clients from it
    c2.suppress_positive_response(wait_nrc=True).__enter__()
    c2.payload_override(b'\x99\x99').__enter__()
    clk.us, clk.reads = saved
    return c2


def enc_resp_obs(r):
    return enc_opt(enc_bytes, r.original_payload) + [enc_bool(r.positive), enc_bool(r.valid), enc_bool(r.unexpected), -1 if r.code is None else r.code]


def us(x):
    return -1 if x is None else int(round(x * 1e6))


# ---- service_data renderers, one per call id (mirrors the sdata of Model/Services.v) ----------------
def sd_change_session(r):
    d = r.service_data
    return [d.session_echo, us(d.p2_server_max), us(d.p2_star_server_max)] + enc_bytes(d.session_param_records)


def sd_seed(r):
    d = r.service_data
    return [d.security_level_echo, 1] + enc_bytes(d.seed)


def sd_key(r):
    return [r.service_data.security_level_echo, 0]


def sd_unlock(r):
    d = r.service_data
    return sd_seed(r) if d.seed is not None else sd_key(r)


def sd_tp(r):
    return [r.service_data.subfunction_echo]


def sd_er(r):
    d = r.service_data
    return [d.reset_type_echo, -1 if d.powerdown_time is None else d.powerdown_time]


def do_call(client, callid, args, blobs):
    """returns (value, renderer)"""
    from udsoncan import Request
    from udsoncan.BaseService import BaseService
    if callid == 1:
        sid, sub, spr, hasd, to = args[:5]
        svc = BaseService.from_request_id(sid) if sid >= 0 else None
        req = None
        if len(args) > 5 and args[5] == 1:
            # the application keeps one Request object and sends it again (a Request is a value: sending it twice is sending two equal requests)
            cache = client.__dict__.setdefault('_verif_requests', {})
            key = (sid, sub, spr, hasd, bytes(blobs[0]) if hasd else None)
            req = cache.get(key)
            if req is None:
                req = cache[key] = Request(svc, None if sub < 0 else sub, bool(spr), blobs[0] if hasd else None)
        if req is None:
            req = Request(svc, None if sub < 0 else sub, bool(spr), blobs[0] if hasd else None)
        return (client.send_request(req) if to < 0 else client.send_request(req, timeout=to / 1e6)), (lambda r: [])
    if callid == 2:
        return client.change_session(args[0]), sd_change_session
    if callid == 3:
        return client.request_seed(args[0], blobs[0]), sd_seed
    if callid == 4:
        return client.send_key(args[0], blobs[0]), sd_key
    if callid == 5:
        return client.unlock_security_access(args[0], blobs[0]), sd_unlock
    if callid == 6:
        return client.tester_present(), sd_tp
    if callid == 7:
        return client.ecu_reset(args[0]), sd_er
    from harness import calls_ext
    return calls_ext.do_call(client, callid, args, blobs)


def enc_outcome(fn):
    """run fn() -> (value, renderer); render like Model.Client.enc_outcome enc_sdata_resp"""
    from udsoncan.exceptions import NegativeResponseException, InvalidResponseException, UnexpectedResponseException
    from udsoncan import Response
    try:
        v, rend = fn()
    except (NegativeResponseException, InvalidResponseException, UnexpectedResponseException) as e:
        return [2, err_code(e), 1] + enc_resp_obs(e.response), e
    except Exception as e:
        return [2, err_code(e), 0], e
    if v is None:
        return [0, 0], None
    if isinstance(v, Response):
        if (not v.positive) or (not v.valid) or v.unexpected:
            return [1] + enc_resp_obs(v), None       # e.response handed back by the decorator
        sd = rend(v)
        return [0, 1] + enc_resp_obs(v) + enc_bytes(sd), None
    return [0, 2] + list(v), None    # non-response return values (composite helpers), rendered by the caller


def timeout_kind(e):
    m = str(e)
    if 'P2* timeout' in m:
        return 2
    if 'P2 timeout' in m:
        return 1
    if 'Global request timeout' in m:
        return 3
    return 0


def enc_state(client):
    st = client.session_timing
    spr = client.suppress_positive_response
    ov = client.payload_override
    return [us(st.p2_server_max), us(st.p2_star_server_max), enc_bool(spr.enabled),
            2 if spr.wait_nrc is None else enc_bool(spr.wait_nrc),
            0 if not ov.enabled else (2 if callable(ov.modifier) else 1)]


def run_history_case(c, extra_cfg=None):
    """c: Case with ints = cfg ++ [nops] ++ ops, blobs in consumption order (see Model/History.v)"""
    a = list(c.ints)
    b = list(c.blobs)
    L = a[0]
    cfgv = a[1:1 + L]
    from harness import wrappers
    # a quarter of the cases each: the codecs of the input_output entries refuse a payload of the wrong length with KeyError / with an
    # exception class of the application's own (any failure of a codec on a response is an invalid response)
    io_refuse = None if wrappers.marked(c, 4) else (KeyError if wrappers.marked(c, 5) else _CodecFailure)
    import zlib
    client, conn, clk = make_client(cfgv, extra_cfg, io_refuse, (zlib.crc32(c.line().encode()) >> 6) & 3)
    client._verif_wrappers = wrappers.marked(c)      # half of the cases go through the convenience methods where one fits
    conn.silence_none = wrappers.marked(c, 1)        # half of the cases (independently) run on a transport that returns None on silence
    client._verif_objects = wrappers.marked(c, 2)    # half of the cases hand helper objects (Dtc, Dtc.Status, Dtc.DtcClass) where an integer is also allowed
    other = second_client(client, clk) if wrappers.marked(c, 3) else None    # half of the cases run next to a second, differently configured client
    client._verif_reuse_objects = client._verif_reuse_memloc = ' / repeated' in c.tag     # the application keeps its argument objects
    pos = 1 + L
    nops = a[pos]
    pos += 1
    out = []
    last_exc = None     # what the call just before this operation raised (None otherwise): "with manager: call()" hands it to __exit__

    def leave(mgr, exc):
        """the end of a with-block: __exit__ gets the exception of the statement that ended the block; a true result swallows it"""
        if exc is None:
            mgr.__exit__(None, None, None)
            return False
        return bool(mgr.__exit__(type(exc), exc, exc.__traceback__))
    for _ in range(nops):
        opc = a[pos]
        cur_exc, last_exc = last_exc, None
        if opc == 0:
            if a[pos + 1] == 2:     # the bare form: with client.suppress_positive_response:
                client.suppress_positive_response.__enter__()
            else:
                client.suppress_positive_response(wait_nrc=(a[pos + 1] == 1)).__enter__()
            pos += 2
        elif opc == 1:
            if leave(client.suppress_positive_response, cur_exc):
                return ['CTX-SWALLOWED', 'suppress_positive_response']
            pos += 1
        elif opc == 2:
            kind = a[pos + 1]
            pre, post = b[0], b[1]
            b = b[2:]
            if kind == 1:
                client.payload_override(pre).__enter__()
            else:
                client.payload_override(lambda p, pre=pre, post=post: pre + p + post).__enter__()
            pos += 2
        elif opc == 3:
            if leave(client.payload_override, cur_exc):
                return ['CTX-SWALLOWED', 'payload_override']
            pos += 1
        elif opc == 4:
            callid, nargs = a[pos + 1], a[pos + 2]
            args = a[pos + 3:pos + 3 + nargs]
            pos += 3 + nargs
            ncb, nfr = a[pos], a[pos + 1]
            pos += 2
            cb, b = b[:ncb], b[ncb:]
            sched = []
            for _ in range(nfr):
                d, kind = a[pos], a[pos + 1]
                pos += 2
                if kind == 0:
                    sched.append((clk.us + conn.send_cost + d, b[0]))     # arrival instants count from the end of the transmission
                    b = b[1:]
                else:
                    sched.append((clk.us + conn.send_cost + d, None))
            conn.sched = sched
            conn.log = []
            t_before = clk.us
            pending_cost = conn.send_cost
            res, exc = enc_outcome(lambda: do_call(client, callid, args, cb))
            if conn.send_cost:
                clk.us += conn.send_cost      # nothing was transmitted (the call was refused first): the time passes all the same
                conn.send_cost = 0
            last_exc = exc
            if exc is not None and type(exc).__name__ == 'TimeoutException':
                conn.log.append([6, timeout_kind(exc)])
            out += res + [len(conn.log)] + [x for e in conn.log for x in e] + [clk.us]
            conn.sched = []
        elif opc == 7:
            code, callid, nargs = a[pos + 1], a[pos + 2], a[pos + 3]
            args = a[pos + 4:pos + 4 + nargs]
            pos += 4 + nargs
            ncb = a[pos]
            pos += 1
            cb, b = b[:ncb], b[ncb:]
            conn.sched = []
            conn.log = []
            conn.send_fault = SEND_FAULTS[code]
            res, exc = enc_outcome(lambda: do_call(client, callid, args, cb))
            conn.send_fault = None
            out += res + [len(conn.log)] + [x for e in conn.log for x in e] + [clk.us]
        elif opc == 5:
            slot, v = a[pos + 1], a[pos + 2]
            try:
                if wrappers.marked(c, 8):      # half of the cases write the entry through set_configs (the several-entries form)
                    client.set_configs({CFG_KEYS[slot]: cfg_value(slot, v, conn)})
                else:
                    client.set_config(CFG_KEYS[slot], cfg_value(slot, v, conn))
            except Exception as e:
                out += [2, err_code(e)]
            pos += 3
        elif opc == 6:
            clk.us += a[pos + 1]
            pos += 2
        elif opc == 8:
            conn.send_cost = a[pos + 1]
            pos += 2
        else:
            raise RuntimeError('bad op %r' % opc)
    return out + enc_state(client)


# ---- case builders ---------------------------------------------------------------------------------
class H:
    """history builder"""

    def __init__(self, cfgv=None, dids=None, ios=None):
        """dids: [(did | -1, shape)] ; ios: [(did | -1, shape, has_mask, mask_size | -1, [mask values])]"""
        self.cfg = list(cfgv if cfgv is not None else DEFAULT_CFG)
        if len(self.cfg) == CFG_LEN:
            from harness import callreg_ext
            dids = callreg_ext.DIDS if dids is None else dids
            ios = callreg_ext.IOS if ios is None else ios
            self.cfg += [len(dids)] + [x for d in dids for x in d]
            self.cfg += [len(ios)]
            for did, sh, hm, ms, masks in ios:
                self.cfg += [did, sh, hm, ms, len(masks)] + list(masks)
        self.ints = []
        self.blobs = []
        self.n = 0

    def spr_enter(self, wait_nrc=False):
        """wait_nrc: False / True, or None for the bare form (the context manager entered without calling it)"""
        self.ints += [0, 2 if wait_nrc is None else (1 if wait_nrc else 0)]
        self.n += 1
        return self

    def spr_exit(self):
        self.ints += [1]
        self.n += 1
        return self

    def ov_const(self, b):
        self.ints += [2, 1]
        self.blobs += [b, b'']
        self.n += 1
        return self

    def ov_fun(self, pre, post):
        self.ints += [2, 2]
        self.blobs += [pre, post]
        self.n += 1
        return self

    def ov_exit(self):
        self.ints += [3]
        self.n += 1
        return self

    def call(self, callid, args=(), blobs=(), replies=()):
        """replies: [(delta_us, bytes | None)]"""
        self.ints += [4, callid, len(args)] + list(args) + [len(blobs), len(replies)]
        self.blobs += list(blobs)
        for d, f in replies:
            self.ints += [d, 0 if f is not None else 1]
            if f is not None:
                self.blobs.append(f)
        self.n += 1
        return self

    def call_send_fault(self, callid, args=(), blobs=(), code=8):
        """the call on a connection whose specific_send raises (error class `code`) after writing the frame"""
        self.ints += [7, code, callid, len(args)] + list(args) + [len(blobs)]
        self.blobs += list(blobs)
        self.n += 1
        return self

    def send_cost(self, us):
        """the next request takes `us` microseconds to transmit (the connection's send blocks that long)"""
        self.ints += [8, us]
        self.n += 1
        return self

    def set_cfg(self, slot, v):
        self.ints += [5, slot, v]
        self.n += 1
        return self

    def advance(self, dt):
        self.ints += [6, dt]
        self.n += 1
        return self

    def case(self, entry, tag):
        from harness.core import Case
        return Case(entry, [len(self.cfg)] + self.cfg + [self.n] + self.ints, self.blobs, tag)


# ---- parsing a rendered history result back into structure (for the oracles) ------------------------
def _parse_resp(r, j):
    """enc_opt enc_bytes payload ++ [positive, valid, unexpected, code] -> (dict, next index)"""
    if r[j] == 0:
        payload = None
        j += 1
    else:
        n = r[j + 1]
        payload = bytes(r[j + 2:j + 2 + n])
        j += 2 + n
    d = {'payload': payload, 'positive': r[j] == 1, 'valid': r[j + 1] == 1, 'unexpected': r[j + 2] == 1, 'code': r[j + 3]}
    return d, j + 4


def _parse_events(r, i):
    n = r[i]
    i += 1
    evs = []
    for _ in range(n):
        t = r[i]
        if t == 1:
            evs.append(('F',)); i += 1
        elif t == 2:
            ln = r[i + 1]
            evs.append(('S', bytes(r[i + 2:i + 2 + ln]))); i += 2 + ln
        elif t == 3:
            evs.append(('W', r[i + 1], r[i + 2])); i += 3
        elif t == 4:
            evs.append(('CB',)); i += 1
        elif t == 5:
            ln = r[i + 3]
            evs.append(('ALGO', r[i + 1], r[i + 2], bytes(r[i + 4:i + 4 + ln]))); i += 4 + ln
        elif t == 6:
            evs.append(('TO', r[i + 1])); i += 2
        else:
            raise RuntimeError('bad trace event %r at %d' % (t, i))
    return evs, i


def parse_calls(r, ncalls):
    """-> ([{kind: 'none'|'ok'|'returned'|'raised'|'value', err, resp, sdata, events, end}], final state list)"""
    i = 0
    out = []
    for _ in range(ncalls):
        d = {'err': None, 'resp': None, 'sdata': None, 'value': None}
        k = r[i]
        if k == 0:
            if r[i + 1] == 0:
                d['kind'] = 'none'
                i += 2
            elif r[i + 1] == 1:
                d['kind'] = 'ok'
                d['resp'], i = _parse_resp(r, i + 2)
                n = r[i]
                d['sdata'] = r[i + 1:i + 1 + n]
                i += 1 + n
            else:
                d['kind'] = 'value'
                n = r[i + 2]
                d['value'] = bytes(r[i + 3:i + 3 + n])
                i += 3 + n
        elif k == 1:
            d['kind'] = 'returned'
            d['resp'], i = _parse_resp(r, i + 1)
        else:
            d['kind'] = 'raised'
            d['err'] = r[i + 1]
            if r[i + 2] == 1:
                d['resp'], i = _parse_resp(r, i + 3)
            else:
                i += 3
        d['events'], i = _parse_events(r, i)
        d['end'] = r[i]
        i += 1
        out.append(d)
    return out, r[i:]


# what each property observes of a call, for the WIDE stream (histories drawn with every dimension at once run under every client
# property): a difference between implementation and model counts for a property only if it shows in that property's own observables -
# a defect in, say, the encoding of 64-bit widths is C01 / C14's business and must not raise an alarm under C05
ASPECTS = {'C01': 'sent', 'C07': 'sent', 'C14': 'sent', 'C18': 'sent', 'C02': 'decoded', 'C03': 'decoded', 'C11': 'decoded',
           'C05': 'timing', 'C10': 'timing', 'C06': 'outcome', 'C08': 'outcome', 'C09': 'wire', 'C13': 'wire', 'C15': 'wire'}


def wide_projection(prop, c, r):
    aspect = ASPECTS.get(prop)
    if aspect is None or not isinstance(r, list):
        return ('all', repr(r))
    try:
        ops = case_ops(c)[1]
        ncalls = len([o for o in ops if o[0] in ('call', 'call_send_fault')])
        calls, state = parse_calls(r, ncalls)
    except Exception:
        return ('unparsed', repr(r))
    out = []
    for d in calls:
        ev = d['events']
        sent = tuple(e[1] for e in ev if e[0] == 'S')
        waits = tuple((e[1], e[2]) for e in ev if e[0] == 'W')
        tos = tuple(e[1] for e in ev if e[0] == 'TO')
        resp = d['resp'] or {}
        if aspect == 'sent':
            out.append((sent, (d['kind'], d['err']) if not sent else None))
        elif aspect == 'decoded':
            out.append((d['kind'], d['err'], tuple(d['sdata'] or ()), d['value'], resp.get('valid'), resp.get('unexpected')))
        elif aspect == 'timing':
            out.append((waits, tos, d['end'], d['kind'] == 'raised' and d['err'] == 4))
        elif aspect == 'outcome':
            out.append((d['kind'], d['err'], resp.get('code'), resp.get('positive'), resp.get('valid'), resp.get('unexpected'), resp.get('payload'),
                        len([e for e in ev if e[0] == 'CB'])))
        else:
            out.append((sent, tuple(e[0] for e in ev), tuple(e[1:] for e in ev if e[0] == 'ALGO'), d['kind'] == 'none'))
    if aspect == 'timing':
        out.append(tuple(state[:2]))
    if aspect == 'wire':
        out.append(tuple(state[2:]))
    return out


def wide_relevant(prop, c, r, m):
    """does the difference between implementation result r and model result m concern property `prop`?  For the properties that are not
    about the request itself, calls are compared only as long as both sides transmitted the same frames: once the requests differ (or one
    side refused the call) what follows is the business of the properties about requests"""
    aspect = ASPECTS.get(prop)
    if aspect is None or aspect == 'sent':
        return wide_projection(prop, c, r) != wide_projection(prop, c, m)
    try:
        ops = case_ops(c)[1]
        ncalls = len([o for o in ops if o[0] in ('call', 'call_send_fault')])
        cr, _ = parse_calls(r, ncalls)
        cm, _ = parse_calls(m, ncalls)
    except Exception:
        return True
    pr, pm = wide_projection(prop, c, r), wide_projection(prop, c, m)
    for k in range(ncalls):
        sr = tuple(e[1] for e in cr[k]['events'] if e[0] == 'S')
        sm = tuple(e[1] for e in cm[k]['events'] if e[0] == 'S')
        if sr != sm:
            return False
        if pr[k] != pm[k]:
            return True
    return pr[ncalls:] != pm[ncalls:]


def case_ops(c):
    """decode the ops of a history case (mirror of Model/History.v decode_ops) for the oracles"""
    a = list(c.ints)
    b = list(c.blobs)
    L = a[0]
    cfgv = a[1:1 + L]
    pos = 1 + L
    nops = a[pos]
    pos += 1
    ops = []
    for _ in range(nops):
        opc = a[pos]
        if opc == 0:
            ops.append(('spr_enter', None if a[pos + 1] == 2 else a[pos + 1] == 1)); pos += 2
        elif opc == 1:
            ops.append(('spr_exit',)); pos += 1
        elif opc == 2:
            ops.append(('ov_enter', a[pos + 1], b[0], b[1])); b = b[2:]; pos += 2
        elif opc == 3:
            ops.append(('ov_exit',)); pos += 1
        elif opc == 4:
            callid, nargs = a[pos + 1], a[pos + 2]
            args = a[pos + 3:pos + 3 + nargs]
            pos += 3 + nargs
            ncb, nfr = a[pos], a[pos + 1]
            pos += 2
            cb, b = b[:ncb], b[ncb:]
            reps = []
            for _ in range(nfr):
                d, kind = a[pos], a[pos + 1]
                pos += 2
                if kind == 0:
                    reps.append((d, b[0])); b = b[1:]
                else:
                    reps.append((d, None))
            ops.append(('call', callid, args, cb, reps))
        elif opc == 5:
            ops.append(('set_cfg', a[pos + 1], a[pos + 2])); pos += 3
        elif opc == 6:
            ops.append(('advance', a[pos + 1])); pos += 2
        elif opc == 8:
            ops.append(('send_cost', a[pos + 1])); pos += 2
        elif opc == 7:
            code, callid, nargs = a[pos + 1], a[pos + 2], a[pos + 3]
            args = a[pos + 4:pos + 4 + nargs]
            pos += 4 + nargs
            ncb = a[pos]
            pos += 1
            cb, b = b[:ncb], b[ncb:]
            ops.append(('call_send_fault', callid, args, cb, code))
    return cfgv, ops
