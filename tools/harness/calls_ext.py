"""Client calls beyond the core seven: invocation on the real client and rendering of service_data exactly as
the sdata of Model/Svc_*.v."""
from harness.core import enc_bytes, enc_opt


def oi(a, i):
    return a[i + 1] if a[i] == 1 else None


def ob(a, i, b, j):
    return b[j] if a[i] == 1 else None


# ---- renderers ----------------------------------------------------------------------------------------
def sd_none(r):
    return []


def sd_routine(r):
    d = r.service_data
    return [d.control_type_echo, d.routine_id_echo] + enc_bytes(d.routine_status_record)


def sd_atp(r):
    d = r.service_data
    return [d.access_type_echo] + enc_bytes(d.timing_param_record)


def sd_cc(r):
    return [r.service_data.control_type_echo]


def sd_td(r):
    d = r.service_data
    return [d.sequence_number_echo] + enc_bytes(d.parameter_records)


def sd_rte(r):
    return enc_bytes(r.service_data.parameter_records)


def sd_lc(r):
    return [r.service_data.control_type_echo]


def sd_cds(r):
    return [r.service_data.setting_type_echo]


def sd_rmba(r):
    return enc_bytes(r.service_data.memory_block)


def sd_wmba(r):
    d = r.service_data
    return [d.alfid_echo, d.memory_location_echo.address, d.memory_location_echo.memorysize]


def sd_rud(r):
    return [r.service_data.max_length]


def sd_dddi(r):
    d = r.service_data
    return [d.subfunction_echo, -1 if d.did_echo is None else d.did_echo]


def sd_rdbi(r):
    v = r.service_data.values
    out = [len(v)]
    for k in sorted(v):
        out += [k] + enc_bytes(bytes(v[k]) if isinstance(v[k], tuple) else v[k])     # a pack-string codec gives its bytes as a tuple of integers
    return out


def sd_wdbi(r):
    return [r.service_data.did_echo]


def sd_io(r):
    d = r.service_data
    return [d.did_echo, -1 if d.control_param_echo is None else d.control_param_echo] + enc_bytes(d.decoded_data if d.decoded_data is not None else b'')


def m1(v):
    return -1 if v is None else v


def sd_rft(r):
    d = r.service_data
    fs = d.filesize
    return [d.moop_echo, m1(d.max_length), -1 if d.dfi is None else d.dfi.get_byte_as_int(),
            -1 if fs is None else m1(fs.uncompressed), -1 if fs is None else m1(fs.compressed), m1(d.dirinfo_length), m1(d.fileposition)]


def sd_auth(r):
    d = r.service_data
    out = [d.authentication_task_echo, d.return_value]
    for f in (d.challenge_server, d.ephemeral_public_key_server, d.certificate_server, d.proof_of_ownership_server,
              d.session_key_info, d.algorithm_indicator, d.needed_additional_parameter):
        out += enc_opt(enc_bytes, f)
    return out


def enc_dtc(t):
    out = [t.id, t.status.get_byte_as_int(), t.severity.get_byte_as_int(), m1(t.functional_unit), m1(t.fault_counter)]
    out.append(len(t.snapshots))
    for s in t.snapshots:
        if isinstance(s, int):
            out += [0, s]
        else:
            out += [1, s.record_number, s.did] + enc_bytes(s.raw_data)
    out.append(len(t.extended_data))
    for e in t.extended_data:
        out += [e.record_number] + enc_bytes(e.raw_data)
    return out


def sd_dtc(r):
    d = r.service_data
    out = [d.subfunction_echo, m1(d.memory_selection_echo), -1 if d.status_availability is None else d.status_availability.get_byte_as_int(),
           -1 if d.severity_availability is None else d.severity_availability.get_byte_as_int(), m1(d.dtc_format), m1(d.functional_group_id),
           d.dtc_count, len(d.dtcs)]
    for t in d.dtcs:
        out += enc_dtc(t)
    return out


# ---- invocation ----------------------------------------------------------------------------------------
def memloc(a, i, client=None):
    """the MemoryLocation argument of a call.  When the client carries the mark _verif_reuse_memloc the application keeps ONE
    MemoryLocation per (explicit address format, explicit size format) and moves it along by assigning .address / .memorysize
    (its attributes are public); a location is a value: the request must be the one a fresh object would give."""
    from udsoncan import MemoryLocation
    af, sf = oi(a, i + 2), oi(a, i + 4)
    if client is not None and getattr(client, '_verif_reuse_memloc', False):
        cache = client.__dict__.setdefault('_verif_memlocs', {})
        m = cache.get((af, sf))
        if m is not None:
            m.address, m.memorysize = a[i], a[i + 1]
            return m
        try:
            m = cache[(af, sf)] = MemoryLocation(a[i], a[i + 1], address_format=af, memorysize_format=sf)
        except Exception:
            cache.pop((af, sf), None)
            raise
        return m
    return MemoryLocation(a[i], a[i + 1], address_format=af, memorysize_format=sf)


def do_call(client, callid, a, b):
    from udsoncan import (MemoryLocation, DataFormatIdentifier, CommunicationType, Baudrate, DynamicDidDefinition, Filesize, IOValues, IOMasks)
    if callid == 8:
        return client.clear_dtc(a[0], memory_selection=oi(a, 1)), sd_none
    W = getattr(client, '_verif_wrappers', False)
    from harness import wrappers
    if callid == 9:
        if W and a[1] in wrappers.ROUTINE:
            m = getattr(client, wrappers.ROUTINE[a[1]])
            d = ob(a, 2, b, 0)
            return (m(a[0]) if d is None else m(a[0], d)), sd_routine
        return client.routine_control(a[0], a[1], ob(a, 2, b, 0)), sd_routine
    if callid == 10:
        rec = ob(a, 1, b, 0)
        if W and a[0] in (1, 2, 3) and rec is None:
            return getattr(client, wrappers.TIMING[a[0]])(), sd_atp
        if W and a[0] == 4 and rec is not None:
            return client.set_timing_parameters(rec), sd_atp
        return client.access_timing_parameter(a[0], ob(a, 1, b, 0)), sd_atp
    if callid == 11:
        ct = CommunicationType(a[2], bool(a[3]), bool(a[4])) if a[1] == 0 else (bytes(b[0]) if a[1] == 2 else a[2])
        return client.communication_control(a[0], ct, oi(a, 5)), sd_cc
    if callid == 13:
        return client.transfer_data(a[0], ob(a, 1, b, 0)), sd_td
    if callid == 14:
        return client.request_transfer_exit(ob(a, 0, b, 0)), sd_rte
    if callid == 15:
        baud = Baudrate(a[2], a[3]) if a[1] == 1 else None
        return client.link_control(a[0], baud), sd_lc
    if callid == 16:
        return client.control_dtc_setting(a[0], ob(a, 1, b, 0)), sd_cds
    if callid == 17:
        return client.read_memory_by_address(memloc(a, 0, client)), sd_rmba
    if callid == 18:
        return client.write_memory_by_address(memloc(a, 0, client), b[0]), sd_wmba
    if callid == 19:
        dfi = DataFormatIdentifier(a[8], a[9]) if a[7] == 1 else None
        ml = memloc(a, 1, client)
        return (client.request_upload(ml, dfi) if a[0] == 1 else client.request_download(ml, dfi)), sd_rud
    if callid == 20:
        did, kind, n = a[0], a[1], a[2]
        df = DynamicDidDefinition()
        if kind == 1:
            for i in range(n):
                df.add(a[3 + 3 * i], a[4 + 3 * i], a[5 + 3 * i])
        else:
            for i in range(n):
                df.add(memloc(a, 3 + 6 * i, client if n == 1 else None))
        return client.dynamically_define_did(did, df), sd_dddi
    if callid == 21:
        if W:
            did = oi(a, 0)
            return (client.clear_all_dynamically_defined_did() if did is None else client.clear_dynamically_defined_did(did)), sd_dddi
        return client.do_clear_dynamically_defined_did(oi(a, 0)), sd_dddi
    if callid == 22:
        return client.read_data_by_identifier(list(a[1:1 + a[0]])), sd_rdbi
    if callid == 23:
        v = client.read_data_by_identifier_first(list(a[1:1 + a[0]]))
        if v is None or hasattr(v, 'service_data'):
            return v, sd_rdbi
        return enc_bytes(v), None
    if callid == 24:
        return client.test_data_identifier(list(a[1:1 + a[0]])), sd_none
    if callid == 25:
        from harness.clientlib import did_value
        return client.write_data_by_identifier(a[0], did_value(client, a[0], b[0])), sd_wdbi
    if callid == 26:
        values = [b[0]] if a[3] == 1 else None
        if a[4] == 0:
            masks = None
        elif a[4] == 1:
            masks = bool(a[5])
        else:
            masks = {'m%d' % a[6 + 2 * i]: bool(a[7 + 2 * i]) for i in range(a[5])}
            if getattr(client, '_verif_reuse_objects', False) or getattr(client, '_verif_wrappers', False):
                # the application builds its IOMasks (and IOValues) objects once and hands the same objects to every call
                cache = client.__dict__.setdefault('_verif_iomasks', {})
                key = tuple(sorted(masks.items()))
                if key not in cache:
                    cache[key] = IOMasks(**masks)
                masks = cache[key]
        return client.io_control(a[0], control_param=oi(a, 1), values=values, masks=masks), sd_io
    if callid == 27:
        dfi = DataFormatIdentifier(a[2], a[3]) if a[1] == 1 else None
        if a[4] == 0:
            fs = None
        elif a[4] == 1:
            fs = a[5]
        else:
            u, c, w = oi(a, 6), oi(a, 8), oi(a, 10)
            fs = None
            if getattr(client, '_verif_reuse_objects', False) and w is not None and u is not None:
                # the application keeps ONE Filesize object per (compressed size given?, width) and updates the sizes it knows
                # (public attributes) before the next transfer: the request must be the one a fresh object would give
                cache = client.__dict__.setdefault('_verif_filesizes', {})
                fs = cache.get((c is None, w))
                if fs is not None:
                    fs.uncompressed = u
                    if c is not None:
                        fs.compressed = c
            if fs is None:
                fs = Filesize(uncompressed=u, compressed=c, width=w)
                if getattr(client, '_verif_reuse_objects', False) and w is not None and u is not None:
                    client.__dict__.setdefault('_verif_filesizes', {})[(c is None, w)] = fs
        if W and a[0] in wrappers.FILE:
            wname, wnames = wrappers.FILE[a[0]]
            if all(v is None for n, v in (('dfi', dfi), ('fs', fs)) if n not in wnames):
                wargs = [{'dfi': dfi, 'fs': fs}[n] for n in wnames]
                while wargs and wargs[-1] is None:
                    wargs.pop()
                return getattr(client, wname)(b[0].decode('latin-1'), *wargs), sd_rft
        return client.request_file_transfer(a[0], b[0].decode('latin-1'), dfi, fs), sd_rft
    if callid == 28 and W and a[0] in wrappers.AUTH:
        vals = {'cc': oi(a, 1), 'evalid': oi(a, 3), 'cert': ob(a, 5, b, 0), 'chal': ob(a, 6, b, 1), 'algo': ob(a, 7, b, 2), 'certdata': ob(a, 8, b, 3),
                'pown': ob(a, 9, b, 4), 'eph': ob(a, 10, b, 5), 'add': ob(a, 11, b, 6)}
        wname, wnames = wrappers.AUTH[a[0]]
        wargs = wrappers.narrow(vals, wnames, wrappers.AUTH_ALL)
        if wargs is not None and all(x is not None for x in wargs):
            return getattr(client, wname)(*wargs), sd_auth
    if callid == 28:
        return client.authentication(a[0], communication_configuration=oi(a, 1), certificate_evaluation_id=oi(a, 3),
                                     certificate_client=ob(a, 5, b, 0), challenge_client=ob(a, 6, b, 1), algorithm_indicator=ob(a, 7, b, 2),
                                     certificate_data=ob(a, 8, b, 3), proof_of_ownership_client=ob(a, 9, b, 4),
                                     ephemeral_public_key_client=ob(a, 10, b, 5), additional_parameter=ob(a, 11, b, 6)), sd_auth
    if callid == 29:
        from udsoncan import Dtc
        sev = oi(a, 3)
        if sev is not None and a[5] == 1:
            sev = Dtc.Severity.from_byte(sev & 0xFF)
        status, dtc_class, dtc = oi(a, 1), oi(a, 6), oi(a, 8)
        if getattr(client, '_verif_objects', False):
            # the documented alternative forms of the arguments: Dtc.Status, Dtc.DtcClass and Dtc objects instead of integers (an
            # integer that no object can carry stays an integer)
            if status is not None and 0 <= status <= 0xFF:
                status = Dtc.Status.from_byte(status)
            if dtc_class is not None and 0 <= dtc_class <= 0x1F:
                dtc_class = Dtc.DtcClass.from_byte(dtc_class)
            if dtc is not None:
                dtc = Dtc(dtc)
        if W and a[0] in wrappers.DTC:
            vals = {'status': status, 'severity': sev, 'dtc_class': dtc_class, 'dtc': dtc, 'snap': oi(a, 10), 'ext': oi(a, 12),
                    'memsel': oi(a, 14), 'fgid': oi(a, 16), 'ext_size': oi(a, 18)}
            wname, wnames = wrappers.DTC[a[0]]
            wargs = wrappers.narrow(vals, wnames, wrappers.DTC_ALL)
            if wargs is not None and all(x is not None for n, x in zip(wnames, wargs) if n != 'ext_size'):
                if 'ext_size' in wnames and vals['ext_size'] is None:
                    wargs = wargs[:-1]
                return getattr(client, wname)(*wargs), sd_dtc
        return client.read_dtc_information(a[0], status_mask=status, severity_mask=sev, dtc_class=dtc_class, dtc=dtc,
                                           snapshot_record_number=oi(a, 10), extended_data_record_number=oi(a, 12),
                                           memory_selection=oi(a, 14), functional_group_id=oi(a, 16), extended_data_size=oi(a, 18)), sd_dtc
    raise RuntimeError('unknown call id %d' % callid)
