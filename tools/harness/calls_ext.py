"""client calls beyond the core seven (filled in as service families are modelled)"""


def do_call(client, callid, args, blobs):
    raise RuntimeError('unknown call id %d' % callid)
