"""The convenience methods of the client (start_routine, get_dtc_by_status_mask, add_file, deauthenticate, ...), written from the
library documentation: which generic call each one stands for and which arguments it takes.  When a case is marked for it and the
arguments fit the narrower signature, the harness calls the convenience method instead of the generic one; the model and the oracles
always see the generic call, so a wrapper that selects another subfunction or drops an argument shows up as a disagreement."""
import zlib

DTC = {  # report type -> (method, argument names in the method's order)
    0x02: ('get_dtc_by_status_mask', ['status']), 0x17: ('get_user_defined_memory_dtc_by_status_mask', ['status', 'memsel']),
    0x13: ('get_emission_dtc_by_status_mask', ['status']), 0x0F: ('get_mirrormemory_dtc_by_status_mask', ['status']),
    0x08: ('get_dtc_by_status_severity_mask', ['status', 'severity']),
    0x42: ('get_wwh_obd_dtc_by_status_mask', ['fgid', 'status', 'severity', 'dtc_class']), 0x55: ('get_wwh_obd_dtc_with_permanent_status', ['fgid']),
    0x01: ('get_number_of_dtc_by_status_mask', ['status']), 0x11: ('get_mirrormemory_number_of_dtc_by_status_mask', ['status']),
    0x12: ('get_number_of_emission_dtc_by_status_mask', ['status']), 0x07: ('get_number_of_dtc_by_status_severity_mask', ['status', 'severity']),
    0x09: ('get_dtc_severity', ['dtc']), 0x0A: ('get_supported_dtc', []), 0x0B: ('get_first_test_failed_dtc', []),
    0x0C: ('get_first_confirmed_dtc', []), 0x0D: ('get_most_recent_test_failed_dtc', []), 0x0E: ('get_most_recent_confirmed_dtc', []),
    0x15: ('get_dtc_with_permanent_status', []), 0x14: ('get_dtc_fault_counter', []), 0x03: ('get_dtc_snapshot_identification', []),
    0x04: ('get_dtc_snapshot_by_dtc_number', ['dtc', 'snap']), 0x18: ('get_user_defined_dtc_snapshot_by_dtc_number', ['dtc', 'memsel', 'snap']),
    0x05: ('get_dtc_snapshot_by_record_number', ['snap']), 0x06: ('get_dtc_extended_data_by_dtc_number', ['dtc', 'ext', 'ext_size']),
    0x16: ('get_dtc_extended_data_by_record_number', ['ext', 'ext_size']),
    0x19: ('get_user_defined_dtc_extended_data_by_dtc_number', ['dtc', 'memsel', 'ext', 'ext_size']),
    0x10: ('get_mirrormemory_dtc_extended_data_by_dtc_number', ['dtc', 'ext', 'ext_size']),
}
DTC_ALL = ['status', 'severity', 'dtc_class', 'dtc', 'snap', 'ext', 'memsel', 'fgid', 'ext_size']
ROUTINE = {1: 'start_routine', 2: 'stop_routine', 3: 'get_routine_result'}
TIMING = {1: 'read_extended_timing_parameters', 2: 'reset_default_timing_parameters', 3: 'read_active_timing_parameters', 4: 'set_timing_parameters'}
FILE = {1: ('add_file', ['dfi', 'fs']), 2: ('delete_file', []), 3: ('replace_file', ['dfi', 'fs']), 4: ('read_file', ['dfi']), 5: ('read_dir', []),
        6: ('resume_file', ['dfi', 'fs'])}
AUTH = {0: ('deauthenticate', []), 1: ('verify_certificate_unidirectional', ['cc', 'cert', 'chal']), 2: ('verify_certificate_bidirectional', ['cc', 'cert', 'chal']),
        3: ('proof_of_ownership', ['pown', 'eph']), 4: ('transmit_certificate', ['evalid', 'certdata']), 5: ('request_challenge_for_authentication', ['cc', 'algo']),
        6: ('verify_proof_of_ownership_unidirectional', ['algo', 'pown', 'chal', 'add']), 7: ('verify_proof_of_ownership_bidirectional', ['algo', 'pown', 'chal', 'add']),
        8: ('authentication_configuration', [])}
AUTH_ALL = ['cc', 'evalid', 'cert', 'chal', 'algo', 'certdata', 'pown', 'eph', 'add']


def marked(case, bit=0):
    """half of the cases, chosen by the case itself (so that a replay makes the same choice); bit selects an independent half"""
    return ((zlib.crc32(case.line().encode()) >> bit) & 1) == 0


def narrow(values, names, all_names):
    """positional arguments for the method if every argument it does not take is absent, else None"""
    if any(values[n] is not None for n in all_names if n not in names):
        return None
    return [values[n] for n in names]


def dtc(client, sub, values):
    w = DTC.get(sub)
    if w is None:
        return None
    args = narrow(values, w[1], DTC_ALL)
    if args is None:
        return None
    if 'ext_size' in w[1] and values['ext_size'] is None:
        args = args[:-1]            # data_size has a default (None): leave it out as a caller would
    return getattr(client, w[0])(*args)


def file(client, moop, path, values):
    w = FILE.get(moop)
    if w is None:
        return None
    args = narrow(values, w[1], ['dfi', 'fs'])
    if args is None:
        return None
    while args and args[-1] is None:
        args.pop()                  # trailing optional arguments left at their default
    return getattr(client, w[0])(path, *args)


def auth(client, task, values):
    w = AUTH.get(task)
    if w is None:
        return None
    args = narrow(values, w[1], AUTH_ALL)
    if args is None or any(x is None for x in args):
        return None                 # the convenience methods take all their arguments as required
    return getattr(client, w[0])(*args)
