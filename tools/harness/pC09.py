"""C09 - response suppression sets bit 7, returns None, and never outlives its with-block.
Grammar-generated histories (<= 12 ops quick, <= 40 thorough) over every modelled entry point, wait_nrc on/off,
replies of every class, overrides by constant and by function, plus a systematic part: every entry point x
{inside not waiting, inside waiting} x reply kinds, followed by the same call after the block."""
import random
from harness.core import Case
from harness import clientlib as cl
from harness import histgen
from harness.callreg import invocations

WIDE = 200000        # thorough tier: histories of the wide correspondence stream (widegen.py), judged by the model and the generic rule
WIDE_QUICK = 2000
PROP = 'C09'
EXHAUSTIVE = False
RULE = ('systematic: every modelled entry point x wait_nrc x 12 reply kinds inside a block then the same call after the block; '
        'random: grammar histories. non-trivial = the history contains a call inside a suppress block (distinct case lines)')
ASSUMPTIONS = ['the single SuppressPositiveResponse object is not re-entered while active (self-nesting is outside the property)']


def gen_cases(tier, seed):
    rnd = random.Random(seed)
    invs = invocations()
    for inv in invs:
        for wait in (False, True):
            for kind, _ in histgen.reply_kinds(inv, rnd):
                for ovk in (0, 1, 2):
                    if ovk and kind not in ('positive', 'negative', 'silence'):
                        continue
                    cfgv = list(cl.DEFAULT_CFG)
                    for s, v in inv.cfg.items():
                        cfgv[s] = v
                    h = cl.H(cfgv)
                    if ovk == 1:
                        h.ov_const(b'\x99\x98')
                    if ovk == 2:
                        h.ov_fun(b'\x01', b'\x02\x03')
                    h.spr_enter(wait)
                    histgen.add_call(h, rnd, inv, kind=kind)
                    h.spr_exit()
                    if ovk:
                        h.ov_exit()
                    histgen.add_call(h, rnd, inv, kind='positive')
                    yield h.case(5000, 'systematic %s' % inv.name)
    # a second block entered in the bare form ("with client.suppress_positive_response:") after a block that asked for
    # wait_nrc: the earlier request must not outlive its block
    for inv in invs:
        for first in (True, False):
            for kind, _ in histgen.reply_kinds(inv, rnd):
                if kind not in ('positive', 'negative', 'silence'):
                    continue
                cfgv = list(cl.DEFAULT_CFG)
                for s, v in inv.cfg.items():
                    cfgv[s] = v
                h = cl.H(cfgv)
                h.spr_enter(first)
                histgen.add_call(h, rnd, inv, kind='silence')
                h.spr_exit()
                h.spr_enter(None)
                histgen.add_call(h, rnd, inv, kind=kind)
                h.spr_exit()
                histgen.add_call(h, rnd, inv, kind='positive')
                yield h.case(5000, 'bare block after a block %s' % inv.name)
    # one Request object sent inside a block and again after it (and before, inside, after): the block must not leave a
    # mark on the object
    for inv in invs:
        if inv.callid != 1:
            continue
        for wait in (False, True):
            for kind in ('positive', 'negative', 'silence'):
                for before in (False, True):
                    cfgv = list(cl.DEFAULT_CFG)
                    h = cl.H(cfgv)
                    args = list(inv.args) + [1]
                    if before:
                        h.call(1, args, inv.blobs, [(10, inv.positive)])
                    h.spr_enter(wait)
                    h.call(1, args, inv.blobs, dict(histgen.reply_kinds(inv, rnd)).get(kind, []))
                    h.spr_exit()
                    h.call(1, args, inv.blobs, [(10, inv.positive)])
                    h.call(1, args, inv.blobs, [(10, bytes([0x7F, inv.sid, 0x22]))])
                    yield h.case(5000, 'same Request object inside and after a block')
    n, m = (3000, 12) if tier == 'quick' else (100000, 40)
    for _ in range(n):
        h, tags = histgen.gen_history(rnd, m, invs, p_stale=0.05)
        yield h.case(5000, 'random history')


def worker_init():
    cl.setup()


def impl(c):
    return cl.run_history_case(c)


def unsuppressed_payload(cfgv, callid, args, cb):
    """what the same call transmits on a fresh client outside any block (None if it sends nothing)"""
    h = cl.H(cfgv).call(callid, args, cb, [])
    r = cl.run_history_case(h.case(5000, ''))
    d = cl.parse_calls(r, 1)[0][0]
    s = [e[1] for e in d['events'] if e[0] == 'S']
    return s[0] if s else None


def has_subfunction(sid):
    from udsoncan.BaseService import BaseService
    svc = BaseService.from_request_id(sid)
    return svc is not None and svc.use_subfunction()


def oracle(c, r):
    cfgv, ops = cl.case_ops(c)
    calls, final = cl.parse_calls(r, histgen.ncalls(c))
    cur = list(cfgv)
    inside, wait, ov = False, False, None
    i = 0
    for o in ops:
        if o[0] == 'spr_enter':
            inside = True
            if o[1] is not None:      # the bare form does not ask to wait: whatever an earlier, exited block asked for is over
                wait = o[1]
        elif o[0] == 'spr_exit':
            inside, wait = False, False
        elif o[0] == 'ov_enter':
            ov = o
        elif o[0] == 'ov_exit':
            ov = None
        elif o[0] == 'set_cfg':
            cur[o[1]] = o[2]
        elif o[0] == 'call':
            d = calls[i]
            i += 1
            _, callid, args, cb, reps = o
            if callid == 1 and args[2] == 1:
                continue   # the request object itself asks for suppression: not the with-block
            base = unsuppressed_payload(cur, callid, args, cb)
            sent = [e[1] for e in d['events'] if e[0] == 'S']
            if base is None:
                if sent:
                    return ('sent-although-rejected', 'a frame was sent for a call that sends nothing outside the block')
                continue
            if not sent:
                return ('nothing-sent', 'call sent nothing inside/after the block but sends %s normally' % base.hex())
            sub = has_subfunction(base[0])
            want = base
            if inside and sub:
                want = base[:1] + bytes([base[1] | 0x80]) + base[2:]
            if ov is not None:
                want = ov[2] if ov[1] == 1 else ov[2] + want + ov[3]
            if sent[0] != want:
                return ('bit7' if ov is None else 'bit7-override', '%s block: sent %s, expected %s (unsuppressed %s)' % (
                    'inside' if inside else 'outside', sent[0].hex(), want.hex(), base.hex()))
            if inside and sub:
                nw = len([e for e in d['events'] if e[0] == 'W'])
                if not wait:
                    if d['kind'] != 'none' or nw != 0 or len(sent) != 1:
                        return ('not-none-immediately', 'inside a block, not waiting: kind=%s waits=%d frames=%d' % (d['kind'], nw, len(sent)))
                else:
                    if d['kind'] == 'raised' and d['err'] == 4:
                        return ('timeout-in-block', 'wait_nrc: a timeout error was raised')
                    if d['kind'] in ('ok', 'value'):
                        return ('response-in-block', 'wait_nrc: a response object was returned')
                    if d['kind'] == 'raised' and d['err'] >= 20:
                        return ('internal-error-in-block', 'internal error %d inside a suppress block' % d['err'])
            if inside and d['kind'] == 'raised' and d['err'] >= 20:
                return ('internal-error-in-block', 'internal error %d inside a suppress block' % d['err'])
    if not inside and final[2] != 0:
        return ('enabled-after-exit', 'suppression still enabled after the block')
    return None


def nontrivial(c, r):
    inside = False
    for o in cl.case_ops(c)[1]:
        if o[0] == 'spr_enter':
            inside = True
        elif o[0] == 'spr_exit':
            inside = False
        elif o[0] == 'call' and inside:
            return True
    return False


def describe(c):
    return 'cfg=%r ops=%r' % cl.case_ops(c)
