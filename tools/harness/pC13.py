"""C13 - security unlock sends a seed request, then exactly the computed key, or nothing.
All 126 levels (+ out-of-range neighbours) x seed lengths 1..8 x seed outcomes x key outcomes x the algorithm
signatures (seed) / (seed, params) / (level, seed, params) / callable object / not configured / an algorithm that raises x both exception settings."""
import random
from harness.core import Case
from harness import clientlib as cl

WIDE = 200000        # thorough tier: histories of the wide correspondence stream (widegen.py), judged by the model and the generic rule
WIDE_QUICK = 2000
PROP = 'C13'
EXHAUSTIVE = True
RULE = ('levels 0..0x7F x {non-zero seed, all-zero seed, negative, truncated, wrong level echo, other service, silence, '
        'pending then seed, echo with bit 7 set} x algorithm kinds 0..8 x key reply {positive, negative, silence}; seed lengths 1..8; '
        'the seed reply echoing each of the 256 byte values for 5 levels (quick) / every level (thorough). '
        'non-trivial = a seed request was transmitted (distinct case lines)')
ASSUMPTIONS = ['the executable algorithm instances compute reversed(seed) ++ extras; any algorithm is covered by the theorem (section variable style: result is opaque)']


def gen_cases(tier, seed):
    rnd = random.Random(seed)
    for level in range(0, 0x80):
        odd = level if level % 2 == 1 else level - 1
        even = odd + 1
        for algo in (0, 1, 2, 3, 4, 5, 6, 7, 8):
            if tier == 'quick' and algo in (0, 4) and level not in (1, 2, 0x7D, 0x7E, 0, 0x7F):
                continue
            for ex in (1, 0):
                slen = 1 + (level % 8)
                nz = bytes([rnd.randrange(1, 256)] + [rnd.randrange(256) for _ in range(slen - 1)])
                seeds = [('nonzero', [(10, bytes([0x67, odd & 0xFF]) + nz)]),
                         ('zero', [(10, bytes([0x67, odd & 0xFF]) + bytes(slen))]),
                         ('zero-one-nonzero', [(10, bytes([0x67, odd & 0xFF]) + bytes(slen - 1) + b'\x01')]),
                         ('negative', [(10, b'\x7f\x27\x33')]), ('truncated', [(10, bytes([0x67, odd & 0xFF]))]),
                         ('wrong-echo', [(10, bytes([0x67, (odd + 2) & 0x7F]) + nz)]), ('even-echo', [(10, bytes([0x67, even & 0xFF]) + nz)]),
                         ('echo-bit7', [(10, bytes([0x67, (odd | 0x80) & 0xFF]) + nz)]),
                         ('other-service', [(10, b'\x50\x01\x00\x10\x00\x10')]), ('silence', []),
                         ('pending-seed', [(10, b'\x7f\x27\x78'), (20, bytes([0x67, odd & 0xFF]) + nz)])]
                if tier == 'quick' and ex == 0:
                    seeds = [seeds[0], seeds[3], seeds[5], seeds[7]]
                for sname, srep in seeds:
                    keyreps = [('key-ok', [(1000, bytes([0x67, even & 0xFF]))]), ('key-neg', [(1000, b'\x7f\x27\x35')]), ('key-silence', [])]
                    if sname not in ('nonzero', 'pending-seed') or (tier == 'quick' and level % 16 != 1):
                        keyreps = keyreps[:1]
                    for kname, krep in keyreps:
                        cfgv = list(cl.DEFAULT_CFG)
                        cfgv[cl.ALGO], cfgv[cl.ALGO_PRM] = algo, rnd.choice([-1, 0, 0, 5, 0x1FF])   # 0: a configured parameter that is falsy
                        cfgv[cl.EX_NEG] = cfgv[cl.EX_INV] = cfgv[cl.EX_UNX] = ex
                        params = rnd.choice([b'', b'\x01\x02'])
                        yield cl.H(cfgv).call(5, [level], [params], srep + krep).case(5000, 'unlock %s/%s' % (sname, kname))
    # the seed reply echoes every possible byte (one of the 256 is the requested one), a usable seed follows; then a correct key reply
    for level in ((1, 2, 0x41, 0x7D, 0x7E) if tier == 'quick' else range(1, 0x7F)):
        odd = level if level % 2 == 1 else level - 1
        for echo in range(256):
            for ex in (1, 0):
                cfgv = list(cl.DEFAULT_CFG)
                cfgv[cl.ALGO], cfgv[cl.ALGO_PRM] = 3, 5
                cfgv[cl.EX_NEG] = cfgv[cl.EX_INV] = cfgv[cl.EX_UNX] = ex
                reps = [(10, bytes([0x67, echo, 0x11, 0x22])), (1000, bytes([0x67, odd + 1]))]
                yield cl.H(cfgv).call(5, [level], [b''], reps).case(5000, 'unlock, seed reply echoing %02x' % echo)


def worker_init():
    cl.setup()


def impl(c):
    return cl.run_history_case(c)


def oracle(c, r):
    cfgv, ops = cl.case_ops(c)
    d = cl.parse_calls(r, 1)[0][0]
    _, callid, args, cb, reps = ops[0]
    level, params = args[0], cb[0]
    sent = [e[1] for e in d['events'] if e[0] == 'S']
    algos = [e for e in d['events'] if e[0] == 'ALGO']
    if d['kind'] == 'raised' and d['err'] >= 20:
        return ('internal-error', 'internal error %d' % d['err'])
    if cfgv[cl.ALGO] == 0 or not (1 <= level <= 0x7E):
        if sent:
            return ('sent-without-algo-or-level', 'frames sent although no algorithm is configured / the level is out of range')
        return None
    k = (level + 1) // 2
    if not sent or sent[0] != bytes([0x27, 2 * k - 1]) + params:
        return ('seed-request', 'first frame %r, expected 27 %02x + params' % (sent[:1], 2 * k - 1))
    # what the seed exchange delivered
    live = [f for dlt, f in reps if dlt > 0]
    seedframe = None
    for f in live:
        if f[:3] == b'\x7f\x27\x78':
            continue
        seedframe = f
        break
    good = seedframe is not None and len(seedframe) >= 3 and seedframe[0] == 0x67 and seedframe[1] == 2 * k - 1
    seed = seedframe[2:] if good else None
    if not good or seed == bytes(len(seed)):
        if len(sent) != 1:
            return ('second-frame', 'a second frame was sent although the seed exchange gave no usable seed')
        if algos and not good:
            return ('algo-after-failure', 'the algorithm was called after a failed seed exchange')
        if algos:
            return ('algo-on-zero-seed', 'the algorithm was called for an all-zero seed')
        return None
    if len(algos) != 1:
        return ('algo-count', 'algorithm called %d times' % len(algos))
    _, lvl, prm, aseed = algos[0]
    if aseed != seed or lvl not in (-1, level):
        return ('algo-args', 'algorithm got seed %s level %r; received seed %s requested level %d' % (aseed.hex(), lvl, seed.hex(), level))
    kind = cfgv[cl.ALGO]
    if kind in (2, 3, 4, 5, 7, 8) and prm != cfgv[cl.ALGO_PRM]:
        return ('algo-params', 'algorithm got params %r, configured security_algo_params is %r (-1 = None)' % (prm, cfgv[cl.ALGO_PRM]))
    if kind == 7:      # the algorithm failed: its error reaches the caller, nothing more goes out
        if len(sent) != 1:
            return ('frame-after-failed-algo', 'the algorithm raised, yet frames followed the seed request: %r' % [s.hex() for s in sent[1:]])
        if not (d['kind'] == 'raised' and d['err'] == 8):
            return ('failed-algo-outcome', 'the algorithm raised its own exception; the call ended with kind=%s err=%r' % (d['kind'], d.get('err')))
        return None
    pb = 0 if cfgv[cl.ALGO_PRM] < 0 else cfgv[cl.ALGO_PRM] & 0xFF
    key = bytes(reversed(seed)) + (b'' if kind in (1, 6) else (bytes([pb]) if kind in (2, 5, 8) else bytes([level & 0xFF, pb])))
    if len(sent) != 2 or sent[1] != bytes([0x27, 2 * k]) + key:
        return ('key-frame', 'frames after the seed request: %r, expected 27 %02x %s' % ([s.hex() for s in sent[1:]], 2 * k, key.hex()))
    return None


def nontrivial(c, r):
    return 2 in r[3:]


def describe(c):
    return 'cfg=%r ops=%r' % cl.case_ops(c)
