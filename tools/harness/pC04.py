"""C04 - any received bytes give a result or a documented exception, never a crash/hang.
The property's own quantifier as a stream: for every modelled entry point, every prefix of a well-formed response,
every single-byte substitution from {00,01,7F,80,FF,b+1,b-1}, extensions by 00 / FF / random bytes, every short
string over a boundary alphabet after the response id, and random strings; under the default and a strict
configuration."""
import random
from harness.core import Case, DOCUMENTED
from harness import clientlib as cl
from harness.callreg import invocations

PROP = 'C04'
EXHAUSTIVE = False
RULE = ('per entry point: all prefixes of the positive reply, all single-byte substitutions from {00,01,7F,80,FF,b+1,b-1} at every '
        'position, extensions by 1..6 bytes of 00/FF/random, all strings of length <= 2 (quick) / 3 (thorough) over '
        '{00,01,02,05,08,09,10,7F,80,FF} after the response id, random strings up to 64 bytes, every position set to a boundary value and '
        'followed by a 300-byte tail (length fields honoured); x {tolerant, strict} configuration. '
        'non-trivial = the reply carries the right response id and is not the unmodified positive reply (distinct case lines)')
ASSUMPTIONS = ['DID codecs are the library-style fixed-length / read-all codecs (user codec code raising on decode is outside the property)',
               'termination: every call returned within the per-case budget of the worker (no hang); the Coq theorem shows the fuel of every loop suffices']
ALPHA = [0x00, 0x01, 0x02, 0x05, 0x08, 0x09, 0x10, 0x7F, 0x80, 0xFF]


def replies_for(inv, tier, rnd):
    p = inv.positive
    out = []
    for i in range(len(p) + 1):
        out.append(p[:i])
    for i in range(len(p)):
        for v in (0x00, 0x01, 0x7F, 0x80, 0xFF, (p[i] + 1) & 0xFF, (p[i] - 1) & 0xFF):
            if v != p[i]:
                out.append(p[:i] + bytes([v]) + p[i + 1:])
    for k in range(1, 7):
        out.append(p + b'\x00' * k)
        out.append(p + b'\xff' * k)
        out.append(p + bytes(rnd.randrange(256) for _ in range(k)))
    # a length / width / count field changed AND enough bytes behind it for the announced length to be honoured: every
    # position set to a value just past the supported widths or large, followed by a long tail
    tails = (b'\x00' * 300, b'\xff' * 300, bytes(range(1, 256)) + bytes(range(45, 0, -1)))
    for i in range(1, len(p)):
        for v in (0x00, 0x08, 0x09, 0x0A, 0x10, 0x7F, 0x80, 0xFF):
            for t in tails:
                out.append(p[:i] + bytes([v]) + p[i + 1:] + t)
                out.append(p[:i] + bytes([v]) + t)
    rsid = p[:1]
    n = 2 if tier == 'quick' else 3
    strs = [b'']
    for _ in range(n):
        strs = strs + [s + bytes([a]) for s in strs if len(s) == max(len(x) for x in strs) for a in ALPHA]
    for s in strs:
        out.append(rsid + s)
        if len(p) > 1:
            out.append(p[:2] + s)
    for _ in range(20 if tier == 'quick' else 400):
        ln = rnd.choice([1, 2, 3, 5, 8, 13, 33, 64])
        out.append(rsid + bytes(rnd.randrange(256) for _ in range(ln)))
        out.append(p[:rnd.randrange(1, len(p) + 1)] + bytes(rnd.choice(ALPHA) for _ in range(ln)))
    return out


def gen_cases(tier, seed):
    rnd = random.Random(seed)
    for inv in invocations():
        seen = set()
        for rep in replies_for(inv, tier, rnd):
            if rep in seen:
                continue
            seen.add(rep)
            for strict in (0, 1):
                cfgv = list(cl.DEFAULT_CFG)
                for s, v in inv.cfg.items():
                    cfgv[s] = v
                if strict:
                    cfgv[cl.TOL_PAD] = 0
                    cfgv[cl.IGN_ZERO] = 0
                yield cl.H(cfgv).call(inv.callid, inv.args, inv.blobs, [(10, rep)]).case(5000, inv.name)
    yield from gen_wide(tier, seed)


def gen_wide(tier, seed):
    from harness import widegen
    yield from widegen.gen(seed, 15000 if tier == 'quick' else 400000)


def worker_init():
    cl.setup()


def impl(c):
    return cl.run_history_case(c)


def oracle(c, r):
    # value-returning helpers render as [0, 2, ...]
    if r[0] == 2 and r[1] == 1:
        # a ValueError after the request has gone out is not one of the documented outcomes of a reply either
        cfgv, ops = cl.case_ops(c)
        d = cl.parse_calls(r, 1)[0][0]
        if any(e[0] == 'S' for e in d['events']):
            from harness import isospec
            kind, why = isospec.expected(cfgv, ops[0][1], ops[0][2], ops[0][3])
            if kind == 'reject' and str(why).startswith('extended data size'):
                return ('ext-size-checked-after-send', 'the extended data size is missing or out of range: ValueError raised only when the reply %s is decoded' % ops[0][4][0][1].hex())
            return ('valueerror-after-send/%s' % c.tag.split('(')[0], 'reply %s made %s raise ValueError after the request was sent' % (ops[0][4][0][1].hex() if ops[0][4] else '-', c.tag))
    if r[0] == 2:
        err = r[1]
        if err not in DOCUMENTED:
            cfgv, ops = cl.case_ops(c)
            rep = ops[0][4][0][1]
            return ('internal-error/%s' % c.tag.split('(')[0], 'reply %s made %s raise an internal error (code %d: 20=IndexError 21=struct.error 22=AttributeError 23=TypeError 24=OverflowError 25=AssertionError 26=KeyError 99=other)' % (rep.hex(), c.tag, err))
    return None


def nontrivial(c, r):
    return not (r[0] == 0 and r[1] == 1)


def describe(c):
    return 'cfg=%r ops=%r' % cl.case_ops(c)
