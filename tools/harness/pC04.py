"""C04 - any received bytes give a result or a documented exception, never a crash/hang.
The property's own quantifier as a stream: for every modelled entry point, every prefix of a well-formed response,
every single-byte substitution from {00,01,7F,80,FF,b+1,b-1}, extensions by 00 / FF / random bytes, every short
string over a boundary alphabet after the response id, and random strings; under the default and a strict
configuration."""
import random
from harness.core import Case, DOCUMENTED
from harness import clientlib as cl
from harness.callreg import invocations

PROP = 'C04'
EXHAUSTIVE = False
RULE = ('per entry point: all prefixes of the positive reply, all single-byte substitutions from {00,01,7F,80,FF,b+1,b-1} at every '
        'position, extensions by 1..6 bytes of 00/FF/random, all strings of length <= 2 (quick) / 3 (thorough) over '
        '{00,01,02,05,08,09,10,7F,80,FF} after the response id, random strings up to 64 bytes, every position set to a boundary value and '
        'followed by a 300-byte tail (length fields honoured); x {tolerant, strict} configuration. '
        'non-trivial = the reply carries the right response id and is not the unmodified positive reply (distinct case lines)')
ASSUMPTIONS = ['DID codecs are the library-style fixed-length / read-all codecs (user codec code raising on decode is outside the property)',
               'termination: every call returned within the per-case budget of the worker (no hang); the Coq theorem shows the fuel of every loop suffices']
ALPHA = [0x00, 0x01, 0x02, 0x05, 0x08, 0x09, 0x10, 0x7F, 0x80, 0xFF]


def replies_for(inv, tier, rnd):
    p = inv.positive
    out = []
    for i in range(len(p) + 1):
        out.append(p[:i])
    for i in range(len(p)):
        for v in (0x00, 0x01, 0x7F, 0x80, 0xFF, (p[i] + 1) & 0xFF, (p[i] - 1) & 0xFF):
            if v != p[i]:
                out.append(p[:i] + bytes([v]) + p[i + 1:])
    for k in range(1, 7):
        out.append(p + b'\x00' * k)
        out.append(p + b'\xff' * k)
        out.append(p + bytes(rnd.randrange(256) for _ in range(k)))
    # a length / width / count field changed AND enough bytes behind it for the announced length to be honoured: every
    # position set to a value just past the supported widths or large, followed by a long tail
    tails = (b'\x00' * 300, b'\xff' * 300, bytes(range(1, 256)) + bytes(range(45, 0, -1)))
    for i in range(1, len(p)):
        for v in (0x00, 0x08, 0x09, 0x0A, 0x10, 0x7F, 0x80, 0xFF):
            for t in tails:
                out.append(p[:i] + bytes([v]) + p[i + 1:] + t)
                out.append(p[:i] + bytes([v]) + t)
    rsid = p[:1]
    n = 2 if tier == 'quick' else 3
    strs = [b'']
    for _ in range(n):
        strs = strs + [s + bytes([a]) for s in strs if len(s) == max(len(x) for x in strs) for a in ALPHA]
    for s in strs:
        out.append(rsid + s)
        if len(p) > 1:
            out.append(p[:2] + s)
    for _ in range(20 if tier == 'quick' else 400):
        ln = rnd.choice([1, 2, 3, 5, 8, 13, 33, 64])
        out.append(rsid + bytes(rnd.randrange(256) for _ in range(ln)))
        out.append(p[:rnd.randrange(1, len(p) + 1)] + bytes(rnd.choice(ALPHA) for _ in range(ln)))
    return out


def gen_cases(tier, seed):
    rnd = random.Random(seed)
    for inv in invocations():
        seen = set()
        for rep in replies_for(inv, tier, rnd):
            if rep in seen:
                continue
            seen.add(rep)
            for strict in (0, 1):
                cfgv = list(cl.DEFAULT_CFG)
                for s, v in inv.cfg.items():
                    cfgv[s] = v
                if strict:
                    cfgv[cl.TOL_PAD] = 0
                    cfgv[cl.IGN_ZERO] = 0
                yield cl.H(cfgv).call(inv.callid, inv.args, inv.blobs, [(10, rep)]).case(5000, inv.name)
    # the same reply kinds after one or two 'response pending' frames, for every entry point; and for send_request with a timeout of its
    # own (the one form no service method uses), also after an accepted session change that supplied server timings
    for inv in invocations():
        if inv.sid is None or inv.callid == 5:
            continue
        pend = bytes([0x7F, inv.sid, 0x78])
        p = inv.positive
        finals = [p, p[:1], p[:2], p + b'\x00', bytes([0x7F, inv.sid, 0x22]), bytes([0x7F, inv.sid]), b'\x7e\x00' if inv.sid != 0x3E else b'\x51\x01', b'', None]
        # ... with and without an overall timeout (request_timeout None disables it), before and after a session change that supplied
        # server timings (the windows after a pending frame then come from another source)
        for rto, session_first in ((None, 0), (-1, 0), (-1, 1), (None, 1)):
            for npend in (1, 2):
                for fin in finals:
                    cfgv = list(cl.DEFAULT_CFG)
                    for s, v in inv.cfg.items():
                        cfgv[s] = v
                    if rto is not None:
                        cfgv[cl.REQ_TO] = rto
                    h = cl.H(cfgv)
                    if session_first:
                        h.call(2, [3], [], [(10, bytes([0x50, 3, 0x00, 0x32, 0x00, 0x64]))])
                    reps = [(10 + 5 * k, pend) for k in range(npend)] + ([(100, fin)] if fin is not None else [])
                    yield h.call(inv.callid, inv.args, inv.blobs, reps).case(5000, inv.name + ' after pending')
    for timeout in (1500000, 250000, 0):
        for session_first in (0, 1):
            for npend in (0, 1, 2):
                for fin in (b'\x7e\x00', b'\x7e', b'\x7f\x3e\x22', b'\x7f\x3e', b'\x51\x01', b'', None):
                    h = cl.H(list(cl.DEFAULT_CFG))
                    if session_first:
                        h.call(2, [3], [], [(10, bytes([0x50, 3, 0x00, 0x32, 0x00, 0x64]))])
                    reps = [(10 + 5 * k, b'\x7f\x3e\x78') for k in range(npend)] + ([(100, fin)] if fin is not None else [])
                    h.call(1, [0x3E, 0, 0, 0, timeout], [b''], reps)
                    yield h.case(5000, 'send_request with a timeout of its own')
    yield from gen_wide(tier, seed)


def gen_wide(tier, seed):
    from harness import widegen
    yield from widegen.gen(seed, 15000 if tier == 'quick' else 400000)


def worker_init():
    cl.setup()


def impl(c):
    return cl.run_history_case(c)


def oracle(c, r):
    cfgv, ops = cl.case_ops(c)
    calls = [o for o in ops if o[0] == 'call']
    for o, d in zip(calls, cl.parse_calls(r, len(calls))[0]):
        _, callid, args, cb, reps = o
        last = reps[-1][1].hex() if reps else '-'
        if d['kind'] != 'raised':
            continue
        if d['err'] == 1 and any(e[0] == 'S' for e in d['events']):
            # a ValueError after the request has gone out is not one of the documented outcomes of a reply either
            from harness import isospec
            kind, why = isospec.expected(cfgv, callid, args, cb)
            if kind == 'reject' and str(why).startswith('extended data size'):
                return ('ext-size-checked-after-send', 'the extended data size is missing or out of range: ValueError raised only when the reply %s is decoded' % last)
            return ('valueerror-after-send/%s' % c.tag.split('(')[0], 'reply %s made %s raise ValueError after the request was sent' % (last, c.tag))
        if d['err'] not in DOCUMENTED:
            return ('internal-error/%s' % c.tag.split('(')[0], 'replies %r made %s raise an internal error (code %d: 20=IndexError 21=struct.error 22=AttributeError 23=TypeError 24=OverflowError 25=AssertionError 26=KeyError 99=other)' % (
                [f.hex() for _, f in reps], c.tag, d['err']))
    return None


def nontrivial(c, r):
    return not (r[0] == 0 and r[1] == 1)


def describe(c):
    return 'cfg=%r ops=%r' % cl.case_ops(c)
