"""Invocations of the entry points added after the core seven: argument encodings (see Model/History.v
decode_call), a well-formed positive response each, and the DID / IO configuration they need."""


def opt(v):
    return [1, v] if v is not None else [0, 0]


def a_clear_dtc(group=0xFFFFFF, memsel=None):
    return [group] + opt(memsel)


def a_routine(rid, ct, data=None):
    return [rid, ct, 1 if data is not None else 0], [data or b'']


def a_comm(ct, commtype, node=None):
    """commtype: int or (subnet, normal, nm)"""
    if isinstance(commtype, tuple):
        return [ct, 0, commtype[0], int(commtype[1]), int(commtype[2])] + opt(node)
    return [ct, 1, commtype, 0, 0] + opt(node)


def a_memloc(addr, size, af=None, sf=None):
    return [addr, size] + opt(af) + opt(sf)


def a_updown(upload, addr, size, af=None, sf=None, dfi=None):
    return [1 if upload else 0] + a_memloc(addr, size, af, sf) + ([1, dfi[0], dfi[1]] if dfi else [0, 0, 0])


def a_define_bydid(did, entries):
    return [did, 1, len(entries)] + [x for e in entries for x in e]


def a_define_bymem(did, entries):
    out = [did, 2, len(entries)]
    for e in entries:
        out += a_memloc(*e)
    return out


def a_dids(l):
    return [len(l)] + list(l)


def a_io(did, cp=None, values=None, masks=None):
    """masks: None | bool | [(idx, bool)]"""
    out = [did] + opt(cp) + [1 if values is not None else 0]
    if masks is None:
        out += [0, 0]
    elif isinstance(masks, bool):
        out += [1, int(masks)]
    else:
        out += [2, len(masks)] + [x for i, b in masks for x in (i, int(b))]
    return out, [values or b'']


def a_file(moop, path, dfi=None, fs=None):
    """fs: None | int | (u, c, w)"""
    out = [moop] + ([1, dfi[0], dfi[1]] if dfi else [0, 0, 0])
    if fs is None:
        out += [0, 0] + [0, 0] * 3
    elif isinstance(fs, int):
        out += [1, fs] + [0, 0] * 3
    else:
        out += [2, 0] + opt(fs[0]) + opt(fs[1]) + opt(fs[2])
    return out, [path if isinstance(path, bytes) else path.encode('latin-1')]


def a_auth(task, cfg=None, evalid=None, cert=None, chal=None, algo=None, certdata=None, pown=None, eph=None, add=None):
    blobs = [cert, chal, algo, certdata, pown, eph, add]
    return [task] + opt(cfg) + opt(evalid) + [1 if x is not None else 0 for x in blobs], [x or b'' for x in blobs]


def a_dtc(sub, status=None, severity=None, sev_obj=False, dtc_class=None, dtc=None, snap=None, ext=None, memsel=None, fgid=None, ext_size=None):
    return [sub] + opt(status) + opt(severity) + [int(sev_obj)] + opt(dtc_class) + opt(dtc) + opt(snap) + opt(ext) + opt(memsel) + opt(fgid) + opt(ext_size)


DIDS = [(0xF190, 3), (0x0102, 1), (0x1234, 2), (0x0304, 0), (0xFFFF, -1)]
IOS = [(0x0132, 2, 1, 1, [1, 2, 0x80]), (0x0456, 1, 1, -1, [0x0100, 0x01]), (0x0155, 2, 0, -1, []), (-1, 1, 0, 2, []),
       (0x0177, 2, 1, 2, [0x10, 0x20, 0x30, 0x0100, 0x00F8]), (0x0178, 2, 1, -1, [0x10, 0x30, 0x1010])]   # overlapping mask bit patterns (group masks)
A16 = bytes(range(16))


def invocations(Inv):
    L = []

    def add(name, callid, args, blobs, sid, positive, has_sub=True, cfg=None, dids=None, ios=None):
        i = Inv(name, callid, args, blobs, sid, positive, has_sub, cfg)
        i.dids = dids if dids is not None else DIDS
        i.ios = ios if ios is not None else IOS
        L.append(i)

    add('clear_dtc', 8, a_clear_dtc(0x123456), [], 0x14, b'\x54', has_sub=False)
    add('clear_dtc(memory_selection)', 8, a_clear_dtc(0xFFFFFF, 3), [], 0x14, b'\x54', has_sub=False)
    a, b = a_routine(0x1234, 1, b'\x99')
    add('routine_control', 9, a, b, 0x31, b'\x71\x01\x12\x34\xaa\xbb')
    add('access_timing_parameter(read)', 10, [1, 0], [b''], 0x83, b'\xc3\x01\x11\x22')
    add('access_timing_parameter(set)', 10, [4, 1], [b'\x01\x02'], 0x83, b'\xc3\x04')
    add('communication_control(obj)', 11, a_comm(0, (3, True, False)), [], 0x28, b'\x68\x00')
    add('communication_control(int,node)', 11, a_comm(4, 0x13, 0x0102), [], 0x28, b'\x68\x04')
    add('transfer_data', 13, [0x55, 1], [b'\x01\x02\x03'], 0x36, b'\x76\x55\x09', has_sub=False)
    add('request_transfer_exit', 14, [1], [b'\x07'], 0x37, b'\x77\x08', has_sub=False)
    add('request_transfer_exit(no data)', 14, [0], [b''], 0x37, b'\x77', has_sub=False)
    add('link_control(fixed)', 15, [1, 1, 250000, 3], [], 0x87, b'\xc7\x01')
    add('link_control(specific)', 15, [2, 1, 0x123456, 1], [], 0x87, b'\xc7\x02')
    add('link_control(transition)', 15, [3, 0, 0, 0], [], 0x87, b'\xc7\x03')
    add('control_dtc_setting', 16, [2, 1], [b'\x01'], 0x85, b'\xc5\x02')
    add('read_memory_by_address', 17, a_memloc(0x1234, 4), [], 0x23, b'\x63\x01\x02\x03\x04', has_sub=False)
    add('read_memory_by_address(formats)', 17, a_memloc(0x12, 2, 32, 16), [], 0x23, b'\x63\x01\x02', has_sub=False)
    add('write_memory_by_address', 18, a_memloc(0x1234, 2), [b'\xaa\xbb'], 0x3D, b'\x7d\x12\x12\x34\x02', has_sub=False)
    add('write_memory_by_address(48-bit)', 18, a_memloc(0x010203040506, 1, 48, 8), [b'\xaa'], 0x3D, b'\x7d\x16\x01\x02\x03\x04\x05\x06\x01', has_sub=False)
    add('request_download', 19, a_updown(False, 0x1234, 0xFF, None, None, (5, 2)), [], 0x34, b'\x74\x20\x0a\xbc', has_sub=False)
    add('request_upload', 19, a_updown(True, 0x1234, 0xFF), [], 0x35, b'\x75\x40\x01\x02\x03\x04', has_sub=False)
    add('dynamically_define_did(by did)', 20, a_define_bydid(0xF300, [(0x1234, 1, 2), (0x5678, 3, 4)]), [], 0x2C, b'\x6c\x01\xf3\x00')
    add('dynamically_define_did(by memory)', 20, a_define_bymem(0xF301, [(0x1122, 4, 16, 8), (0x3344, 8, 16, 8)]), [], 0x2C, b'\x6c\x02\xf3\x01')
    add('clear_dynamically_defined_did', 21, opt(0xF300), [], 0x2C, b'\x6c\x03\xf3\x00')
    add('clear_all_dynamically_defined_did', 21, opt(None), [], 0x2C, b'\x6c\x03')
    add('read_data_by_identifier', 22, a_dids([0xF190, 0x0102]), [], 0x22, b'\x62\xf1\x90\x41\x42\x43\x01\x02\x99', has_sub=False)
    add('read_data_by_identifier(read-all last)', 22, a_dids([0x1234, 0xFFFF]), [], 0x22, b'\x62\x12\x34\x01\x02\xff\xff\x05\x06\x07', has_sub=False)
    add('read_data_by_identifier_first', 23, a_dids([0x0102, 0x1234]), [], 0x22, b'\x62\x01\x02\x77\x12\x34\x88\x99', has_sub=False)
    add('test_data_identifier', 24, a_dids([0x0001, 0x0002]), [], 0x22, b'\x62\x00\x01\x55', has_sub=False)
    add('write_data_by_identifier', 25, [0xF190], [b'ABC'], 0x2E, b'\x6e\xf1\x90', has_sub=False)
    a, b = a_io(0x0132, 3, b'\x11\x22', [(0, True), (2, True)])
    add('io_control(values, masks)', 26, a, b, 0x2F, b'\x6f\x01\x32\x03\x07\x08', has_sub=False)
    a, b = a_io(0x0155)
    add('io_control(no control param)', 26, a, b, 0x2F, b'\x6f\x01\x55\x07\x08', has_sub=False)
    a, b = a_io(0x0132, 0, b'\x11\x22', True)
    add('io_control(bool mask)', 26, a, b, 0x2F, b'\x6f\x01\x32\x00\x07\x08', has_sub=False)
    a, b = a_file(1, b'/a/b.bin', (1, 2), 0x1234)
    add('add_file', 27, a, b, 0x38, b'\x78\x01\x02\x10\x00\x12', has_sub=False)
    a, b = a_file(2, b'x')
    add('delete_file', 27, a, b, 0x38, b'\x78\x02', has_sub=False)
    a, b = a_file(4, b'f.txt', None)
    add('read_file', 27, a, b, 0x38, b'\x78\x04\x01\x80\x00\x00\x02\x01\x00\x00\x80', has_sub=False)
    a, b = a_file(5, b'/dir')
    add('read_dir', 27, a, b, 0x38, b'\x78\x05\x02\x01\x00\x00\x00\x01\x20', has_sub=False)
    a, b = a_file(6, b'r', None, (100, 50, None))
    add('resume_file', 27, a, b, 0x38, b'\x78\x06\x01\x40\x00' + b'\x00' * 7 + b'\x2a', has_sub=False)
    a, b = a_auth(0)
    add('deauthenticate', 28, a, b, 0x29, b'\x69\x00\x10')
    a, b = a_auth(1, cfg=2, cert=b'\x01\x02', chal=b'\x03')
    add('verify_certificate_unidirectional', 28, a, b, 0x29, b'\x69\x01\x11\x00\x02\xaa\xbb\x00\x01\xcc')
    a, b = a_auth(2, cfg=2, cert=b'\x01\x02', chal=b'\x03')
    add('verify_certificate_bidirectional', 28, a, b, 0x29, b'\x69\x02\x11\x00\x01\xaa\x00\x01\xbb\x00\x00\x00\x02\xcc\xdd')
    a, b = a_auth(3, pown=b'\x01', eph=b'\x02\x03')
    add('proof_of_ownership', 28, a, b, 0x29, b'\x69\x03\x12\x00\x02\xaa\xbb')
    a, b = a_auth(4, evalid=0x1234, certdata=b'\x09')
    add('transmit_certificate', 28, a, b, 0x29, b'\x69\x04\x13')
    a, b = a_auth(5, cfg=0, algo=A16)
    add('request_challenge_for_authentication', 28, a, b, 0x29, b'\x69\x05\x00' + A16 + b'\x00\x01\xaa\x00\x00')
    a, b = a_auth(6, algo=A16, pown=b'\x01', chal=b'\x02', add=b'\x03')
    add('verify_proof_of_ownership_unidirectional', 28, a, b, 0x29, b'\x69\x06\x00' + A16 + b'\x00\x01\xaa')
    a, b = a_auth(7, algo=A16, pown=b'\x01', chal=b'\x02')
    add('verify_proof_of_ownership_bidirectional', 28, a, b, 0x29, b'\x69\x07\x00' + A16 + b'\x00\x01\xaa\x00\x02\xbb\xcc')
    a, b = a_auth(8)
    add('authentication_configuration', 28, a, b, 0x29, b'\x69\x08\x02')
    # ReadDTCInformation, one invocation per request/response shape
    rec4 = b'\x12\x34\x56\x2f' + b'\x65\x43\x21\x01'
    add('get_dtc_by_status_mask', 29, a_dtc(2, status=0x5A), [], 0x19, b'\x59\x02\xff' + rec4)
    add('get_user_defined_memory_dtc_by_status_mask', 29, a_dtc(0x17, status=0x5A, memsel=7), [], 0x19, b'\x59\x17\x07\xff' + rec4)
    add('get_supported_dtc', 29, a_dtc(0x0A), [], 0x19, b'\x59\x0a\xff' + rec4)
    add('get_dtc_by_status_severity_mask', 29, a_dtc(8, status=1, severity=0xC0), [], 0x19, b'\x59\x08\xff\x80\x99\x12\x34\x56\x20')
    add('get_dtc_severity', 29, a_dtc(9, dtc=0x123456), [], 0x19, b'\x59\x09\xff\x80\x99\x12\x34\x56\x20')
    add('get_number_of_dtc_by_status_mask', 29, a_dtc(1, status=0x5A), [], 0x19, b'\x59\x01\xfb\x01\x12\x34')
    add('get_number_of_dtc_by_status_severity_mask', 29, a_dtc(7, status=1, severity=0x20, sev_obj=True), [], 0x19, b'\x59\x07\xfb\x01\x00\x02')
    add('get_dtc_fault_counter', 29, a_dtc(0x14), [], 0x19, b'\x59\x14\x12\x34\x56\x01\x12\x34\x57\x7e')
    add('get_dtc_snapshot_identification', 29, a_dtc(3), [], 0x19, b'\x59\x03\x12\x34\x56\x01\x12\x34\x56\x02\x78\x9a\xbc\x03')
    add('get_dtc_snapshot_by_dtc_number', 29, a_dtc(4, dtc=0x123456, snap=2), [], 0x19,
        b'\x59\x04\x12\x34\x56\x24\x02\x02\x01\x02\x77\x12\x34\x88\x99')
    add('get_user_defined_dtc_snapshot_by_dtc_number', 29, a_dtc(0x18, dtc=0x123456, snap=0xFF, memsel=1), [], 0x19,
        b'\x59\x18\x01\x12\x34\x56\x24\x02\x01\x01\x02\x77\x03\x01\x12\x34\x88\x99')
    add('get_dtc_snapshot_by_record_number', 29, a_dtc(5, snap=2), [], 0x19, b'\x59\x05\x02\x12\x34\x56\x24\x01\x01\x02\x77')
    add('get_dtc_extended_data_by_dtc_number', 29, a_dtc(6, dtc=0x123456, ext=0x99, ext_size=3), [], 0x19,
        b'\x59\x06\x12\x34\x56\x20\x99\x01\x02\x03')
    add('get_mirrormemory_dtc_extended_data_by_dtc_number', 29, a_dtc(0x10, dtc=0x123456, ext=0xFF), [], 0x19,
        b'\x59\x10\x12\x34\x56\x20\x01\x01\x02\x02\x03\x04', cfg={14: 2})
    add('get_user_defined_dtc_extended_data_by_dtc_number', 29, a_dtc(0x19, dtc=0x123456, ext=1, memsel=4, ext_size=1), [], 0x19,
        b'\x59\x19\x04\x12\x34\x56\x20\x01\xab')
    add('get_dtc_extended_data_by_record_number', 29, a_dtc(0x16, ext=0x12, ext_size=2), [], 0x19,
        b'\x59\x16\x12\x12\x34\x56\x20\x01\x02\x12\x34\x57\x21\x03\x04')
    add('get_wwh_obd_dtc_by_status_mask', 29, a_dtc(0x42, status=0x08, severity=0x20, dtc_class=0x04, fgid=0x33), [], 0x19,
        b'\x59\x42\x33\xff\xe0\x04\x20\x12\x34\x56\x08')
    add('get_wwh_obd_dtc_with_permanent_status', 29, a_dtc(0x55, fgid=0x33), [], 0x19, b'\x59\x55\x33\xff\x04\x20\x12\x34\x56\x08')
    return L
