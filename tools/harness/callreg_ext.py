"""invocations of the entry points added after the core seven"""


def invocations(Inv):
    return []
