"""C05 - waiting obeys P2, P2* and the overall timeout exactly, for every reply schedule.
Virtual-clock correspondence: configurations x (k pending replies + final reply | silence) with every arrival at
early / edge-1 / edge / edge+1 us of the window the Spec computes.  Oracle: the Spec's timing rule
(Spec/Timing.v re-stated in Python) evaluated on the wait_frame log of the real client."""
import itertools
import random
from harness.core import Case
from harness import clientlib as cl

WIDE = 200000        # thorough tier: histories of the wide correspondence stream (widegen.py), judged by the model and the generic rule
WIDE_QUICK = 2000
PROP = 'C05'
EXHAUSTIVE = False
RULE = ('grid: request_timeout {None,1,2,5 s} x p2 x p2* x per-call timeout {None,0,0.75 s} x callback; k = 0..3 pending '
        'replies then {positive, negative, silence}; each arrival at early/edge-1/edge/edge+1 us of its window (exhaustive over '
        'that grid), plus random schedules (ms values). non-trivial = at least one frame was waited for (distinct case lines)')
ASSUMPTIONS = ['virtual clock: processing time between waits is zero; timeouts are multiples of 1/64 s on the grid so the '
               "client's float arithmetic is exact; wall-clock behaviour of queue.get is outside (see C16)"]
U = 15625  # 1/64 s in us

PENDING = b'\x7f\x3e\x78'
POS = b'\x7e\x00'
NEG = b'\x7f\x3e\x22'


def spec_waits(cfgv, timeout, arrivals):
    """the Spec: returns (list of (w, now), outcome 'final'|'timeout', end time, kind) for arrival list with
    kinds 'p' pending / 'f' final"""
    if timeout >= 0:
        overall, first = timeout, timeout
    else:
        overall = None if cfgv[cl.REQ_TO] < 0 else cfgv[cl.REQ_TO]
        first = cfgv[cl.P2] if overall is None else min(cfgv[cl.P2], overall)
    p2s = cfgv[cl.P2S]
    now = 0
    deadline = None if overall is None else now + overall
    win = first
    waits = []
    star = False
    for a, kind in arrivals:
        w = win if deadline is None else max(0, min(win, deadline - now))
        waits.append((w, now))
        if a <= now + w:
            now = max(now, a)
            if kind == 'f':
                return waits, 'final', now, None
            win = p2s
            star = True
        else:
            lim = deadline is not None and not (now + win < deadline)
            return waits, 'timeout', now + w, (3 if lim else (2 if star else 1))
    w = win if deadline is None else max(0, min(win, deadline - now))
    waits.append((w, now))
    lim = deadline is not None and not (now + win < deadline)
    return waits, 'timeout', now + w, (3 if lim else (2 if star else 1))


def build(cfgv, timeout, k, final, deltas, decorated, send_cost=0):
    """place each arrival relative to the edge of the window the Spec computes at that point"""
    arr = []
    kinds = ['p'] * k + (['f'] if final is not None else [])
    for i, kind in enumerate(kinds):
        waits, out, end, _ = spec_waits(cfgv, timeout, arr + [(10 ** 12, kind)])
        w, now = waits[-1]
        d = deltas[i]
        a = now + 10 if d == 'early' else now + w + d
        if a < now:
            a = now
        arr.append((a, kind))
        if spec_waits(cfgv, timeout, arr)[1] == 'timeout':
            break
    replies = [(a, PENDING if kd == 'p' else final) for a, kd in arr]
    h = cl.H(cfgv)
    if send_cost:
        h.send_cost(send_cost)
    if decorated:
        h.call(6, [], [], replies)
    else:
        h.call(1, [0x3E, 0, 0, 0, timeout], [b''], replies)
    return h


def gen_cases(tier, seed):
    rnd = random.Random(seed)
    deltas_all = ['early', -1, 0, 1]
    req_tos = [-1, 64 * U, 128 * U, 320 * U]
    p2_vals = [(64 * U, 192 * U)] if tier == 'quick' else [(64 * U, 192 * U), (32 * U, 96 * U), (128 * U, 64 * U)]
    for req_to in req_tos:
        for p2, p2s in p2_vals:
            for timeout in (-1, 0, 48 * U):
                for cb in (0, 1):
                    cfgv = list(cl.DEFAULT_CFG)
                    cfgv[cl.REQ_TO], cfgv[cl.P2], cfgv[cl.P2S], cfgv[cl.HAS_CB] = req_to, p2, p2s, cb
                    for k in range(0, 4):
                        for final in (POS, NEG, None):
                            n = k + (1 if final is not None else 0)
                            if cb == 1 and k == 0:
                                continue
                            for deltas in itertools.product(deltas_all, repeat=n):
                                dec = (timeout < 0) and (len(deltas) % 2 == 0)
                                yield build(cfgv, timeout, k, final, deltas, dec).case(5000, 'grid k=%d %s' % (k, 'silence' if final is None else ('pos' if final == POS else 'neg')))
                                if k <= 2 and cb == 0:
                                    # the same with a transmission that takes time: every window counts from the end of the transmission
                                    hs = build(cfgv, timeout, k, final, deltas, dec, send_cost=40 * U)
                                    cs = hs.case(5000, 'grid, slow transmission k=%d' % k)
                                    if all(a > 0 for a, f in case_info(cs)[2]):      # nothing can answer a request before it is out
                                        yield cs
    # exception_on_negative off, and suppress-positive-response with wait_nrc (timeouts must not be raised)
    for k in range(0, 3):
        for deltas in itertools.product(deltas_all, repeat=k + 1):
            cfgv = list(cl.DEFAULT_CFG)
            cfgv[cl.EX_NEG] = 0
            arr = []
            h0 = build(cfgv, -1, k, NEG, deltas, True)
            yield h0.case(5000, 'neg switch off')
    # the windows are the configured ones unless a session change was ACCEPTED: a session reply that is refused (wrong echo, other
    # service, truncated, negative) must leave the windows of the following requests alone
    good = bytes([0x50, 3, 0x0F, 0xA0, 0x07, 0xD0])       # P2 = 4 s, P2* = 20 s
    for bad in (bytes([0x50, 2]) + good[2:], b'\x51\x03' + good[2:], good[:5], b'\x7f\x10\x22', good + b'\x00'):
        for ex in (1, 0):
            for req_to in (-1, 640 * U):
                cfgv = list(cl.DEFAULT_CFG)
                cfgv[cl.EX_UNX] = cfgv[cl.EX_INV] = cfgv[cl.EX_NEG] = ex
                cfgv[cl.REQ_TO], cfgv[cl.P2], cfgv[cl.P2S] = req_to, 32 * U, 96 * U
                h = cl.H(cfgv).call(2, [3], [], [(10, bad)])
                h.call(6, [], [], [(33 * U, POS)]).call(6, [], [], [(10, PENDING), (10 + 97 * U, POS)])
                yield h.case(5000, 'after a refused session change')
    n = 3000 if tier == 'quick' else 300000
    for _ in range(n):
        cfgv = list(cl.DEFAULT_CFG)
        cfgv[cl.REQ_TO] = rnd.choice([-1, rnd.randrange(0, 6000) * 1000])
        cfgv[cl.P2] = rnd.randrange(1, 2000) * 1000
        cfgv[cl.P2S] = rnd.randrange(1, 6000) * 1000
        cfgv[cl.HAS_CB] = rnd.randrange(2)
        timeout = rnd.choice([-1, -1, rnd.randrange(0, 3000) * 1000])
        k = rnd.randrange(0, 6)
        t = 0
        replies = []
        for i in range(k):
            t += rnd.choice([1, 500, 250000, 900000, 1700000, 3100000]) + rnd.randrange(0, 997)
            replies.append((t, PENDING))
        if rnd.random() < 0.8:
            t += rnd.choice([1, 500, 250000, 900000, 1700000, 3100000]) + rnd.randrange(0, 997)
            replies.append((t, rnd.choice([POS, NEG, b'\x7e', b'\x51\x01', b''])))
        h = cl.H(cfgv)
        h.call(1, [0x3E, 0, 0, 0, timeout], [b''], replies)
        yield h.case(5000, 'random ms schedule')


def worker_init():
    cl.setup()


def impl(c):
    return cl.run_history_case(c)


def parse_obs(c, r):
    d = cl.parse_calls(r, 1)[0][0]
    kind = {'none': 0, 'ok': 0, 'returned': 1, 'raised': 2}[d['kind']]
    return kind, d['events'], d['end'], d


def case_info(c):
    cfgv, ops = cl.case_ops(c)
    _, callid, args, cb, reps = [o for o in ops if o[0] == 'call'][0]
    timeout = args[4] if callid == 1 else -1
    return cfgv, timeout, [(d, f) for d, f in reps]


def t_sent(c):
    """the instant the request was transmitted (0 unless the transmission itself took time): every window counts from there"""
    return sum(o[1] for o in cl.case_ops(c)[1] if o[0] == 'send_cost')


def oracle(c, r):
    if c.tag == 'after a refused session change':
        cfgv, ops = cl.case_ops(c)
        calls = cl.parse_calls(r, 3)[0]
        if calls[0]['kind'] == 'ok':
            return None         # (a trailing byte is tolerated by some editions: then the change counts as accepted)
        for i, want in ((1, [32 * U]), (2, [32 * U, 96 * U])):
            got = [e[1] for e in calls[i]['events'] if e[0] == 'W']
            dl = cfgv[cl.REQ_TO]
            if got != want:
                return ('windows-after-refused-session-change', 'request %d after a refused session reply waited %r us, the configured windows are %r' % (i, got, want))
            if not (calls[i]['kind'] == 'raised' and calls[i]['err'] == 4):
                return ('timeout-after-refused-session-change', 'request %d: a reply outside the configured window was delivered (%s)' % (i, calls[i]['kind']))
        return None
    cfgv, timeout, arr = case_info(c)
    # only schedules made of pending frames followed by one final frame are judged by the timing Spec
    kinds = []
    for a, f in arr:
        if a <= 0:
            continue   # arrived before the request was sent: flushed (C15)
        kinds.append((a, 'p' if f == PENDING else 'f'))
        if f != PENDING:
            break
    waits, out, end, tk = spec_waits(cfgv, timeout, kinds)
    kind, evs, t_end, dd = parse_obs(c, r)
    t0 = t_sent(c)
    t_end -= t0
    got = [(e[1], e[2] - t0) for e in evs if e[0] == 'W']
    if got != waits:
        return ('waits', 'wait_frame calls (timeout, at) = %r, the timing rule says %r' % (got, waits))
    if t_end != end:
        return ('end-time', 'call ended at %d us, the timing rule says %d' % (t_end, end))
    timed_out = (dd['kind'] == 'raised' and dd['err'] == 4)
    if timed_out != (out == 'timeout'):
        return ('timeout-iff', 'timeout raised = %s, window empty = %s' % (timed_out, out == 'timeout'))
    if timed_out:
        tos = [e[1] for e in evs if e[0] == 'TO']
        w_last, now_last = waits[-1]
        dl = None if (timeout < 0 and cfgv[cl.REQ_TO] < 0) else (timeout if timeout >= 0 else cfgv[cl.REQ_TO])
        tie = dl is not None and now_last + w_last == dl    # window edge == deadline: either name is true
        if tos != [tk] and not (tie and len(tos) == 1 and tos[0] in (1, 2, 3)):
            return ('timeout-kind', 'reported timeout kind %r, expected %r (1=P2, 2=P2*, 3=Global)' % (tos, tk))
    ncb = len([e for e in evs if e[0] == 'CB'])
    npend = len([1 for i, (a, kd) in enumerate(kinds) if kd == 'p' and i < len(waits) and a <= waits[i][1] + waits[i][0]])
    if cfgv[cl.HAS_CB] == 1 and ncb != npend:
        return ('callback-count', '%d callbacks for %d pending replies' % (ncb, npend))
    if cfgv[cl.REQ_TO] >= 0 and timeout < 0 and t_end > cfgv[cl.REQ_TO]:
        return ('deadline', 'ended at %d after the overall timeout %d' % (t_end, cfgv[cl.REQ_TO]))
    return None


def nontrivial(c, r):
    return 3 in r


def describe(c):
    cfgv, timeout, arr = case_info(c)
    return 'cfg=%r per-call timeout=%d us replies=%r' % (cfgv, timeout, [(a, f.hex()) for a, f in arr])
