"""C12 - data written through the client is read back unchanged through a reference ECU.
The REAL client runs whole histories (DID writes/reads, memory writes/reads, download / transfer-data / transfer-exit
sequences, session changes, security unlock, failing calls in between) against the reference ECU extracted from
Coq (Model/Ecu.v); in the same run the client MODEL runs the same history against the same ECU inside the extracted
code.  Oracle: an abstract store (dict of DIDs, dict of memory bytes) kept in Python."""
import os
import random
import subprocess
from harness.core import Case, BUILD, enc_bytes, parse_result
from harness import clientlib as cl
from harness.callreg_ext import a_memloc, a_updown, a_dids, opt

PROP = 'C12'
EXHAUSTIVE = False
RULE = ('histories of <= 12 (quick) / <= 40 (thorough) abstract operations: write_did, read_dids, write_memory, read_memory, '
        'download (request_download + ceil(len/block) transfer_data with counters 1,2,..,0xFF,0,.. + transfer_exit), change_session, '
        'unlock, locally rejected calls, reads of unknown data; values/addresses/sizes/block lengths from a boundary generator; '
        'configured server formats {None,16,32,64}. non-trivial = the history contains a write followed by a read (distinct case lines)')
ASSUMPTIONS = ['the reference ECU is Model/Ecu.v (written from ISO 14229-1): positive responses for well-formed requests, NRC 0x31 for unknown data, 0x73 for a wrong block counter',
               'DID codecs are raw fixed-length / read-all codecs']
DIDS = [(0xF190, 3), (0x0102, 1), (0x1234, 2), (0x0304, 0), (0xFFFF, -1)]
EXPECT = {}

_drv = None


def driver():
    global _drv
    if _drv is None or _drv.poll() is not None:
        _drv = subprocess.Popen([os.path.join(BUILD, 'driver')], stdin=subprocess.PIPE, stdout=subprocess.PIPE, text=True, bufsize=1)
    return _drv


def ask(entry, ints, blobs):
    d = driver()
    d.stdin.write(Case(entry, ints, blobs).line() + '\n')
    d.stdin.flush()
    return parse_result(d.stdout.readline())


def expand(op, blk):
    """abstract op -> list of (callid, args, blobs)"""
    k = op[0]
    if k == 'write_did':
        return [(25, [op[1]], [op[2]])]
    if k == 'read_dids':
        return [(22, a_dids(op[1]), [])]
    if k == 'write_mem':
        return [(18, a_memloc(op[1], len(op[2]), op[3], op[4]), [op[2]])]
    if k == 'read_mem':
        return [(17, a_memloc(op[1], op[2], op[3], op[4]), [])]
    if k == 'download':
        addr, data = op[1], op[2]
        calls = [(19, a_updown(False, addr, len(data), op[3], op[4]), [])]
        chunk = max(1, blk - 2)
        ctr = op[5] if len(op) > 5 else 1
        for i in range(0, len(data), chunk):
            calls.append((13, [ctr & 0xFF, 1], [data[i:i + chunk]]))
            ctr += 1
        calls.append((14, [0], [b'']))
        return calls
    if k == 'session':
        return [(2, [op[1]], [])]
    if k == 'unlock':
        return [(5, [op[1]], [b''])]
    if k == 'raw':
        return [(op[1], op[2], op[3])]
    if k == 'spr_session':      # a session change inside a suppress-positive-response block: the client does not read; a refusal of the ECU stays unread
        return [(100, [op[1]], []), (2, [op[2]], []), (101, [], []), (103, [10], [])]
    if k == 'spr_tester_present':
        return [(100, [op[1]], []), (6, [], []), (101, [], []), (103, [10], [])]
    if k == 'slow_read':        # the ECU answers after the client has given up; the answer arrives while the client is idle
        return [(102, [op[3]], []), (17, a_memloc(op[1], op[2], None, None), []), (102, [0], []), (103, [op[3] + 10], [])]
    if k == 'reuse_objects':    # from here on the application keeps one MemoryLocation object and moves it along
        return [(104, [1], [])]
    if k == 'slow_write_did':
        return [(102, [op[3]], []), (25, [op[1]], [op[2]]), (102, [0], []), (103, [op[3] + 10], [])]
    raise RuntimeError(k)


def make_case(cfgv, blk, ops, tag, dids=None):
    calls = [c for op in ops for c in expand(op, blk)]
    h = cl.H(cfgv, dids=DIDS if dids is None else dids)
    ints = [len(h.cfg)] + h.cfg + [blk, len(calls)]
    blobs = []
    for callid, args, bl in calls:
        ints += [callid, len(args)] + list(args) + [len(bl)]
        blobs += list(bl)
    c = Case(1201, ints, blobs, tag)
    EXPECT[c.line()] = (blk, ops)
    return c


def gen_ops(rnd, n, blk):
    ops = []
    vals = [0, 1, 0xFF, 0x100, 0xFFFF, 0x10000, (1 << 32) - 1, (1 << 40), (1 << 63), (1 << 64) - 300]
    fm = [None, None, 16, 32, 64]
    for _ in range(n):
        x = rnd.random()
        if x < 0.2:
            did, sh = rnd.choice(DIDS)
            v = bytes(rnd.randrange(256) for _ in range(sh if sh >= 0 else rnd.randrange(0, 5)))
            ops.append(('write_did', did, v))
        elif x < 0.35:
            ops.append(('read_dids', rnd.sample([d for d, _ in DIDS[:4]], rnd.randrange(1, 4))))
        elif x < 0.5:
            a = rnd.choice(vals) + rnd.randrange(4)
            ops.append(('write_mem', a, bytes(rnd.randrange(256) for _ in range(rnd.choice([1, 2, 5, 16]))), rnd.choice(fm), rnd.choice(fm)))
        elif x < 0.62:
            base = [o for o in ops if o[0] in ('write_mem', 'download')]
            if base and rnd.random() < 0.8:
                o = rnd.choice(base)
                off = rnd.randrange(0, max(1, len(o[2])))
                ops.append(('read_mem', o[1] + off, rnd.randrange(1, max(2, len(o[2]) - off + 1)), rnd.choice(fm), rnd.choice(fm)))
            else:
                ops.append(('read_mem', rnd.choice(vals), rnd.choice([1, 4]), None, None))
        elif x < 0.74:
            a = rnd.choice(vals) + rnd.randrange(4)
            ln = rnd.choice([0, 1, blk - 3, blk - 2, blk - 1, 2 * (blk - 2), 2 * (blk - 2) + 1, rnd.randrange(1, 40)])
            if rnd.random() < 0.1 and blk <= 4:
                ln = 257 * max(1, blk - 2) + 3    # block counter wraps 0xFF -> 0
            ops.append(('download', a, bytes(rnd.randrange(256) for _ in range(max(0, ln))), rnd.choice(fm), rnd.choice(fm)))
        elif x < 0.77:
            ops.append(('session', rnd.choice([1, 2, 3])))
        elif x < 0.8:
            y = rnd.random()
            if y < 0.4:
                ops.append(('spr_session', rnd.choice([0, 0, 1]), rnd.choice([3, 0x55, 0x55])))
            elif y < 0.5:
                ops.append(('spr_tester_present', rnd.choice([0, 1])))
            elif y < 0.8:
                ops.append(('slow_read', rnd.choice(vals), rnd.choice([1, 4]), rnd.choice([6_000_000, 20_000_000])))
            else:
                ops.append(('slow_write_did', 0x0102, bytes([rnd.randrange(256)]), 6_000_000))
        elif x < 0.85:
            ops.append(('unlock', rnd.choice([1, 2, 5])))
        elif x < 0.9:
            ops.append(('raw', 25, [0x7777], [b'\x01']))                 # unknown DID: rejected locally
        elif x < 0.95:
            ops.append(('raw', 13, [7, 1], [b'\x01\x02']))               # transfer_data outside a download: negative
        else:
            ops.append(('raw', 18, a_memloc(1 << 70, 1), [b'\x00']))      # address too wide: rejected locally
    return ops


def gen_cases(tier, seed):
    rnd = random.Random(seed)
    n, m = (400, 12) if tier == 'quick' else (20000, 40)
    # systematic round trips
    for blk in (3, 4, 10, 0x402):
        for ca in (-1, 16, 64):
            cfgv = list(cl.DEFAULT_CFG)
            cfgv[cl.SRV_ADDR] = ca
            cfgv[cl.ALGO] = 1
            data = bytes(range(1, 24))
            for bad in (('spr_session', 0, 0x55), ('spr_session', 1, 0x55), ('slow_read', 0x1000, 4, 6_000_000), ('slow_write_did', 0x0102, b'\x07', 6_000_000)):
                yield make_case(cfgv, blk, [('write_mem', 0x1000, data, None, None), ('write_mem', 0x3000, data[::-1], None, None), bad,
                                            ('read_mem', 0x3000, len(data), None, None), ('read_mem', 0x1000, len(data), None, None),
                                            ('write_did', 0xF190, b'ABC'), ('read_dids', [0xF190])], 'unread answer left behind')
            # one MemoryLocation object moved along across a byte-width boundary of the address and of the size
            walk = [('reuse_objects',)]
            for addr in (0xFFF0, 0xFFFC, 0x10000, 0x10008, 0xFFFFFC, 0x1000000):
                walk += [('write_mem', addr, data[:8], None, None), ('read_mem', addr, 8, None, None)]
            walk += [('write_mem', 0x20, bytes(range(255)), None, None), ('write_mem', 0x400, bytes(range(200)) + bytes(range(60)), None, None),
                     ('read_mem', 0x400, 260, None, None), ('read_mem', 0x20, 255, None, None),
                     ('download', 0xFFFE, data, None, None), ('download', 0x10000, data, None, None), ('read_mem', 0x10000, len(data), None, None)]
            yield make_case(cfgv, blk, walk, 'one MemoryLocation object moved along')
            yield make_case(cfgv, blk, [('write_did', 0xF190, b'ABC'), ('read_dids', [0xF190]), ('write_mem', 0x1000, data, None, None),
                                        ('read_mem', 0x1000, len(data), None, None), ('download', 0x2000, data, None, None),
                                        ('read_mem', 0x2000, len(data), None, None), ('read_mem', 0x2005, 7, None, 16)], 'systematic')
    # the same round trip with the DIDs described in the other documented ways (pack string, DidCodec instance, the application's own
    # DidCodec subclass built on a pack string): the values are tuples of integers then, the bytes are the same
    for form in (1, 2, 3):
        for ex in (1, 0):
            cfgv = list(cl.DEFAULT_CFG)
            cfgv[cl.EX_NEG] = ex
            yield make_case(cfgv, 0x20, [('read_dids', [0x1234]), ('write_did', 0xF190, b'ABC'), ('write_did', 0x0102, b'\x07'), ('write_did', 0x1234, b'\x12\x34'),
                                         ('read_dids', [0xF190, 0x0102, 0x1234]), ('write_did', 0xF190, b'\x00\xff\x80'), ('read_dids', [0x1234, 0xF190]),
                                         ('write_did', 0xFFFF, b'tail'), ('read_dids', [0x0102])], 'DID round trip / codec form %d' % form)
    # identifiers served by the 'default' entry of the table (a codec instance of fixed length / of length 0 / that takes whatever is left):
    # what is written under such an identifier is read back like under a listed one
    for ex in (1, 0):
        cfgv = list(cl.DEFAULT_CFG)
        cfgv[cl.EX_NEG] = ex
        yield make_case(cfgv, 0x20, [('write_did', 0xF190, b'ABC'), ('write_did', 0x0102, b'\x07\x08'), ('write_did', 0x0999, b'ab'), ('read_dids', [0x0102]),
                                     ('read_dids', [0x0999, 0xF190, 0x0102]), ('write_did', 0x0999, b'\x00\x00'), ('read_dids', [0xF190, 0x0999])],
                        'DID round trip / default codec of fixed length', dids=[(0xF190, 3), (-1, 2)])
        yield make_case(cfgv, 0x20, [('write_did', 0xF190, b'ABC'), ('write_did', 0x0102, b'\x07'), ('write_did', 0x1234, b'\x12\x34\x56'), ('read_dids', [0x0102]),
                                     ('read_dids', [0xF190, 0x1234]), ('write_did', 0x0102, b''), ('read_dids', [0xF190, 0x0102]), ('write_did', 0x0000, b'zero'),
                                     ('read_dids', [0x0000])],
                        'DID round trip / default codec that reads all', dids=[(0xF190, 3), (-1, -1)])
        yield make_case(cfgv, 0x20, [('write_did', 0xF190, b'ABC'), ('write_did', 0x0777, b''), ('read_dids', [0xF190, 0x0777]), ('read_dids', [0x0777]),
                                     ('read_dids', [0x0777, 0xF190])],
                        'DID round trip / default codec of length 0', dids=[(0xF190, 3), (-1, 0)])
    for it in range(n):
        cfgv = list(cl.DEFAULT_CFG)
        cfgv[cl.SRV_ADDR] = rnd.choice([-1, 16, 32, 64])
        cfgv[cl.SRV_SIZE] = rnd.choice([-1, 16, 32])
        cfgv[cl.ALGO] = rnd.choice([0, 1, 3])
        cfgv[cl.EX_NEG] = rnd.choice([1, 1, 0])
        blk = rnd.choice([3, 4, 7, 0x20, 0x402])
        ops = gen_ops(rnd, rnd.randrange(1, m + 1), blk)
        if it % 3 == 0:
            ops = [('reuse_objects',)] + ops
        yield make_case(cfgv, blk, ops, 'random history' + (' (argument objects reused)' if it % 3 == 0 else ''))


def worker_init():
    cl.setup()


class Ecu:
    """the extracted reference ECU, kept as state inside the driver process of this worker"""

    def __init__(self, blk):
        d = driver()
        d.stdin.write('e0|%x|\n' % blk)
        d.stdin.flush()
        d.stdout.readline()

    def reply(self, frame):
        d = driver()
        d.stdin.write('e1||%s\n' % (frame.hex() or '-'))
        d.stdin.flush()
        return bytes(parse_result(d.stdout.readline()))

    def state(self):
        d = driver()
        d.stdin.write('e2||\n')
        d.stdin.flush()
        return parse_result(d.stdout.readline())


def impl(c):
    a = list(c.ints)
    L = a[0]
    cfgv = a[1:1 + L]
    blk, ncalls = a[1 + L], a[2 + L]
    pos = 3 + L
    blobs = list(c.blobs)
    client, conn, clk = cl.make_client(cfgv)
    if ' / codec form ' in c.tag:
        cl.apply_codec_form(client, int(c.tag.rsplit(' ', 1)[1]))
    ecu = Ecu(blk)
    out = []
    state = {'start': 0, 'k': 0, 'lat': 0}
    orig_send = conn.specific_send

    def send(payload):
        orig_send(payload)
        rep = ecu.reply(payload)
        if rep:
            # whatever the client does not read stays in the reception queue (only the client's own flush removes it)
            conn.sched.append((state['start'] + 1 + state['lat'] + state['k'], rep))
            conn.sched.sort(key=lambda x: x[0])
        state['k'] += 1
    conn.specific_send = send
    for _ in range(ncalls):
        callid, nargs = a[pos], a[pos + 1]
        args = a[pos + 2:pos + 2 + nargs]
        ncb = a[pos + 2 + nargs]
        pos += 3 + nargs
        cb, blobs = blobs[:ncb], blobs[ncb:]
        if callid == 100:
            client.suppress_positive_response(wait_nrc=(args[0] == 1)).__enter__()
            continue
        if callid == 101:
            client.suppress_positive_response.__exit__(None, None, None)
            continue
        if callid == 102:
            state['lat'] = args[0]
            continue
        if callid == 103:
            clk.us += args[0]
            continue
        if callid == 104:
            client._verif_reuse_memloc = True
            continue
        conn.log = []
        state['start'], state['k'] = clk.us, 0
        res, exc = cl.enc_outcome(lambda: cl.do_call(client, callid, args, cb))
        sent = [e[2:] for e in conn.log if e[0] == 2]
        out += res + [len(sent)] + [x for s in sent for x in [len(s)] + list(s)]
    return out + ecu.state()


def abstract(blk, ops):
    """the abstract store: expected read results and final contents"""
    dids, mem = {}, {}
    reads = []
    for op in ops:
        k = op[0]
        if k == 'write_did':
            dids[op[1]] = op[2]
        elif k == 'read_dids':
            reads.append(('dids', op[1], {d: dids[d] for d in op[1]} if all(d in dids for d in op[1]) else None))
        elif k == 'write_mem':
            if len(op[2]) > 0:
                for i, b in enumerate(op[2]):
                    mem[op[1] + i] = b
        elif k == 'read_mem':
            want = [mem.get(op[1] + i) for i in range(op[2])]
            reads.append(('mem', (op[1], op[2]), bytes(want) if all(w is not None for w in want) and op[2] > 0 else None))
        elif k == 'download':
            for i, b in enumerate(op[2]):
                mem[op[1] + i] = b
    return dids, mem, reads


def fits(v, explicit, configured):
    f = explicit if explicit is not None else (configured if configured >= 0 else None)
    return v < (1 << 64) if f is None else v < (1 << f)


def oracle(c, r):
    e = EXPECT.get(c.line())
    if e is None:
        return None
    blk, ops = e
    a = list(c.ints)
    L = a[0]
    cfgv = a[1:1 + L]
    # walk the rendered result call by call
    calls = [x for op in ops for x in expand(op, blk)]
    i = 0
    per_call = []
    for callid, args, bl in calls:
        d = {}
        if callid >= 100:
            per_call.append({'kind': 'pseudo', 'frames': []})
            continue
        k = r[i]
        if k == 0 and r[i + 1] == 0:
            d['kind'] = 'none'; i += 2
        elif k == 0 and r[i + 1] == 1:
            resp, j = cl._parse_resp(r, i + 2)
            n = r[j]
            d['kind'], d['sdata'] = 'ok', r[j + 1:j + 1 + n]
            i = j + 1 + n
        elif k == 1:
            resp, i = cl._parse_resp(r, i + 1)
            d['kind'] = 'returned'
        else:
            d['kind'], d['err'] = 'raised', r[i + 1]
            if r[i + 2] == 1:
                resp, i = cl._parse_resp(r, i + 3)
            else:
                i += 3
        nf = r[i]
        i += 1
        fr = []
        for _ in range(nf):
            ln = r[i]
            fr.append(bytes(r[i + 1:i + 1 + ln]))
            i += 1 + ln
        d['frames'] = fr
        per_call.append(d)
        if d['kind'] == 'raised' and d['err'] >= 20:
            return ('internal-error', 'call id %d raised internal error %d' % (callid, d['err']))
    state = r[i:]
    # read-backs, in the order of the abstract ops; ops whose arguments the client must refuse locally are skipped
    ci = 0
    dids, mem, reads = {}, {}, []
    for op in ops:
        ex = expand(op, blk)
        ds = per_call[ci:ci + len(ex)]
        ci += len(ex)
        k = op[0]
        ca, cs = cfgv[cl.SRV_ADDR], cfgv[cl.SRV_SIZE]
        if k == 'write_did':
            if ds[0]['kind'] == 'ok':
                dids[op[1]] = op[2]
            else:
                return ('write-refused', 'write_data_by_identifier(%#x, %r) was not accepted: %r' % (op[1], op[2], ds[0]))
        elif k == 'slow_write_did':
            if any(x['frames'] for x in ds):
                dids[op[1]] = op[2]       # the ECU got the request and stored the value; only its answer came too late
        elif k == 'read_dids':
            if all(x in dids for x in op[1]):
                want = [len(set(op[1]))]
                for x in sorted(set(op[1])):
                    want += [x] + enc_bytes(dids[x])
                if ds[0]['kind'] != 'ok' or ds[0]['sdata'] != want:
                    return ('did-readback', 'read_data_by_identifier(%r) returned %r, written values are %r' % (op[1], ds[0].get('sdata'), {x: dids[x] for x in op[1]}))
        elif k == 'write_mem':
            ok_args = len(op[2]) > 0 and fits(op[1], op[3], ca) and fits(len(op[2]), op[4], cs)
            if ok_args:
                if ds[0]['kind'] != 'ok':
                    return ('write-refused', 'write_memory_by_address(%#x, %d bytes) was not accepted: %r' % (op[1], len(op[2]), ds[0]))
                for j, b in enumerate(op[2]):
                    mem[op[1] + j] = b
        elif k == 'read_mem':
            want = [mem.get(op[1] + j) for j in range(op[2])]
            if all(w is not None for w in want) and op[2] > 0 and fits(op[1], op[3], ca) and fits(op[2], op[4], cs):
                if ds[0]['kind'] != 'ok' or ds[0]['sdata'] != enc_bytes(bytes(want)):
                    return ('memory-readback', 'read_memory_by_address(%#x, %d) returned %r, written bytes are %s' % (op[1], op[2], ds[0].get('sdata'), bytes(want).hex()))
        elif k == 'download':
            if fits(op[1], op[3], ca) and fits(len(op[2]), op[4], cs) and len(op[2]) > 0:
                if any(x['kind'] != 'ok' for x in ds):
                    return ('download-refused', 'download of %d bytes at %#x: %r' % (len(op[2]), op[1], [x['kind'] for x in ds]))
                for j, b in enumerate(op[2]):
                    mem[op[1] + j] = b
    # final ECU state equals the abstract store (pointwise)
    nd = state[0]
    p = 1
    ed = {}
    for _ in range(nd):
        did, ln = state[p], state[p + 1]
        ed.setdefault(did, bytes(state[p + 2:p + 2 + ln]))
        p += 2 + ln
    nm = state[p]
    p += 1
    em = {}
    for _ in range(nm):
        em.setdefault(state[p], state[p + 1])
        p += 2
    for did, v in dids.items():
        if ed.get(did) != v:
            return ('ecu-did-state', 'ECU holds %r for DID %#x, the client wrote %r' % (ed.get(did), did, v))
    for ad, b in mem.items():
        if em.get(ad) != b:
            return ('ecu-memory-state', 'ECU holds %r at %#x, the client wrote %#x' % (em.get(ad), ad, b))
    return None


def nontrivial(c, r):
    e = EXPECT.get(c.line())
    if e is None:
        return False
    seen_write = False
    for op in e[1]:
        if op[0] in ('write_did', 'write_mem', 'download'):
            seen_write = True
        if op[0] in ('read_dids', 'read_mem') and seen_write:
            return True
    return False


def describe(c):
    return 'block length %r, operations %r' % (EXPECT.get(c.line()) or ('?', '?'))
