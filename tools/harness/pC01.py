"""C01 - each request sent is the exact ISO-14229 encoding of the call's arguments.
In-domain stream of every modelled entry point (boundary values, walking widths, data strings, DID lists, editions,
configured formats) outside and inside a suppress-positive-response block; the frame handed to the connection must
be byte-for-byte the ISO layout of isospec.py (an independent encoder; the layouts are injective, so the
arguments are recovered from it)."""
from harness.core import Case
from harness import clientlib as cl, reqcommon, isospec

WIDE = 200000        # thorough tier: histories of the wide correspondence stream (widegen.py), judged by the model and the generic rule
WIDE_QUICK = 2000
PROP = 'C01'
EXHAUSTIVE = False
RULE = ('same argument space as C07, judged only where the call is in the documented domain: sent frame == ISO encoding; plus '
        'every such call inside a suppress_positive_response block (bit 7 of the subfunction set, nothing else changed). '
        'non-trivial = a frame was sent for a non-template argument combination (distinct case lines)')
ASSUMPTIONS = ['DID values are raw bytes (codec = identity); user codecs are outside the model']


def gen_cases(tier, seed):
    for c in reqcommon.gen(tier, seed):
        yield c
        # the same call inside a suppress block
        cfgv, ops = cl.case_ops(c)
        _, callid, args, cb, reps = ops[0]
        if isospec.expected(cfgv, callid, args, cb)[0] == 'send' and (tier != 'quick' or len(c.line()) % 3 == 0):
            h = cl.H(cfgv)
            h.spr_enter(False).call(callid, args, cb, []).spr_exit()
            yield h.case(5000, c.tag + ' / suppressed')
        # the same call three times on one client, the application handing over the same argument objects: every frame is the first one
        if isospec.expected(cfgv, callid, args, cb)[0] == 'send' and callid in (1, 17, 18, 19, 20, 26) and (tier != 'quick' or len(c.line()) % 2 == 0 or (callid == 26 and args[4] == 2)):
            h = cl.H(cfgv)
            a3 = list(args[:5]) + [1] if callid == 1 else args
            h.call(callid, a3, cb, []).call(callid, a3, cb, []).call(callid, a3, cb, [])
            yield h.case(5000, c.tag + ' / repeated')


    # one Filesize object kept by the application and updated between transfers (the compressed size is never given: it defaults to
    # the uncompressed one each time)
    from harness.callreg_ext import a_file
    for moop in (1, 3, 6):
        for sizes in ([0x1000, 0x2340, 0x10], [5, 0xFFFFFF, 0], [0x100, 0x100, 0xFF]):
            for comp in (None, 7):
                h = cl.H(list(cl.DEFAULT_CFG))
                for u in sizes:
                    a_, b_ = a_file(moop, b'a.bin', None, (u, comp, 4))
                    h.call(27, a_, b_, [])
                yield h.case(5000, 'request_file_transfer with one Filesize object updated between calls / repeated, other values')


def worker_init():
    cl.setup()


def impl(c):
    return cl.run_history_case(c)


def oracle(c, r):
    if c.tag.endswith(' / suppressed'):
        cfgv, ops = cl.case_ops(c)
        _, callid, args, cb, reps = ops[1]
        d = cl.parse_calls(r, 1)[0][0]
        kind, val = isospec.expected(cfgv, callid, args, cb)
        sent = [e[1] for e in d['events'] if e[0] == 'S']
        from udsoncan.BaseService import BaseService
        svc = BaseService.from_request_id(val[0])
        want = val[:1] + bytes([val[1] | 0x80]) + val[2:] if svc.use_subfunction() else val
        if sent[:1] != [want]:
            return ('wrong-encoding-suppressed/%s' % c.tag.split(' / ')[0], 'inside a suppress block sent %r, expected %s' % ([s.hex() for s in sent], want.hex()))
        return None
    if c.tag.endswith(' / repeated, other values'):
        cfgv, ops = cl.case_ops(c)
        for i, (o, d) in enumerate(zip(ops, cl.parse_calls(r, len(ops))[0])):
            _, callid, args, cb, reps = o
            kind, val = isospec.expected(cfgv, callid, args, cb)
            sent = [e[1] for e in d['events'] if e[0] == 'S']
            if kind == 'send' and sent[:1] != [val]:
                return ('wrong-encoding-updated-object/%s' % c.tag.split(' / ')[0], 'call %d (same argument object, updated) sent %r, the ISO encoding is %s' % (
                    i + 1, [s.hex() for s in sent], val.hex()))
        return None
    if c.tag.endswith(' / repeated'):
        cfgv, ops = cl.case_ops(c)
        _, callid, args, cb, reps = ops[0]
        kind, val = isospec.expected(cfgv, callid, args[:5] if callid == 1 else args, cb)
        for i, d in enumerate(cl.parse_calls(r, 3)[0]):
            sent = [e[1] for e in d['events'] if e[0] == 'S']
            if sent[:1] != [val]:
                return ('wrong-encoding-repeated/%s' % c.tag.split(' / ')[0], 'call %d of 3 identical calls sent %r, the ISO encoding is %s' % (i + 1, [s.hex() for s in sent], val.hex()))
        return None
    return reqcommon.judge(c, r, want_kinds=('send',))


def nontrivial(c, r):
    return reqcommon.nontrivial(c, r) and 2 in r


describe = reqcommon.describe
