"""The documented argument domain and the ISO 14229-1 request layout of every modelled client call, written from
the standard (Appendix A of DESIGN.md) independently of udsoncan and of the Coq model.  Used as the oracle of C01,
C07 and C14:  expected(cfg, callid, args, blobs) ->
   ('send', payload)      the call is in the documented domain; this is the exact frame
   ('reject', why)        the call is outside the documented domain: it must raise and send nothing
   ('unspecified', why)   the documentation is silent; only losslessness is checked (see lossless())."""
from harness import clientlib as cl
from harness.calls_ext import oi, ob


def u(n, v):
    return v.to_bytes(n, 'big')


def is_u(v, hi):
    return isinstance(v, int) and 0 <= v <= hi


class Reject(Exception):
    pass


class Unspec(Exception):
    pass


def need(c, why):
    if not c:
        raise Reject(why)


def width_bytes(v):
    return max(1, (v.bit_length() + 7) // 8)


def memloc_bytes(cfgv, a, i):
    """ALFID + address + size for MemoryLocation(a[i], a[i+1], af, sf) under the configured server formats"""
    addr, size = a[i], a[i + 1]
    ea, es = oi(a, i + 2), oi(a, i + 4)
    ca = None if cfgv[cl.SRV_ADDR] < 0 else cfgv[cl.SRV_ADDR]
    cs = None if cfgv[cl.SRV_SIZE] < 0 else cfgv[cl.SRV_SIZE]
    need(addr >= 0 and size >= 0, 'negative address or size')
    need(addr < (1 << 64) and size < (1 << 64), 'address or size wider than 64 bits')
    fa = ea if ea is not None else (ca if ca is not None else 8 * width_bytes(addr))
    fs = es if es is not None else (cs if cs is not None else 8 * width_bytes(size))
    need(fa in range(8, 65, 8) and fs in range(8, 65, 8), 'format is not 8..64 in steps of 8')
    # a configured format that is invalid is a configuration problem, also a rejection
    need((ea is None or ea in range(8, 65, 8)) and (es is None or es in range(8, 65, 8)), 'explicit format invalid')
    na, ns = fa // 8, fs // 8
    need(addr < (1 << (8 * na)), 'address does not fit the width that will be transmitted')
    need(size < (1 << (8 * ns)), 'size does not fit the width that will be transmitted')
    return bytes([(ns << 4) | na]) + u(na, addr) + u(ns, size), na, ns


BAUD = {9600: 1, 19200: 2, 38400: 3, 57600: 4, 115200: 5, 125000: 0x10, 250000: 0x11, 500000: 0x12, 1000000: 0x13}
DTC_SUBS = set(list(range(1, 0x1B)) + [0x42, 0x55, 0x56])
DTC_2020 = {0x16, 0x17, 0x18, 0x19, 0x1A, 0x42, 0x55, 0x56}


def lenpref(b):
    need(b is None or len(b) <= 0xFFFF, 'byte string longer than 0xFFFF')
    return u(2, 0) if b is None else u(2, len(b)) + b


def did_shape(dids, did):
    d = dict()
    for k, sh in dids:
        d.setdefault(k, sh)
    if did in d:
        return d[did]
    return d.get(-1)


def expected_inner(cfgv, callid, a, b):
    base, dids, ios = cl.split_cfg(cfgv)
    std = base[cl.STD]
    if callid == 2:
        need(is_u(a[0], 0x7F), 'session outside 0..0x7F')
        return bytes([0x10, a[0]])
    if callid in (3, 4, 5):
        need(is_u(a[0], 0x7E) and a[0] >= 1, 'level outside 1..0x7E')
        k = (a[0] + 1) // 2
        if callid == 5:
            need(base[cl.ALGO] > 0, 'no security algorithm configured')
        return bytes([0x27, 2 * k - 1 if callid in (3, 5) else 2 * k]) + b[0]
    if callid == 6:
        return b'\x3e\x00'
    if callid == 7:
        need(is_u(a[0], 0x7F), 'reset type outside 0..0x7F')
        return bytes([0x11, a[0]])
    if callid == 8:
        ms = oi(a, 1)
        need(is_u(a[0], 0xFFFFFF), 'group outside 0..0xFFFFFF')
        if ms is not None:
            need(std >= 2020, 'memory selection needs the 2020 edition')
            need(is_u(ms, 0xFF), 'memory selection outside 0..0xFF')
        return b'\x14' + u(3, a[0]) + (b'' if ms is None else bytes([ms]))
    if callid == 9:
        need(is_u(a[0], 0xFFFF), 'routine id outside 0..0xFFFF')
        need(is_u(a[1], 0x7F), 'control type outside 0..0x7F')
        return bytes([0x31, a[1]]) + u(2, a[0]) + (ob(a, 2, b, 0) or b'')
    if callid == 10:
        need(is_u(a[0], 0x7F), 'access type outside 0..0x7F')
        rec = ob(a, 1, b, 0)
        need((rec is not None) == (a[0] == 4), 'record present iff access type is 4')
        return bytes([0x83, a[0]]) + (rec or b'')
    if callid == 11:
        ct, node = a[0], oi(a, 5)
        if a[1] == 0:
            subnet, normal, nm = a[2], bool(a[3]), bool(a[4])
            need(is_u(subnet, 15), 'subnet outside 0..15')
        else:
            if a[1] == 2:      # given as a bytes object: exactly one byte
                need(len(b[0]) == 1, 'communication type given as %d bytes' % len(b[0]))
                a = list(a)
                a[2] = b[0][0]
            need(is_u(a[2], 0xFF), 'communication type byte outside 0..0xFF')
            subnet, normal, nm = a[2] >> 4, bool(a[2] & 1), bool(a[2] & 2)
            if a[2] & 0x0C:
                raise Unspec('reserved bits 2..3 of the communication type are set')
        need(normal or nm, 'no message type selected')
        need(is_u(ct, 0x7F), 'control type outside 0..0x7F')
        require = std >= 2013 and ct in (4, 5)
        need((node is not None) == require, 'node id present iff control type 4/5 under >= 2013')
        if node is not None:
            need(is_u(node, 0xFFFF), 'node id outside 0..0xFFFF')
        return bytes([0x28, ct, (subnet << 4) | (2 if nm else 0) | (1 if normal else 0)]) + (b'' if node is None else u(2, node))
    if callid == 13:
        need(is_u(a[0], 0xFF), 'sequence number outside 0..0xFF')
        return bytes([0x36, a[0]]) + (ob(a, 1, b, 0) or b'')
    if callid == 14:
        return b'\x37' + (ob(a, 0, b, 0) or b'')
    if callid == 15:
        ct = a[0]
        need(is_u(ct, 0x7F), 'control type outside 0..0x7F')
        has = a[1] == 1
        need(has == (ct in (1, 2)), 'baud rate present iff control type 1 or 2')
        if not has:
            return bytes([0x87, ct])
        rate, ty = a[2], a[3]
        need(rate >= 0 and ty in (0, 1, 2, 3), 'invalid Baudrate')
        if ty == 3:
            ty = 0 if rate in BAUD else (2 if rate <= 0xFF else 1)
        need(not (ty == 0 and rate not in BAUD), 'not a standard baud rate')
        need(not (ty == 1 and rate > 0xFFFFFF), 'specific baud rate wider than 24 bits')
        need(not (ty == 2 and rate > 0xFF), 'identifier outside 0..0xFF')
        inv = {v: k for k, v in BAUD.items()}
        if ty == 2:
            need(rate in inv, 'identifier is not one the standard defines')
            eff, ident = inv[rate], rate
        else:
            eff, ident = rate, BAUD.get(rate)
        if ct == 1:
            need(ident is not None, 'no fixed identifier for this baud rate')
            return bytes([0x87, 1, ident])
        need(eff <= 0xFFFFFF, 'baud rate wider than 24 bits')
        return bytes([0x87, 2]) + u(3, eff)
    if callid == 16:
        need(is_u(a[0], 0x7F), 'setting type outside 0..0x7F')
        return bytes([0x85, a[0]]) + (ob(a, 1, b, 0) or b'')
    if callid == 17:
        w, _, _ = memloc_bytes(base, a, 0)
        return b'\x23' + w
    if callid == 18:
        w, _, _ = memloc_bytes(base, a, 0)
        return b'\x3d' + w + b[0]
    if callid == 19:
        c, e = (a[8], a[9]) if a[7] == 1 else (0, 0)
        need(is_u(c, 15) and is_u(e, 15), 'data format nibble outside 0..15')
        w, _, _ = memloc_bytes(base, a, 1)
        return bytes([0x35 if a[0] == 1 else 0x34, (c << 4) | e]) + w
    if callid == 20:
        did, kind, n = a[0], a[1], a[2]
        need(is_u(did, 0xFFFF), 'did outside 0..0xFFFF')
        need(n >= 1, 'no entry')
        if kind == 1:
            out = bytes([0x2C, 1]) + u(2, did)
            for i in range(n):
                sd, pos, ms = a[3 + 3 * i:6 + 3 * i]
                need(is_u(sd, 0xFFFF) and is_u(pos, 0xFF) and is_u(ms, 0xFF), 'source did / position / size out of range')
                out += u(2, sd) + bytes([pos, ms])
            return out
        ws = [memloc_bytes(base, a, 3 + 6 * i) for i in range(n)]
        need(len(set(w[0][0] for w in ws)) == 1, 'entries with different address/size widths')
        return bytes([0x2C, 2]) + u(2, did) + ws[0][0][:1] + b''.join(w[0][1:] for w in ws)
    if callid == 21:
        did = oi(a, 0)
        need(did is None or is_u(did, 0xFFFF), 'did outside 0..0xFFFF')
        return bytes([0x2C, 3]) + (b'' if did is None else u(2, did))
    if callid in (22, 23, 24):
        l = a[1:1 + a[0]]
        need(all(is_u(d, 0xFFFF) for d in l), 'did outside 0..0xFFFF')
        if callid != 24:
            shapes = [did_shape(dids, d) for d in l]
            need(all(s is not None for s in shapes), 'did without a configured codec')
            need(all(s >= 0 for s in shapes[:-1]), 'a read-all codec before the last did')
        if not l:
            raise Unspec('empty did list')
        return b'\x22' + b''.join(u(2, d) for d in l)
    if callid == 25:
        need(is_u(a[0], 0xFFFF), 'did outside 0..0xFFFF')
        sh = did_shape(dids, a[0])
        need(sh is not None, 'did without a configured codec')
        need(sh < 0 or len(b[0]) == sh, 'value does not have the codec length')
        return b'\x2e' + u(2, a[0]) + b[0]
    if callid == 26:
        did, cp = a[0], oi(a, 1)
        need(is_u(did, 0xFFFF), 'did outside 0..0xFFFF')
        need(cp is None or is_u(cp, 3), 'control parameter outside 0..3')
        values = b[0] if a[3] == 1 else None
        need(not (values is None and a[4] != 0), 'masks without values')
        tab = {}
        for e in ios:
            tab.setdefault(e[0], e)
        ent = tab.get(did, tab.get(-1))
        need(ent is not None, 'did without input/output configuration')
        _, sh, hm, ms, mvals = ent
        out = b'\x2f' + u(2, did) + (b'' if cp is None else bytes([cp]))
        if values is not None:
            need(sh < 0 or len(values) == sh, 'values do not have the codec length')
            out += values
        if a[4] == 1:
            need(ms >= 0, 'boolean mask without mask_size')
            out += (b'\xff' if a[5] else b'\x00') * ms
        elif a[4] == 2:
            need(hm == 1, 'masks without mask definition')
            sel = [(a[6 + 2 * i], a[7 + 2 * i]) for i in range(a[5])]
            need(all(0 <= i < len(mvals) for i, _ in sel), 'unknown mask name')
            num = 0
            for i, on in sel:
                if on:
                    num |= mvals[i]
            size = ms if ms >= 0 else (num.bit_length() + 7) // 8
            need(num < (1 << (8 * size)) or size == 0 and num == 0, 'mask does not fit mask_size')
            out += u(size, num)
        return out
    if callid == 27:
        moop = a[0]
        need(moop in (1, 2, 3, 4, 5, 6), 'mode of operation outside 1..6')
        path = b[0]
        need(1 <= len(path) <= 0xFFFF and all(c < 128 for c in path), 'path is not 1..0xFFFF ASCII characters')
        use_dfi, use_fs = moop in (1, 3, 4, 6), moop in (1, 3, 6)
        out = b'\x38' + bytes([moop]) + u(2, len(path)) + path
        if a[1] == 1:
            need(use_dfi, 'data format given for a mode that has none')
            need(is_u(a[2], 15) and is_u(a[3], 15), 'data format nibble outside 0..15')
        if use_dfi:
            out += bytes([((a[2] << 4) | a[3]) if a[1] == 1 else 0])
        if a[4] != 0:
            need(use_fs, 'file size given for a mode that has none')
        if use_fs:
            need(a[4] != 0, 'file size missing')
            if a[4] == 1:
                unc, comp, w = a[5], None, None
            else:
                unc, comp, w = oi(a, 6), oi(a, 8), oi(a, 10)
            need(unc is not None, 'uncompressed size missing')
            need(unc >= 0 and (comp is None or comp >= 0) and (w is None or w >= 0), 'negative size or width')
            if comp is None:
                comp = unc
            if w is None:
                w = (max(unc, comp).bit_length() + 7) // 8
            need(unc < (1 << (8 * w)) or (w == 0 and unc == 0), 'size does not fit the width')
            need(comp < (1 << (8 * w)) or (w == 0 and comp == 0), 'size does not fit the width')
            need(w <= 0xFF, 'width wider than a byte')
            out += bytes([w]) + u(w, unc) + u(w, comp)
        return out
    if callid == 28:
        task = a[0]
        need(is_u(task, 8), 'task outside 0..8')
        cfg, evalid = oi(a, 1), oi(a, 3)
        cert, chal, algo, certdata, pown, eph, add = [ob(a, 5 + i, b, i) for i in range(7)]
        out = bytes([0x29, task])
        if task in (1, 2, 5):
            need(cfg is not None and is_u(cfg, 0xFF), 'communication configuration missing or outside 0..0xFF')
            out += bytes([cfg])
        if task in (1, 2):
            out += lenpref(cert) + lenpref(chal)
        if task in (5, 6, 7):
            need(algo is not None and len(algo) == 16, 'algorithm indicator is not 16 bytes')
            out += algo
        if task == 3:
            out += lenpref(pown) + lenpref(eph)
        if task == 4:
            need(evalid is not None and is_u(evalid, 0xFFFF), 'evaluation id missing or outside 0..0xFFFF')
            out += u(2, evalid) + lenpref(certdata)
        if task in (6, 7):
            out += lenpref(pown) + lenpref(chal) + lenpref(add)
        return out
    if callid == 29:
        sub = a[0]
        need(isinstance(sub, int) and sub in DTC_SUBS, 'not a defined subfunction')
        need(not (sub in DTC_2020 and std < 2020), 'subfunction of the 2020 edition')
        status, sev, sevobj, cls_, dtc, snap, ext, memsel, fgid, esz = oi(a, 1), oi(a, 3), a[5], oi(a, 6), oi(a, 8), oi(a, 10), oi(a, 12), oi(a, 14), oi(a, 16), oi(a, 18)
        if sev is not None and sevobj:
            sev = sev & 0xE0
        if cls_ is not None:
            need(sev is not None, 'dtc class without severity mask')
            sev = sev | (cls_ & 0x1F)
        out = bytes([0x19, sub])

        def rq(v, hi, what):
            need(v is not None and is_u(v, hi), what + ' missing or out of range')
            return v
        if sub in (0x0A, 0x0B, 0x0C, 0x0D, 0x0E, 0x14, 0x15, 0x03):
            pass
        elif sub in (0x01, 0x02, 0x0F, 0x11, 0x12, 0x13):
            out += bytes([rq(status, 0xFF, 'status mask')])
        elif sub == 0x04:
            out += u(3, rq(dtc, 0xFFFFFF, 'dtc')) + bytes([rq(snap, 0xFF, 'record number')])
        elif sub == 0x18:
            out += u(3, rq(dtc, 0xFFFFFF, 'dtc')) + bytes([rq(snap, 0xFF, 'record number'), rq(memsel, 0xFF, 'memory selection')])
        elif sub == 0x05:
            out += bytes([rq(snap, 0xFF, 'record number')])
        elif sub in (0x06, 0x10):
            out += u(3, rq(dtc, 0xFFFFFF, 'dtc')) + bytes([rq(ext, 0xFF, 'record number')])
        elif sub == 0x19:
            out += u(3, rq(dtc, 0xFFFFFF, 'dtc')) + bytes([rq(ext, 0xFF, 'record number'), rq(memsel, 0xFF, 'memory selection')])
        elif sub in (0x07, 0x08):
            out += bytes([rq(sev, 0xFF, 'severity mask'), rq(status, 0xFF, 'status mask')])
        elif sub == 0x09:
            out += u(3, rq(dtc, 0xFFFFFF, 'dtc'))
        elif sub == 0x17:
            out += bytes([rq(status, 0xFF, 'status mask'), rq(memsel, 0xFF, 'memory selection')])
        elif sub == 0x16:
            out += bytes([rq(ext, 0xEF, 'record number')])
        elif sub == 0x42:
            out += bytes([rq(fgid, 0xFE, 'functional group'), rq(status, 0xFF, 'status mask'), rq(sev, 0xFF, 'severity mask')])
        elif sub == 0x55:
            out += bytes([rq(fgid, 0xFE, 'functional group')])
        else:
            raise Unspec('subfunction 0x%02x is defined but has no request layout in the library' % sub)
        if sub in (0x06, 0x10, 0x19, 0x16):
            size = esz if esz is not None else (None if base[cl.EXT_SIZE] < 0 else base[cl.EXT_SIZE])
            need(size is not None and 0 <= size <= 0xFFF, 'extended data size missing or out of range')
        return out
    raise Unspec('no specification for call id %d' % callid)


def expected(cfgv, callid, a, b):
    try:
        return ('send', expected_inner(cfgv, callid, a, b))
    except Reject as e:
        return ('reject', str(e))
    except Unspec as e:
        return ('unspecified', str(e))
    except (IndexError, OverflowError, TypeError, ValueError) as e:
        return ('reject', 'not encodable: %s' % type(e).__name__)
