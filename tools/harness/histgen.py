"""Grammar-based generator of client histories (enter/exit blocks, calls of every outcome class, overrides,
configuration changes, stale frames, clock advances) shared by C09, C10, C13, C15."""
import random
from harness import clientlib as cl
from harness.callreg import invocations

U = 15625


def reply_kinds(inv, rnd):
    p = inv.positive
    neg = bytes([0x7F, inv.sid, rnd.choice([0x10, 0x22, 0x31, 0x33, 0x7E, 0x95])])
    pend = bytes([0x7F, inv.sid, 0x78])
    kinds = [
        ('positive', [(1000, p)]),
        ('positive-late-ok', [(900000, p)]),
        ('negative', [(1000, neg)]),
        ('silence', []),
        ('pending-positive', [(1000, pend), (2000, p)]),
        ('pending-negative', [(1000, pend), (500000, pend), (600000, neg)]),
        ('pending-silence', [(1000, pend)]),
        ('malformed', [(1000, p[:1])]),
        ('mismatch', [(1000, p[:1] + bytes([(p[1] ^ 1) if len(p) > 1 else 0]) + p[2:])]),
        ('other-service', [(1000, b'\x51\x01' if inv.sid != 0x11 else b'\x7e\x00')]),
        ('fault', [(1000, None)]),
        ('duplicate', [(1000, p), (1001, p), (1500, neg)]),
    ]
    return kinds


def session_reply(rnd, session=3):
    a = rnd.choice([0, 1, 50, 0x7FFF, 0x8000, 0xFFFF, rnd.randrange(1, 4000)])
    b = rnd.choice([0, 1, 500, 0x7FFF, 0x8000, 0xFFFF, rnd.randrange(1, 1000)])
    return bytes([0x50, session]) + a.to_bytes(2, 'big') + b.to_bytes(2, 'big')


def add_call(h, rnd, inv, stale=False, kind=None):
    kinds = reply_kinds(inv, rnd)
    name, reps = rnd.choice(kinds) if kind is None else [k for k in kinds if k[0] == kind][0]
    reps = list(reps)
    if inv.callid == 5 and name in ('positive', 'pending-positive') and rnd.random() < 0.8:
        # make the composite go through both exchanges: non-zero seed then key reply
        seed = bytes([0x67, (inv.args[0] - 1) | 1, rnd.randrange(1, 256), rnd.randrange(256)])
        t = reps[-1][0]
        keyrep = rnd.choice([bytes([0x67, ((inv.args[0] + 1) // 2) * 2]), bytes([0x7F, 0x27, 0x35]), None])
        reps = reps[:-1] + [(t, seed)] + ([(t + 1000, keyrep)] if keyrep is not None else [])
        name = 'unlock-full'
    if inv.callid == 2 and name in ('positive', 'pending-positive', 'positive-late-ok', 'duplicate'):
        sr = session_reply(rnd, inv.args[0])
        reps = [(d, sr if f == inv.positive else f) for d, f in reps]
    if stale:
        st = [(-rnd.randrange(0, 5000), inv.positive + b'\xEE'), (-1, bytes([0x7F, inv.sid, 0x13])), (0, inv.positive)]
        reps = rnd.sample(st, rnd.randrange(1, 4)) + reps
        reps.sort(key=lambda x: x[0])
    h.call(inv.callid, inv.args, inv.blobs, reps)
    return name


def gen_history(rnd, maxops, invs, p_stale=0.2, allow_cfg=True, sessions=0.15):
    cfgv = list(cl.DEFAULT_CFG)
    cfgv[cl.ALGO] = rnd.choice([0, 1, 2, 3, 4, 5, 6, 7, 8])
    cfgv[cl.ALGO_PRM] = rnd.choice([-1, 0, 7, 300])
    cfgv[cl.STD] = rnd.choice([2006, 2013, 2020, 2020])
    cfgv[cl.USE_SRV] = rnd.choice([1, 1, 0])
    cfgv[cl.HAS_CB] = rnd.randrange(2)
    cfgv[cl.REQ_TO] = rnd.choice([-1, 320 * U, 128 * U])
    for s in (cl.EX_NEG, cl.EX_INV, cl.EX_UNX):
        cfgv[s] = rnd.choice([1, 1, 0])
    h = cl.H(cfgv)
    in_spr = False
    in_ov = False
    n = rnd.randrange(1, maxops + 1)
    tags = []
    sess = [i for i in invs if i.callid == 2]
    for _ in range(n):
        x = rnd.random()
        if x < 0.12:
            if in_spr:
                h.spr_exit()
            else:
                h.spr_enter(rnd.choice([False, True, None]))
            in_spr = not in_spr
        elif x < 0.18:
            if in_ov:
                h.ov_exit()
            else:
                if rnd.random() < 0.5:
                    h.ov_const(bytes([rnd.randrange(256) for _ in range(rnd.randrange(1, 4))]))
                else:
                    h.ov_fun(bytes([rnd.randrange(256)]), bytes([rnd.randrange(256)]) if rnd.random() < 0.5 else b'')
            in_ov = not in_ov
        elif x < 0.23:
            h.advance(rnd.choice([1, 1000, 250000, 7000000]))
        elif x < 0.28 and allow_cfg:
            slot = rnd.choice([cl.EX_NEG, cl.EX_INV, cl.EX_UNX, cl.REQ_TO, cl.USE_SRV, cl.HAS_CB])
            h.set_cfg(slot, rnd.choice([-1, 320 * U, 64 * U]) if slot == cl.REQ_TO else rnd.randrange(2))
        elif x < 0.28 + sessions and sess:
            tags.append(add_call(h, rnd, rnd.choice(sess), stale=rnd.random() < p_stale))
        else:
            tags.append(add_call(h, rnd, rnd.choice(invs), stale=rnd.random() < p_stale))
    return h, tags


def ncalls(c):
    return len([o for o in cl.case_ops(c)[1] if o[0] == 'call'])
