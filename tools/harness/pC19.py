"""C19 - fixed-width helper codecs are exact inverses over their whole finite domain.
Exhaustive correspondence over every byte / flag combination / nibble pair / width pair / table row; the 24-bit
domains at boundaries, walking ones and random values (the theorem covers them by arithmetic)."""
import inspect
import random
from harness.core import Case, enc_bool, enc_bytes, err_code

PROP = 'C19'
EXHAUSTIVE = True
RULE = ('exhaustive over 0..255 for Status/Severity/DtcClass/CommunicationType/DataFormatIdentifier, all subnet x flag and '
        'nibble pairs (with out-of-range neighbours), all ALFID width pairs incl. invalid widths, Baudrate: every table '
        'row, ids 0..300, type 0..4, new type 0..3; 24-bit values at 2^k, 2^k-1, byte-distinct patterns and random. '
        'non-trivial = constructor accepted the value (distinct case lines counted)')
ASSUMPTIONS = ['24-bit domains are sampled by the correspondence (boundaries + random); the Coq theorems cover them by arithmetic']

ISO_BITS = {
    'Status': {'test_failed': 0, 'test_failed_this_operation_cycle': 1, 'pending': 2, 'confirmed': 3,
               'test_not_completed_since_last_clear': 4, 'test_failed_since_last_clear': 5,
               'test_not_completed_this_operation_cycle': 6, 'warning_indicator_requested': 7},
    'Severity': {'maintenance_only': 5, 'check_at_next_exit': 6, 'check_immediately': 7},
    'DtcClass': {'class0': 0, 'class1': 1, 'class2': 2, 'class3': 3, 'class4': 4},
}
ISO_BAUD = {9600: 1, 19200: 2, 38400: 3, 57600: 4, 115200: 5, 125000: 0x10, 250000: 0x11, 500000: 0x12, 1000000: 0x13}
CLS = {1901: 'Status', 1902: 'Severity', 1903: 'DtcClass'}
NBITS = {1901: 8, 1902: 3, 1903: 5}


def gen_cases(tier, seed):
    rnd = random.Random(seed)
    for x in range(256):
        for e in (1901, 1902, 1903):
            yield Case(e, [x], [], 'dtc flags')
        yield Case(1905, [x], [], 'commtype from_byte')
        yield Case(1907, [x], [], 'dfi from_byte')
    # the decoded objects are documented as mutable: the same decodings again after an earlier decoding of the same byte has
    # been edited by its owner (catches decoders that hand out shared / memoised objects)
    for x in range(256):
        for e in (1901, 1902, 1903):
            yield Case(e, [x, POISON], [], 'dtc flags after an edited decode')
        yield Case(1905, [x, POISON], [], 'commtype from_byte after an edited decode')
        yield Case(1907, [x, POISON], [], 'dfi from_byte after an edited decode')
    # an object that already holds flags decodes a new byte (set_byte on a reused object): the result depends on the new byte only
    for e in (1901, 1902, 1903):
        for prev in (0xFF, 0x00, 0xE0, 0x1F, 0xA5, 0x5A):
            for x in range(256):
                yield Case(e, [x, REUSE, prev], [], 'dtc flags set_byte on a reused object')
    for s in range(-1, 18):
        for n in (0, 1):
            for m in (0, 1):
                yield Case(1904, [s, n, m], [], 'commtype ctor')
    for c in range(-1, 18):
        for e in range(-1, 18):
            yield Case(1906, [c, e], [], 'dfi ctor')
    widths = [0, 7, 8, 12, 16, 24, 32, 40, 48, 56, 64, 72, -8]
    for a in widths:
        for s in widths:
            yield Case(1908, [a, s], [], 'alfid')
    rates = sorted(set(list(ISO_BAUD) + list(range(0, 301)) + [9599, 9601, 0xFFFF, 0x10000, 0xFFFFFE, 0xFFFFFF, 0x1000000, 0x1000001, -1, 0x123456, 0x654321]
                       + [1 << k for k in range(25)] + [(1 << k) - 1 for k in range(25)]))
    for r in rates:
        for ty in range(0, 5):
            for nt in range(0, 4):
                yield Case(1909, [r, ty, nt], [], 'baudrate')
    for _ in range(5000 if tier == 'quick' else 500000):
        yield Case(1909, [rnd.randrange(1 << 24), rnd.choice([1, 3]), rnd.choice([0, 1])], [], 'baudrate random 24-bit')
    # where the baud-rate codec travels: services.LinkControl.make_request, every identifier byte / standard rate / boundary rate x type x
    # control type (a custom identifier is what the Identifier type is for: it goes out as that byte with the fixed-baud-rate control type)
    for ct in (1, 2, 3, 0):
        for ty in (0, 1, 2, 3):
            for r in list(range(0, 256)) + sorted(ISO_BAUD) + [256, 0xFFFF, 0x10000, 0xFFFFFF, 0x1000000]:
                yield Case(1911, [ct, 1, r, ty], [], 'LinkControl.make_request')
        yield Case(1911, [ct, 0, 0, 0], [], 'LinkControl.make_request')
    dtcs = sorted(set([0, 1, 0xFF, 0x100, 0xFFFF, 0x10000, 0xFFFFFF, 0x123456, 0x654321, 0x010203, 0x800000, 0x7FFFFF]
                      + [1 << k for k in range(24)] + [(1 << k) - 1 for k in range(25)]))
    for d in dtcs:
        yield Case(1910, [d], [], 'pack_dtc')
    for _ in range(20000 if tier == 'quick' else 1000000):
        yield Case(1910, [rnd.randrange(1 << 24)], [], 'pack_dtc random')


POISON = 777
REUSE = 778


def scramble(obj, depth=0):
    """edit every attribute of a decoded helper object, as its owner may"""
    for k, v in list(vars(obj).items()):
        try:
            if isinstance(v, bool):
                setattr(obj, k, not v)
            elif isinstance(v, int):
                setattr(obj, k, v ^ 1)
            elif hasattr(v, '__dict__') and depth < 2:
                scramble(v, depth + 1)
        except Exception:
            pass


def poison(e, x):
    from udsoncan import Dtc, CommunicationType, DataFormatIdentifier
    for cls in (Dtc.Status, Dtc.Severity, Dtc.DtcClass, CommunicationType, DataFormatIdentifier):
        try:
            scramble(cls.from_byte(x))
        except Exception:
            pass


def fields_of(cls):
    return [p for p in inspect.signature(cls.__init__).parameters if p != 'self']


def m(f):
    try:
        return [0] + f()
    except Exception as e:
        return [err_code(e)]


def impl(c):
    from udsoncan import Dtc, CommunicationType, DataFormatIdentifier, AddressAndLengthFormatIdentifier, Baudrate
    from udsoncan.services import ReadDTCInformation
    e, a = c.entry, c.ints
    if a and a[-1] == POISON and e in (1901, 1902, 1903, 1905, 1907):
        poison(e, a[0])
    if e in CLS and len(a) == 3 and a[1] == REUSE:
        cls = getattr(Dtc, CLS[e])
        fl = fields_of(cls)
        obj = cls.from_byte(a[2])
        obj.set_byte(a[0])
        fresh = cls(*[bool((a[0] >> i) & 1) for i in range(NBITS[e])])
        return [fresh.get_byte_as_int()] + [enc_bool(getattr(obj, f)) for f in fl]
    if e in CLS:
        cls = getattr(Dtc, CLS[e])
        fl = fields_of(cls)
        x = a[0]
        obj = cls(*[bool((x >> i) & 1) for i in range(NBITS[e])])
        dec = cls.from_byte(x)
        return [obj.get_byte_as_int()] + [enc_bool(getattr(dec, f)) for f in fl]
    if e == 1904:
        return m(lambda: [CommunicationType(a[0], bool(a[1]), bool(a[2])).get_byte_as_int()])
    if e == 1905:
        def f():
            ct = CommunicationType.from_byte(a[0])
            return [ct.subnet.value(), enc_bool(ct.normal_msg), enc_bool(ct.network_management_msg)]
        return m(f)
    if e == 1906:
        return m(lambda: [DataFormatIdentifier(a[0], a[1]).get_byte_as_int()])
    if e == 1907:
        def f():
            d = DataFormatIdentifier.from_byte(a[0])
            return [d.compression, d.encryption]
        return m(f)
    if e == 1908:
        return m(lambda: [AddressAndLengthFormatIdentifier(address_format=a[0], memorysize_format=a[1]).get_byte_as_int()])
    if e == 1909:
        try:
            b = Baudrate(a[0], a[1])
        except Exception as ex:
            return [err_code(ex)]

        def nt():
            n = b.make_new_type(a[2])
            return [n.baudrate, n.baudtype]
        return [0, b.baudrate, b.baudtype] + m(lambda: enc_bytes(b.get_bytes())) + m(lambda: [b.effective_baudrate()]) + m(nt)
    if e == 1910:
        return m(lambda: enc_bytes(ReadDTCInformation.pack_dtc(a[0])))
    if e == 1911:
        from udsoncan.services import LinkControl
        return m(lambda: enc_bytes(LinkControl.make_request(a[0], Baudrate(a[2], a[3]) if a[1] == 1 else None).get_payload()))
    raise RuntimeError('bad entry')


def oracle(c, r):
    from udsoncan import Dtc, CommunicationType, DataFormatIdentifier, AddressAndLengthFormatIdentifier, Baudrate
    from udsoncan.services import ReadDTCInformation
    e, a = c.entry, c.ints
    if e in CLS:
        name = CLS[e]
        cls = getattr(Dtc, name)
        bits = ISO_BITS[name]
        fl = fields_of(cls)
        x = a[0]
        mask = sum(1 << k for k in bits.values())
        if len(a) == 3 and a[1] == REUSE:
            obj = cls.from_byte(a[2])
            obj.set_byte(x)
            got = [obj.get_byte_as_int()] + [1 if getattr(obj, f) else 0 for f in fl]
            want = [x & mask] + [1 if (x >> bits[f]) & 1 else 0 for f in fl]
            if got != want or r[1:] != want[1:]:
                return ('flags-reused-object', 'Dtc.%s.from_byte(%#04x) then set_byte(%#04x): re-encodes to %#04x with flags %r' % (name, a[2], x, got[0], got[1:]))
            return None
        dec = cls.from_byte(x)
        got = {f: getattr(dec, f) for f in fl}
        want = {f: bool((x >> bits[f]) & 1) for f in bits}
        if got != want:
            return ('flags-decode', 'Dtc.%s.from_byte(%#04x) = %r' % (name, x, got))
        if dec.get_byte_as_int() != x & mask:
            return ('flags-reencode', 'Dtc.%s.from_byte(%#04x).get_byte_as_int() = %#04x' % (name, x, dec.get_byte_as_int()))
        if x < (1 << len(fl)):
            vals = [bool((x >> i) & 1) for i in range(len(fl))]
            obj = cls(*vals)
            wantb = sum(1 << bits[f] for f, v in zip(fl, vals) if v)
            if obj.get_byte_as_int() != wantb:
                return ('flags-encode', 'Dtc.%s(%r).get_byte_as_int() = %#04x, ISO says %#04x' % (name, vals, obj.get_byte_as_int(), wantb))
            back = cls.from_byte(obj.get_byte_as_int())
            if [getattr(back, f) for f in fl] != vals:
                return ('flags-roundtrip', 'Dtc.%s(%r) decodes back differently' % (name, vals))
        return None
    if e == 1904:
        s, n, mm = a[0], bool(a[1]), bool(a[2])
        if 0 <= s <= 15 and (n or mm):
            try:
                b = CommunicationType(s, n, mm).get_byte_as_int()
                back = CommunicationType.from_byte(b)
            except Exception as ex:
                return ('commtype-raises', 'CommunicationType(%d,%s,%s) raised %s' % (s, n, mm, type(ex).__name__))
            if b != (1 if n else 0) + (2 if mm else 0) + 16 * s or (back.subnet.value(), back.normal_msg, back.network_management_msg) != (s, n, mm):
                return ('commtype', 'CommunicationType(%d,%s,%s) -> %#04x -> %r' % (s, n, mm, b, (back.subnet.value(), back.normal_msg, back.network_management_msg)))
        return None
    if e == 1905:
        x = a[0]
        if x & 3:
            try:
                ct = CommunicationType.from_byte(x)
            except Exception as ex:
                return ('commtype-raises', 'CommunicationType.from_byte(%#04x) raised %s' % (x, type(ex).__name__))
            if (ct.subnet.value(), ct.normal_msg, ct.network_management_msg) != (x >> 4, bool(x & 1), bool(x & 2)) or ct.get_byte_as_int() != x & 0xF3:
                return ('commtype-decode', 'CommunicationType.from_byte(%#04x) wrong' % x)
        return None
    if e == 1906:
        cc, ee = a
        if 0 <= cc <= 15 and 0 <= ee <= 15:
            b = DataFormatIdentifier(cc, ee).get_byte_as_int()
            back = DataFormatIdentifier.from_byte(b)
            if b != 16 * cc + ee or (back.compression, back.encryption) != (cc, ee):
                return ('dfi', 'DataFormatIdentifier(%d,%d) -> %#04x -> (%d,%d)' % (cc, ee, b, back.compression, back.encryption))
        return None
    if e == 1907:
        x = a[0]
        d = DataFormatIdentifier.from_byte(x)
        if (d.compression, d.encryption) != (x >> 4, x & 15) or d.get_byte_as_int() != x:
            return ('dfi-decode', 'DataFormatIdentifier.from_byte(%#04x) wrong' % x)
        return None
    if e == 1908:
        af, mf = a
        ok = af in range(8, 65, 8) and mf in range(8, 65, 8)
        try:
            b = AddressAndLengthFormatIdentifier(address_format=af, memorysize_format=mf).get_byte_as_int()
        except ValueError:
            return ('alfid-rejects', 'ALFID(%d,%d) rejected' % (af, mf)) if ok else None
        except Exception as ex:
            return ('alfid-raises', 'ALFID(%d,%d) raised %s' % (af, mf, type(ex).__name__))
        if not ok:
            return ('alfid-accepts', 'ALFID(%d,%d) accepted' % (af, mf))
        if b != 16 * (mf // 8) + af // 8:
            return ('alfid', 'ALFID(%d,%d) byte %#04x' % (af, mf, b))
        return None
    if e == 1909:
        rate, ty, nt = a
        T = Baudrate.Type
        if ty == T.Specific and 0 <= rate <= 0xFFFFFF:
            b = Baudrate(rate, ty).get_bytes()
            if len(b) != 3 or int.from_bytes(b, 'big') != rate:
                return ('baud-specific', 'Baudrate(%d, Specific).get_bytes() = %s' % (rate, b.hex()))
        if ty == T.Fixed and rate in ISO_BAUD:
            b = Baudrate(rate, ty).get_bytes()
            if b != bytes([ISO_BAUD[rate]]):
                return ('baud-fixed', 'Baudrate(%d, Fixed).get_bytes() = %s' % (rate, b.hex()))
        if ty == T.Fixed and rate not in ISO_BAUD and rate >= 0:
            try:
                Baudrate(rate, ty)
                return ('baud-fixed-accepts', 'Baudrate(%d, Fixed) accepted' % rate)
            except ValueError:
                pass
        if ty == T.Identifier and 0 <= rate <= 255:
            bo = Baudrate(rate, ty)
            if bo.get_bytes() != bytes([rate]):
                return ('baud-id', 'Baudrate(%d, Identifier).get_bytes() = %s' % (rate, bo.get_bytes().hex()))
            inv = {v: k for k, v in ISO_BAUD.items()}
            if rate in inv:
                if bo.effective_baudrate() != inv[rate]:
                    return ('baud-effective', 'Baudrate(%d, Identifier).effective_baudrate() = %d' % (rate, bo.effective_baudrate()))
                if nt in (T.Fixed, T.Specific):
                    n = bo.make_new_type(nt)
                    if (n.baudrate, n.baudtype) != (inv[rate], nt):
                        return ('baud-newtype', 'make_new_type wrong for id %d' % rate)
        return None
    if e == 1910:
        d = a[0]
        if 0 <= d <= 0xFFFFFF:
            try:
                b = ReadDTCInformation.pack_dtc(d)
            except Exception as ex:
                return ('pack-dtc-raises', 'pack_dtc(%#x) raised %s' % (d, type(ex).__name__))
            if len(b) != 3 or int.from_bytes(b, 'big') != d:
                return ('pack-dtc', 'pack_dtc(%#08x) = %s' % (d, b.hex()))
        return None
    if e == 1911:
        ct, has, rate, ty = a
        if has != 1 or ct not in (1, 2) or rate < 0:
            return None
        inv = {v: k for k, v in ISO_BAUD.items()}
        t = ty if ty != 3 else (0 if rate in ISO_BAUD else (2 if rate <= 0xFF else 1))
        want = None
        if ct == 1:        # one byte: the identifier itself when the caller gave an identifier, the standard identifier of the rate otherwise
            if t == 2 and rate <= 0xFF:
                want = bytes([0x87, 1, rate])
            elif t in (0, 1) and rate in ISO_BAUD and (t == 0 or rate <= 0xFFFFFF):
                want = bytes([0x87, 1, ISO_BAUD[rate]])
        else:              # three bytes: the bit rate
            eff = inv.get(rate) if t == 2 else rate
            if t == 2 and rate > 0xFF:
                eff = None
            if t == 0 and rate not in ISO_BAUD:
                eff = None
            if eff is not None and eff <= 0xFFFFFF:
                want = bytes([0x87, 2]) + eff.to_bytes(3, 'big')
        got = bytes(r[2:2 + r[1]]) if r and r[0] == 0 else None
        if want is not None and got != want:
            return ('linkcontrol-baud', 'LinkControl.make_request(%d, Baudrate(%d, type %d)) gives %s, the encoding is %s' % (ct, rate, ty, got.hex() if got is not None else 'an exception (%r)' % r[:1], want.hex()))
        if want is None and got is not None:
            return ('linkcontrol-baud-accepts', 'LinkControl.make_request(%d, Baudrate(%d, type %d)) gives %s for a baud rate that has no such encoding' % (ct, rate, ty, got.hex()))
        return None
    return None


def nontrivial(c, r):
    if c.entry in (1901, 1902, 1903):
        return True
    return bool(r) and r[0] == 0


def describe(c):
    return {1901: 'Dtc.Status', 1902: 'Dtc.Severity', 1903: 'Dtc.DtcClass', 1904: 'CommunicationType(subnet, normal, nm)',
            1905: 'CommunicationType.from_byte', 1906: 'DataFormatIdentifier(c, e)', 1907: 'DataFormatIdentifier.from_byte',
            1908: 'AddressAndLengthFormatIdentifier(address_format, memorysize_format)', 1909: 'Baudrate(rate, type) / make_new_type(nt)',
            1910: 'ReadDTCInformation.pack_dtc', 1911: 'services.LinkControl.make_request(control_type, has baudrate, rate, type)'}[c.entry] + ' %r' % c.ints
