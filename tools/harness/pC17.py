"""C17 - Request/Response objects round-trip via payloads; service ids are unambiguous.
Correspondence: exhaustive over (service x subfunction x flag x override), (service x code), and every
(first byte, second byte) pair of a payload for both parsers.  Oracle: the property statement evaluated
directly on the implementation."""
from harness.core import Case, enc_bool, enc_bytes, enc_opt, enc_str, err_code

PROP = 'C17'
EXHAUSTIVE = True
RULE = ('exhaustive: every service class (27 + None) x subfunction -1..129,255,256 x flag x override x 4 data strings '
        'for Request; service x code -1..256 x 4 data strings for Response; every (byte0, byte1) x 3 tails + lengths 0,1 '
        'for Request.from_payload and Response.from_payload; ids 0..255 for the id lookups. non-trivial = the case '
        'passes the constructor guards / the payload names a known service (distinct case lines counted)')
ASSUMPTIONS = ['argument *types* (service is a class, data is bytes, code is int) are outside the model: cases are well typed']
TRUSTED = []

_svc = None


def worker_init():
    global _svc
    from udsoncan.BaseService import BaseService
    import udsoncan.services  # noqa
    _svc = {}
    for cls in BaseService.__subclasses__():
        _svc.setdefault(cls._sid, cls)


def service_ids():
    """read from the generated table so that case generation does not import udsoncan"""
    import re, os
    from harness.core import COQ
    txt = open(os.path.join(COQ, 'Gen', 'ServiceTable.v')).read()
    return [int(m) for m in re.findall(r'\("\w+", (\d+), (?:true|false), (?:true|false)\)', txt)]


DATAS = [None, b'', b'\x00', b'\x01\x02']
APP = ' / with an application subclass of the service declared'


def target_sid(c):
    if c.entry in (1701, 1703):
        return c.ints[0]
    if c.entry == 1705:
        return c.ints[0] if c.ints[0] in _svc else c.ints[0] - 0x40
    p = c.blobs[0]
    if c.entry == 1702:
        return p[0] if p else -1
    return (p[1] if len(p) > 1 else -1) if p[:1] == b'\x7f' else (p[0] - 0x40 if p else -1)


class app_subclass:
    """while the block runs, `class App<Service>(<Service>): pass` exists (and is gone afterwards: other cases run without it)"""

    def __init__(self, c):
        self.c = c
        self.made = []

    def __enter__(self):
        if self.c.tag.endswith(APP):
            cls = _svc.get(target_sid(self.c))
            if cls is not None:
                self.made.append(type('App' + cls.__name__, (cls,), {}))
        return self

    def __exit__(self, *a):
        if self.made:
            import gc
            self.made.clear()
            gc.collect()
        return False


def gen_cases(tier, seed):
    sids = service_ids()
    # a few ids that are not services
    for sid in sids + [-1]:
        for sub in list(range(-1, 130)) + [255, 256]:
            for spr in (0, 1):
                for ov in (-1, 0, 1):
                    for di, d in enumerate(DATAS):
                        if tier == 'quick' and di in (1,) and sub not in (-1, 0, 1, 127, 128):
                            continue
                        yield Case(1701, [sid, sub, spr, 0 if d is None else 1, ov], [d or b''], 'req.get_payload')
        # the payload of a Request object is a function of the object: asking for it once with an explicit override must not
        # change what it gives the next time (the client sends one object several times, inside and outside suppress blocks)
        for sub in (-1, 0, 1, 127):
            for spr in (0, 1):
                for ov in (-1, 0, 1):
                    for prev in (0, 1):
                        yield Case(1701, [sid, sub, spr, 1, ov, prev], [b'\x01\x02'], 'req.get_payload after an earlier override on the same object')
        for code in range(-1, 258):
            for d in DATAS:
                yield Case(1703, [sid, code, 0 if d is None else 1], [d or b''], 'resp.get_payload')
    # an application may derive its own class from a library service (BaseService lists "the most original" classes first so that
    # this is harmless): with such a class declared, the library service still round-trips to itself and owns its identifiers
    for sid in sids:
        for sub in (-1, 0, 1):
            yield Case(1701, [sid, sub, 0, 1, -1], [b'\x01\x02'], 'req.get_payload' + APP)
        for code in (0, 0x22):
            yield Case(1703, [sid, code, 1], [b'\x01\x02'], 'resp.get_payload' + APP)
        yield Case(1705, [sid], [], 'id lookup' + APP)
        yield Case(1705, [sid + 0x40], [], 'id lookup' + APP)
        yield Case(1702, [], [bytes([sid, 1, 2, 3])], 'req.from_payload' + APP)
        yield Case(1704, [], [bytes([sid + 0x40, 1, 2, 3])], 'resp.from_payload' + APP)
        yield Case(1704, [], [bytes([0x7F, sid, 0x22])], 'resp.from_payload' + APP)
    tails = [b'', b'\x00', b'\x01\x02']
    yield Case(1702, [], [b''], 'req.from_payload')
    yield Case(1704, [], [b''], 'resp.from_payload')
    for b0 in range(256):
        yield Case(1702, [], [bytes([b0])], 'req.from_payload')
        yield Case(1704, [], [bytes([b0])], 'resp.from_payload')
        yield Case(1705, [b0], [], 'id lookup')
        for b1 in range(256):
            for t in tails:
                yield Case(1702, [], [bytes([b0, b1]) + t], 'req.from_payload')
                yield Case(1704, [], [bytes([b0, b1]) + t], 'resp.from_payload')
    if tier == 'thorough':
        import random
        rnd = random.Random(seed)
        for _ in range(200000):
            n = rnd.choice([3, 4, 5, 8, 40])
            p = bytes(rnd.randrange(256) for _ in range(n))
            if rnd.random() < 0.7:
                p = bytes([rnd.choice(sids) + rnd.choice([0, 0x40])]) + p[1:]
            if rnd.random() < 0.3:
                p = b'\x7f' + bytes([rnd.choice(sids)]) + p[2:]
            yield Case(1702, [], [p], 'req.from_payload random')
            yield Case(1704, [], [p], 'resp.from_payload random')


def enc_req(r):
    return [r.service._sid if r.service is not None else -1, -1 if r.subfunction is None else r.subfunction,
            enc_bool(r.suppress_positive_response)] + enc_opt(enc_bytes, r.data)


def enc_resp(r):
    return [r.service._sid if r.service is not None else -1, -1 if r.code is None else r.code, enc_bool(r.positive),
            enc_bool(r.valid), 0 if r.invalid_reason == '' else 1, enc_bool(r.unexpected)] + enc_bytes(r.data if r.data is not None else b'') \
        + enc_str(r.code_name if r.code_name is not None else '')


def m_payload(f):
    try:
        return [0] + enc_bytes(f())
    except Exception as e:
        return [err_code(e)]


def impl(c):
    with app_subclass(c):
        return _impl(c)


def _impl(c):
    from udsoncan import Request, Response
    from udsoncan.BaseService import BaseService
    e = c.entry
    if e == 1701:
        sid, sub, spr, hasd, ov = c.ints[:5]
        svc = _svc.get(sid) if sid >= 0 else None
        if sid >= 0 and svc is None:
            raise RuntimeError('unknown sid in case')
        try:
            r = Request(svc, None if sub < 0 else sub, bool(spr), c.blobs[0] if hasd else None)
            if len(c.ints) > 5:
                try:
                    r.get_payload(suppress_positive_response=bool(c.ints[5]))
                except Exception:
                    pass
            p = r.get_payload() if ov < 0 else r.get_payload(suppress_positive_response=bool(ov))
            return [0] + enc_bytes(p)
        except Exception as ex:
            return [err_code(ex)]
    if e == 1702:
        return enc_req(Request.from_payload(c.blobs[0]))
    if e == 1703:
        sid, code, hasd = c.ints[:3]
        svc = _svc.get(sid) if sid >= 0 else None
        try:
            r = Response(svc, None if code < 0 else code, c.blobs[0] if hasd else None)
        except Exception as ex:
            return [err_code(ex)]
        return [0] + enc_resp(r) + m_payload(r.get_payload)
    if e == 1704:
        try:
            r = Response.from_payload(c.blobs[0])
        except Exception as ex:
            return [err_code(ex)]
        return enc_resp(r) + m_payload(r.get_payload)
    if e == 1705:
        a = BaseService.from_request_id(c.ints[0])
        b = BaseService.from_response_id(c.ints[0])
        return [a._sid if a is not None else -1, b._sid if b is not None else -1]
    raise RuntimeError('bad entry')


def all_service_classes():
    from udsoncan.BaseService import BaseService
    out, todo = [], list(BaseService.__subclasses__())
    while todo:
        x = todo.pop()
        out.append(x)
        todo += x.__subclasses__()
    return out


def oracle(c, r):
    with app_subclass(c):
        return _oracle(c, r)


def _oracle(c, r):
    """the statement of C17 evaluated on the real objects"""
    from udsoncan import Request, Response
    e = c.entry
    if e == 1701:
        sid, sub, spr, hasd, ov = c.ints[:5]
        svc = _svc.get(sid) if sid >= 0 else None
        if svc is None or ov >= 0:
            return None
        use_sub = svc.use_subfunction()
        if use_sub and not (0 <= sub <= 0x7F):
            return None
        if spr and not use_sub:
            return None
        data = c.blobs[0] if hasd else None
        try:
            obj = Request(svc, None if sub < 0 else sub, bool(spr), data)
            if len(c.ints) > 5:      # the object has been asked for its payload before, with an explicit override
                try:
                    obj.get_payload(suppress_positive_response=bool(c.ints[5]))
                except ValueError:
                    pass             # services without a subfunction refuse the override
            q = Request.from_payload(obj.get_payload())
        except Exception as ex:
            return ('req-roundtrip-raises', 'Request round trip raised %s for sid=%#x sub=%s' % (type(ex).__name__, sid, sub))
        want = (svc, sub if use_sub else None, bool(spr), data if data else None)
        got = (q.service, q.subfunction, q.suppress_positive_response, q.data if q.data else None)
        if want != got:
            return ('req-roundtrip', 'Request(sid=%#x, sub=%s, spr=%s, data=%r) parses back as %r' % (sid, sub, spr, data, got[1:]))
        return None
    if e == 1703:
        sid, code, hasd = c.ints[:3]
        svc = _svc.get(sid) if sid >= 0 else None
        if svc is None or not (0 <= code <= 255):
            return None
        data = (c.blobs[0] if hasd else None) or b''
        positive = code == 0
        if positive and svc.has_response_data() and len(data) < 1:
            return None
        try:
            r0 = Response(svc, code, data)
            q = Response.from_payload(r0.get_payload())
        except Exception as ex:
            return ('resp-roundtrip-raises', 'Response round trip raised %s for sid=%#x code=%#x' % (type(ex).__name__, sid, code))
        if r0.positive != positive:
            return ('resp-polarity', 'Response(sid=%#x, code=%#x) is built with positive=%s' % (sid, code, r0.positive))
        want = (svc, code, positive, data, True)
        got = (q.service, q.code, q.positive, q.data or b'', q.valid)
        if want != got:
            return ('resp-roundtrip', 'Response(sid=%#x, code=%#x, data=%r) parses back as code=%s positive=%s data=%r valid=%s' % (
                sid, code, data, q.code, q.positive, q.data, q.valid))
        return None
    if e in (1702, 1704):
        p = c.blobs[0]
        try:
            q = (Request if e == 1702 else Response).from_payload(p)
        except Exception as ex:
            return ('parse-raises', 'from_payload(%s) raised %s' % (p.hex(), type(ex).__name__))
        if q.service is not None and q.service is not _svc.get(q.service._sid):
            return ('parsed-class', 'from_payload(%s) names the class %s, the library service with that identifier is %s' % (
                p.hex(), q.service.__name__, _svc.get(q.service._sid).__name__))
        if e == 1704:
            if q.valid:
                try:
                    back = q.get_payload()
                except Exception as ex:
                    return ('reencode-raises', 'valid parsed response %s cannot be re-encoded: %s' % (p.hex(), type(ex).__name__))
                if back != p:
                    return ('reencode', 'valid payload %s re-encodes as %s' % (p.hex(), back.hex()))
            elif not q.invalid_reason:
                return ('no-reason', 'invalid response %s has no reason' % p.hex())
        return None
    if e == 1705:
        i = c.ints[0]
        from udsoncan.BaseService import BaseService
        for got, want in ((BaseService.from_request_id(i), _svc.get(i)), (BaseService.from_response_id(i), _svc.get(i - 0x40))):
            if want is not None and got is not want:
                return ('id-lookup-class', 'identifier %#x resolves to %s, the library service is %s' % (i, getattr(got, '__name__', None), want.__name__))
        if c.tag.endswith(APP):
            return None
        classes = all_service_classes()
        nreq = [k for k in classes if k.request_id() == i]
        nresp = [k for k in classes if k.response_id() == i]
        if len(nreq) > 1 or len(nresp) > 1:
            return ('ambiguous-id', 'identifier %#x maps to %d request / %d response services' % (i, len(nreq), len(nresp)))
        if nreq and nresp:
            return ('ambiguous-id', 'identifier %#x is both a request and a response id' % i)
        if nresp and i == 0x7F:
            return ('ambiguous-id', '0x7F is a positive response id')
        from udsoncan.BaseService import BaseService
        a, b = BaseService.from_request_id(i), BaseService.from_response_id(i)
        if (a is None) != (not nreq) or (b is None) != (not nresp) or (a is not None and a.request_id() != i) or (b is not None and b.response_id() != i):
            return ('id-lookup', 'from_request_id/from_response_id(%#x) wrong' % i)
        return None
    return None


def nontrivial(c, r):
    if c.entry in (1701, 1703):
        return bool(r) and r[0] == 0
    if c.entry in (1702, 1704):
        return bool(r) and r[0] != -1
    return True


def describe(c):
    return {1701: 'Request(sid, sub, spr, hasdata, override).get_payload()', 1702: 'Request.from_payload(blob)',
            1703: 'Response(sid, code, hasdata, data) + get_payload()', 1704: 'Response.from_payload(blob) + get_payload()',
            1705: 'BaseService.from_request_id / from_response_id'}[c.entry] + ' ints=%r blobs=%r' % (c.ints, [b.hex() for b in c.blobs])
