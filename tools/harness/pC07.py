"""C07 - out-of-domain arguments are rejected before sending; nothing silently truncated.
Boundary-complete argument variation of every modelled entry point (min-1, min, max, max+1 of every field, missing /
superfluous optional parameters, unknown identifiers, widths x values grid, editions x features) judged against the
documented domain: out-of-domain => raise and connection untouched; in-domain => exactly the ISO frame (nothing
masked, wrapped or cut)."""
from harness import clientlib as cl, reqcommon

WIDE = 200000        # thorough tier: histories of the wide correspondence stream (widegen.py), judged by the model and the generic rule
WIDE_QUICK = 2000
PROP = 'C07'
EXHAUSTIVE = False
RULE = ('per entry point, each parameter over the boundary values of its kind (U7/U8/U16/U24/U64/format/nibble/optional), '
        'widths x values grid for memory locations, edition x feature cells, DID lists, IO argument combinations, file sizes '
        'x widths, authentication parameter presence. non-trivial = not the unmodified template invocation (distinct case lines)')
ASSUMPTIONS = ['argument *types* other than int/bytes/None (float, str for an int, ...) are outside the model and are not generated here',
               'bool arguments are ints in Python and are not treated as out-of-domain']


def gen_cases(tier, seed):
    return reqcommon.gen(tier, seed)


def worker_init():
    cl.setup()


def impl(c):
    return cl.run_history_case(c)


def oracle(c, r):
    return reqcommon.judge(c, r)


nontrivial = reqcommon.nontrivial
describe = reqcommon.describe
