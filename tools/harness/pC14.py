"""C14 - memory address/size widths: explicit, else configured, else smallest; lossless.
The five memory-addressed entry points x values at 2^(8k)-1 / 2^(8k) for k = 0..8, 0, 1, 2^63-1, 2^63, 2^64-1 x the
9^4 grid of (configured address, configured size, explicit address, explicit size) formats; the announced nibbles must
be the widths transmitted, chosen by precedence; the values must decode back; the write echo in the same widths must
be accepted and decode to the same numbers."""
import random
from harness.core import Case
from harness import clientlib as cl, reqcommon, isospec, argspace
from harness.callreg import invocations
from harness.calls_ext import oi

WIDE = 200000        # thorough tier: histories of the wide correspondence stream (widegen.py), judged by the model and the generic rule
WIDE_QUICK = 2000
PROP = 'C14'
EXHAUSTIVE = False
RULE = ('read/write_memory_by_address, request_download/upload, dynamically_define_did(by memory): format grid 9x9x9x9 (sampled in '
        'quick, complete in thorough) x boundary values of address and size; for write_memory_by_address additionally the echo in the '
        'announced widths. non-trivial = a frame was sent (distinct case lines)')
ASSUMPTIONS = []
EXPECT = {}


def gen_cases(tier, seed):
    for c in reqcommon.gen(tier, seed, callids=(17, 18, 19, 20)):
        yield c
    # echo decode for write_memory_by_address over every width pair
    rnd = random.Random(seed + 1)
    inv = [i for i in invocations() if i.callid == 18][0]
    fm = [None, 8, 16, 24, 32, 40, 48, 56, 64]
    vals = [0, 1, 0xFF, 0x100, 0xFFFF, 0x10000, (1 << 32) - 1, 1 << 32, (1 << 40) - 1, 1 << 40, (1 << 56), (1 << 63) - 1, 1 << 63, (1 << 64) - 1]
    for ea in fm:
        for es in fm:
            for ca in (None, 16, 64):
                for _ in range(3 if tier == 'quick' else 30):
                    a, s = rnd.choice(vals), rnd.choice(vals)
                    args = argspace.setopt(argspace.setopt([a, s, 0, 0, 0, 0], 2, ea), 4, es)
                    cfgv = list(cl.DEFAULT_CFG)
                    cfgv[cl.SRV_ADDR] = -1 if ca is None else ca
                    h0 = cl.H(cfgv)
                    kind, frame = isospec.expected(h0.cfg, 18, args, [b'\xaa'])
                    if frame is None or kind == 'reject':
                        continue
                    hdr = frame[1:-1]
                    c = cl.H(cfgv).call(18, args, [b'\xaa'], [(10, b'\x7d' + hdr)]).case(5000, 'write_memory_by_address / echo')
                    EXPECT[c.line()] = [hdr[0], a, s]
                    yield c


    # the application keeps ONE MemoryLocation and moves it along (its attributes are public): each request must announce and
    # use the widths a fresh object with the current values would, also when a value has just crossed a width boundary
    walks = [[(0x10, 4), (0xFFF0, 0xFF), (0x10000, 0x100), (0x10020, 0x20), (0x80, 1), (1 << 32, 0x10000), (5, 5)],
             [(0xFFFFFF, 0xFFFF), (0x1000000, 0x10000), (0xFF, 0xFF), (0x100, 0x100), (0, 0)]]
    for callid, blobs, pre, post in ((17, [], [], []), (18, [b'\xaa'], [], []), (19, [], [0], [0, 0, 0]), (19, [], [1], [0, 0, 0]), (20, [], [0xF201, 2, 1], [])):
        for ca, cs in ((None, None), (None, 16), (24, None)):
            for w in walks:
                cfgv = list(cl.DEFAULT_CFG)
                cfgv[cl.SRV_ADDR], cfgv[cl.SRV_SIZE] = (-1 if ca is None else ca), (-1 if cs is None else cs)
                h = cl.H(cfgv)
                for a, sz in w:
                    h.call(callid, pre + [a, sz, 0, 0, 0, 0] + post, blobs, [])
                yield h.case(5000, 'one memory location moved along / repeated')
    # a call refused because a configured server format is not a format at all (2 where 16 bits were meant), then the configuration is
    # corrected at run time and the SAME MemoryLocation object is used again: the request is the one of a fresh object
    for callid, blobs, pre, post in ((17, [], [], []), (18, [b'\xaa'], [], []), (19, [], [0], [0, 0, 0]), (20, [], [0xF201, 2, 1], [])):
        for bad_slot, bad, good_v, other_slot, other in ((cl.SRV_SIZE, 2, 16, cl.SRV_ADDR, 32), (cl.SRV_ADDR, 4, 32, cl.SRV_SIZE, 16), (cl.SRV_SIZE, 12, 8, cl.SRV_ADDR, -1)):
            for ea in (None, 24):
                cfgv = list(cl.DEFAULT_CFG)
                cfgv[bad_slot], cfgv[other_slot] = bad, other
                args = pre + argspace.setopt([0x1000, 4, 0, 0, 0, 0], 2, ea) + post
                h = cl.H(cfgv).call(callid, args, blobs, []).set_cfg(bad_slot, good_v).call(callid, args, blobs, [])
                h.call(callid, pre + argspace.setopt([0x123456, 0x104, 0, 0, 0, 0], 2, ea) + post, blobs, [])
                yield h.case(5000, 'one memory location moved along after a refused format / repeated')


def worker_init():
    cl.setup()


def impl(c):
    return cl.run_history_case(c)


def oracle(c, r):
    if c.line() in EXPECT:
        d = cl.parse_calls(r, 1)[0][0]
        if d['kind'] != 'ok' or d['sdata'] != EXPECT[c.line()]:
            return ('echo-decode', 'a correct echo in the announced widths gave %s %r, expected accepted with %r' % (d['kind'], d['sdata'] or d['err'], EXPECT[c.line()]))
        return None
    if c.tag.startswith('one memory location moved along'):
        cfgv, ops = cl.case_ops(c)
        cur = list(cfgv)
        callops = [o for o in ops if o[0] == 'call']
        calls = iter(cl.parse_calls(r, len(callops))[0])
        i = -1
        for o in ops:
            if o[0] == 'set_cfg':
                cur[o[1]] = o[2]
                continue
            d = next(calls)
            i += 1
            _, callid, args, cb, reps = o
            kind, val = isospec.expected(cur, callid, args, cb)
            sent = [e[1] for e in d['events'] if e[0] == 'S']
            if kind == 'send' and sent[:1] != [val]:
                return ('moved-location-widths', 'call %d (address %#x, size %#x on the same MemoryLocation object) sent %r, a fresh object gives %s' % (
                    i + 1, args[len(args) - 6 - (3 if callid == 19 else 0)], args[len(args) - 5 - (3 if callid == 19 else 0)], [x.hex() for x in sent], val.hex()))
            if kind != 'send' and sent:
                return ('moved-location-sent', 'call %d sent %r although the values have no encoding' % (i + 1, [x.hex() for x in sent]))
        return None
    return reqcommon.judge(c, r)


def nontrivial(c, r):
    return 2 in r[3:]


describe = reqcommon.describe
