"""C16 - connections deliver exactly the peer's frames, in order, once; honest timeouts.
Controlled-schedule replay: the REAL SocketConnection (real receiver thread, real queue.Queue) runs against a scripted
socket and selector whose every select / recv / queue.put is a hand-off point, so the harness decides the
interleaving; every step sequence up to a bound (quick: 6 steps, thorough: 8) and random longer ones are replayed on it
and on the model.  QueueConnection is replayed likewise.  Real socketpairs measure what the model cannot exhibit."""
import itertools
import queue
import random
import socket
import threading
import time
import types
from harness.core import Case, enc_bool, enc_bytes

PROP = 'C16'
EXHAUSTIVE = True
RULE = ('SocketConnection: every sequence over {open, peer send, peer close, thread step, read, close} of length <= 6 (quick) / '
        '<= 8 (thorough) starting with open, plus random sequences up to 60 steps and bursts of 1100..5000 frames to a late consumer; QueueConnection: sequences over {open, user put, '
        'close, wait, send} with MTU in {None, 1, 3, 4095}; real socketpairs (SEQPACKET, DGRAM, STREAM): bursts (50 frames read at once; 3000 frames to a late consumer), disconnect, reopen, timeout '
        'lower bounds. non-trivial = at least one frame sent by the peer and one read (distinct case lines)')
ASSUMPTIONS = ['the scripted socket / selector / queue subclass only add hand-off points; the thread body, the queue and wait_frame are the real ones',
               'wall-clock lower bounds are measured on real sockets with short timeouts (not proved)']

STEP_OPEN, STEP_SEND, STEP_PCLOSE, STEP_THREAD, STEP_GET, STEP_CLOSE = range(6)


def gen_cases(tier, seed):
    rnd = random.Random(seed)
    n = 6 if tier == 'quick' else 8
    alphabet = [STEP_SEND, STEP_PCLOSE, STEP_THREAD, STEP_GET, STEP_CLOSE, STEP_OPEN]
    for ln in range(0, n):
        for seq in itertools.product(alphabet, repeat=ln):
            # prune: at most one peer close, at most two opens/closes beyond the first
            if seq.count(STEP_PCLOSE) > 1 or seq.count(STEP_OPEN) > 1 or seq.count(STEP_CLOSE) > 2:
                continue
            steps = [STEP_OPEN] + list(seq)
            blobs = [bytes([0x10 + i, i]) for i in range(steps.count(STEP_SEND))]
            yield Case(1601, [0] + steps, blobs, 'socket exhaustive len %d' % (ln + 1))
    for _ in range(2000 if tier == 'quick' else 50000):
        ln = rnd.randrange(5, 60)
        steps = [STEP_OPEN]
        for _ in range(ln):
            steps.append(rnd.choice([STEP_SEND, STEP_SEND, STEP_THREAD, STEP_THREAD, STEP_THREAD, STEP_GET, STEP_GET, STEP_PCLOSE, STEP_CLOSE, STEP_OPEN]
                                    if rnd.random() < 0.15 else [STEP_SEND, STEP_THREAD, STEP_THREAD, STEP_GET]))
        blobs = [bytes(rnd.randrange(256) for _ in range(rnd.randrange(1, 5))) for _ in range(steps.count(STEP_SEND))]
        yield Case(1601, [0] + steps, blobs, 'socket random')
    # a late consumer: the peer sends a long burst (more than any plausible internal bound: 1500 / 5000 frames) which the receiver thread takes
    # in while nobody reads; then close (the thread must end), or the consumer wakes up and reads everything in order
    for nburst, tail in ((1500, [STEP_CLOSE]), (1500, [STEP_GET] * 3 + [STEP_CLOSE, STEP_OPEN, STEP_SEND] + [STEP_THREAD] * 3 + [STEP_GET]),
                         (5000 if tier != 'quick' else 1100, [STEP_PCLOSE] + [STEP_THREAD] * 3 + [STEP_GET, STEP_CLOSE])):
        steps = [STEP_OPEN] + [STEP_SEND, STEP_THREAD, STEP_THREAD, STEP_THREAD] * nburst + tail
        blobs = [bytes([i & 0xFF, (i >> 8) & 0xFF, 7]) for i in range(steps.count(STEP_SEND))]
        yield Case(1601, [0] + steps, blobs, 'socket long burst, late consumer')
    # datagram flavour: empty datagrams are frames (no peer close)
    for _ in range(300 if tier == 'quick' else 5000):
        steps = [STEP_OPEN] + [rnd.choice([STEP_SEND, STEP_THREAD, STEP_THREAD, STEP_GET]) for _ in range(rnd.randrange(3, 25))]
        blobs = [bytes(rnd.randrange(256) for _ in range(rnd.randrange(0, 4))) for _ in range(steps.count(STEP_SEND))]
        yield Case(1601, [1] + steps, blobs, 'socket datagram')
    # QueueConnection
    for mtu in (-1, 1, 3, 4095):
        for ln in range(1, 6):
            for seq in itertools.product([0, 1, 2, 4, 5], repeat=ln):
                if seq.count(2) > 1 or seq.count(0) > 2:
                    continue
                nb = seq.count(1) + seq.count(5)
                blobs = [bytes(range(1, 2 + (i * 3) % 7)) for i in range(nb)]
                yield Case(1602, [mtu] + list(seq), blobs, 'queue connection')
    for i, kind in enumerate(('seqpacket', 'dgram', 'stream')):
        yield Case(1609, [i], [], 'real socketpair %s' % kind)


def worker_init():
    import logging
    logging.disable(logging.CRITICAL)


class Sched:
    """hands control between the harness and the real receiver thread"""

    def __init__(self):
        self.go = threading.Semaphore(0)
        self.done = threading.Semaphore(0)
        self.point = None
        self.rx_thread = None      # the Thread object (idents are reused once a thread has ended)

    def yield_point(self, name):
        if threading.current_thread() is not self.rx_thread:
            return
        self.point = name
        self.done.release()
        self.go.acquire()

    def step(self):
        self.go.release()
        self.done.acquire()


class FakeSock:
    def __init__(self, S, dgram):
        self.S = S
        self.buf = []
        self.peer_closed = False
        self.type = socket.SOCK_DGRAM if dgram else socket.SOCK_SEQPACKET

    def recv(self, n):
        self.S.yield_point('recv')
        if self.buf:
            return self.buf.pop(0)
        return b''

    def send(self, data):
        pass


def run_socket_case(c):
    import udsoncan.connections as uconn
    S = Sched()
    dgram = c.ints[0] == 1
    sock = FakeSock(S, dgram)

    class FakeSel:
        def register(self, s, ev):
            pass

        def select(self, timeout=None):
            S.yield_point('select')
            return [1] if (sock.buf or sock.peer_closed) else []

    class HQ(queue.Queue):
        def put(self, item, block=True, timeout=None):
            S.yield_point('put')
            queue.Queue.put(self, item, block, timeout)

    saved = uconn.selectors
    uconn.selectors = types.SimpleNamespace(DefaultSelector=FakeSel, EVENT_READ=1)
    try:
        conn = uconn.SocketConnection(sock)
        conn.rxqueue = HQ(maxsize=getattr(conn.rxqueue, 'maxsize', 0))     # the hand-off point added, the queue's own bound (none) kept
        blobs = list(c.blobs)
        stuck = []
        out = []
        alive = False

        def thread_alive():
            return conn.rxthread is not None and conn.rxthread.is_alive()

        def after_release():
            """wait until the rx thread parks again or dies"""
            t0 = time.monotonic()
            while True:
                if S.done.acquire(timeout=0.002):
                    return True
                if not thread_alive():
                    return False
                if time.monotonic() - t0 > 5.0:
                    # alive, yet neither parked at a hand-off point nor finished: the thread blocks inside select / recv / put
                    stuck.append(S.point)
                    return False

        def start_hook():
            # the rx thread identifies itself at its first yield
            pass

        for st in c.ints[1:]:
            if st == STEP_OPEN:
                if thread_alive():
                    out.append(0)
                    continue
                orig_task = conn.rxthread_task

                def task():
                    S.rx_thread = threading.current_thread()
                    orig_task()
                conn.rxthread_task = task
                S.point = None
                conn.open()
                conn.rxthread_task = orig_task
                after_release()
                out.append(0)
            elif st == STEP_SEND:
                f = blobs.pop(0)
                if not sock.peer_closed:
                    sock.buf.append(f)
                out.append(0)
            elif st == STEP_PCLOSE:
                sock.peer_closed = True
                out.append(0)
            elif st == STEP_THREAD:
                if thread_alive():
                    S.go.release()
                    after_release()
                    if stuck:
                        return ['STUCK', stuck[0]]
                out.append(0)
            elif st == STEP_GET:
                try:
                    f = conn.wait_frame(timeout=0, exception=True)
                    out += [1] + enc_bytes(f)
                except uconn.TimeoutException:
                    out.append(2)
                except RuntimeError:
                    out.append(3)
            elif st == STEP_CLOSE:
                t = threading.Thread(target=conn.close)
                t.start()
                n = 0
                while t.is_alive() and n < 500 and not stuck:
                    if thread_alive():
                        S.go.release()
                        after_release()
                    t.join(0.002)
                    n += 1
                t.join(10 if not stuck else 0.5)
                if t.is_alive():
                    return ['HANG']
                out.append(0)
        # final state
        if not thread_alive():
            ts = 0 if conn.rxthread is None else 4
        else:
            ts = {'select': 1, 'recv': 2, 'put': 3}.get(S.point, 9)
        q = []
        while True:
            try:
                q.append(queue.Queue.get(conn.rxqueue, block=False))
            except queue.Empty:
                break
        res = out + [ts, enc_bool(conn.is_open()), len(q)] + [x for f in q for x in (enc_bytes(f) if isinstance(f, (bytes, bytearray)) else [-1])]
        # let the thread finish so that no thread leaks
        conn.exit_requested = True
        for _ in range(6):
            if thread_alive():
                S.go.release()
                after_release()
        return res
    finally:
        uconn.selectors = saved


def run_queue_case(c):
    from udsoncan.connections import QueueConnection
    from udsoncan.exceptions import TimeoutException
    mtu = c.ints[0]
    conn = QueueConnection(mtu=None if mtu < 0 else mtu)
    blobs = list(c.blobs)
    out = []
    for st in c.ints[1:]:
        if st == 0:
            conn.open(); out.append(0)
        elif st == 1:
            conn.fromuserqueue.put(blobs.pop(0)); out.append(0)
        elif st == 2:
            conn.close(); out.append(0)
        elif st == 4:
            try:
                out += [1] + enc_bytes(conn.wait_frame(timeout=0, exception=True))
            except TimeoutException:
                out.append(2)
            except RuntimeError:
                out.append(3)
        else:
            f = blobs.pop(0)
            try:
                conn.send(f); out.append(0)
            except RuntimeError:
                out.append(3)
    sent = []
    while not conn.touserqueue.empty():
        sent.append(conn.touserqueue.get())
    return out + [enc_bool(conn.is_open()), len(sent)] + [x for f in sent for x in enc_bytes(f)]


def run_real(kind):
    """real sockets: FIFO on bursts, nothing after disconnect, honest timeouts, close terminates, reopen works"""
    from udsoncan.connections import SocketConnection
    from udsoncan.exceptions import TimeoutException
    typ = [socket.SOCK_SEQPACKET, socket.SOCK_DGRAM, socket.SOCK_STREAM][kind]
    a, b = socket.socketpair(socket.AF_UNIX, typ)
    conn = SocketConnection(a)
    problems = []
    try:
        try:
            conn.wait_frame(timeout=0.01, exception=True)
            problems.append('closed connection did not raise')
        except RuntimeError:
            pass
        except TimeoutException:
            problems.append('closed connection timed out instead of raising')
        # ... whatever the exception flag: a connection that is not open is a programming error, not silence
        for flag in (False, True):
            t0 = time.monotonic()
            try:
                got = conn.wait_frame(timeout=0.05, exception=flag)
                problems.append('wait_frame(timeout=0.05, exception=%s) on a connection that was never opened returned %r after %.3f s instead of raising' % (flag, got, time.monotonic() - t0))
            except RuntimeError:
                pass
            except TimeoutException:
                problems.append('never-opened connection timed out instead of raising (exception=%s)' % flag)
        conn.open()
        frames = [bytes([i, i + 1, i + 2]) for i in range(50)]
        for f in frames:
            b.send(f)
        got = b''
        lst = []
        for _ in frames:
            try:
                f = conn.wait_frame(timeout=10, exception=True)
            except TimeoutException:
                break
            lst.append(f)
            got += f
            if typ == socket.SOCK_STREAM and len(got) >= 150:
                break
        if typ == socket.SOCK_STREAM:
            if got != b''.join(frames):
                problems.append('stream bytes differ')
        elif lst != frames:
            problems.append('frames differ: %d of %d' % (len(lst), len(frames)))
        for tmo in (0.05, 0.12):
            t0 = time.monotonic()
            try:
                conn.wait_frame(timeout=tmo, exception=True)
                problems.append('frame out of nothing')
            except TimeoutException:
                if time.monotonic() - t0 < tmo - 0.002:
                    problems.append('timeout of %.2f s given up after %.4f s' % (tmo, time.monotonic() - t0))
        t0 = time.monotonic()
        if conn.wait_frame(timeout=0.03, exception=False) is not None:
            problems.append('exception=False returned a frame out of nothing')
        b.close()
        time.sleep(0.3)
        extra = 0
        for _ in range(20):
            try:
                conn.wait_frame(timeout=0.01, exception=True)
                extra += 1
            except TimeoutException:
                pass
        if extra:
            problems.append('%d frames invented after the peer disconnected' % extra)
        # ... and with nothing to deliver the wait still lasts its timeout (the connection is open; only the peer is gone)
        for tmo, exc in ((0.12, True), (0.2, False)):
            t0 = time.monotonic()
            try:
                got = conn.wait_frame(timeout=tmo, exception=exc)
                if exc or got is not None:
                    problems.append('after the peer disconnected wait_frame(timeout=%.2f, exception=%s) returned %r' % (tmo, exc, got))
            except TimeoutException:
                if not exc:
                    problems.append('exception=False raised after the peer disconnected')
            if time.monotonic() - t0 < tmo - 0.002:
                problems.append('after the peer disconnected a timeout of %.2f s was given up after %.4f s' % (tmo, time.monotonic() - t0))
        t0 = time.monotonic()
        conn.close()
        for flag in (False, True):
            try:
                got = conn.wait_frame(timeout=0.05, exception=flag)
                problems.append('wait_frame(exception=%s) on a closed connection returned %r instead of raising' % (flag, got))
            except RuntimeError:
                pass
            except TimeoutException:
                problems.append('closed connection timed out instead of raising (exception=%s)' % flag)
        if conn.rxthread is not None and conn.rxthread.is_alive():
            problems.append('receiver thread alive after close')
        if time.monotonic() - t0 > 10.0:
            problems.append('close took %.2f s' % (time.monotonic() - t0))
    finally:
        try:
            a.close()
        except Exception:
            pass
    problems += run_real_blocking(typ)
    if kind == 0:
        problems += run_queue_closed()
    problems += run_real_late_consumer(typ, False)
    problems += run_real_late_consumer(typ, True)
    return problems


def run_real_late_consumer(typ, consume):
    """the peer sends a long burst while nobody reads (the consumer is late): then either close() must still end the receiver thread, or the
    late consumer gets every frame, in order"""
    import threading
    from udsoncan.connections import SocketConnection
    from udsoncan.exceptions import TimeoutException
    problems = []
    a, b = socket.socketpair(socket.AF_UNIX, typ)
    conn = SocketConnection(a)
    n = 3000
    try:
        conn.open()
        b.setblocking(False)
        frames = [bytes([i & 0xFF, (i >> 8) & 0xFF, 0x5A]) for i in range(n)]
        sent, t_last = 0, time.monotonic()
        while sent < n and time.monotonic() - t_last < 2.0:
            try:
                b.send(frames[sent])
                sent += 1
                t_last = time.monotonic()
            except (BlockingIOError, InterruptedError):
                time.sleep(0.001)       # the socket is full: the receiver thread has to take frames out first
        time.sleep(0.2)
        if consume:
            got = []
            try:
                while len(b''.join(got)) < 3 * sent:
                    got.append(conn.wait_frame(timeout=2, exception=True))
            except TimeoutException:
                pass
            if typ == socket.SOCK_STREAM:
                if b''.join(got) != b''.join(frames[:sent]):
                    problems.append('late consumer: %d bytes delivered of the %d the peer sent (or other bytes)' % (len(b''.join(got)), 3 * sent))
            elif got != frames[:sent]:
                problems.append('late consumer: %d frames delivered of the %d the peer sent (or in another order)' % (len(got), sent))
        th = threading.Thread(target=conn.close, daemon=True)
        th.start()
        th.join(10)
        if th.is_alive():
            problems.append('close() did not return with %d frames sent to a consumer that %s' % (sent, 'had read them' if consume else 'was not reading'))
        elif conn.rxthread is not None and conn.rxthread.is_alive():
            problems.append('receiver thread alive after close() (%d frames sent to a late consumer)' % sent)
    finally:
        for x in (a, b):
            try:
                x.close()
            except Exception:
                pass
    return problems


def run_queue_closed():
    """QueueConnection: not open -> RuntimeError whatever the exception flag; open and empty -> the timeout is honoured, None / TimeoutException"""
    from udsoncan.connections import QueueConnection
    from udsoncan.exceptions import TimeoutException
    problems = []
    conn = QueueConnection(name='verif')
    for phase in ('never opened', 'closed', 'closed again after a reopen'):
        if phase == 'closed':
            conn.open()
            conn.close()
        elif phase.startswith('closed again'):
            conn.open()
            t0 = time.monotonic()
            if conn.wait_frame(timeout=0.05, exception=False) is not None or time.monotonic() - t0 < 0.048:
                problems.append('open empty QueueConnection: wait_frame(timeout=0.05, exception=False) did not wait / returned a frame')
            conn.close()
        for flag in (False, True):
            try:
                got = conn.wait_frame(timeout=0.05, exception=flag)
                problems.append('QueueConnection %s: wait_frame(exception=%s) returned %r instead of raising' % (phase, flag, got))
            except RuntimeError:
                pass
            except TimeoutException:
                problems.append('QueueConnection %s: timed out instead of raising (exception=%s)' % (phase, flag))
    return problems


def run_real_blocking(typ):
    """frames the peer sent before it went away are still delivered, in order, to a consumer that waits without a timeout
    (wait_frame() with its default timeout=None), also once the receiving thread has stopped"""
    import threading
    from udsoncan.connections import SocketConnection
    problems = []
    a, b = socket.socketpair(socket.AF_UNIX, typ)
    conn = SocketConnection(a)
    try:
        conn.open()
        frames = [b'\x50\x03', b'\x62\xf1\x90VIN', b'\x7f\x22\x31']
        for f in frames:
            b.send(f)
        time.sleep(0.2)
        b.close()
        time.sleep(0.3)
        got = []

        def consume():
            n = 1 if typ == socket.SOCK_STREAM else len(frames)
            for _ in range(n):
                got.append(conn.wait_frame())          # timeout=None: blocks until a frame is there (three are)
        th = threading.Thread(target=consume, daemon=True)
        th.start()
        th.join(10)
        if th.is_alive():
            problems.append('wait_frame() without a timeout blocked although %d frames were queued (got %d)' % (len(frames), len(got)))
        elif typ == socket.SOCK_STREAM:
            if not got or got[0] is None or not b''.join(frames).startswith(got[0]) or not got[0]:
                problems.append('wait_frame() without a timeout returned %r, the peer had sent %r before disconnecting' % (got, b''.join(frames)))
        elif got != frames:
            problems.append('wait_frame() without a timeout delivered %r, the peer had sent %r before disconnecting' % (got, frames))
        conn.close()
    finally:
        try:
            a.close()
        except Exception:
            pass
    return problems


def impl(c):
    if c.entry == 1601:
        return run_socket_case(c)
    if c.entry == 1602:
        return run_queue_case(c)
    return [0] * 0 + [len(run_real(c.ints[0]))]


def oracle(c, r):
    if c.entry == 1609:
        p = run_real(c.ints[0]) if r != [0] else []
        if p:
            return ('real-socket', '; '.join(p))
        return None
    if r and r[0] == 'HANG':
        return ('close-hangs', 'close() did not return')
    if r and r[0] == 'STUCK':
        return ('receiver-thread-blocked', 'the receiver thread blocked for good inside %r: frames the peer sends from now on are not delivered and close() cannot end the thread' % (r[1],))
    if c.entry == 1601:
        # FIFO: delivered frames are a prefix of the frames the peer sent
        blobs = list(c.blobs)
        sent = []
        closed = False
        delivered = []
        i = 0
        for st in c.ints[1:]:
            if st == STEP_SEND:
                f = blobs.pop(0)
                if not closed:
                    sent.append(f)
            elif st == STEP_PCLOSE:
                closed = True
            if st == STEP_GET:
                if r[i] == 1:
                    n = r[i + 1]
                    delivered.append(bytes(r[i + 2:i + 2 + n]))
                    i += 2 + n
                else:
                    i += 1
            else:
                i += 1
        # an open connection with nothing to deliver times out: it neither raises nor returns something
        is_open, k = False, 0
        for st in c.ints[1:]:
            if st == STEP_OPEN:
                is_open = True
            elif st == STEP_CLOSE:
                is_open = False
            if st == STEP_GET:
                if r[k] == 3 and is_open:
                    return ('raise-on-open', 'wait_frame on an open connection raised instead of timing out or delivering')
                k += (2 + r[k + 1]) if r[k] == 1 else 1
            else:
                k += 1
        if r[i + 2] and -1 in r[i + 3:i + 4]:
            return ('invented', 'the reception queue holds something the peer never sent')
        if c.ints[0] == 0 and delivered != sent[:len(delivered)]:
            return ('fifo', 'delivered %r, the peer sent %r' % ([d.hex() for d in delivered], [s.hex() for s in sent]))
        nq = r[i + 2]
        ts = r[i]
        if ts == 4 and r[i + 1] == 1 and STEP_PCLOSE not in c.ints[1:]:
            return ('thread-dead-while-open', 'the connection is open and its peer connected, but the receiver thread has ended: frames the peer sends from now on are never delivered')
        if c.ints[1:].count(STEP_CLOSE) and c.ints[-1] == STEP_CLOSE and ts not in (0, 4):
            return ('thread-alive-after-close', 'receiver thread state %d after close()' % ts)
    return None


def nontrivial(c, r):
    if c.entry == 1601:
        return STEP_SEND in c.ints[1:] and STEP_GET in c.ints[1:]
    return True


def describe(c):
    names = {0: 'open', 1: 'peer-send', 2: 'peer-close', 3: 'thread-step', 4: 'read', 5: 'close'}
    if c.entry == 1601:
        return 'SocketConnection(%s): %s ; frames %r' % ('dgram' if c.ints[0] else 'seqpacket', ' '.join(names[s] for s in c.ints[1:]), [b.hex() for b in c.blobs])
    if c.entry == 1602:
        qn = {0: 'open', 1: 'user-put', 2: 'close', 4: 'wait', 5: 'send'}
        return 'QueueConnection(mtu=%d): %s' % (c.ints[0], ' '.join(qn[s] for s in c.ints[1:]))
    return 'real socketpair kind %d' % c.ints[0]
