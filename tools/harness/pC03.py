"""C03 - a response is accepted only if it answers the request that was actually sent.
For every modelled entry point: the matching positive response with every echoed byte replaced by every other
value (exhaustive for the one-byte fields, byte-wise for the wider ones), responses of every other service id,
and the same with exception_on_unexpected_response off.  Oracle: a reply that differs from the matching one in an
echoed byte is never accepted."""
import random
from harness.core import Case
from harness import clientlib as cl
from harness.callreg import invocations

PROP = 'C03'
EXHAUSTIVE = True
RULE = ('every modelled entry point x every echoed byte of its positive response x all 255 wrong values (exhaustive in each '
        'echoed byte) + every other first byte 0x00..0xFF + two-byte combinations of wrong echoes; both settings of '
        'exception_on_unexpected_response. non-trivial = the reply differs from the matching one (distinct case lines)')
ASSUMPTIONS = ['the echoed byte offsets of each sample response are listed in tools/harness/callreg.py (ECHO) from Appendix B of DESIGN.md',
               'the DTC identifier of extended-data-by-DTC responses is not in the property\'s field list and is not checked']
EXPECT = {}


def gen_cases(tier, seed):
    rnd = random.Random(seed)
    for inv in invocations():
        p = inv.positive
        muts = []
        for off in inv.echo:
            for v in range(256):
                if v != p[off]:
                    muts.append((p[:off] + bytes([v]) + p[off + 1:], 'echo byte %d' % off))
        for v in range(256):
            if v != p[0]:
                muts.append((bytes([v]) + p[1:], 'service id'))
        if len(inv.echo) >= 2:
            for _ in range(50):
                q = bytearray(p)
                for off in rnd.sample(inv.echo, 2):
                    q[off] = (q[off] + rnd.randrange(1, 256)) & 0xFF
                muts.append((bytes(q), 'two echo bytes'))
        muts.append((p, 'matching'))
        for rep, tag in muts:
            for unx in ((1, 0) if tag != 'service id' or tier != 'quick' else (1,)):
                cfgv = list(cl.DEFAULT_CFG)
                for s, v in inv.cfg.items():
                    cfgv[s] = v
                cfgv[cl.EX_UNX] = unx
                c = cl.H(cfgv).call(inv.callid, inv.args, inv.blobs, [(10, rep)]).case(5000, '%s / %s' % (inv.name, tag))
                EXPECT[c.line()] = (tag == 'matching')
                yield c


def worker_init():
    cl.setup()


def impl(c):
    return cl.run_history_case(c)


def oracle(c, r):
    matching = EXPECT.get(c.line())
    d = cl.parse_calls(r, 1)[0][0]
    name = c.tag.split(' / ')[0]
    accepted = d['kind'] in ('ok', 'value', 'none')
    if d['kind'] == 'raised' and d['err'] >= 20:
        return ('internal-error/%s' % name, 'internal error %d' % d['err'])
    if matching:
        if not accepted:
            return ('matching-refused/%s' % name, 'the matching response was not accepted (%s err=%r)' % (d['kind'], d['err']))
        return None
    if accepted:
        cfgv, ops = cl.case_ops(c)
        return ('mismatch-accepted/%s' % name, 'reply %s (%s) was accepted as the answer' % (ops[0][4][0][1].hex(), c.tag.split(' / ')[1]))
    if d['kind'] == 'returned' and not (d['resp']['unexpected'] or not d['resp']['valid'] or not d['resp']['positive']):
        return ('mismatch-unflagged/%s' % name, 'mismatching reply handed back without a flag')
    return None


def nontrivial(c, r):
    return EXPECT.get(c.line()) is False


def describe(c):
    return 'cfg=%r ops=%r' % cl.case_ops(c)
