"""C03 - a response is accepted only if it answers the request that was actually sent.
For every modelled entry point: the matching positive response with every echoed byte replaced by every other
value (exhaustive for the one-byte fields, byte-wise for the wider ones), responses of every other service id,
and the same with exception_on_unexpected_response off.  Oracle: a reply that differs from the matching one in an
echoed byte is never accepted."""
import random
from harness.core import Case
from harness import clientlib as cl
from harness.callreg import invocations

WIDE = 200000        # thorough tier: histories of the wide correspondence stream (widegen.py), judged by the model and the generic rule
WIDE_QUICK = 2000
PROP = 'C03'
EXHAUSTIVE = True
RULE = ('every modelled entry point x every echoed byte of its positive response x all 255 wrong values (exhaustive in each '
        'echoed byte) + every other first byte 0x00..0xFF + two-byte combinations of wrong echoes; both settings of '
        'exception_on_unexpected_response. non-trivial = the reply differs from the matching one (distinct case lines)')
ASSUMPTIONS = ['the echoed byte offsets of each sample response are listed in tools/harness/callreg.py (ECHO) from Appendix B of DESIGN.md',
               'the DTC identifier of extended-data-by-DTC responses is not in the property\'s field list and is not checked']
EXPECT = {}


def gen_cases(tier, seed):
    rnd = random.Random(seed)
    for inv in invocations():
        p = inv.positive
        muts = []
        for off in inv.echo:
            for v in range(256):
                if v != p[off]:
                    muts.append((p[:off] + bytes([v]) + p[off + 1:], 'echo byte %d' % off))
        for v in range(256):
            if v != p[0]:
                muts.append((bytes([v]) + p[1:], 'service id'))
        if len(inv.echo) >= 2:
            for _ in range(50):
                q = bytearray(p)
                for off in rnd.sample(inv.echo, 2):
                    q[off] = (q[off] + rnd.randrange(1, 256)) & 0xFF
                muts.append((bytes(q), 'two echo bytes'))
        # every inner window of the response zeroed (a multi-byte echo replaced as a whole, with its neighbours); windows that
        # reach the end, or are followed by zeros only, are left out: an all-zero tail is padding (C11), not a wrong echo
        for i in range(1, len(p)):
            for j in range(i + 1, len(p)):
                if j - i >= 2 and any(p[j:]) and any(i <= off < j and p[off] != 0 for off in inv.echo):
                    muts.append((p[:i] + bytes(j - i) + p[j:], 'zeroed window'))
        muts.append((p, 'matching'))
        for rep, tag in muts:
            for unx in ((1, 0) if tag != 'service id' or tier != 'quick' else (1,)):
                cfgv = list(cl.DEFAULT_CFG)
                for s, v in inv.cfg.items():
                    cfgv[s] = v
                cfgv[cl.EX_UNX] = unx
                c = cl.H(cfgv).call(inv.callid, inv.args, inv.blobs, [(10, rep)]).case(5000, '%s / %s' % (inv.name, tag))
                EXPECT[c.line()] = (tag == 'matching')
                yield c
        # the same checks hold for the frame that follows one or two 'response pending' frames: the answer of another service with the
        # right echoes, or the right service with a wrong echo, is not the answer
        if inv.callid != 5 and inv.sid is not None:
            pend = bytes([0x7F, inv.sid, 0x78])
            late = [(bytes([v]) + p[1:], 'service id after pending') for v in (0x7E, 0x50, 0x51, 0x62, 0x6E, 0x74, 0x76, 0x77) if v != p[0]]
            late += [(p[:off] + bytes([p[off] ^ 0x01]) + p[off + 1:], 'echo byte %d after pending' % off) for off in inv.echo]
            late.append((p, 'matching after pending'))
            for rep, tag in late:
                for npend in (1, 2):
                    for unx in (1, 0):
                        cfgv = list(cl.DEFAULT_CFG)
                        for s, v in inv.cfg.items():
                            cfgv[s] = v
                        cfgv[cl.EX_UNX] = unx
                        reps = [(10 + 5 * k, pend) for k in range(npend)] + [(100, rep)]
                        c = cl.H(cfgv).call(inv.callid, inv.args, inv.blobs, reps).case(5000, '%s / %s' % (inv.name, tag))
                        EXPECT[c.line()] = tag.startswith('matching')
                        yield c
    # the composite unlock: a well-formed seed reply with a real seed but the echo of another level, then a correct reply to the key
    # request (should it be sent); and a correct seed reply followed by a key reply echoing another level
    for inv in invocations():
        if inv.callid != 5:
            continue
        lvl = inv.args[0]
        odd, even = ((lvl + 1) // 2) * 2 - 1, ((lvl + 1) // 2) * 2
        for v in range(256):
            for unx in (1, 0):
                cfgv = list(cl.DEFAULT_CFG)
                for s_, x in inv.cfg.items():
                    cfgv[s_] = x
                cfgv[cl.EX_UNX] = unx
                if v != odd:
                    c = cl.H(cfgv).call(5, inv.args, inv.blobs, [(10, bytes([0x67, v, 0x11, 0x22])), (20, bytes([0x67, even]))]).case(5000, '%s / seed echo' % inv.name)
                    EXPECT[c.line()] = False
                    yield c
                if v != even:
                    c = cl.H(cfgv).call(5, inv.args, inv.blobs, [(10, bytes([0x67, odd, 0x11, 0x22])), (20, bytes([0x67, v]))]).case(5000, '%s / key echo' % inv.name)
                    EXPECT[c.line()] = False
                    yield c
    # snapshots by DTC number with a specific record number: a reply that holds the requested record AND a record nobody asked for
    # (before or after it) does not answer the request; two records of the requested number do
    for inv in invocations():
        if inv.callid != 29 or inv.args[0] not in (0x04, 0x18):
            continue
        for want in (2, 0x80):
            args = list(inv.args)
            args[10], args[11] = 1, want
            hdr = bytes([0x59, inv.args[0]]) + (bytes([args[15]]) if inv.args[0] == 0x18 else b'') + b'\x12\x34\x56\x24'

            def rec(n, v):
                return bytes([n, 1]) + b'\x01\x02' + bytes([v])
            for other in (want + 1, want - 1, 0, 0xFE):
                for body, ok, what in ((rec(want, 0x77) + rec(other, 0x78), False, 'requested record then another'),
                                       (rec(other, 0x78) + rec(want, 0x77), False, 'another record then the requested one'),
                                       (rec(want, 0x77) + rec(want, 0x78), True, 'two records of the requested number')):
                    for unx in (1, 0):
                        cfgv = list(cl.DEFAULT_CFG)
                        for s_, x in inv.cfg.items():
                            cfgv[s_] = x
                        cfgv[cl.EX_UNX] = unx
                        c = cl.H(cfgv).call(29, args, inv.blobs, [(10, hdr + body)]).case(5000, '%s / %s' % (inv.name, what))
                        EXPECT[c.line()] = ok
                        yield c
    yield from gen_arg_sweep(tier, seed)


def first_reply(inv, args, blobs, cfgv):
    """the reference server's first matching positive response for these arguments (fixed random content)"""
    from harness import respspec
    class V:
        pass
    v = V()
    v.__dict__.update(inv.__dict__)
    v.args, v.blobs = list(args), list(blobs)
    try:
        out = respspec.gen(v, cl.H(cfgv).cfg, random.Random(4242), (1,))
    except Exception:
        return None
    return out[0][0] if out else None


def specific(inv, args):
    """False when the varied request does not pin the field in which the two replies differ: 'all records' record numbers
    (0xFF for snapshots, 0xF0.. groups for extended data by DTC), and the DTC of extended-data-by-DTC requests, which is
    not among the echoed parameters the property lists"""
    if inv.callid != 29:
        return True
    from harness.calls_ext import oi
    sub = args[0]
    changed = [i for i in range(len(args)) if args[i] != inv.args[i]]
    if sub in (0x06, 0x10, 0x19):
        if all(i in (8, 9) for i in changed):
            return False
        ext = oi(args, 12)
        if ext is not None and ext >= 0xF0 and all(i in (12, 13) for i in changed):
            return False
    if sub in (0x03, 0x04, 0x05, 0x18):
        snap = oi(args, 10)
        if snap == 0xFF and all(i in (10, 11) for i in changed):
            return False
    return True


def gen_arg_sweep(tier, seed):
    """request arguments varied over their boundary values (argspace): the reference server's matching response to the
    varied request must be accepted; its response to the TEMPLATE request, when it differs from the matching one in
    bytes of the same positions, answers another request and must not be accepted"""
    from harness import argspace, isospec
    rnd = random.Random(seed + 7)
    for inv in invocations():
        if inv.callid in (1, 5, 17, 19, 23, 24):      # raw / composite / no echoed parameter in the response
            continue
        base_cfg = list(cl.DEFAULT_CFG)
        for s, v in inv.cfg.items():
            base_cfg[s] = v
        r1 = first_reply(inv, inv.args, inv.blobs, base_cfg)
        if r1 is None:
            continue
        seen = set()
        for cfgo, args, blobs, tag in argspace.variants(inv, rnd, tier):
            if tag in ('template', 'data string', 'path', 'edition', 'did list x did table') or len(blobs) and max(len(b) for b in blobs) > 300:
                continue
            cfgv = list(base_cfg)
            for s, v in cfgo.items():
                cfgv[s] = v
            key = (tuple(args), tuple(blobs), tuple(cfgv))
            if key in seen:
                continue
            seen.add(key)
            h = cl.H(cfgv)
            if isospec.expected(h.cfg, inv.callid, args, blobs)[0] != 'send':
                continue
            r2 = first_reply(inv, args, blobs, cfgv)
            if r2 is None:
                continue
            if inv.callid == 29 and args[0] in (0x06, 0x10, 0x19) and args[12] == 1 and args[13] == 0:
                continue       # extended data record number 0 is reserved: a response carrying it reads as padding
            for unx in (1, 0):
                cv = list(cfgv)
                cv[cl.EX_UNX] = unx
                c = cl.H(cv).call(inv.callid, args, blobs, [(10, r2)]).case(5000, '%s / varied arguments, matching reply' % inv.name)
                EXPECT[c.line()] = True
                yield c
                if r1 != r2 and len(r1) == len(r2) and specific(inv, args):
                    c = cl.H(cv).call(inv.callid, args, blobs, [(10, r1)]).case(5000, '%s / varied arguments, reply to the template request' % inv.name)
                    EXPECT[c.line()] = False
                    yield c


def worker_init():
    cl.setup()


def impl(c):
    return cl.run_history_case(c)


def oracle(c, r):
    matching = EXPECT.get(c.line())
    d = cl.parse_calls(r, 1)[0][0]
    name = c.tag.split(' / ')[0]
    accepted = d['kind'] in ('ok', 'value', 'none')
    if d['kind'] == 'raised' and d['err'] >= 20:
        return ('internal-error/%s' % name, 'internal error %d' % d['err'])
    if matching:
        if not accepted:
            return ('matching-refused/%s' % name, 'the matching response was not accepted (%s err=%r)' % (d['kind'], d['err']))
        return None
    if accepted:
        cfgv, ops = cl.case_ops(c)
        return ('mismatch-accepted/%s' % name, 'reply %s (%s) was accepted as the answer' % (ops[0][4][-1][1].hex(), c.tag.split(' / ')[1]))
    if d['kind'] == 'returned' and not (d['resp']['unexpected'] or not d['resp']['valid'] or not d['resp']['positive']):
        return ('mismatch-unflagged/%s' % name, 'mismatching reply handed back without a flag')
    return None


def nontrivial(c, r):
    return EXPECT.get(c.line()) is False


def describe(c):
    return 'cfg=%r ops=%r' % cl.case_ops(c)
