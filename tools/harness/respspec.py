"""Reference server encoder: for every modelled call, well-formed ISO 14229-1 positive responses carrying chosen
semantic values, together with the service data the client must decode from them (in the canonical rendering of
calls_ext.py).  Written from Appendix B of DESIGN.md, independently of udsoncan and of the Coq model.
gen(inv, cfgv, rnd) -> list of (reply bytes, expected sdata, record size for padding or None, tag)."""
from harness import clientlib as cl, isospec
from harness.calls_ext import oi, ob
from harness.core import enc_bytes, enc_opt


def u(n, v):
    return v.to_bytes(n, 'big')


def rb(rnd, n):
    return bytes(rnd.randrange(256) for _ in range(n))


def nz(rnd, n):
    """n random bytes, none of them zero (so that padding is distinguishable from data)"""
    return bytes(rnd.randrange(1, 256) for _ in range(n))


def lenpref(b):
    return u(2, len(b)) + b


def dtc_render(id_, status=0, sev=0, funit=-1, fault=-1, snaps=(), ext=()):
    out = [id_, status, sev, funit, fault, len(snaps)]
    for s in snaps:
        out += ([0, s] if isinstance(s, int) else [1, s[0], s[1]] + enc_bytes(s[2]))
    out.append(len(ext))
    for r, raw in ext:
        out += [r] + enc_bytes(raw)
    return out


def dtcdata(echo, memsel=-1, sa=-1, sva=-1, fmt=-1, fg=-1, count=None, dtcs=()):
    out = [echo, memsel, sa, sva, fmt, fg, len(dtcs) if count is None else count, len(dtcs)]
    for d in dtcs:
        out += d
    return out


def gen(inv, cfgv, rnd, nrec_choices=(0, 1, 2, 3)):
    base, dids, ios = cl.split_cfg(cfgv)
    a, b, cid = inv.args, inv.blobs, inv.callid
    std = base[cl.STD]
    out = []
    if cid == 2:
        for (p2, p2s) in [(0, 0), (50, 500), (0xFFFF, 0xFFFF), (0x8000, 0x7FFF), (rnd.randrange(65536), rnd.randrange(65536))]:
            if std >= 2013:
                out.append((bytes([0x50, a[0]]) + u(2, p2) + u(2, p2s), [a[0], p2 * 1000, p2s * 10000] + enc_bytes(u(2, p2) + u(2, p2s)), None, 'session'))
            else:
                rec = rb(rnd, rnd.choice([0, 4, 6]))
                out.append((bytes([0x50, a[0]]) + rec, [a[0], -1, -1] + enc_bytes(rec), None, 'session 2006'))
    elif cid == 3:
        k = (a[0] + 1) // 2
        for n in (1, 2, 4, 8, 20):
            seed = rb(rnd, n)
            out.append((bytes([0x67, 2 * k - 1]) + seed, [2 * k - 1, 1] + enc_bytes(seed), None, 'seed'))
    elif cid == 4:
        k = (a[0] + 1) // 2
        out.append((bytes([0x67, 2 * k]), [2 * k, 0], None, 'key'))
    elif cid == 6:
        out.append((b'\x7e\x00', [0], None, 'tester present'))
    elif cid == 7:
        if a[0] == 4:
            for t in (0, 1, 0xFE, 0xFF):
                out.append((bytes([0x51, 4, t]), [4, t], None, 'reset with power down time'))
        else:
            out.append((bytes([0x51, a[0]]), [a[0], -1], None, 'reset'))
    elif cid == 8:
        out.append((b'\x54', [], None, 'clear dtc'))
    elif cid == 9:
        for n in (0, 1, 5):
            rec = rb(rnd, n)
            out.append((bytes([0x71, a[1]]) + u(2, a[0]) + rec, [a[1], a[0]] + enc_bytes(rec), None, 'routine'))
    elif cid == 10:
        for n in (0, 3):
            rec = rb(rnd, n)
            out.append((bytes([0xC3, a[0]]) + rec, [a[0]] + enc_bytes(rec), None, 'timing'))
    elif cid in (11, 15, 16):
        rsid = {11: 0x68, 15: 0xC7, 16: 0xC5}[cid]
        out.append((bytes([rsid, a[0]]), [a[0]], None, 'echo only'))
    elif cid == 13:
        for n in (0, 2):
            rec = rb(rnd, n)
            out.append((bytes([0x76, a[0]]) + rec, [a[0]] + enc_bytes(rec), None, 'transfer data'))
    elif cid == 14:
        for n in (0, 1, 4):
            rec = rb(rnd, n)
            out.append((b'\x77' + rec, enc_bytes(rec), None, 'transfer exit'))
    elif cid == 17:
        size = a[1]
        if 0 < size <= 64:
            d = nz(rnd, size)
            out.append((b'\x63' + d, enc_bytes(d), 1, 'memory block'))
    elif cid == 18:
        kind, frame = isospec.expected(cfgv, cid, a, b)
        if kind in ('send', 'unspecified') and frame:
            hdr = frame[1:len(frame) - len(b[0])]
            out.append((b'\x7d' + hdr, [hdr[0], a[0], a[1]], None, 'write memory echo'))
    elif cid == 19:
        rsid = 0x75 if a[0] == 1 else 0x74
        for n in range(1, 9):
            for v in {0, 1, (1 << (8 * n)) - 1, 1 << (8 * n - 1), rnd.randrange(1 << (8 * n))}:
                out.append((bytes([rsid, n << 4]) + u(n, v), [v], None, 'max block length %d bytes' % n))
    elif cid == 20:
        out.append((bytes([0x6C, a[1]]) + u(2, a[0]), [a[1], a[0]], None, 'define did'))
    elif cid == 21:
        did = oi(a, 0)
        out.append((bytes([0x6C, 3]) + (u(2, did) if did is not None else b''), [3, -1 if did is None else did], None, 'clear did'))
    elif cid in (22, 23):
        l = a[1:1 + a[0]]
        vals = {}
        reply = b'\x62'
        for i, d in enumerate(l):
            sh = isospec.did_shape(dids, d)
            n = sh if sh >= 0 else rnd.choice([0, 1, 5])
            v = nz(rnd, n)
            vals[d] = v
            reply += u(2, d) + v
        replies = [(reply, '')]
        fixed = all(isospec.did_shape(dids, d) is not None and isospec.did_shape(dids, d) >= 0 for d in l)
        if len(set(l)) == len(l) >= 2 and fixed:
            # the server may list the identifiers in another order than they were asked for: the values are keyed by identifier
            replies.append((b'\x62' + b''.join(u(2, d) + vals[d] for d in reversed(l)), ' (response in reverse order)'))
            replies.append((b'\x62' + b''.join(u(2, d) + vals[d] for d in l[1:] + l[:1]), ' (response rotated)'))
        for rep, sfx in replies:
            if cid == 22:
                sd = [len(vals)]
                for k in sorted(vals):
                    sd += [k] + enc_bytes(vals[k])
                out.append((rep, sd, 1, 'did values' + sfx))
            else:
                out.append((rep, ('value', vals[l[0]]), 1, 'first did value' + sfx))
    elif cid == 24:
        out.append((b'\x62' + u(2, a[1]) + rb(rnd, 3), [], None, 'raw'))
    elif cid == 25:
        out.append((b'\x6e' + u(2, a[0]), [a[0]], None, 'write did'))
    elif cid == 26:
        did, cp = a[0], oi(a, 1)
        tab = {}
        for e in ios:
            tab.setdefault(e[0], e)
        ent = tab.get(did, tab.get(-1))
        if ent is not None:
            sh = ent[1]
            d = nz(rnd, sh if sh >= 0 else 3)
            out.append((b'\x6f' + u(2, did) + (bytes([cp]) if cp is not None else b'') + d, [did, -1 if cp is None else cp] + enc_bytes(d), 1, 'io'))
    elif cid == 27:
        moop = a[0]
        dfi = ((a[2] << 4) | a[3]) if a[1] == 1 else 0
        for n in (1, 2, 4, 8):
            ml = rnd.choice([0, 1, (1 << (8 * n)) - 1, 1 << (8 * n - 1)])
            if moop == 2:
                out.append((b'\x78\x02', [2, -1, -1, -1, -1, -1, -1], 1, 'delete file'))
                break
            head = bytes([0x78, moop, n]) + u(n, ml)
            if moop in (1, 3):
                out.append((head + bytes([dfi]), [moop, ml, dfi, -1, -1, -1, -1], 1, 'add/replace file'))
            elif moop == 4:
                for m in (1, 3, 8):
                    unc = rnd.choice([0, (1 << (8 * m)) - 1, 1 << (8 * m - 1)])
                    comp = rnd.choice([0, (1 << (8 * m)) - 1, rnd.randrange(1 << (8 * m))])
                    out.append((head + bytes([dfi]) + u(2, m) + u(m, unc) + u(m, comp), [4, ml, dfi, unc, comp, -1, -1], 1, 'read file'))
            elif moop == 5:
                for m in (1, 8):
                    ln = rnd.choice([0, (1 << (8 * m)) - 1, 1 << (8 * m - 1)])
                    out.append((head + b'\x00' + u(2, m) + u(m, ln), [5, ml, 0, -1, -1, ln, -1], 1, 'read dir'))
            elif moop == 6:
                for pos in (0, 1, (1 << 63), (1 << 64) - 1, rnd.randrange(1 << 64)):
                    out.append((head + bytes([dfi]) + u(8, pos), [6, ml, dfi, -1, -1, -1, pos], 1, 'resume file'))
    elif cid == 28:
        task = a[0]
        rv = rnd.randrange(256)

        def P():
            return rb(rnd, rnd.choice([0, 1, 3, 300]))
        f = {'chal': None, 'eph': None, 'cert': None, 'pown': None, 'skey': None, 'algo': None, 'need': None}
        body = b''
        if task in (0, 4, 8):
            pass
        elif task == 1:
            f['chal'], f['eph'] = P(), P()
            body = lenpref(f['chal']) + lenpref(f['eph'])
        elif task == 2:
            f['chal'], f['cert'], f['pown'], f['eph'] = P(), P(), P(), P()
            body = lenpref(f['chal']) + lenpref(f['cert']) + lenpref(f['pown']) + lenpref(f['eph'])
        elif task == 3:
            f['skey'] = P()
            body = lenpref(f['skey'])
        elif task == 5:
            f['algo'], f['chal'], f['need'] = rb(rnd, 16), P(), P()
            body = f['algo'] + lenpref(f['chal']) + lenpref(f['need'])
        elif task == 6:
            f['algo'], f['skey'] = rb(rnd, 16), P()
            body = f['algo'] + lenpref(f['skey'])
        elif task == 7:
            f['algo'], f['pown'], f['skey'] = rb(rnd, 16), P(), P()
            body = f['algo'] + lenpref(f['pown']) + lenpref(f['skey'])
        sd = [task, rv]
        for k in ('chal', 'eph', 'cert', 'pown', 'skey', 'algo', 'need'):
            sd += enc_opt(enc_bytes, f[k])
        out.append((bytes([0x69, task, rv]) + body, sd, None, 'authentication task %d' % task))
    elif cid == 29:
        out += gen_dtc(inv, base, dids, rnd, nrec_choices)
    return out


def gen_dtc(inv, base, dids, rnd, nrec_choices):
    a = inv.args
    sub = a[0]
    dtc, snap, ext, memsel, fgid, esz = oi(a, 8), oi(a, 10), oi(a, 12), oi(a, 14), oi(a, 16), oi(a, 18)
    size = esz if esz is not None else (None if base[cl.EXT_SIZE] < 0 else base[cl.EXT_SIZE])
    ds = base[cl.SNAP_DID]
    out = []
    fixed_dids = [(d, sh) for d, sh in dids if sh >= 0 and 0 < d < (1 << (8 * ds))]
    readall_dids = [(d, sh) for d, sh in dids if sh < 0 and 0 < d < (1 << (8 * ds))]
    dflt = [sh for d, sh in dids if d < 0][:1]
    if dflt:
        # the table has a 'default' entry: identifiers it does not list are served by that codec
        unlisted = [(x, dflt[0]) for x in (0x5A, 0x5A5B, 0x5A5B5C) if x < (1 << (8 * ds)) and x not in [d for d, _ in dids]]
        if dflt[0] >= 0:
            fixed_dids = fixed_dids + unlisted + unlisted      # drawn as often as the listed ones
        else:
            readall_dids = readall_dids + unlisted

    def ids(n):
        s = set()
        while len(s) < n:
            s.add(rnd.randrange(1, 1 << 24))
        return list(s)

    def ids0(n):
        """... one of them possibly the DTC number 0x000000: a record whose number is 0 but whose other byte is not is a record, not padding"""
        l = ids(n)
        if l and rnd.random() < 0.4:
            l[rnd.randrange(len(l))] = 0
        return l

    def companion(i):
        return rnd.randrange(256) if i else rnd.randrange(1, 256)
    for n in nrec_choices:
        if sub in (0x02, 0x0A, 0x0B, 0x0C, 0x0D, 0x0E, 0x0F, 0x13, 0x15, 0x17):
            sa = rnd.randrange(256)
            recs = [(i, companion(i)) for i in ids0(n)]
            body = b''.join(u(3, i) + bytes([s]) for i, s in recs)
            hdr = bytes([0x59, sub]) + (bytes([memsel]) if sub == 0x17 else b'')
            out.append((hdr + bytes([sa]) + body, dtcdata(sub, memsel if sub == 0x17 else -1, sa, dtcs=[dtc_render(i, s) for i, s in recs]), 4, 'dtc+status x%d' % n))
        elif sub in (0x08, 0x09):
            if sub == 0x09 and n > 1:
                continue
            sa = rnd.randrange(256)
            recs = [(i, rnd.randrange(256), rnd.randrange(256), rnd.randrange(256)) for i in ids(n)]
            body = b''.join(bytes([sv, fu]) + u(3, i) + bytes([s]) for i, s, sv, fu in recs)
            out.append((bytes([0x59, sub, sa]) + body, dtcdata(sub, sa=sa, dtcs=[dtc_render(i, s, sv & 0xE0, fu) for i, s, sv, fu in recs]), 6, 'severity records x%d' % n))
        elif sub in (0x01, 0x07, 0x11, 0x12):
            sa, fmt, cnt = rnd.randrange(256), rnd.choice([0, 1, 2, 3, 4]), rnd.choice([0, 1, 0x1234, 0xFFFF, 0x8000])
            out.append((bytes([0x59, sub, sa, fmt]) + u(2, cnt), dtcdata(sub, sa=sa, fmt=fmt, count=cnt), None, 'number of dtc'))
            break
        elif sub == 0x14:
            recs = [(i, companion(i)) for i in ids0(n)]
            out.append((bytes([0x59, sub]) + b''.join(u(3, i) + bytes([c]) for i, c in recs), dtcdata(sub, dtcs=[dtc_render(i, fault=c) for i, c in recs]), 4, 'fault counters x%d' % n))
        elif sub == 0x03:
            pool = ids0(max(1, n))
            pairs = [(i, companion(i)) for i in (rnd.choice(pool) for _ in range(n))]
            order, m = [], {}
            for i, r in pairs:
                if i not in m:
                    m[i] = []
                    order.append(i)
                m[i].append(r)
            out.append((bytes([0x59, sub]) + b''.join(u(3, i) + bytes([r]) for i, r in pairs), dtcdata(sub, dtcs=[dtc_render(i, snaps=m[i]) for i in order]), 4, 'snapshot identification x%d' % n))
        elif sub in (0x04, 0x18):
            if not fixed_dids:
                continue
            for use_ra in ((False, True) if (readall_dids and n > 0) else (False,)):
                st = rnd.randrange(256)
                body, snaps = b'', []
                rec = snap if snap not in (None, 0xFF) else rnd.randrange(1, 255)
                for k in range(n):
                    nd = rnd.randrange(1, 4)
                    body += bytes([rec, nd])
                    for j in range(nd):
                        if use_ra and k == n - 1 and j == nd - 1:
                            # the last DID of the response has a codec that takes whatever is left
                            d, sh = rnd.choice(readall_dids)
                            raw = nz(rnd, rnd.choice([1, 2, 5]))
                        else:
                            d, sh = rnd.choice(fixed_dids)
                            raw = rb(rnd, sh)
                        body += u(ds, d) + raw
                        snaps.append((rec, d, raw))
                hdr = bytes([0x59, sub]) + (bytes([memsel]) if sub == 0x18 else b'')
                out.append((hdr + u(3, dtc) + bytes([st]) + body, dtcdata(sub, memsel if sub == 0x18 else -1, count=1, dtcs=[dtc_render(dtc, st, snaps=snaps)]),
                            None, 'snapshots by dtc x%d%s' % (n, ' (last DID reads all)' if use_ra else '')))
        elif sub == 0x05:
            if not fixed_dids or n > 1:
                continue
            for use_ra in ((False, True) if (readall_dids and n > 0) else (False,)):
                body, dl = b'', []
                rec = snap if snap not in (None, 0xFF) else rnd.randrange(1, 255)
                for i in ids(n):
                    st = rnd.randrange(256)
                    nd = rnd.randrange(1, 4)
                    body += bytes([rec]) + u(3, i) + bytes([st, nd])
                    snaps = []
                    for j in range(nd):
                        if use_ra and j == nd - 1:
                            d, sh = rnd.choice(readall_dids)
                            raw = nz(rnd, rnd.choice([1, 2, 5]))
                        else:
                            d, sh = rnd.choice(fixed_dids)
                            raw = rb(rnd, sh)
                        body += u(ds, d) + raw
                        snaps.append((rec, d, raw))
                    dl.append(dtc_render(i, st, snaps=snaps))
                if n == 0:
                    body = bytes([rec])
                out.append((bytes([0x59, sub]) + body, dtcdata(sub, dtcs=dl), None, 'snapshots by record x%d%s' % (n, ' (last DID reads all)' if use_ra else '')))
        elif sub in (0x06, 0x10, 0x19):
            if size is None:
                continue
            st = rnd.randrange(256)
            rec = ext if (ext is not None and ext < 0xF0 and ext != 0) else None
            exts = [(rec if rec is not None else rnd.randrange(1, 0xF0), rb(rnd, size)) for _ in range(n)]
            hdr = bytes([0x59, sub]) + (bytes([memsel]) if sub == 0x19 else b'')
            out.append((hdr + u(3, dtc) + bytes([st]) + b''.join(bytes([r]) + raw for r, raw in exts),
                        dtcdata(sub, memsel if sub == 0x19 else -1, count=1, dtcs=[dtc_render(dtc, st, ext=exts)]), None, 'extended data by dtc x%d' % n))
        elif sub == 0x16:
            if size is None:
                continue
            recs = [(i, rnd.randrange(256), rb(rnd, size)) for i in ids(n)]
            out.append((bytes([0x59, sub, ext]) + b''.join(u(3, i) + bytes([s]) + raw for i, s, raw in recs),
                        dtcdata(sub, dtcs=[dtc_render(i, s, ext=[(ext, raw)]) for i, s, raw in recs]), 4 + size, 'extended data by record x%d' % n))
        elif sub in (0x42, 0x55):
            sa, sva, fmt = rnd.randrange(256), rnd.randrange(256), rnd.choice([2, 4])
            recs = [(i, rnd.randrange(256), rnd.randrange(256)) for i in ids(n)]
            body = b''.join(bytes([sv]) + u(3, i) + bytes([s]) for i, s, sv in recs)
            if sub == 0x42:
                out.append((bytes([0x59, sub, fgid, sa, sva, fmt]) + body, dtcdata(sub, sa=sa, sva=sva & 0xE0, fmt=fmt, fg=fgid, dtcs=[dtc_render(i, s, sv & 0xE0) for i, s, sv in recs]), 5, 'wwh-obd x%d' % n))
            else:
                out.append((bytes([0x59, sub, fgid, sa, fmt]) + body, dtcdata(sub, sa=sa, fmt=fmt, fg=fgid, dtcs=[dtc_render(i, s, sv & 0xE0) for i, s, sv in recs]), 5, 'wwh-obd permanent x%d' % n))
    return out
