"""Shared machinery of every check: cases, the extracted-model driver, the differ, the violation
decision, known findings, evidence.  See DESIGN.md sections 2, 4, 7."""
import hashlib
import importlib
import json
import multiprocessing
import os
import re
import subprocess
import sys
import time

ROOT = os.path.dirname(os.path.dirname(os.path.dirname(os.path.abspath(__file__))))
REPO = os.environ.get('VERIF_REPO', '/repo')
BUILD = os.path.join(ROOT, '_build')
COQ = os.path.join(ROOT, 'coq')
sys.dont_write_bytecode = True
if REPO not in sys.path:
    sys.path.insert(0, REPO)
sys.path.insert(0, os.path.join(ROOT, 'tools'))

NPROC = int(os.environ.get('VERIF_JOBS', '16'))


class Case:
    """one correspondence case: model entry point, integer arguments, byte-string arguments"""
    __slots__ = ('entry', 'ints', 'blobs', 'tag')

    def __init__(self, entry, ints=(), blobs=(), tag=''):
        self.entry = entry
        self.ints = list(ints)
        self.blobs = [bytes(b) for b in blobs]
        self.tag = tag

    def line(self):
        def zi(v):
            return ('-%x' % -v) if v < 0 else '%x' % v
        return '%x|%s|%s' % (self.entry, ','.join(zi(i) for i in self.ints),
                             ','.join((b.hex() or '-') for b in self.blobs))

    def to_json(self):
        return {'entry': self.entry, 'ints': self.ints, 'blobs': [b.hex() for b in self.blobs], 'tag': self.tag}

    @staticmethod
    def from_json(d):
        return Case(d['entry'], d['ints'], [bytes.fromhex(b) for b in d['blobs']], d.get('tag', ''))


def parse_result(line):
    line = line.strip()
    if not line:
        return []
    out = []
    for t in line.split(','):
        out.append(-int(t[1:], 16) if t.startswith('-') else int(t, 16))
    return out


def run_model(cases):
    """evaluate the extracted Coq model on the cases; returns a list of integer lists"""
    drv = os.path.join(BUILD, 'driver')
    if not cases:
        return []
    n = max(1, min(NPROC, len(cases) // 2000 + 1))
    shards = [cases[i::n] for i in range(n)]
    procs = []
    for sh in shards:
        p = subprocess.Popen([drv], stdin=subprocess.PIPE, stdout=subprocess.PIPE, text=True)
        procs.append(p)
    import threading
    outs = [None] * n

    def feed(i):
        data = '\n'.join(c.line() for c in shards[i]) + '\n'
        outs[i], _ = procs[i].communicate(data)
    ths = [threading.Thread(target=feed, args=(i,)) for i in range(n)]
    for t in ths:
        t.start()
    for t in ths:
        t.join()
    res = [None] * len(cases)
    for i in range(n):
        lines = outs[i].split('\n')
        if lines and lines[-1] == '':
            lines.pop()
        if len(lines) != len(shards[i]):
            raise RuntimeError('driver returned %d lines for %d cases (exit %s)' % (len(lines), len(shards[i]), procs[i].returncode))
        for j, ln in enumerate(lines):
            res[i + j * n] = parse_result(ln)
    return res


# ----------------------------------------------------------------------------------------------
# canonical integer rendering on the implementation side (mirrors Lib/ErrM.v enc_*)
def enc_bool(b):
    return 1 if b else 0


def enc_bytes(b):
    return [len(b)] + list(b)


def enc_str(s):
    return enc_bytes(s.encode('latin-1', 'replace'))


def enc_opt(f, v):
    return [0] if v is None else [1] + f(v)


ERR = {'ValueError': 1, 'ConfigError': 2, 'NotImplementedError': 3, 'TimeoutException': 4, 'NegativeResponseException': 5,
       'InvalidResponseException': 6, 'UnexpectedResponseException': 7, 'RuntimeError': 8, 'OSError': 8,
       'IndexError': 20, 'error': 21, 'AttributeError': 22, 'TypeError': 23, 'OverflowError': 24, 'AssertionError': 25,
       'KeyError': 26}
DOCUMENTED = {1, 2, 3, 4, 5, 6, 7, 8}


def err_code(e):
    for cls in type(e).__mro__:
        if cls.__name__ in ERR:
            return ERR[cls.__name__]
    return 99


# ----------------------------------------------------------------------------------------------
_MOD = None


def _init_worker(modname):
    global _MOD
    import logging
    logging.disable(logging.CRITICAL)
    _MOD = importlib.import_module(modname)
    if hasattr(_MOD, 'worker_init'):
        _MOD.worker_init()


class HangDetected(BaseException):
    """raised by the per-case real-time alarm; BaseException so that no 'except Exception' of the library swallows it"""


def _alarm(signum, frame):
    raise HangDetected()


def wide_oracle(c, r):
    """generic rule for the wide correspondence stream (widegen.py): once a request has gone out, no undocumented exception escapes"""
    from harness import clientlib
    try:
        cfgv0, ops = clientlib.case_ops(c)
        n = len([o for o in ops if o[0] == 'call'])
        calls, cfgs, cur = [], [], list(cfgv0)
        for o in ops:                       # the configuration in force at each call (histories may change it in between)
            if o[0] == 'set_cfg':
                cur = list(cur)
                cur[o[1]] = o[2]
            elif o[0] == 'call':
                calls.append(o)
                cfgs.append(cur)
        for i, d in enumerate(clientlib.parse_calls(r, n)[0]):
            cfgv = cfgs[i]
            if d['kind'] == 'raised' and d['err'] == 1 and any(e[0] == 'S' for e in d['events']):
                # ValueError is how arguments are refused BEFORE sending; after the request has gone out it is not a documented outcome
                from harness import isospec
                kind, why = isospec.expected(cfgv, calls[i][1], calls[i][2][:5] if calls[i][1] == 1 else calls[i][2], calls[i][3])
                if kind == 'reject' and str(why).startswith('extended data size'):
                    continue        # the known finding of C07 (size validated when decoding): reported there
                if not (1 <= cfgv[clientlib.SNAP_DID] <= 8) or cfgv[clientlib.EXT_SIZE] > 4095:
                    continue        # an invalid configuration value (not an input of the property), which the library reports as ValueError when it uses it
                return ('valueerror-after-send/%s' % c.tag.split(' / ')[1], 'a ValueError escaped after the request was sent, in history %r' % (ops,))
            if d['kind'] == 'raised' and d['err'] not in DOCUMENTED and any(e[0] == 'S' for e in d['events']):
                return ('internal-error/%s' % c.tag.split(' / ')[1], 'an internal error (code %d) escaped in history %r' % (d['err'], ops))
    except Exception as e:
        return ('oracle-error', '%s: %s' % (type(e).__name__, str(e)[:200]))
    return None


def _work(chunk):
    import signal
    out = []
    limit = float(getattr(_MOD, 'CASE_TIMEOUT', 30.0))    # real seconds; the clock of the client is virtual, so a case takes milliseconds
    signal.signal(signal.SIGALRM, _alarm)
    for cj in chunk:
        c = Case.from_json(cj)
        wide = c.tag.startswith('wide /')
        try:
            signal.setitimer(signal.ITIMER_REAL, limit)
            try:
                if wide:
                    from harness import clientlib
                    clientlib.setup()
                    r = clientlib.run_history_case(c)
                else:
                    r = _MOD.impl(c)
            finally:
                signal.setitimer(signal.ITIMER_REAL, 0)
        except HangDetected:
            r = ['HANG', int(limit)]
            limit = min(limit, 3.0)      # one hang is already a violation: do not spend the full limit on each further case of this worker
        except BaseException as e:  # the impl runner itself must never raise: report as a harness error
            r = ['HARNESS-ERROR', type(e).__name__, str(e)[:200]]
        if r and r[0] == 'CTX-SWALLOWED':
            out.append((r, ('exception-swallowed', "the __exit__ of client.%s returned a true value: an exception raised by the last call of the with-block never reaches the caller" % r[1])))
            continue
        if r and r[0] == 'HANG':
            out.append((r, ('hang', 'the call did not return or raise within %s s of real time (the client clock is virtual: nothing waits)' % (r[1] if len(r) > 1 else '?'))))
            continue
        if wide and not (r and r[0] == 'HARNESS-ERROR'):
            out.append((r, wide_oracle(c, r)))
            continue
        try:
            o = _MOD.oracle(c, r) if not (r and r[0] == 'HARNESS-ERROR') else None
        except BaseException as e:
            o = ('oracle-error', '%s: %s' % (type(e).__name__, str(e)[:200]))
        out.append((r, o))
    return out


def run_impl(modname, cases):
    """run mod.impl and mod.oracle on every case in worker processes (fresh import of /repo in each)"""
    if not cases:
        return []
    js = [c.to_json() for c in cases]
    nchunks = max(1, min(len(js) // 200 + 1, NPROC * 8))
    chunks = [js[i::nchunks] for i in range(nchunks)]
    ctx = multiprocessing.get_context('fork')
    with ctx.Pool(min(NPROC, nchunks), initializer=_init_worker, initargs=(modname,)) as pool:
        parts = pool.map(_work, chunks, chunksize=1)
    res = [None] * len(cases)
    for i, part in enumerate(parts):
        for j, v in enumerate(part):
            res[i + j * nchunks] = v
    return res


# ----------------------------------------------------------------------------------------------
def load_known():
    p = os.path.join(ROOT, 'known_findings.json')
    if not os.path.exists(p):
        return []
    return json.load(open(p))


def count_obligations(files):
    """(statements, statements in files that compiled) over the dependency closure"""
    pat = re.compile(r'^\s*(Theorem|Lemma|Corollary|Example|Fact|Remark|Proposition)\s+([A-Za-z0-9_\']+)', re.M)
    total, names = 0, []
    for f in files:
        p = os.path.join(COQ, f)
        if os.path.exists(p):
            txt = re.sub(r'\(\*.*?\*\)', '', open(p).read(), flags=re.S)
            m = pat.findall(txt)
            total += len(m)
            names += [(f, n[1]) for n in m]
    return total, names


def check_props_file(prop):
    """re-run coqc on Props/<prop>.v (top theorems + Print Assumptions) and return (ok, output, assumptions)"""
    f = 'Props/%s.v' % prop
    if not os.path.exists(os.path.join(COQ, f)):
        return False, 'missing ' + f, []
    tmpdir = os.path.join(BUILD, 'props_%s_%d' % (prop, os.getpid()))
    os.makedirs(tmpdir, exist_ok=True)
    try:
        p = subprocess.run('timeout 900 coqc -Q %s UDS -w -notation-overridden %s -o %s/%s.vo' % (COQ, os.path.join(COQ, f), tmpdir, prop),
                           shell=True, stdout=subprocess.PIPE, stderr=subprocess.STDOUT, text=True)
        out = p.stdout
        ok = p.returncode == 0
    finally:
        subprocess.run(['rm', '-rf', tmpdir])
    assumptions = []
    cur = None
    for line in out.split('\n'):
        if line.startswith('Closed under the global context'):
            assumptions.append('closed')
        elif line.startswith('Axioms:'):
            cur = []
            assumptions.append(cur)
        elif cur is not None and line.strip() and not line.startswith(' ') and ':' in line:
            cur.append(line.split(':')[0].strip())
    return ok, out, assumptions


def main(modname, argv):
    import argparse
    ap = argparse.ArgumentParser()
    ap.add_argument('--tier', default=os.environ.get('VERIF_TIER', 'quick'))
    ap.add_argument('--replay', default=None)
    ap.add_argument('--no-build', action='store_true')
    args = ap.parse_args(argv)
    tier = args.tier if args.tier in ('quick', 'thorough') else 'quick'
    seed = int(os.environ.get('VERIF_SEED', '0') or 0)
    t0 = time.time()
    mod = importlib.import_module(modname)
    prop = mod.PROP
    import build as buildmod

    if args.replay:
        return replay(mod, modname, args.replay)

    st = buildmod.build('quick') if not args.no_build else json.load(open(os.path.join(BUILD, 'status.json')))
    deps = st.get('deps', {})
    propfile = 'Props/%s.v' % prop
    clos = sorted(buildmod.closure(deps, propfile)) if propfile in deps else [propfile]
    broken = []
    if not st['translator']['ok']:
        broken.append('translator: ' + st['translator']['message'].split('\n')[-1][:300])
    for gf, msg in st['translator'].get('failed', {}).items():
        # a table the translator can no longer read breaks the properties whose theorems are about that table; the others run on the last good copy
        if prop in st['translator'].get('owners', {}).get(gf, []):
            broken.append('translator: Gen/%s: %s' % (gf, msg[:300]))
    failed = [f for f in st['coq']['failed'] if f in clos or f == '<make>' or f == '_CoqProject']
    # a file that failed makes everything depending on it unbuilt
    for f in failed:
        broken.append('theorem-file: %s does not compile' % f)
    for h in st.get('hygiene', []):
        broken.append('hygiene: ' + h)
    pok, pout, assumptions = (False, '', [])
    if not failed and st['translator']['ok']:
        pok, pout, assumptions = check_props_file(prop)
        if not pok:
            broken.append('theorem-file: %s does not check: %s' % (propfile, pout.strip()[-400:]))
    nonclosed = [a for a in assumptions if a != 'closed']
    obligations, names = count_obligations(clos)
    discharged = 0
    for f, n in names:
        if f not in st['coq']['failed'] and os.path.exists(os.path.join(COQ, f[:-2] + '.vo')) and (f != propfile or pok):
            discharged += 1
    if failed:
        discharged = min(discharged, obligations - 1)

    # ---- correspondence + oracle ----
    corpus = []
    cdir = os.path.join(ROOT, 'corpus', prop)
    if os.path.isdir(cdir):
        for fn in sorted(os.listdir(cdir)):
            if fn.endswith('.json'):
                corpus.append(Case.from_json(json.load(open(os.path.join(cdir, fn)))['case']))
    cases = corpus + list(mod.gen_cases(tier, seed))
    nwide = getattr(mod, 'WIDE', 0) if tier == 'thorough' else getattr(mod, 'WIDE_QUICK', 0)
    if nwide:
        # the wide correspondence stream: all dimensions drawn at once; a different stream per property
        from harness import widegen
        cases += list(widegen.gen(seed * 100 + int(prop[1:]), nwide))
    impl_res = run_impl(modname, cases)
    model_ok = st['driver']['ok']
    model_res = None
    if model_ok:
        try:
            model_res = run_model(cases)
        except Exception as e:
            model_ok = False
            broken.append('driver: %s' % e)
    else:
        broken.append('driver: ' + st['driver']['message'][-300:])

    disagreements, findings, harness_errors = [], [], []
    other_property = 0      # wide-stream differences outside this property's observables (another property's check reports them)
    seen, dist = set(), {}
    nontrivial = 0
    samples = {}
    for i, c in enumerate(cases):
        r, o = impl_res[i]
        dist[c.tag] = dist.get(c.tag, 0) + 1
        if r and r[0] == 'HARNESS-ERROR':
            harness_errors.append((c, r))
            continue
        if o is not None:
            findings.append((c, r, o))
        m = model_res[i] if model_res is not None else None
        if m is not None and m != r:
            if c.tag.startswith('wide /') and prop != 'C04':
                # the wide stream runs under every client property: a difference counts here only if it shows in what THIS property observes
                from harness import clientlib
                if not clientlib.wide_relevant(prop, c, r, m):
                    other_property += 1
                    continue
            disagreements.append((c, r, m))
        key = c.line()
        if key not in seen:
            seen.add(key)
            if c.tag.startswith('wide /') or mod.nontrivial(c, r):
                nontrivial += 1
                if c.tag not in samples and len(samples) < 12:
                    samples[c.tag] = {'case': c.to_json(), 'impl': r[:40], 'model': (m[:40] if m is not None else None)}

    known = [k for k in load_known() if k['property'] == prop]
    known_keys = {k['key']: k for k in known if k.get('status') == 'known'}
    new_findings = [f for f in findings if f[2][0] not in known_keys]
    reproduced = set(f[2][0] for f in findings if f[2][0] in known_keys)
    # disagreements that are explained by a known finding are not violations of their own
    unexplained = [d for d in disagreements if not any(f[0] is d[0] for f in findings if f[2][0] in known_keys)]

    rdir = os.path.join(ROOT, 'evidence', 'replays')
    os.makedirs(rdir, exist_ok=True)
    for fn in os.listdir(rdir):      # replay files of earlier runs of this property are stale
        if fn.startswith(prop + '-'):
            os.remove(os.path.join(rdir, fn))
    violation_lines = []
    if harness_errors:
        c, r = harness_errors[0]
        broken.append('harness-error: %s on %s' % (r[1:], c.line()))

    def write_replay(kind, payload):
        h = hashlib.sha1(json.dumps(payload, sort_keys=True).encode()).hexdigest()[:10]
        path = os.path.join(rdir, '%s-%s.json' % (prop, h))
        json.dump(payload, open(path, 'w'), indent=1)
        return path

    if new_findings:
        bykey = {}
        for c, r, o in new_findings:
            bykey.setdefault(o[0], []).append((c, r, o))
        for k, lst in sorted(bykey.items()):
            lst.sort(key=lambda x: (len(x[0].line()), x[0].line()))
            c, r, o = lst[0]
            path = write_replay('failing-input', {'property': prop, 'kind': 'failing-input', 'key': k, 'what': o[1],
                                                  'case': c.to_json(), 'impl_result': r, 'count': len(lst),
                                                  'replay_cmd': './check %s --replay <this file>' % prop})
            violation_lines.append('VIOLATION property=%s replay=%s' % (prop, path))
    elif unexplained or broken:
        payload = {'property': prop, 'kind': 'no-failing-input-found', 'broken': broken,
                   'correspondence_disagreements': [{'case': c.to_json(), 'impl': r, 'model': m} for c, r, m in unexplained[:5]],
                   'n_disagreements': len(unexplained),
                   'note': 'the proof or the model/implementation correspondence no longer checks; the oracle of the property found no failing input in this run'}
        path = write_replay('broken', payload)
        violation_lines.append('VIOLATION property=%s replay=%s no-failing-input-found' % (prop, path))

    for k in known:
        if k.get('status') == 'known':
            print('KNOWN-FINDING: property=%s %s%s' % (prop, k['what'], '' if k['key'] in reproduced else ' (not reproduced by this run)'))

    tb = ['Coq 8.16.1 kernel (coqc, full .vo build; vm_compute used for finite sweeps)',
          'Print Assumptions of Props/%s.v: %s' % (prop, 'all theorems closed under the global context' if assumptions and not nonclosed else json.dumps(assumptions)),
          'translator tools/translate.py (tables) and function translator tools/symtrans.py + symspecs.py (function bodies executed on symbolic arguments): Gen/*.v regenerated from /repo this run',
          'extraction: ExtrOcamlBasic only, no Extract Constant / Extract Inductive of our own; driver.ml; OCaml 4.13.1',
          'correspondence harness tools/harness/%s.py and CPython' % modname.split('.')[-1]] + list(getattr(mod, 'TRUSTED', []))
    ev = {
        'property_id': prop, 'tier': tier, 'seed': seed, 'level': 'proof',
        'coverage': {
            'obligations': obligations, 'discharged': discharged,
            'checker_cmd': 'make -C coq (coqc 8.16.1, full .vo) ; coqc Props/%s.v' % prop,
            'trusted_base': tb,
            'theorems': [n for f, n in names if f == propfile],
            'proof_files': clos,
            'evaluations': len(cases), 'distinct_nontrivial': nontrivial,
            'rule': getattr(mod, 'RULE', ''),
            'samples': list(samples.values())[:12],
            'traces_validated_against_impl': len(cases) - len(disagreements) if model_res is not None else 0,
            'correspondence_disagreements': len(disagreements),
            'differences_outside_this_property': other_property,
            'oracle_failures': len(findings), 'known_findings_reproduced': sorted(reproduced),
            'input_distribution': dist,
            'exhaustive': bool(getattr(mod, 'EXHAUSTIVE', False)),
            'broken': broken,
        },
        'assumptions': list(getattr(mod, 'ASSUMPTIONS', [])),
        'wall_s': round(time.time() - t0, 2),
        'violations': len(violation_lines),
    }
    os.makedirs(os.path.join(ROOT, 'evidence'), exist_ok=True)
    tmp = os.path.join(ROOT, 'evidence', '%s.json.tmp%d' % (prop, os.getpid()))
    json.dump(ev, open(tmp, 'w'), indent=1)
    os.replace(tmp, os.path.join(ROOT, 'evidence', '%s.json' % prop))
    print('%s tier=%s seed=%d: %d cases (%d distinct non-trivial), %d/%d obligations, %d disagreements, %d oracle failures, %.1fs' % (
        prop, tier, seed, len(cases), nontrivial, discharged, obligations, len(disagreements), len(findings), time.time() - t0))
    for b in broken:
        print('BROKEN: ' + b[:400])
    for v in violation_lines:
        print(v)
    return 1 if violation_lines else 0


def replay(mod, modname, path):
    d = json.load(open(path))
    if d.get('kind') != 'failing-input':
        print(json.dumps(d, indent=1)[:4000])
        print('replay: this file names what no longer checks (no concrete input); re-run the check to re-evaluate it')
        return 1
    c = Case.from_json(d['case'])
    _init_worker(modname)
    if c.tag.startswith('wide /'):
        from harness import clientlib
        clientlib.setup()
        r = clientlib.run_history_case(c)
        o = wide_oracle(c, r)
    else:
        r = mod.impl(c)
        o = mod.oracle(c, r)
    try:
        m = run_model([c])[0]
    except Exception as e:
        m = 'model unavailable: %s' % e
    print('case   :', c.line())
    if c.tag.startswith('wide /'):
        from harness import clientlib
        print('meaning: cfg=%r ops=%r' % clientlib.case_ops(c))
    elif hasattr(mod, 'describe'):
        print('meaning:', mod.describe(c))
    print('impl   :', r)
    print('model  :', m)
    print('oracle :', o)
    return 1 if o is not None else 0
