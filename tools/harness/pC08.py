"""C08 - exception_on_* switches change how an outcome is delivered, never the outcome.
All 8 switch settings x every modelled entry point x reply kinds (valid, negative, truncated, mismatching echo,
other service, unknown id, empty, silence).  Oracle: re-runs the same call with all switches on and compares
class and payload; with a switch off the response must come back flagged, never looking successful."""
import itertools
from harness.core import Case
from harness import clientlib as cl
from harness.callreg import invocations

WIDE = 200000        # thorough tier: histories of the wide correspondence stream (widegen.py), judged by the model and the generic rule
WIDE_QUICK = 2000
PROP = 'C08'
EXHAUSTIVE = True
RULE = ('8 switch settings x every modelled entry point x 12 reply kinds (positive, 3 negatives, truncations of the positive '
        'reply, flipped echo byte, other service response, unknown id, empty frame, silence, pending+negative). '
        'non-trivial = the reply is not a clean positive one (distinct case lines)')
ASSUMPTIONS = []


def replies_for(inv):
    p = inv.positive
    out = [('positive', [(10, p)]), ('neg22', [(10, bytes([0x7F, inv.sid, 0x22]))]), ('neg95', [(10, bytes([0x7F, inv.sid, 0x95]))]),
           ('neg00', [(10, bytes([0x7F, inv.sid, 0x00]))]), ('pending+neg', [(10, bytes([0x7F, inv.sid, 0x78])), (20, bytes([0x7F, inv.sid, 0x31, 0xAA]))]),
           ('trunc1', [(10, p[:1])]), ('trunc2', [(10, p[:2])]), ('other-service', [(10, b'\x54')]), ('other-service2', [(10, b'\x71\x01\x00\x01')]),
           ('unknown-id', [(10, b'\x00\x01')]), ('empty', [(10, b'')]), ('silence', []), ('7f-short', [(10, b'\x7f')]),
           ('neg-other-service', [(10, b'\x7f\x14\x22')])]
    if len(p) >= 2:
        out.append(('flip-echo', [(10, p[:1] + bytes([p[1] ^ 0x01]) + p[2:])]))
        out.append(('flip-echo-hi', [(10, p[:1] + bytes([p[1] ^ 0x80]) + p[2:])]))
    if len(p) >= 3:
        out.append(('flip-byte2', [(10, p[:2] + bytes([p[2] ^ 0x01]) + p[3:])]))
        out.append(('trunc-last', [(10, p[:-1])]))
    out.append(('extended', [(10, p + b'\x00')]))
    return out


def gen_cases(tier, seed):
    for inv in invocations():
        for name, reps in replies_for(inv):
            for sw in itertools.product((1, 0), repeat=3):
                cfgv = list(cl.DEFAULT_CFG)
                for s, v in inv.cfg.items():
                    cfgv[s] = v
                cfgv[cl.EX_NEG], cfgv[cl.EX_INV], cfgv[cl.EX_UNX] = sw
                yield cl.H(cfgv).call(inv.callid, inv.args, inv.blobs, reps).case(5000, '%s / %s' % (inv.name, name))


    # the composite unlock: a good seed, then every kind of reply to the key request
    for inv in invocations():
        if inv.callid != 5:
            continue
        lvl = inv.args[0]
        seed = (10, bytes([0x67, lvl, 0x11, 0x22, 0x33]))
        key_replies = [('key positive', bytes([0x67, lvl + 1])), ('key neg35', bytes([0x7F, 0x27, 0x35])), ('key neg-other-service', b'\x7f\x10\x22'),
                       ('key other-service', b'\x50\x01\x00\x32\x01\xf4'), ('key other-service2', b'\x51\x01'), ('key trunc', b'\x67'),
                       ('key flip-echo', bytes([0x67, lvl + 3])), ('key odd-echo', bytes([0x67, lvl])), ('key unknown-id', b'\x00\x01'),
                       ('key empty', b''), ('key silence', None), ('key 7f-short', b'\x7f')]
        for name, kr in key_replies:
            for sw in itertools.product((1, 0), repeat=3):
                cfgv = list(cl.DEFAULT_CFG)
                for s, v in inv.cfg.items():
                    cfgv[s] = v
                cfgv[cl.EX_NEG], cfgv[cl.EX_INV], cfgv[cl.EX_UNX] = sw
                reps = [seed] + ([(20, kr)] if kr is not None else [])
                yield cl.H(cfgv).call(inv.callid, inv.args, inv.blobs, reps).case(5000, '%s / %s' % (inv.name, name))
    # the same inside a with-block of either context manager of the client (identity payload override; suppress block waiting for an
    # NRC): an outcome raised inside the block gets out of it
    for inv in invocations():
        for name, reps in replies_for(inv):
            if name not in ('positive', 'neg22', 'trunc1', 'flip-echo', 'other-service', 'silence'):
                continue
            for blk in ('override', 'suppress', 'suppress (not waiting for a negative response)', 'bare suppress'):
                for sw in itertools.product((1, 0), repeat=3):
                    cfgv = list(cl.DEFAULT_CFG)
                    for s, v in inv.cfg.items():
                        cfgv[s] = v
                    cfgv[cl.EX_NEG], cfgv[cl.EX_INV], cfgv[cl.EX_UNX] = sw
                    h = cl.H(cfgv)
                    if blk == 'override':
                        h.ov_fun(b'', b'')
                    else:
                        # (a service without a subfunction byte cannot carry the suppression bit: its reply is processed as usual)
                        h.spr_enter(True if blk == 'suppress' else (False if blk.startswith('suppress (') else None))
                    h.call(inv.callid, inv.args, inv.blobs, reps)
                    if blk == 'override':
                        h.ov_exit()
                    else:
                        h.spr_exit()
                    yield h.case(5000, '%s / %s inside a %s block' % (inv.name, name, blk))
    # the same after an earlier call on the same client ended with an exception of another kind (timeout, rejected argument,
    # missing configuration) or with each of the three response exceptions: the delivery rule has no memory
    prefixes = [('after timeout', 6, [], [], []), ('after ValueError', 7, [0x100], [], []), ('after ConfigError', 25, [0x7777], [b'\x01'], []),
                ('after negative', 6, [], [], [(10, b'\x7f\x3e\x22')]), ('after invalid', 6, [], [], [(10, b'\x7e')]),
                ('after unexpected', 6, [], [], [(10, b'\x7e\x05')])]
    for inv in invocations():
        for name, reps in replies_for(inv):
            if name not in ('positive', 'neg22', 'trunc1', 'flip-echo', 'other-service', 'silence'):
                continue
            for pname, pid, pargs, pblobs, preps in prefixes:
                for sw in itertools.product((1, 0), repeat=3):
                    cfgv = list(cl.DEFAULT_CFG)
                    for s, v in inv.cfg.items():
                        cfgv[s] = v
                    cfgv[cl.EX_NEG], cfgv[cl.EX_INV], cfgv[cl.EX_UNX] = sw
                    h = cl.H(cfgv).call(pid, pargs, pblobs, preps).call(inv.callid, inv.args, inv.blobs, reps)
                    yield h.case(5000, '%s / %s %s' % (inv.name, name, pname))


def worker_init():
    cl.setup()


def impl(c):
    return cl.run_history_case(c)


def classify(d):
    if d['kind'] in ('none', 'ok', 'value'):
        return 'ok'
    if d['kind'] == 'raised':
        return {5: 'negative', 6: 'invalid', 7: 'unexpected'}.get(d['err'], 'err%d' % d['err'])
    r = d['resp']
    if not r['valid']:
        return 'invalid'
    if r['unexpected']:
        return 'unexpected'
    if not r['positive']:
        return 'negative'
    return 'looks-successful'


def oracle(c, r):
    from harness.core import Case as K
    cfgv, ops = cl.case_ops(c)
    ncalls = len([o for o in ops if o[0] == 'call'])
    d = cl.parse_calls(r, ncalls)[0][-1]
    cls = classify(d)
    if d['kind'] == 'raised' and d['err'] >= 20:
        return ('internal-error', 'internal error %d leaked' % d['err'])
    if cls == 'looks-successful':
        return ('looks-successful', 'a response handed back by the decorator carries no failure flag')
    base = K(c.entry, c.ints[:1] + [1, 1, 1] + c.ints[4:], c.blobs)
    rb = cl.run_history_case(base)
    db = cl.parse_calls(rb, ncalls)[0][-1]
    cb = classify(db)
    if cls != cb:
        return ('class-changed', 'switches %r: outcome class %s, with all switches on: %s' % (cfgv[:3], cls, cb))
    pa = d['resp']['payload'] if d['resp'] else None
    pb = db['resp']['payload'] if db['resp'] else None
    if pa != pb:
        return ('payload-changed', 'switches %r: payload %r vs %r' % (cfgv[:3], pa, pb))
    callid = [o for o in ops if o[0] == 'call'][-1][1]
    if callid != 1:
        sw = {'negative': cfgv[0], 'invalid': cfgv[1], 'unexpected': cfgv[2]}
        if cls in sw:
            if sw[cls] == 1 and d['kind'] != 'raised':
                return ('switch-on-not-raised', '%s with the switch on was not raised' % cls)
            if sw[cls] == 0 and d['kind'] != 'returned':
                return ('switch-off-not-returned', '%s with the switch off was %s' % (cls, d['kind']))
    return None


def nontrivial(c, r):
    return not (r[0] == 0 and r[1] == 1)


def describe(c):
    return 'cfg=%r ops=%r' % cl.case_ops(c)
