"""C11 - zero padding: trailing zeros are ignored when tolerated, rejected when not.
Every padding-aware entry point (the methods whose documentation lists tolerate_zero_padding, plus
read_memory_by_address) x valid responses with 0..3 genuine records from the reference encoder x pad lengths
0 .. 2*rs+1 x the four (tolerate_zero_padding, ignore_all_zero_dtc) settings."""
import random
import re
import os
from harness.core import Case, REPO
from harness import clientlib as cl, respspec
from harness.callreg import invocations

WIDE = 200000        # thorough tier: histories of the wide correspondence stream (widegen.py), judged by the model and the generic rule
WIDE_QUICK = 2000
PROP = 'C11'
EXHAUSTIVE = False
RULE = ('padding-aware entry points (read from the client docstrings) x reference-encoder responses with 0..3 records x pad '
        'lengths 0..2*rs+1 (rs = record size, 1 when the parser has no records) x tolerate_zero_padding x ignore_all_zero_dtc. '
        'non-trivial = pad length > 0 (distinct case lines)')
ASSUMPTIONS = ['DID 0x0000 is not configured (ISO-reserved; otherwise zeros are a legitimate DID)', 'the last codec of a response is not read-all-remaining (padding would be data)',
               'snapshot-by-record-number (0x05): a lone trailing byte is a record number without DTC, which ISO permits; it is not counted as padding']

EXPECT = {}


def padding_aware_methods():
    """client methods whose docstring lists tolerate_zero_padding as effective configuration"""
    src = open(os.path.join(REPO, 'udsoncan', 'client.py')).read()
    out = set()
    for m in re.finditer(r'def (\w+)\(self[^\n]*?(?:\n[^\n]*?)*?"""(.*?)"""', src, re.S):
        if 'tolerate_zero_padding' in m.group(2).split(':param')[0]:
            out.add(m.group(1))
    return out | {'read_memory_by_address'}


def gen_cases(tier, seed):
    rnd = random.Random(seed)
    aware = padding_aware_methods()
    import copy
    invs = []
    for inv in invocations():
        invs.append(inv)
        if inv.callid == 29 and inv.args[0] in (0x16, 0x06, 0x10, 0x19):
            for sz in (0, 1):       # extended data of 0 and 1 bytes (0 is a legal, validated size)
                v = copy.copy(inv)
                v.args = list(inv.args)
                v.args[18], v.args[19] = 1, sz
                invs.append(v)
    for inv in invs:
        name = inv.name.split('(')[0]
        if name not in aware:
            continue
        if 'read-all' in inv.name:
            continue
        from harness.callreg_ext import DIDS
        # DID codec tables: the shared one, and the same with a 'default' codec (any DID then has a codec: zeros must still
        # read as padding because DID 0x0000 itself is not configured)
        tables = [None] if inv.callid not in (22, 23, 29) else [None, DIDS + [(-1, 2)], DIDS + [(-1, 1)], DIDS + [(-1, 0)]]
        for tol, ign, dt in [(t, i, d) for t in (1, 0) for i in (1, 0) for d in tables]:
            if True:
                cfgv = list(cl.DEFAULT_CFG)
                for s, v in inv.cfg.items():
                    cfgv[s] = v
                cfgv[cl.TOL_PAD], cfgv[cl.IGN_ZERO] = tol, ign
                h0 = cl.H(cfgv, dids=dt)
                for _ in range(2 if tier == 'quick' else 20):
                    for reply, sd, rs, tag in respspec.gen(inv, h0.cfg, rnd):
                        if rs is None and inv.callid == 29 and inv.args[0] in (4, 0x18, 5, 6, 0x10, 0x19):
                            rs = 1
                        if rs is None or 'reads all' in tag:      # after a read-all codec, zeros are data, not padding
                            continue
                        for n in range(0, 2 * rs + 2):
                            c = cl.H(cfgv, dids=dt).call(inv.callid, inv.args, inv.blobs, [(10, reply + b'\x00' * n)]).case(5000, '%s / %s' % (name, tag))
                            EXPECT[c.line()] = (sd, rs, n, inv.callid, inv.args[0] if inv.callid == 29 else None)
                            yield c
                # long responses (several hundred bytes: 40 and 70 records) with a few pad lengths
                if dt is None:
                    for reply, sd, rs, tag in respspec.gen(inv, h0.cfg, rnd, (40, 70)):
                        if rs is None and inv.callid == 29 and inv.args[0] in (4, 0x18, 5, 6, 0x10, 0x19):
                            rs = 1
                        if rs is None or 'reads all' in tag or len(reply) < 200:
                            continue
                        for n in (0, 1, rs, 2 * rs + 1):
                            c = cl.H(cfgv, dids=dt).call(inv.callid, inv.args, inv.blobs, [(10, reply + b'\x00' * n)]).case(5000, '%s / %s (long)' % (name, tag))
                            EXPECT[c.line()] = (sd, rs, n, inv.callid, inv.args[0] if inv.callid == 29 else None)
                            yield c


def worker_init():
    cl.setup()


def impl(c):
    return cl.run_history_case(c)


def zero_records(callid, sub, k, extrec=None, size=0):
    """rendering of k extra all-zero DTC records for the parsers whose padding can form whole records"""
    from harness.respspec import dtc_render
    if sub in (0x08, 0x09):
        return [dtc_render(0, 0, 0, 0)] * k
    if sub == 0x14:
        return [dtc_render(0, fault=0)] * k
    if sub == 0x16:
        return [dtc_render(0, 0, ext=[(extrec, bytes(size))])] * k
    return [dtc_render(0, 0)] * k


def oracle(c, r):
    e = EXPECT.get(c.line())
    if e is None:
        return None
    sd, rs, n, callid, sub = e
    cfgv, ops = cl.case_ops(c)
    tol, ign = cfgv[cl.TOL_PAD] == 1, cfgv[cl.IGN_ZERO] == 1
    d = cl.parse_calls(r, 1)[0][0]
    name = c.tag.split(' / ')[0]
    whole_records = callid == 29 and sub in (0x03, 0x02, 0x0A, 0x0B, 0x0C, 0x0D, 0x0E, 0x0F, 0x13, 0x15, 0x17, 0x08, 0x09, 0x14, 0x42, 0x55, 0x16)
    if d['kind'] == 'raised' and d['err'] >= 20:
        return ('internal-error/%s' % name, 'padding of %d bytes raised internal error %d' % (n, d['err']))
    if tol:
        want = sd
        if whole_records and not ign and n // rs > 0:
            # each whole all-zero record among the padding is a genuine record (DTC 0)
            k = n // rs
            if isinstance(sd, list):
                extra = zero_records(callid, sub, k, ops[0][2][13] if sub == 0x16 else None, rs - 4)
                want = list(sd)
                want[6] = sd[6] + k
                want[7] = sd[7] + k
                for x in extra:
                    want = want + x
        if callid == 29 and sub == 0x16 and not ign and n // rs >= 2:
            # by-record-number extended data: two genuine records of the same DTC (0) for one record number are a malformed response
            if d['kind'] == 'raised' and d['err'] == 6 or d['kind'] == 'returned' and not d['resp']['valid']:
                return None
            return ('tolerant-changed/%s' % name, 'ignore_all_zero_dtc off, %d whole zero records: expected an invalid response (DTC 0 twice), got %s' % (n // rs, d['kind']))
        if callid == 29 and sub == 0x03 and not ign:
            return None   # snapshot identification: zero records merge into one DTC 0 (dict semantics), compared by the model only
        if callid == 29 and sub == 0x09 and not ign and n // rs > 0:
            return None
        if isinstance(want, tuple):
            ok = d['kind'] == 'value' and d['value'] == want[1]
        else:
            ok = d['kind'] == 'ok' and d['sdata'] == want
        if not ok:
            return ('tolerant-changed/%s' % name, 'tolerance on, ignore_all_zero_dtc=%s: %d padding bytes changed the result: %s %r' % (ign, n, d['kind'], (d['sdata'] or [])[:30]))
        return None
    if n == 0:
        # tolerance off and nothing appended: the complete valid response is accepted as it is
        ok = (d['kind'] == 'value' and d['value'] == sd[1]) if isinstance(sd, tuple) else (d['kind'] == 'ok' and d['sdata'] == sd)
        if not ok:
            return ('strict-refused-unpadded/%s' % name, 'tolerance off, no padding at all: the valid response (%d bytes) gave %s err=%r' % (len(ops[0][4][0][1]), d['kind'], d.get('err')))
        return None
    # tolerance off: bytes that do not form whole records must be refused
    partial = n % rs != 0 if whole_records else n > 0
    if callid == 29 and sub in (5,) and n == 1:
        return None
    if callid == 29 and sub == 0x16:
        partial = n > 0 and (n % rs != 0 or ign)
    if partial and d['kind'] in ('ok', 'value'):
        return ('strict-accepted/%s' % name, 'tolerance off: %d trailing zero bytes (record size %d) were accepted' % (n, rs))
    return None


def nontrivial(c, r):
    e = EXPECT.get(c.line())
    return e is not None and e[2] > 0


def describe(c):
    return 'cfg=%r ops=%r expectation=%r' % (cl.case_ops(c) + (EXPECT.get(c.line()),))
