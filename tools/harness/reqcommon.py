"""Shared by C01 / C07 / C14: run one call with boundary arguments, observe what reached the connection, judge it
against the documented domain and ISO layout of isospec.py."""
import random
from harness.core import Case
from harness import clientlib as cl, argspace, isospec
from harness.callreg import invocations


def gen(tier, seed, callids=None, only_tags=None):
    rnd = random.Random(seed)
    for inv in invocations():
        if inv.callid == 1:
            continue
        if callids is not None and inv.callid not in callids:
            continue
        for cfgo, args, blobs, tag in argspace.variants(inv, rnd, tier):
            if only_tags is not None and tag not in only_tags:
                continue
            yield argspace.build(inv, cfgo, args, blobs).case(5000, '%s / %s' % (inv.name.split('(')[0], tag))


def observe(c, r):
    cfgv, ops = cl.case_ops(c)
    d = cl.parse_calls(r, 1)[0][0]
    _, callid, args, cb, reps = ops[0]
    sent = [e[1] for e in d['events'] if e[0] == 'S']
    touched = [e[0] for e in d['events'] if e[0] in ('S', 'F')]
    return cfgv, callid, args, cb, d, sent, touched


def judge(c, r, want_kinds=('send', 'reject', 'unspecified')):
    """-> None or (key, message)"""
    cfgv, callid, args, cb, d, sent, touched = observe(c, r)
    kind, val = isospec.expected(cfgv, callid, args, cb)
    name = c.tag.split(' / ')[0]
    if d['kind'] == 'raised' and d['err'] == 99:
        return ('undocumented-exception/%s' % name, 'raised an exception class outside the documented ones for %s' % c.tag)
    if kind not in want_kinds:
        return None
    if kind == 'send':
        if not sent:
            return ('rejected-in-domain/%s' % name, 'in-domain call sent nothing (err=%r); expected frame %s' % (d['err'], val.hex()[:80]))
        if callid == 5:
            sent = sent[:1]
        if sent != [val]:
            return ('wrong-encoding/%s' % name, 'sent %s, the ISO encoding of the arguments is %s' % (sent[0].hex()[:80], val.hex()[:80]))
        return None
    if kind == 'reject':
        if sent and val.startswith('extended data size'):
            return ('ext-size-checked-after-send', 'the extended data size is missing or out of range (%s) but the request %s was sent before the ValueError' % (name, sent[0].hex()))
        if sent:
            return ('sent-out-of-domain/%s' % name, 'out-of-domain call (%s) sent %s' % (val, sent[0].hex()[:80]))
        if touched:
            return ('touched-out-of-domain/%s' % name, 'out-of-domain call (%s) touched the connection: %r' % (val, touched))
        if d['kind'] != 'raised':
            return ('not-raised-out-of-domain/%s' % name, 'out-of-domain call (%s) did not raise' % val)
        return None
    return None


def nontrivial(c, r):
    return ' / template' not in c.tag


def describe(c):
    cfgv, ops = cl.case_ops(c)
    return 'cfg=%r ops=%r spec=%r' % (cfgv[:17], ops, isospec.expected(cfgv, ops[0][1], ops[0][2], ops[0][3]))
