"""C15 - one call, one flushed-then-sent frame; stale frames are never taken as answers.
Long histories on ONE real client (calls ending in timeout / negative / invalid / unexpected / connection fault; late,
duplicated, unsolicited and stale frames) compared with the model, with the shape rules, and - for the last call -
with the same call on a FRESH client carrying only the adopted session timing."""
import random
from harness.core import Case
from harness import clientlib as cl
from harness import histgen
from harness.callreg import invocations

WIDE = 200000        # thorough tier: histories of the wide correspondence stream (widegen.py), judged by the model and the generic rule
WIDE_QUICK = 2000
PROP = 'C15'
EXHAUSTIVE = False
RULE = ('grammar histories of <= 14 (quick) / <= 40 (thorough) operations over every modelled entry point with stale frames '
        '(arrival <= send time, distinguishable content) in 45% of the calls, faults, duplicates, overrides, configuration changes; '
        'plus systematic: every entry point x every reply kind preceded by stale frames. non-trivial = a call with stale frames or '
        'a call following a failed call (distinct case lines)')
ASSUMPTIONS = ['empty_rxqueue of the recording connection discards what arrived by the call instant (the contract of BaseConnection.empty_rxqueue)']


def gen_cases(tier, seed):
    rnd = random.Random(seed)
    invs = invocations()
    for inv in invs:
        for kind, _ in histgen.reply_kinds(inv, rnd):
            cfgv = list(cl.DEFAULT_CFG)
            for s, v in inv.cfg.items():
                cfgv[s] = v
            h = cl.H(cfgv)
            histgen.add_call(h, rnd, inv, stale=True, kind=kind)
            h.advance(rnd.choice([0, 3, 900000]))
            histgen.add_call(h, rnd, inv, stale=True, kind='positive')
            yield h.case(5000, 'systematic %s' % inv.name)
    n, m = (4000, 14) if tier == 'quick' else (100000, 40)
    for _ in range(n):
        h, tags = histgen.gen_history(rnd, m, invs, p_stale=0.45)
        yield h.case(5000, 'random history')
    # the transport fails after it has written the frame (every error class, both specific_send signatures): the frame is
    # on the wire once, the error reaches the caller, the next call is unaffected
    for inv in invs:
        for code in (23, 8, 1, 4, 26, 22, 20, 24):
            cfgv = list(cl.DEFAULT_CFG)
            for s, v in inv.cfg.items():
                cfgv[s] = v
            h = cl.H(cfgv).call_send_fault(inv.callid, inv.args, inv.blobs, code)
            histgen.add_call(h, rnd, inv, kind='positive')
            yield h.case(5000, 'transport fault after writing %s' % inv.name)
    for opened in (1, 0):
        for legacy in (0, 1):
            for code in (0, 23, 8, 1, 4, 26, 22, 20, 24):
                for payload in (b'\x3e\x00', b'', bytes(range(40))):
                    yield Case(1603, [opened, legacy, code], [payload], 'BaseConnection.send')
    # the same property on the library's own QueueConnection: whatever is queued when the call starts (also zero-length frames, also
    # several of them) is flushed, so a call that gets no fresh reply times out exactly as on a fresh client
    for k, stale in enumerate(STALE_QUEUES):
        yield Case(5016, [k], list(stale), 'real QueueConnection with stale frames queued')
    yield Case(5015, [0], [], 'client context manager, normal exit')
    yield Case(5015, [1], [], 'client context manager, exit by exception')
    yield Case(5015, [0, 1], [], 'client context manager, link dropped inside, normal exit')
    yield Case(5015, [1, 1], [], 'client context manager, link dropped inside, exit by exception')
    for raises in (0, 1):
        for dropped in (0, 1):
            yield Case(5015, [raises, dropped, 1], [], 'client context manager after an attempt to enter it failed (the transport could not be opened)')
            yield Case(5015, [raises, dropped, 2], [], 'client context manager used a second time')


def worker_init():
    cl.setup()


def ctx_manager(raises, dropped=False, before=0):
    client, conn, clk = cl.make_client(cl.DEFAULT_CFG)
    conn.opened = False
    if before == 1:          # a first attempt to enter the block fails in open(); the application catches that and tries again later
        conn.open_fault = True
        try:
            with client:
                raise AssertionError('the block must not run when the connection cannot be opened')
        except OSError:
            pass
        conn.opened = False
    if before == 2:          # an earlier complete use of the same client object
        with client:
            pass
    conn.open_calls = conn.close_calls = 0
    try:
        with client:
            opened_inside = conn.is_open()
            if dropped:
                conn.opened = False     # the link went down: the connection reports itself as not open, its resources still need close()
            if raises:
                raise KeyError('boom')
    except KeyError:
        pass
    return [conn.open_calls, conn.close_calls, 1 if opened_inside else 0, 1 if conn.is_open() else 0]


def base_send(opened, legacy, code, payload):
    from udsoncan.connections import BaseConnection
    from harness.core import enc_bytes, err_code
    written = []
    fault = cl.SEND_FAULTS[code] if code else None

    def body(p):
        written.append(bytes(p))
        if fault is not None:
            raise fault('injected transport fault after the frame was written')

    class Stub(BaseConnection):
        def open(self):
            return self

        def close(self):
            pass

        def is_open(self):
            return bool(opened)

        def empty_rxqueue(self):
            pass

        def specific_wait_frame(self, timeout=2):
            return None

    class Legacy(Stub):
        def specific_send(self, payload):
            body(payload)

    class Modern(Stub):
        def specific_send(self, payload, timeout=None):
            body(payload)
    conn = (Legacy if legacy else Modern)('verif')
    try:
        conn.send(payload)
        err = 0
    except Exception as e:
        err = err_code(e)
    return [len(written)] + [x for w in written for x in enc_bytes(w)] + [err]


STALE_QUEUES = [[b'\x7e\x00'], [b''], [b'', b'\x7e\x00'], [b'\x7e\x00', b'', b'\x7e\x00'], [b'\x7f\x3e\x22', b'\x7e\x00', b''], [b'', b'', b'\x7e\x00'],
                [b'\x7e\x00'] * 5, [b'\x50\x03\x00\x32\x01\xf4', b'', b'\x7f\x3e\x78', b'\x7e\x00']]


def real_queue(stale):
    """-> list of problems: tester_present() on a Client over the real QueueConnection, with `stale` queued before the call and no fresh
    reply (must time out), then with a fresh reply put after the request went out (must be delivered)"""
    import threading
    import udsoncan.client as uc
    from udsoncan.connections import QueueConnection
    from udsoncan.exceptions import TimeoutException
    import time as real_time
    saved = uc.time
    uc.time = real_time          # the virtual clock of the other cases does not drive a real queue
    problems = []
    try:
        for fresh in (False, True):
            conn = QueueConnection(name='verif')
            conn.open()
            client = uc.Client(conn, config={'request_timeout': 1.5, 'p2_timeout': 1.0, 'p2_star_timeout': 1.0})      # generous: the answering thread may be scheduled late on a busy machine
            for f in stale:
                conn.fromuserqueue.put(f)
            if fresh:
                def answer():
                    conn.touserqueue.get(timeout=2)
                    conn.fromuserqueue.put(b'\x7e\x00')
                th = threading.Thread(target=answer, daemon=True)
                th.start()
            try:
                r = client.tester_present()
                if not fresh:
                    problems.append('a frame queued before the call was taken for the answer (%r)' % (None if r is None else r.original_payload))
            except TimeoutException:
                if fresh:
                    problems.append('the fresh reply was not delivered')
            except Exception as e:
                problems.append('%s instead of %s' % (type(e).__name__, 'the reply' if fresh else 'a timeout'))
            conn.close()
    finally:
        uc.time = saved
    return problems


def impl(c):
    if c.entry == 5016:
        return [len(real_queue(list(c.blobs)))]
    if c.entry == 1603:
        return base_send(c.ints[0], c.ints[1], c.ints[2], c.blobs[0])
    if c.entry == 5015:
        return ctx_manager(c.ints[0] == 1, len(c.ints) > 1 and c.ints[1] == 1, c.ints[2] if len(c.ints) > 2 else 0)
    return cl.run_history_case(c)


def norm_events(evs, t0):
    return [(e[0], e[1], e[2] - t0) if e[0] == 'W' else e for e in evs]


def oracle(c, r):
    if c.entry == 5016:
        if r != [0]:
            return ('stale-frame-real-queue', '; '.join(real_queue(list(c.blobs))) or 'not reproduced on a second run')
        return None
    if c.entry == 5015:
        if r != [1, 1, 1, 0]:
            return ('ctx-close', 'with Client(...) : open calls, close calls, open inside, open after = %r' % r)
        return None
    if c.entry == 1603:
        opened, legacy, code = c.ints
        n = r[0]
        if opened and n != 1:
            return ('transport-writes', 'BaseConnection.send handed the payload to specific_send %d times' % n)
        if not opened and n != 0:
            return ('transport-writes', 'a closed connection wrote %d frames' % n)
        if opened and r[-1] != code:
            return ('transport-error-lost', 'specific_send raised error class %d, the caller saw %d' % (code, r[-1]))
        return None
    cfgv, ops = cl.case_ops(c)
    calls, final = cl.parse_calls(r, len([o for o in ops if o[0] in ('call', 'call_send_fault')]))
    cur = list(cfgv)
    i = 0
    now = 0
    inside = ov = False
    last = None
    for o in ops:
        if o[0] == 'set_cfg':
            cur[o[1]] = o[2]
        elif o[0] == 'advance':
            now += o[1]
        elif o[0] == 'spr_enter':
            inside = True
        elif o[0] == 'spr_exit':
            inside = False
        elif o[0] == 'ov_enter':
            ov = True
        elif o[0] == 'ov_exit':
            ov = False
        elif o[0] == 'call_send_fault':
            d = calls[i]
            i += 1
            kinds = [e[0] for e in d['events']]
            if 'S' in kinds:
                if kinds.count('S') != 1 or kinds[-1] != 'S':
                    return ('retransmission-after-fault', 'transport fault after writing: events %r' % kinds)
                if d['kind'] != 'raised' or d['err'] != o[4]:
                    return ('transport-error-lost', 'transport raised error class %d, the call ended %s %r' % (o[4], d['kind'], d['err']))
            now = d['end']
        elif o[0] == 'call':
            d = calls[i]
            i += 1
            _, callid, args, cb, reps = o
            ev = d['events']
            kinds = [e[0] for e in ev]
            ns = kinds.count('S')
            if ns > (2 if callid == 5 else 1):
                return ('retransmission', '%d frames sent by one call' % ns)
            # every send is immediately preceded by a flush; nothing is sent after a timeout/error
            for k, e in enumerate(ev):
                if e[0] == 'S' and not (k > 0 and ev[k - 1][0] == 'F'):
                    return ('send-without-flush', 'a frame was sent without emptying the receive queue first')
            if 'TO' in kinds and kinds.index('TO') != len(kinds) - 1:
                return ('activity-after-timeout', 'events after the timeout: %r' % kinds)
            # stale frames never answer
            stale = [f for dlt, f in reps if dlt <= 0 and f is not None]
            live = [f for dlt, f in reps if dlt > 0 and f is not None]
            if d['resp'] is not None and d['resp']['payload'] is not None:
                if d['resp']['payload'] in stale and d['resp']['payload'] not in live:
                    return ('stale-consumed', 'the outcome carries a frame that arrived before the request was sent: %s' % d['resp']['payload'].hex())
            if d['kind'] == 'raised' and d['err'] >= 20:
                return ('internal-error', 'internal error %d' % d['err'])
            last = (dict(d), o, list(cur), now, inside, ov)
            now = d['end']
    # independence: the last call on a fresh client with only the adopted timing
    if last is not None:
        d, o, cur, t0, inside, ov = last
        _, callid, args, cb, reps = o
        if callid != 2 and not inside and not ov:
            client, conn, clk = cl.make_client(cur)
            if final[0] >= 0:
                client.session_timing.p2_server_max = final[0] / 1e6
                client.session_timing.p2_star_server_max = final[1] / 1e6
            conn.sched = [(dlt, f) for dlt, f in reps if dlt > 0]
            conn.log = []
            res, exc = cl.enc_outcome(lambda: cl.do_call(client, callid, args, cb))
            if exc is not None and type(exc).__name__ == 'TimeoutException':
                conn.log.append([6, cl.timeout_kind(exc)])
            flat = res + [len(conn.log)] + [x for e in conn.log for x in e] + [clk.us] + [0] * 5
            f = cl.parse_calls(flat, 1)[0][0]
            a = (d['kind'], d['err'], d['resp'], d['sdata'], norm_events(d['events'], t0), d['end'] - t0)
            b = (f['kind'], f['err'], f['resp'], f['sdata'], norm_events(f['events'], 0), f['end'])
            if a != b:
                return ('history-dependence', 'the last call behaves differently on a fresh client: %r vs %r' % (a, b))
    return None


def nontrivial(c, r):
    if c.entry in (5015, 5016, 1603):
        return True
    prev_failed = False
    for o in cl.case_ops(c)[1]:
        if o[0] == 'call':
            if any(dlt <= 0 for dlt, f in o[4]) or prev_failed:
                return True
            prev_failed = True
    return False


def describe(c):
    if c.entry == 1603:
        return 'BaseConnection.send: opened=%d legacy specific_send signature=%d transport error class=%d payload=%s' % (tuple(c.ints) + (c.blobs[0].hex(),))
    if c.entry == 5015:
        return 'with Client(conn): body raises=%r' % c.ints
    return 'cfg=%r ops=%r' % cl.case_ops(c)
