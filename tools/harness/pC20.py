"""C20 - identifier-to-name lookups are faithful for every identifier value.  Exhaustive correspondence
(every table x -1..256, every NRC, both 16-bit lookups x -1..65536, DTC format) + oracle evaluated on the
real classes (spec: exact constant, else range constant containing the value, else custom; for 16-bit ids the
ISO partition of Spec/IsoRanges.v, read through the extracted model)."""
import os
import re
from harness.core import Case, COQ, enc_bytes, enc_opt, enc_str, err_code, run_model

PROP = 'C20'
EXHAUSTIVE = True
RULE = ('exhaustive: every BaseSubfunction table x value -1..256; ResponseCode.get_name 0..255; '
        'DataIdentifier.name_from_id and Routine.name_from_id for -1..65536; Dtc.Format.get_name -1..256. '
        'non-trivial = in-range value (distinct case lines counted)')
ASSUMPTIONS = ['names are compared as strings; tables are found by (owner service, class name) from Gen/Subfunctions.v']

_tables = None


def table_ids():
    txt = open(os.path.join(COQ, 'Gen', 'Subfunctions.v')).read()
    return re.findall(r'\("(\w+)", "(\w+)", (?:Some "[^"]*"|None),', txt)


def table_members():
    """per table, its members in name order: [(name, ('int', v) | ('range', lo, hi))] (read from Gen/Subfunctions.v)"""
    txt = open(os.path.join(COQ, 'Gen', 'Subfunctions.v')).read()
    out = []
    for blk in re.findall(r'\("\w+", "\w+", (?:Some "[^"]*"|None),\s*\[(.*?)\]\)', txt, re.S):
        ms = []
        for n, kind, a, b in re.findall(r'\("(\w+)", (GInt|GRange) \(?(-?\d+)\)?(?: \(?(-?\d+)\)?)?\)', blk):
            ms.append((n, ('int', int(a)) if kind == 'GInt' else ('range', int(a), int(b))))
        out.append(ms)
    return out


def gen_cases(tier, seed):
    # a table derived from a library table that RE-DEFINES one inherited constant (another value, a narrower or a moved range): the
    # derived table's own definitions count, the parent's old value is no longer that constant
    tm = table_members()
    for i, ms in enumerate(tm):
        for k, (n, m) in enumerate(ms):
            news = [(0, 0x44, 0), (0, 0x7E, 0)] if m[0] == 'int' else [(1, m[1], (m[1] + m[2]) // 2), (1, m[1] + 3, m[2]), (0, m[1], 0)]
            for kind, x, y in news:
                olds = [m[1]] if m[0] == 'int' else [m[1], m[2], (m[1] + m[2]) // 2 + 1, m[1] + 1]
                for v in sorted(set(olds + [x, y, 0, 1, 0x44, 0x7E, 0xFF])):
                    if 0 <= v <= 255:
                        yield Case(2006, [i, v, k, kind, x, y], [], 'subfunction name in a derived table that re-defines a constant')
    for i, _ in enumerate(table_ids()):
        for v in range(-1, 257):
            yield Case(2001, [i, v], [], 'subfunction name')
    # a lookup is a function of (table, value) alone: the same lookups again after the same value has been looked up in
    # every other table and in the other name spaces, in this process (catches memoisation shared between tables)
    for i, _ in enumerate(table_ids()):
        for v in range(0, 256):
            yield Case(2001, [i, v, 1], [], 'subfunction name after the other tables')
    # a table derived from a library table (the usual way to add manufacturer values) names the inherited values as its parent does
    for i, _ in enumerate(table_ids()):
        for v in range(0, 256):
            yield Case(2001, [i, v, 3], [], 'subfunction name in a derived table')
    # ... and carries, next to its constants, attributes that are not identifiers at all (a description, helper lists / maps, a None
    # placeholder, a float): only int constants and (low, high) tuples name identifiers
    for i, _ in enumerate(table_ids()):
        for v in range(0, 256):
            yield Case(2001, [i, v, 5], [], 'subfunction name in a derived table with helper attributes')
    # the value handed over as an IntEnum member / instance of an int subclass (how applications name their own sessions, reset types ...)
    for i, _ in enumerate(table_ids()):
        for v in range(0, 256):
            yield Case(2001, [i, v, 4], [], 'subfunction name of an int-subclass value')
    for v in range(0, 256):
        yield Case(2002, [0, v, 4], [], 'nrc name of an int-subclass value')
        yield Case(2005, [0, v, 4], [], 'dtc format name of an int-subclass value')
    for v in list(range(0, 0x200)) + list(range(0xF000, 0x10000)):
        yield Case(2003, [0, v, 4], [], 'did name of an int-subclass value')
        yield Case(2004, [0, v, 4], [], 'routine name of an int-subclass value')
    for v in range(0, 256):
        yield Case(2002, [0, v, 1], [], 'nrc name after other lookups')
        yield Case(2005, [0, v, 1], [], 'dtc format name after other lookups')
    for v in list(range(0, 0x200)) + list(range(0xF000, 0x10000)):
        yield Case(2003, [0, v, 1], [], 'did name after other lookups')
        yield Case(2004, [0, v, 1], [], 'routine name after other lookups')
    for v in range(0, 256):
        yield Case(2002, [0, v], [], 'nrc name')
    for v in range(-1, 65537):
        yield Case(2003, [0, v], [], 'did name')
        yield Case(2004, [0, v], [], 'routine name')
    for v in range(-1, 257):
        yield Case(2005, [0, v], [], 'dtc format name')


def worker_init():
    global _tables
    import udsoncan.services as services
    _tables = [getattr(getattr(services, o), c) for o, c in table_ids()]


_derived = {}


def derived(t):
    if t not in _derived:
        _derived[t] = type(t.__name__, (t,), {})      # class OemTable(LibraryTable): pass
    return _derived[t]


_derived_h = {}


def derived_helpers(t):
    if t not in _derived_h:
        _derived_h[t] = type('Oem' + t.__name__, (t,), {'AAA_description': 'manufacturer values', 'aliases': ['a', 'b'], 'byName': {'x': 1}, 'mmm_placeholder': None,
                                                        'scale': 2.0, 'zz_unit': 'ms', '_private_note': b'\x01', 'K_half': 0.5})
    return _derived_h[t]


class IntValue(int):
    """an integer that is not the interpreter's cached small-int object (an enum.IntEnum member behaves the same)"""


_members = None


def redefined(c):
    """class Oem<Table>(<Table>): <k-th constant> = new value"""
    global _members
    if _members is None:
        _members = table_members()
    i, v, k, kind, x, y = c.ints
    name = _members[i][k][0]
    return type('Oem' + _tables[i].__name__, (_tables[i],), {name: x if kind == 0 else (x, y)})


def m_ostr(f):
    try:
        return [0] + enc_opt(enc_str, f())
    except Exception as e:
        return [err_code(e)]


def impl(c):
    try:
        return impl_inner(c)
    except Exception as e:      # no lookup of the library raises for an in-range value; the oracle re-runs it and reports the input
        return [-2, err_code(e)]


def impl_inner(c):
    from udsoncan import DataIdentifier, Routine, Dtc
    from udsoncan.ResponseCode import ResponseCode
    i, v = c.ints[:2]
    if c.entry == 2006:
        return enc_str(redefined(c).get_name(v))
    if len(c.ints) > 2 and c.ints[2] == 3:
        return enc_str(derived(_tables[i]).get_name(v))
    if len(c.ints) > 2 and c.ints[2] == 5:
        return enc_str(derived_helpers(_tables[i]).get_name(v))
    if len(c.ints) > 2 and c.ints[2] == 4:
        v = IntValue(v)
    elif len(c.ints) > 2:
        for t in _tables:
            t.get_name(v)
        for f in (ResponseCode.get_name, DataIdentifier.name_from_id, Routine.name_from_id, Dtc.Format.get_name):
            try:
                f(v)
            except Exception:
                pass
    if c.entry == 2001:
        return enc_str(_tables[i].get_name(v))
    if c.entry == 2002:
        return enc_str(ResponseCode.get_name(v))
    if c.entry == 2003:
        return m_ostr(lambda: DataIdentifier.name_from_id(v))
    if c.entry == 2004:
        return m_ostr(lambda: Routine.name_from_id(v))
    if c.entry == 2005:
        return enc_opt(enc_str, Dtc.Format.get_name(v))


def members(cls):
    ints, ranges = [], []
    for k, x in vars(cls).items():
        if k.startswith('__') and k.endswith('__'):
            continue
        if isinstance(x, int):
            ints.append((k, x))
        elif isinstance(x, tuple):
            ranges.append((k, x))
    return ints, ranges


ISO_DID = [(0x0000, 0x00FF, 'ISOSAEReserved'), (0x0100, 0xEFFF, 'VehicleManufacturerSpecific'),
           (0xF000, 0xF00F, 'NetworkConfigurationDataForTractorTrailerApplicationDataIdentifier'),
           (0xF010, 0xF0FF, 'VehicleManufacturerSpecific'), (0xF100, 0xF17F, 'IdentificationOptionVehicleManufacturerSpecificDataIdentifier'),
           (0xF1A0, 0xF1EF, 'IdentificationOptionVehicleManufacturerSpecific'), (0xF1F0, 0xF1FF, 'IdentificationOptionSystemSupplierSpecific'),
           (0xF200, 0xF2FF, 'PeriodicDataIdentifier'), (0xF300, 0xF3FF, 'DynamicallyDefinedDataIdentifier'), (0xF400, 0xF5FF, 'OBDDataIdentifier'),
           (0xF600, 0xF7FF, 'OBDMonitorDataIdentifier'), (0xF800, 0xF8FF, 'OBDInfoTypeDataIdentifier'), (0xF900, 0xF9FF, 'TachographDataIdentifier'),
           (0xFA00, 0xFA0F, 'AirbagDeploymentDataIdentifier'), (0xFA10, 0xFAFF, 'SafetySystemDataIdentifier'),
           (0xFB00, 0xFCFF, 'ReservedForLegislativeUse'), (0xFD00, 0xFEFF, 'SystemSupplierSpecific'), (0xFF00, 0xFFFF, 'ISOSAEReserved')]
ISO_ROUTINE = [(0x0000, 0x00FF, 'ISOSAEReserved'), (0x0100, 0x01FF, 'TachographTestIds'), (0x0200, 0xDFFF, 'VehicleManufacturerSpecific'),
               (0xE000, 0xE1FF, 'OBDTestIds'), (0xE201, 0xE2FF, 'SafetySystemRoutineIDs'), (0xE300, 0xEFFF, 'ISOSAEReserved'),
               (0xF000, 0xFEFF, 'SystemSupplierSpecific'), (0xFF03, 0xFFFF, 'ISOSAEReserved')]


def oracle(c, r):
    from udsoncan import DataIdentifier, Routine, Dtc
    from udsoncan.ResponseCode import ResponseCode
    i, v = c.ints[:2]
    if len(c.ints) > 2 and c.ints[2] == 4:
        v = IntValue(v)
    if c.entry == 2006:
        # the rule of the property on the derived table's effective constants (a re-defined name has its new value only)
        look = redefined(c)
        eff = {}
        for klass in reversed(look.__mro__):
            for kk, xx in vars(klass).items():
                if not (kk.startswith('__') and kk.endswith('__')) and isinstance(xx, (int, tuple)):
                    eff[kk] = xx
        n = look.get_name(v)
        exact = [kk for kk, xx in eff.items() if isinstance(xx, int) and xx == v]
        inr = [kk for kk, xx in eff.items() if isinstance(xx, tuple) and xx[0] <= v <= xx[1]]
        custom = 'Custom %s' % getattr(look, '__pretty_name__', look.__name__)
        if not ((n in exact + inr) if (exact or inr) else n == custom):
            return ('subfn-name-derived', '%s.get_name(%#x) = %r in a table that re-defines %s: constants with that value %r, ranges containing it %r' % (
                look.__qualname__, v, n, _members[i][c.ints[2]][0], exact, inr))
        return None
    if c.entry == 2001:
        if not (0 <= v <= 255):
            return None
        cls = _tables[i]
        look = derived(cls) if len(c.ints) > 2 and c.ints[2] == 3 else (derived_helpers(cls) if len(c.ints) > 2 and c.ints[2] == 5 else cls)
        try:
            n = look.get_name(v)
        except Exception as e:
            return ('subfn-raises', '%s.get_name(%d) raised %s' % (look.__qualname__, v, type(e).__name__))
        ints, ranges = members(cls)
        exact = [k for k, x in ints if x == v]
        inr = [k for k, (lo, hi) in ranges if lo <= v <= hi]
        custom = 'Custom %s' % getattr(look, '__pretty_name__', look.__name__)
        ok = (n in exact) if exact else ((n in inr) if inr else n == custom)
        if not ok:
            return ('subfn-name', '%s.get_name(%#x) = %r; constants with that value: %r, ranges containing it: %r' % (cls.__qualname__, v, n, exact, inr))
        return None
    if c.entry == 2002:
        n = ResponseCode.get_name(v)
        exact = [k for k, x in vars(ResponseCode).items() if isinstance(x, int) and not k.startswith('__') and x == v]
        if (n not in exact) if exact else (n != str(v)):
            return ('nrc-name', 'ResponseCode.get_name(%#x) = %r, constants with that value %r' % (v, n, exact))
        return None
    if c.entry in (2003, 2004):
        if not (0 <= v <= 0xFFFF):
            return None
        cls, iso, suffix = (DataIdentifier, ISO_DID, 'DataIdentifier') if c.entry == 2003 else (Routine, ISO_ROUTINE, '')
        try:
            n = cls.name_from_id(v)
        except Exception as e:
            return ('id-raises', '%s.name_from_id(%#x) raised %s' % (cls.__name__, v, type(e).__name__))
        exact = [k for k, x in vars(cls).items() if isinstance(x, int) and not k.startswith('__') and x == v]
        if exact:
            ok = any(n == k or n == k + suffix for k in exact)
        else:
            cat = [nm for lo, hi, nm in iso if lo <= v <= hi]
            ok = bool(cat) and n == cat[0]
        if not ok:
            return ('id-name', '%s.name_from_id(%#x) = %r' % (cls.__name__, v, n))
        return None
    if c.entry == 2005:
        if not (0 <= v <= 255):
            return None
        n = Dtc.Format.get_name(v)
        exact = [k for k, x in vars(Dtc.Format).items() if isinstance(x, int) and not k.startswith('__') and x == v]
        if (n not in exact) if exact else (n is not None):
            return ('dtc-format-name', 'Dtc.Format.get_name(%d) = %r' % (v, n))
    return None


def nontrivial(c, r):
    v = c.ints[1]
    return 0 <= v <= (65535 if c.entry in (2003, 2004) else 255)


def describe(c):
    t = table_ids()
    return {2006: 'derived table re-defining constant %d' % (c.ints[2] if len(c.ints) > 2 else -1), 2001: 'BaseSubfunction table %s.get_name(v)' % ('.'.join(t[c.ints[0]]) if c.ints[0] < len(t) else '?'), 2002: 'ResponseCode.get_name(v)',
            2003: 'DataIdentifier.name_from_id(v)', 2004: 'Routine.name_from_id(v)', 2005: 'Dtc.Format.get_name(v)'}[c.entry] + ' v=%#x' % c.ints[1]
