"""Boundary-complete argument variation for every modelled entry point.  For each invocation template of the
registry, every parameter is varied one at a time over the boundary values of its kind (and a few pairs that
interact: widths x values, edition x feature), giving (cfg vector, args, blobs) triples."""
import random
from harness import clientlib as cl

U7 = [-1, 0, 1, 2, 5, 0x40, 0x7E, 0x7F, 0x80, 0xFF, 0x100]
U8 = [-1, 0, 1, 0x7F, 0x80, 0xEF, 0xF0, 0xFE, 0xFF, 0x100, 0x1FF]
U16 = [-1, 0, 1, 0xFF, 0x100, 0x7FFF, 0x8000, 0xFFFF, 0x10000, 0x1234, 0x1FFFF]
U24 = [-1, 0, 1, 0xFFFF, 0x10000, 0x7FFFFF, 0x800000, 0xFFFFFF, 0x1000000, 0x010203]
U64 = sorted(set([-1, 0, 1, 2, (1 << 63) - 1, 1 << 63, (1 << 64) - 1, 1 << 64, 0x0102030405060708] +
                 [(1 << (8 * k)) - 1 for k in range(1, 9)] + [1 << (8 * k) for k in range(1, 9)]))
FMT = [None, 8, 16, 24, 32, 40, 48, 56, 64, 0, 12, 72, -8]
NIB = [-1, 0, 1, 7, 15, 16]
BOOL = [0, 1]


def setopt(args, i, v):
    a = list(args)
    a[i], a[i + 1] = (0, 0) if v is None else (1, v)
    return a


def setv(args, i, v):
    a = list(args)
    a[i] = v
    return a


# per call id: list of (kind, index) ; kinds: value lists or ('opt', list)
SLOTS = {
    2: [(U7, 0)], 3: [(U7, 0)], 4: [(U7, 0)], 5: [(U7, 0)], 7: [(U7, 0)],
    8: [(U24, 0), (('opt', U8), 1)],
    9: [(U16, 0), (U7, 1), (BOOL, 2)],
    10: [(U7, 0), (BOOL, 1)],
    11: [(U7, 0), (U8 + [0x101, 0x203], 2), (BOOL, 3), (BOOL, 4), (('opt', U16), 5)],
    13: [(U8, 0), (BOOL, 1)],
    14: [(BOOL, 0)],
    15: [(U7, 0), (BOOL, 1), ([0, 1, 5, 6, 0x13, 0x14, 0xFF, 0x100, 9600, 9601, 250000, 1000000, 0xFFFFFF, 0x1000000, -1], 2), ([0, 1, 2, 3, 4], 3)],
    16: [(U7, 0), (BOOL, 1)],
    17: [(U64, 0), (U64, 1), (('opt', FMT[1:]), 2), (('opt', FMT[1:]), 4)],
    18: [(U64, 0), (U64, 1), (('opt', FMT[1:]), 2), (('opt', FMT[1:]), 4)],
    19: [(BOOL, 0), (U64, 1), (U64, 2), (('opt', FMT[1:]), 3), (('opt', FMT[1:]), 5), (BOOL, 7), (NIB, 8), (NIB, 9)],
    21: [(('opt', U16), 0)],
    25: [(U16 + [0xF190, 0x0102, 0x0304, 0xFFFF], 0)],
    27: [([0, 1, 2, 3, 4, 5, 6, 7, -1, 0xFF], 0), (BOOL, 1), (NIB, 2), (NIB, 3), ([0, 1, 2], 4), (U64, 5),
         (('opt', U64), 6), (('opt', U64), 8), (('opt', [0, 1, 2, 7, 8, 9, -1]), 10)],
    28: [([-1, 0, 1, 2, 3, 4, 5, 6, 7, 8, 9, 0x7F], 0), (('opt', U8), 1), (('opt', U16), 3)] + [(BOOL, i) for i in range(5, 12)],
    29: [(list(range(0, 0x20)) + [0x42, 0x43, 0x55, 0x56, 0x7F, 0x80, 0xFF, 0x100, -1], 0), (('opt', U8), 1), (('opt', U8), 3), (BOOL, 5),
         (('opt', U8), 6), (('opt', U24), 8), (('opt', U8), 10), (('opt', U8), 12), (('opt', U8), 14), (('opt', U8), 16),
         (('opt', [-1, 0, 1, 5, 0xFFF, 0x1000]), 18)],
}


def variants(inv, rnd, tier):
    """yields (cfg overrides dict, args, blobs, tag)"""
    yield {}, list(inv.args), list(inv.blobs), 'template'
    slots = SLOTS.get(inv.callid, [])
    for kind, idx in slots:
        if isinstance(kind, tuple):
            for v in [None] + list(kind[1]):
                yield {}, setopt(inv.args, idx, v), list(inv.blobs), 'slot%d' % idx
        else:
            for v in kind:
                yield {}, setv(inv.args, idx, v), list(inv.blobs), 'slot%d' % idx
    # edition x feature
    for std in (2006, 2013, 2020):
        yield {cl.STD: std}, list(inv.args), list(inv.blobs), 'edition'
        if inv.callid == 29:
            for sub in list(range(0, 0x20)) + [0x42, 0x55, 0x56]:
                yield {cl.STD: std}, setv(inv.args, 0, sub), list(inv.blobs), 'edition x subfunction'
        if inv.callid == 11:
            for ct in (0, 3, 4, 5, 6):
                for node in (None, 0x0102):
                    yield {cl.STD: std}, setopt(setv(inv.args, 0, ct), 5, node), list(inv.blobs), 'edition x node id'
        if inv.callid == 11:
            # the communication type given as a bytes object (the third documented form): any length
            for ct in (0, 3, 4):
                for raw in (b'', b'\x01', b'\x03', b'\x00', b'\xf3', b'\xff', b'\x01\x02', b'\xf3\x01\x02\x03', bytes(5)):
                    for node in (None, 0x1234):
                        yield {cl.STD: std}, setopt(setv(setv(inv.args, 0, ct), 1, 2), 5, node), [raw], 'communication type as bytes'
        if inv.callid == 8:
            for ms in (None, 0, 0xFF):
                yield {cl.STD: std}, setopt(inv.args, 1, ms), list(inv.blobs), 'edition x memory selection'
    # memory services: configured widths x explicit widths x values
    if inv.callid in (17, 18, 19):
        off = 1 if inv.callid == 19 else 0
        vals = [0, 1, 0xFF, 0x100, 0xFFFF, 0x10000, 0xFFFFFFFF, 1 << 32, (1 << 40) - 1, 1 << 40, (1 << 63) - 1, 1 << 63, (1 << 64) - 1]
        fm = [None, 8, 16, 24, 32, 40, 48, 56, 64]
        grid = [(ca, cs, ea, es) for ca in fm for cs in fm for ea in fm for es in fm]
        if tier == 'quick':
            grid = [g for g in grid if sum(1 for x in g if x is not None) <= 2] + rnd.sample(grid, 600)
        for ca, cs, ea, es in grid:
            a = rnd.choice(vals)
            s = rnd.choice(vals)
            args = setv(setv(inv.args, off, a), off + 1, s)
            args = setopt(setopt(args, off + 2, ea), off + 4, es)
            blobs = list(inv.blobs)
            if inv.callid == 18:
                blobs = [bytes(range(min(s, 5)))]
            yield {cl.SRV_ADDR: -1 if ca is None else ca, cl.SRV_SIZE: -1 if cs is None else cs}, args, blobs, 'width grid'
    # data strings
    if inv.blobs and inv.callid not in (27,):
        for i in range(len(inv.blobs)):
            for d in (b'', b'\x00', b'\xff' * 2, bytes(range(255)), bytes(rnd.randrange(256) for _ in range(rnd.choice([3, 17, 256, 4093])))):
                bl = list(inv.blobs)
                bl[i] = d
                yield {}, list(inv.args), bl, 'data string'
    if inv.callid == 27:
        for path in (b'', b'a', b'a' * 255, b'a' * 256, b'a' * 65535, b'a' * 65536, b'\xe9t\xe9', b'/x/\x7f', b'\x80'):
            yield {}, list(inv.args), [path], 'path'
        for fsz in [0, 1, 255, 256, (1 << 56) - 1, 1 << 56, (1 << 63), (1 << 64) - 1, 1 << 64] + [(1 << (8 * k)) for k in range(1, 8)]:
            yield {}, setv(setv(inv.args, 4, 1), 5, fsz), list(inv.blobs), 'filesize int'
            for w in (None, 1, 2, 4, 7, 8, 9):
                a = setv(inv.args, 4, 2)
                a = setopt(setopt(setopt(a, 6, fsz), 8, fsz // 2), 10, w)
                yield {}, a, list(inv.blobs), 'filesize object'
    if inv.callid in (22, 23, 24):
        for l in ([], [0xF190], [0x0102, 0xF190, 0x1234], [0x1234, 0xFFFF], [0xFFFF, 0x1234], [0xFFFF, 0xFFFF], [0x0001], [0x10000], [-1], [0xF190, 0x10000],
                  [0xF190, 0xF190], [0x0304], [0x0304, 0x0102], [rnd.randrange(0x10000) for _ in range(5)]):
            yield {}, [len(l)] + l, list(inv.blobs), 'did list'
        # other DID tables: a codec that reads all the remaining data on DID 0x0000 / on a middle DID, a 'default' entry, a lone entry
        for table in ([(0x0000, -1), (0x0001, 1), (0x0002, 2)], [(0x0001, 1), (0x0000, -1)], [(0x0000, -1), (-1, 1)], [(0x0000, 2), (0x8000, -1), (-1, -1)],
                      [(-1, 2)], [(0x0000, 0)]):
            for l in ([0], [0, 1], [1, 0], [1, 0, 1], [0, 0], [2, 0], [0, 2, 1], [0x8000, 0], [0, 0x8000], [5, 0], [0, 5], [5, 6]):
                yield {'dids': table}, [len(l)] + l, list(inv.blobs), 'did list x did table'
    if inv.callid == 20:
        from harness.callreg_ext import a_define_bydid, a_define_bymem
        for did in U16:
            for ent in ([(0x1234, 1, 2)], [], [(0x1234, 0, 0), (0xFFFF, 255, 255)], [(0x10000, 1, 1)], [(1, 256, 1)], [(1, 1, 256)], [(-1, 1, 1)], [(1, -1, 1)]):
                yield {}, a_define_bydid(did, ent), [], 'define by did'
        for ent in ([(0x1122, 4, 16, 8)], [(0x1122, 4, None, None)], [(0x1122, 4, 16, 8), (0x3344, 8, 16, 16)], [(0x112233, 4, 16, 8)],
                    [(0, 0, None, None)], [(0x1122, 4, None, None), (0x112233, 4, None, None)], [((1 << 64) - 1, (1 << 64) - 1, None, None)],
                    [(1 << 64, 1, None, None)],
                    # entries whose automatic widths differ in the size only / in the address only / in one explicit format only
                    [(0x1122, 4, None, None), (0x1123, 0x120, None, None)], [(0x1122, 0xFF, None, None), (0x1133, 0x100, None, None)],
                    [(0x1122, 4, 16, None), (0x1123, 0x120, 16, None)], [(0x12, 4, None, 8), (0x1234, 4, None, 8)],
                    [(0x1122, 4, None, None), (0x1123, 5, None, None), (0x1124, 0x10000, None, None)],
                    [(0x1122, 4, None, 8), (0x1123, 5, None, None)], [(0x1122, 4, 16, None), (0x1123, 5, None, None)]):
            for ca, cs in ((None, None), (16, None), (32, None), (None, 16), (32, 16), (16, 8)):
                yield {cl.SRV_ADDR: -1 if ca is None else ca, cl.SRV_SIZE: -1 if cs is None else cs}, a_define_bymem(0xF301, ent), [], 'define by memory'
        # one deviating entry at every position of a 2..5-entry definition (every entry must agree with the announced format, not
        # only the first and the last), and two deviating entries
        base = (0x1122, 4, None, None)
        for dev in ((0x112233, 4, None, None), (0x1123, 0x120, None, None), (0x1123, 5, 24, None), (0x1123, 5, None, 16), (0x1123, 5, 16, 8)):
            for n in (2, 3, 4, 5):
                for pos in range(n):
                    for pos2 in (None, (pos + 2) % n):
                        ent = [dev if i in (pos, pos2) else (base[0] + i, base[1], None, None) for i in range(n)]
                        for ca, cs in ((None, None), (16, None), (None, 8)):
                            yield ({cl.SRV_ADDR: -1 if ca is None else ca, cl.SRV_SIZE: -1 if cs is None else cs}, a_define_bymem(0xF301, ent), [],
                                   'define by memory')
    if inv.callid == 15 and inv.args[0] == 1:
        # control type x presence x rate x how the caller typed the Baudrate: the full product (conversions between the
        # fixed / specific / identifier forms depend on all of them at once)
        rates = [0, 1, 2, 3, 4, 5, 6, 0x0F, 0x10, 0x11, 0x12, 0x13, 0x14, 0xFF, 0x100, 9600, 9601, 19200, 38400, 57600, 115200, 125000,
                 250000, 500000, 1000000, 0xFFFF, 0x10000, 0xFFFFFF, 0x1000000, 0x1000000 + 250000, 1 << 40]
        for ct in (0, 1, 2, 3, 0x7F):
            for ty in (0, 1, 2, 3, 4):
                for rate in rates:
                    yield {}, [ct, 1, rate, ty], [], 'baudrate grid'
    if inv.callid == 26:
        from harness.callreg_ext import a_io
        for did in (0x0177, 0x0178):
            for masks in ([(0, True), (2, True)], [(0, True), (1, True), (2, True)], [(2, True), (4, True), (3, True)], [(0, True), (2, False)],
                          [(0, True), (1, True)], [(1, True), (2, True)], [(0, True), (0, True)], [(4, True), (0, True), (1, True)]):
                a, b = a_io(did, 3, b'\x11\x22', masks)
                yield {}, a, b, 'io overlapping masks'
        for did in (0x0132, 0x0456, 0x0155, 0x0999, 0x10000, -1):
            for cp in (None, -1, 0, 3, 4):
                for values in (None, b'\x11\x22', b'\x11', b''):
                    for masks in (None, True, False, [(0, True)], [(0, True), (1, False), (2, True)], [(1, True)], [(5, True)], [],
                                  [(5, False)], [(0, True), (5, False)], [(5, False), (1, True)], [(0, False), (6, False)]):     # names the table does not define, given as cleared
                        a, b = a_io(did, cp, values, masks)
                        yield {}, a, b, 'io arguments'
    if inv.callid == 28:
        from harness.callreg_ext import a_auth
        for task in range(0, 9):
            for algo in (None, bytes(16), bytes(15), bytes(17)):
                for big in (None, b'', b'\x01', bytes(65535), bytes(65536)):
                    a, b = a_auth(task, cfg=1, evalid=2, cert=big, chal=b'\x02', algo=algo, certdata=big, pown=big, eph=None, add=b'\x03')
                    yield {}, a, b, 'auth arguments'


def build(inv, cfgo, args, blobs, replies=()):
    cfgv = list(cl.DEFAULT_CFG)
    for s, v in inv.cfg.items():
        cfgv[s] = v
    for s, v in cfgo.items():
        if isinstance(s, int):
            cfgv[s] = v
    return cl.H(cfgv, dids=cfgo.get('dids')).call(inv.callid, args, blobs, list(replies))
