#!/bin/sh
# usage: tools/seedtest.sh <Cxx> <worktree> [name]   -- confirm a seeded change in its scratch worktree, then try it against ./check
# 1. test suite with the change; 2. demo fails with / passes without; 3. apply to /repo, run the check, undo.
set -u
ID=$1; WT=$2; NAME=${3:-$ID}
REPO=${VERIF_REPO:-/repo}      # a scratch copy of the repository may be named (vp run --with-repo: VERIF_REPO=$VP_RUN_REPO)
export VERIF_REPO="$REPO"
VROOT=$(cd "$(dirname "$0")/.." && pwd)
OUT=$VROOT/seeded/$NAME
mkdir -p "$OUT"
cp "$WT"/SEEDED/patch.diff "$WT"/SEEDED/demo.py "$WT"/SEEDED/meta.json "$OUT"/ 2>/dev/null
cd "$WT" || exit 2
# regenerate the patch from the worktree itself (source of truth), excluding SEEDED
git diff -- . ':!SEEDED' > "$OUT/patch.diff"
echo "== suite with change"
SUITE=$(PYTHONPATH=$WT /venv/bin/python -m pytest -q -p no:cacheprovider -x 2>&1 | tail -1)
echo "$SUITE"
echo "== demo with change"
PYTHONPATH=$WT PYTHONDONTWRITEBYTECODE=1 timeout 300 /venv/bin/python SEEDED/demo.py > "$OUT/demo_with.txt" 2>&1; DW=$?
tail -3 "$OUT/demo_with.txt"; echo "exit=$DW"
git apply -R "$OUT/patch.diff" || { echo "cannot reverse"; exit 2; }
echo "== demo without change"
PYTHONPATH=$WT PYTHONDONTWRITEBYTECODE=1 timeout 300 /venv/bin/python SEEDED/demo.py > "$OUT/demo_without.txt" 2>&1; DO=$?
tail -2 "$OUT/demo_without.txt"; echo "exit=$DO"
git apply "$OUT/patch.diff"
echo "== check on /repo with change"
if [ -n "$(git -C "$REPO" status --porcelain)" ]; then echo "$REPO not clean"; exit 2; fi
git -C "$REPO" apply "$OUT/patch.diff" || { echo "patch does not apply"; exit 2; }
cd "$VROOT"
timeout 3000 ./check "$ID" > "$OUT/check_output.txt" 2>&1; CK=$?
git -C "$REPO" checkout -- .
grep -h "VIOLATION\|KNOWN-FINDING" "$OUT/check_output.txt" | head -5; echo "check exit=$CK"
git checkout -- evidence 2>/dev/null
printf '{"suite":"%s","demo_with_exit":%s,"demo_without_exit":%s,"check":"./check %s","check_exit":%s}\n' "$SUITE" "$DW" "$DO" "$ID" "$CK" > "$OUT/ran.json"
