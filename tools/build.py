#!/usr/bin/env python3
"""Build step shared by setup and every check: translator -> coq (full .vo build) -> extraction -> OCaml driver.
Everything under an exclusive flock; every external command under a shell timeout.
Writes _build/status.json:
  {translator: {ok, message}, coq: {ok, failed: [file.v...], log}, driver: {ok, message}, deps: {file: [deps]}}
CLI:  build.py [all|quick]     ('all' additionally runs the hygiene grep and coqchk once)
"""
import fcntl
import glob
import json
import os
import re
import subprocess
import sys
import time

ROOT = os.path.dirname(os.path.dirname(os.path.abspath(__file__)))
COQ = os.path.join(ROOT, 'coq')
BUILD = os.path.join(ROOT, '_build')
REPO = os.environ.get('VERIF_REPO', '/repo')
DIRS = ['Lib', 'Gen', 'Spec', 'Model', 'Proofs', 'Props']
JOBS = os.environ.get('VERIF_JOBS', '16')


def sh(cmd, cwd=None, timeout=1800):
    try:
        p = subprocess.run(cmd, cwd=cwd, shell=isinstance(cmd, str), stdout=subprocess.PIPE, stderr=subprocess.STDOUT,
                           timeout=timeout, text=True, errors='replace')
        return p.returncode, p.stdout
    except subprocess.TimeoutExpired as e:
        out = e.stdout or ''
        if isinstance(out, bytes):
            out = out.decode(errors='replace')
        return 124, out + '\nTIMEOUT after %ds: %s' % (timeout, cmd)


def vfiles():
    out = []
    for d in DIRS:
        out += sorted(glob.glob(os.path.join(COQ, d, '*.v')))
    return [os.path.relpath(f, COQ) for f in out]


def hygiene():
    """no Admitted / admit / Axiom / Parameter / Conjecture / guard switches anywhere in the development"""
    bad = []
    pat = re.compile(r'\b(Admitted|admit|Axiom|Axioms|Parameter|Parameters|Conjecture|Hypothesis|Variable|Variables|'
                     r'Unset\s+Guard|bypass_check|Admit\s+Obligations|type-in-type|impredicative-set)\b')
    for f in vfiles() + ['Extract/Extract.v']:
        in_section = 0
        txt = open(os.path.join(COQ, f)).read()
        txt = re.sub(r'\(\*.*?\*\)', '', txt, flags=re.S)
        for ln, line in enumerate(txt.split('\n'), 1):
            if re.match(r'\s*Section\b', line):
                in_section += 1
            if re.match(r'\s*End\b', line) and in_section:
                in_section -= 1
            m = pat.search(line)
            if m:
                if m.group(1) in ('Variable', 'Variables', 'Hypothesis') and in_section:
                    continue
                bad.append('%s:%d: %s' % (f, ln, line.strip()))
    return bad


def build(mode='quick'):
    os.makedirs(BUILD, exist_ok=True)
    lock = open(os.path.join(BUILD, '.lock'), 'w')
    fcntl.flock(lock, fcntl.LOCK_EX)
    t0 = time.time()
    st = {'translator': {'ok': True, 'message': ''}, 'coq': {'ok': True, 'failed': [], 'log': ''},
          'driver': {'ok': True, 'message': ''}, 'hygiene': [], 'deps': {}}
    try:
        # 1. translator
        rc, out = sh([sys.executable, os.path.join(ROOT, 'tools', 'translate.py'), REPO, os.path.join(COQ, 'Gen')], timeout=120)
        if rc != 0:
            st['translator'] = {'ok': False, 'message': out.strip()[-2000:]}
        try:
            tstat = json.load(open(os.path.join(COQ, 'Gen', 'translate_status.json')))
        except Exception:
            tstat = {'failed': {}, 'owners': {}}
        st['translator']['failed'] = tstat.get('failed', {})       # tables that could not be read this run (the last good copy is used)
        st['translator']['owners'] = tstat.get('owners', {})
        # 1b. function translator: executes the selected functions of the repository on symbolic arguments and prints their decision trees
        # (Gen/Fn_*.v).  A function it refuses becomes an ill-typed definition there, so only the theorems depending on it fail.
        env = dict(os.environ, PYTHONPATH=REPO, PYTHONHASHSEED='0', PYTHONDONTWRITEBYTECODE='1')
        try:
            p = subprocess.run(['/venv/bin/python', os.path.join(ROOT, 'tools', 'symtrans.py'), REPO, os.path.join(COQ, 'Gen')], env=env,
                               stdout=subprocess.PIPE, stderr=subprocess.STDOUT, timeout=600, text=True, errors='replace')
            rc, out = p.returncode, p.stdout
        except subprocess.TimeoutExpired:
            rc, out = 124, 'symtrans.py: timeout'
        st['symtrans'] = {'ok': rc == 0, 'report': [l for l in out.split('\n') if l.startswith('symtrans:')], 'message': '' if rc == 0 else out.strip()[-1500:]}
        if rc != 0 and st['translator']['ok']:
            st['translator'] = {'ok': False, 'message': 'symtrans.py failed: ' + out.strip()[-1500:]}
        # 2. coq
        files = vfiles()
        proj = '-Q . UDS\n-arg -w -arg -notation-overridden,-deprecated-hint-without-locality,-deprecated-instance-without-locality\n' + '\n'.join(files) + '\n'
        pp = os.path.join(COQ, '_CoqProject')
        if not os.path.exists(pp) or open(pp).read() != proj or not os.path.exists(os.path.join(COQ, 'Makefile')):
            open(pp, 'w').write(proj)
            rc, out = sh('coq_makefile -f _CoqProject -o Makefile', cwd=COQ, timeout=120)
            if rc != 0:
                st['coq'] = {'ok': False, 'failed': ['_CoqProject'], 'log': out[-3000:]}
        rc, out = sh('timeout 3000 make -k -j%s 2>&1' % JOBS, cwd=COQ, timeout=3100)
        failed = sorted(set(re.findall(r'\*\*\* \[[^\]]*?([A-Za-z0-9_/]+)\.vo\] Error', out)))
        failed = [f + '.v' for f in failed]
        if rc != 0 or failed:
            st['coq'] = {'ok': False, 'failed': failed or ['<make>'], 'log': out[-6000:]}
        # dependency graph (for per-property closures)
        rc2, dout = sh('coqdep -Q . UDS ' + ' '.join(files), cwd=COQ, timeout=120)
        deps = {}
        for line in dout.split('\n'):
            m = re.match(r'^(\S+)\.vo\b[^:]*:\s*(.*)$', line)
            if m:
                deps[m.group(1) + '.v'] = sorted(set(d[:-3] + '.v' for d in m.group(2).split() if d.endswith('.vo') and not d.startswith('/')))
        st['deps'] = deps
        # 3. extraction + driver (needs Model/Dispatch.vo)
        disp = os.path.join(COQ, 'Model', 'Dispatch.vo')
        drv = os.path.join(BUILD, 'driver')
        if not os.path.exists(disp):
            st['driver'] = {'ok': False, 'message': 'Model/Dispatch.vo was not built'}
        else:
            srcs = [disp, os.path.join(COQ, 'Extract', 'Extract.v'), os.path.join(COQ, 'Extract', 'driver.ml')]
            if not os.path.exists(drv) or any(os.path.getmtime(s) > os.path.getmtime(drv) for s in srcs):
                ex = os.path.join(BUILD, 'extract')
                os.makedirs(ex, exist_ok=True)
                rc, out = sh('cp %s/Extract/Extract.v %s/Extract/driver.ml . && timeout 600 coqc -Q %s UDS Extract.v && '
                             'timeout 600 ocamlfind ocamlopt -O3 -w -a model.mli model.ml driver.ml -o driver.tmp 2>&1 || '
                             'timeout 600 ocamlfind ocamlopt -w -a model.mli model.ml driver.ml -o driver.tmp' % (COQ, COQ, COQ),
                             cwd=ex, timeout=1300)
                if rc != 0 or not os.path.exists(os.path.join(ex, 'driver.tmp')):
                    st['driver'] = {'ok': False, 'message': out[-3000:]}
                else:
                    os.replace(os.path.join(ex, 'driver.tmp'), drv)
        st['hygiene'] = hygiene()
        if mode == 'all':
            vos = [f[:-2] + '.vo' for f in files if f.startswith('Props/') and os.path.exists(os.path.join(COQ, f[:-2] + '.vo'))]
            if vos:
                rc, out = sh('timeout 3000 coqchk -silent -o -Q . UDS ' + ' '.join(vos) + ' 2>&1', cwd=COQ, timeout=3100)
                open(os.path.join(BUILD, 'coqchk.txt'), 'w').write('exit=%d\n%s' % (rc, out[-20000:]))
                st['coqchk'] = {'ok': rc == 0, 'tail': out[-1500:]}
        st['wall_s'] = round(time.time() - t0, 2)
        tmp = os.path.join(BUILD, 'status.json.tmp%d' % os.getpid())
        json.dump(st, open(tmp, 'w'), indent=1)
        os.replace(tmp, os.path.join(BUILD, 'status.json'))
    finally:
        fcntl.flock(lock, fcntl.LOCK_UN)
        lock.close()
    return st


def closure(deps, f):
    seen, todo = set(), [f]
    while todo:
        x = todo.pop()
        if x in seen:
            continue
        seen.add(x)
        todo += deps.get(x, [])
    return seen


if __name__ == '__main__':
    mode = sys.argv[1] if len(sys.argv) > 1 else 'quick'
    st = build(mode)
    ok = st['translator']['ok'] and st['coq']['ok'] and st['driver']['ok'] and not st['hygiene']
    print('build: translator=%s coq=%s driver=%s hygiene=%d wall=%ss' % (
        st['translator']['ok'], st['coq']['ok'], st['driver']['ok'], len(st['hygiene']), st.get('wall_s')))
    if not ok:
        print(st['translator']['message'])
        print(st['coq']['log'][-3000:])
        print(st['driver']['message'])
        print('\n'.join(st['hygiene']))
    if 'coqchk' in st:
        print('coqchk ok=%s' % st['coqchk']['ok'])
    sys.exit(0 if ok else 1)
