(* Finite sweeps evaluated by the kernel and lifted to a forall. *)
From Coq Require Import ZArith Zmisc List Bool Lia.
Import ListNotations.
Open Scope Z_scope.

Definition sweep_step (f : Z -> bool) : Z * bool -> Z * bool :=
  fun '(i, acc) => (i + 1, acc && f i).

Definition all_below (f : Z -> bool) (n : Z) : bool :=
  snd (Z.iter n (sweep_step f) (0, true)).

Lemma iter_nat_inv (f : Z -> bool) (k : nat) :
  nat_rect (fun _ => (Z * bool)%type) (0, true) (fun _ => sweep_step f) k =
  (Z.of_nat k, forallb f (map Z.of_nat (seq 0 k))).
Proof.
  induction k as [|k IH]; [reflexivity|].
  cbn [nat_rect]. rewrite IH. unfold sweep_step.
  rewrite seq_S, map_app, forallb_app. cbn [map forallb Nat.add].
  rewrite andb_true_r. f_equal. lia.
Qed.

Lemma iter_inv f n : 0 <= n ->
  Z.iter n (sweep_step f) (0, true) =
  (n, forallb f (map Z.of_nat (seq 0 (Z.to_nat n)))).
Proof.
  intros Hn. rewrite iter_nat_of_Z by lia. rewrite Zabs2Nat.abs_nat_nonneg by lia.
  unfold Nat.iter. rewrite iter_nat_inv. rewrite Z2Nat.id by lia. reflexivity.
Qed.

Lemma all_below_spec f n :
  0 <= n -> all_below f n = true -> forall i, 0 <= i < n -> f i = true.
Proof.
  intros Hn H i Hi. unfold all_below in H. rewrite iter_inv in H by lia.
  cbn [snd] in H. rewrite forallb_forall in H. apply H.
  apply in_map_iff. exists (Z.to_nat i). split; [lia|]. apply in_seq. lia.
Qed.

(* two-dimensional sweep *)
Definition all_below2 (f : Z -> Z -> bool) (n m : Z) : bool :=
  all_below (fun i => all_below (f i) m) n.

Lemma all_below2_spec f n m :
  0 <= n -> 0 <= m -> all_below2 f n m = true ->
  forall i j, 0 <= i < n -> 0 <= j < m -> f i j = true.
Proof.
  intros Hn Hm H i j Hi Hj. unfold all_below2 in H.
  pose proof (all_below_spec _ n Hn H i Hi) as H1. cbv beta in H1.
  exact (all_below_spec _ m Hm H1 j Hj).
Qed.
