(* Error monad: Python exceptions as values.  Documented outcomes of the library and the
   internal errors property C04 says must never escape. *)
From Coq Require Import ZArith List Bool.
Import ListNotations.
Open Scope Z_scope.

Inductive err :=
  (* documented *)
  | EValue | EConfig | ENotImpl | ETimeout | ENegative | EInvalid | EUnexpected | ERuntime
  (* internal: must never reach the caller *)
  | EIndex | EStruct | EAttr | EType | EOverflow | EAssert | EKey | EOutOfFuel.

Definition err_code (e : err) : Z :=
  match e with
  | EValue => 1 | EConfig => 2 | ENotImpl => 3 | ETimeout => 4 | ENegative => 5
  | EInvalid => 6 | EUnexpected => 7 | ERuntime => 8
  | EIndex => 20 | EStruct => 21 | EAttr => 22 | EType => 23 | EOverflow => 24
  | EAssert => 25 | EKey => 26 | EOutOfFuel => 27
  end.

Definition err_internal (e : err) : bool := 20 <=? err_code e.

Definition M (A : Type) := (err + A)%type.
Definition ret {A} (a : A) : M A := inr a.
Definition fail {A} (e : err) : M A := inl e.
Definition bind {A B} (m : M A) (f : A -> M B) : M B :=
  match m with inl e => inl e | inr a => f a end.
Notation "x <- m ;; k" := (bind m (fun x => k)) (at level 61, m at next level, right associativity).
Notation "' p <- m ;; k" := (bind m (fun p => k)) (at level 61, p pattern, m at next level, right associativity).
Definition guard (b : bool) (e : err) : M unit := if b then ret tt else fail e.

(* canonical integer rendering used by the correspondence driver *)
Definition enc_bool (b : bool) : Z := if b then 1 else 0.
Definition enc_bytes (l : list Z) : list Z := Z.of_nat (length l) :: l.
Definition enc_opt {A} (f : A -> list Z) (o : option A) : list Z :=
  match o with None => [0] | Some a => 1 :: f a end.
Definition enc_list {A} (f : A -> list Z) (l : list A) : list Z :=
  Z.of_nat (length l) :: flat_map f l.
Definition enc_M {A} (f : A -> list Z) (m : M A) : list Z :=
  match m with inl e => [err_code e] | inr a => 0 :: f a end.
