(* Big-endian unsigned integers over byte lists; bytes are Z in 0..255. *)
From Coq Require Import ZArith List Bool Lia.
Import ListNotations.
Open Scope Z_scope.

Definition bytes := list Z.

Definition is_byte (b : Z) : bool := (0 <=? b) && (b <? 256).
Definition wf_bytes (l : bytes) : Prop := Forall (fun b => 0 <= b < 256) l.
Definition wf_bytesb (l : bytes) : bool := forallb is_byte l.

(* n-byte big-endian encoding of v (truncating: callers guard the range) *)
Fixpoint be_enc (n : nat) (v : Z) : bytes :=
  match n with
  | O => []
  | S k => be_enc k (v / 256) ++ [v mod 256]
  end.

Fixpoint be_dec_acc (acc : Z) (l : bytes) : Z :=
  match l with
  | [] => acc
  | b :: tl => be_dec_acc (acc * 256 + b) tl
  end.
Definition be_dec (l : bytes) : Z := be_dec_acc 0 l.

Definition zeros (n : nat) : bytes := repeat 0 n.
Definition all_zero (l : bytes) : bool := forallb (Z.eqb 0) l.

(* number of bytes needed to hold v >= 0 (0 for 0) *)
Definition byte_len (v : Z) : Z := if v <=? 0 then 0 else (Z.log2 v + 8) / 8.
