(* Python list/bytes primitives with Python's failure behaviour. *)
From Coq Require Import ZArith List Bool Lia.
From UDS Require Import Lib.Bytes Lib.ErrM.
Import ListNotations.
Open Scope Z_scope.

(* data[i] for i >= 0: IndexError when out of range *)
Definition byte_at (l : bytes) (i : nat) : M Z :=
  match nth_error l i with Some b => ret b | None => fail EIndex end.

(* data[a:b] with 0 <= a: clamps, never fails *)
Definition slice (l : bytes) (a b : nat) : bytes := firstn (b - a) (skipn a l).
(* data[a:] *)
Definition slice_from (l : bytes) (a : nat) : bytes := skipn a l.
(* data[-n:] : the last n items, everything when n >= len; note data[-0:] is everything *)
Definition last_n (l : bytes) (n : nat) : bytes :=
  match n with O => l | _ => skipn (length l - n) l end.

(* struct.unpack('>B'/'>H'/'>L'/'>Q', s): struct.error unless len(s) = n *)
Definition unpack_be (n : nat) (l : bytes) : M Z :=
  if Nat.eqb (length l) n then ret (be_dec l) else fail EStruct.

(* struct.pack('>B'...) / int.to_bytes(n,'big'): error unless 0 <= v < 256^n *)
Definition pack_be (n : nat) (v : Z) (e : err) : M bytes :=
  if (0 <=? v) && (v <? 256 ^ Z.of_nat n) then ret (be_enc n v) else fail e.
Definition pack_B (v : Z) := pack_be 1 v EStruct.
Definition pack_H (v : Z) := pack_be 2 v EStruct.
Definition to_bytes (n : nat) (v : Z) := pack_be n v EOverflow.

Definition nat_of_Z (z : Z) : nat := Z.to_nat z.
