(* Python list/bytes primitives with Python's failure behaviour. *)
From Coq Require Import ZArith List Bool Lia.
From UDS Require Import Lib.Bytes Lib.ErrM.
Import ListNotations.
Open Scope Z_scope.

(* data[i] for i >= 0: IndexError when out of range *)
Definition byte_at (l : bytes) (i : nat) : M Z :=
  match nth_error l i with Some b => ret b | None => fail EIndex end.

(* data[a:b] with 0 <= a: clamps, never fails *)
Definition slice (l : bytes) (a b : nat) : bytes := firstn (b - a) (skipn a l).
(* data[a:] *)
Definition slice_from (l : bytes) (a : nat) : bytes := skipn a l.
(* data[-n:] : the last n items, everything when n >= len; note data[-0:] is everything *)
Definition last_n (l : bytes) (n : nat) : bytes :=
  match n with O => l | _ => skipn (length l - n) l end.

(* struct.unpack('>B'/'>H'/'>L'/'>Q', s): struct.error unless len(s) = n *)
Definition unpack_be (n : nat) (l : bytes) : M Z :=
  if Nat.eqb (length l) n then ret (be_dec l) else fail EStruct.

(* struct.pack('>B'...) / int.to_bytes(n,'big'): error unless 0 <= v < 256^n *)
Definition pack_be (n : nat) (v : Z) (e : err) : M bytes :=
  if (0 <=? v) && (v <? 256 ^ Z.of_nat n) then ret (be_enc n v) else fail e.
Definition pack_B (v : Z) := pack_be 1 v EStruct.
Definition pack_H (v : Z) := pack_be 2 v EStruct.
Definition to_bytes (n : nat) (v : Z) := pack_be n v EOverflow.

Definition nat_of_Z (z : Z) : nat := Z.to_nat z.

(* ---- primitives the function translator (tools/symtrans.py) prints ------------------------------------------ *)
(* int.bit_length() *)
Definition py_bit_length (v : Z) : Z := if v =? 0 then 0 else Z.log2 (Z.abs v) + 1.
(* math.ceil(a / k) for a positive constant k (exact below 2^53: bit lengths and sizes) *)
Definition py_ceil_div (a k : Z) : Z := - ((- a) / k).
(* `key in table` / `table[key]` for a class-level dict with integer keys and values (the lookup is guarded by the membership test) *)
Definition py_dict_mem (t : list (Z * Z)) (k : Z) : bool := existsb (fun '(a, _) => a =? k) t.
Definition py_dict_get (t : list (Z * Z)) (k : Z) : Z :=
  match find (fun '(a, _) => a =? k) t with Some (_, v) => v | None => 0 end.
