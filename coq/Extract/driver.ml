(* Line-oriented driver around the extracted model.
   input :  <entry>|<int>,<int>,...|<hex>,<hex>,...      ints: [-]hex digits; blobs: hex bytes ("-" = empty list)
   output:  <int>,<int>,...                               same integer syntax *)

let rec pos_of_bits (p : Model.positive) (bits : bool list) : Model.positive =
  match bits with [] -> p | b :: tl -> pos_of_bits (if b then Model.XI p else Model.XO p) tl

let bits_of_hex (s : string) : bool list =
  let out = ref [] in
  String.iter (fun c ->
    let v = match c with
      | '0'..'9' -> Char.code c - 48 | 'a'..'f' -> Char.code c - 87 | 'A'..'F' -> Char.code c - 55
      | _ -> failwith ("bad hex digit in " ^ s) in
    out := (v land 1 <> 0) :: (v land 2 <> 0) :: (v land 4 <> 0) :: (v land 8 <> 0) :: !out) s;
  List.rev !out

let z_of_string (s : string) : Model.z =
  let neg = String.length s > 0 && s.[0] = '-' in
  let body = if neg then String.sub s 1 (String.length s - 1) else s in
  let rec strip = function false :: tl -> strip tl | l -> l in
  match strip (bits_of_hex body) with
  | [] -> Model.Z0
  | _ :: tl -> let p = pos_of_bits Model.XH tl in if neg then Model.Zneg p else Model.Zpos p

let string_of_pos (p : Model.positive) : string =
  let rec bits p acc = match p with Model.XH -> true :: acc | Model.XO q -> bits q (false :: acc) | Model.XI q -> bits q (true :: acc) in
  let bl = bits p [] in
  let n = List.length bl in
  let pad = (4 - n mod 4) mod 4 in
  let bl = List.init pad (fun _ -> false) @ bl in
  let buf = Buffer.create 16 in
  let rec go = function
    | a :: b :: c :: d :: tl ->
      let v = (if a then 8 else 0) + (if b then 4 else 0) + (if c then 2 else 0) + (if d then 1 else 0) in
      Buffer.add_char buf "0123456789abcdef".[v]; go tl
    | _ -> () in
  go bl; Buffer.contents buf

let string_of_z = function Model.Z0 -> "0" | Model.Zpos p -> string_of_pos p | Model.Zneg p -> "-" ^ string_of_pos p

let byte_tab : Model.z array = Array.init 256 (fun i -> z_of_string (Printf.sprintf "%x" i))

let bytes_of_hex (s : string) : Model.z list =
  if s = "-" then [] else begin
    let n = String.length s / 2 in
    let rec go i acc = if i < 0 then acc else go (i - 1) (byte_tab.(int_of_string ("0x" ^ String.sub s (2 * i) 2)) :: acc) in
    go (n - 1) []
  end

let ecu_state : Model.ecu ref = ref (Model.ecu_init Model.Z0)

let split_nonempty c s = if s = "" then [] else String.split_on_char c s

let () =
  try
    while true do
      let line = input_line stdin in
      match String.split_on_char '|' line with
      (* a stateful reference ECU for the C12 harness: e0|blk| resets, e1||frame steps, e2|| dumps the state *)
      | ["e0"; ints; _] ->
        ecu_state := Model.ecu_init (z_of_string ints); print_string "0"; print_newline ()
      | ["e1"; _; blob] ->
        let (e', rep) = Model.ecu_step !ecu_state (bytes_of_hex blob) in
        ecu_state := e';
        print_string (String.concat "," (List.map string_of_z rep)); print_newline ()
      | ["e2"; _; _] ->
        print_string (String.concat "," (List.map string_of_z (Model.enc_ecu !ecu_state))); print_newline ()
      | [e; ints; blobs] ->
        let res = Model.run_case (z_of_string e) (List.map z_of_string (split_nonempty ',' ints))
                    (List.map bytes_of_hex (split_nonempty ',' blobs)) in
        print_string (String.concat "," (List.map string_of_z res)); print_newline ()
      | _ -> print_string "!bad-line"; print_newline ()
    done
  with End_of_file -> ()
