(* Extraction of the executable model.  ExtrOcamlBasic only: bool, option, unit, list, prod,
   sumbool, sumor map to OCaml's own types; Z / positive / nat / string / ascii stay inductive. *)
From Coq Require Import Extraction ExtrOcamlBasic.
From UDS Require Import Model.Dispatch Model.Ecu.
Extraction Language OCaml.
Extraction "model.ml" run_case ecu_init ecu_step enc_ecu.
