(* What a client method does with a positive response, as executed (Gen/Fn_SimpleInt.v: the method of udsoncan/client.py run on
   symbolic arguments with send_request replaced by Response.from_payload(response id ++ d) for d of every length class - the
   service's interpret_response, then the method's own echo comparisons), is the model's interpret function: same
   InvalidResponse / UnexpectedResponse outcomes, same decoded values.  Stated for the calls whose request was built (the hypothesis
   is about the generated request function, so a change to the validation of arguments does not touch these theorems). *)
From Coq Require Import ZArith List Bool String Lia ZifyBool.
From UDS Require Import Lib.Bytes Lib.ErrM Lib.PyOps Gen.Fn_SimpleReq Gen.Fn_SimpleInt Model.Message Model.Client Model.Services Model.Helpers
  Model.Svc_Simple Proofs.Tie_common Proofs.Tie_simple_common.
Import ListNotations.
Open Scope Z_scope.
Ltac Zify.zify_post_hook ::= Z.to_euclidean_division_equations.

Theorem tie_ecu_reset_interpret t d r p : fn_ecu_reset_request t = inr p -> d <> [] -> p_data r = d ->
  fn_ecu_reset_interpret t d = er_interpret t r.
Proof.
  intros Hreq Hne Hd. unfold fn_ecu_reset_request in Hreq. unfold fn_ecu_reset_interpret, er_interpret. rewrite Hd.
  cases4 d; interp_tac; kill_by Hreq.
Qed.
Theorem tie_routine_control_interpret rid ct data d r p : fn_routine_control_request rid ct data = inr p -> d <> [] -> p_data r = d ->
  fn_routine_control_interpret rid ct data d = rc_interpret rid ct r.
Proof.
  intros Hreq Hne Hd. unfold fn_routine_control_request in Hreq. unfold fn_routine_control_interpret, rc_interpret. rewrite Hd.
  destruct data; cases4 d; interp_tac; kill_by Hreq.
Qed.
Theorem tie_tester_present_interpret d r : d <> [] -> p_data r = d -> fn_tester_present_interpret d = tp_interpret r.
Proof. intros Hne Hd. unfold fn_tester_present_interpret, tp_interpret. rewrite Hd. cases2 d; interp_tac. Qed.
Theorem tie_change_session_interpret cfg sn d r p : std cfg = 2020 -> fn_change_session_request sn = inr p -> d <> [] -> p_data r = d ->
  fn_change_session_interpret sn d = dsc_interpret cfg sn r.
Proof.
  intros Hs Hreq Hne Hd. unfold fn_change_session_request in Hreq. unfold fn_change_session_interpret, dsc_interpret. rewrite Hd, Hs.
  change (2013 <=? 2020) with true. cases6 d; interp_tac; kill_by Hreq.
Qed.
Theorem tie_change_session_2006_interpret cfg sn d r p : std cfg = 2006 -> fn_change_session_2006_request sn = inr p -> d <> [] -> p_data r = d ->
  fn_change_session_2006_interpret sn d = dsc_interpret cfg sn r.
Proof.
  intros Hs Hreq Hne Hd. unfold fn_change_session_2006_request in Hreq. unfold fn_change_session_2006_interpret, dsc_interpret. rewrite Hd, Hs.
  change (2013 <=? 2006) with false. cases3 d; interp_tac; kill_by Hreq.
Qed.
Theorem tie_request_seed_interpret level data d r p : fn_request_seed_request level data = inr p -> d <> [] -> p_data r = d ->
  fn_request_seed_interpret level data d = sa_interpret false level r.
Proof.
  intros Hreq Hne Hd. unfold fn_request_seed_request in Hreq. unfold fn_request_seed_interpret, sa_interpret, normalize_level. rewrite Hd.
  cases3 d; interp_tac; kill_by Hreq.
Qed.
Theorem tie_send_key_interpret level key d r p : fn_send_key_request level key = inr p -> d <> [] -> p_data r = d ->
  fn_send_key_interpret level key d = sa_interpret true level r.
Proof.
  intros Hreq Hne Hd. unfold fn_send_key_request in Hreq. unfold fn_send_key_interpret, sa_interpret, normalize_level. rewrite Hd.
  cases3 d; interp_tac; kill_by Hreq.
Qed.
Theorem tie_access_timing_parameter_interpret a rc d r p : fn_access_timing_parameter_request a rc = inr p -> d <> [] -> p_data r = d ->
  fn_access_timing_parameter_interpret a rc d = atp_interpret a r.
Proof.
  intros Hreq Hne Hd. unfold fn_access_timing_parameter_request in Hreq. unfold fn_access_timing_parameter_interpret, atp_interpret. rewrite Hd.
  destruct rc; cases3 d; interp_tac; kill_by Hreq.
Qed.
Theorem tie_transfer_data_interpret sq data d r p : fn_transfer_data_request sq data = inr p -> d <> [] -> p_data r = d ->
  fn_transfer_data_interpret sq data d = td_interpret sq r.
Proof.
  intros Hreq Hne Hd. unfold fn_transfer_data_request in Hreq. unfold fn_transfer_data_interpret, td_interpret. rewrite Hd.
  destruct data; cases3 d; interp_tac; kill_by Hreq.
Qed.
Theorem tie_control_dtc_setting_interpret t data d r p : fn_control_dtc_setting_request t data = inr p -> d <> [] -> p_data r = d ->
  fn_control_dtc_setting_interpret t data d = echo1_interpret t r.
Proof.
  intros Hreq Hne Hd. unfold fn_control_dtc_setting_request in Hreq. unfold fn_control_dtc_setting_interpret, echo1_interpret. rewrite Hd.
  destruct data; cases2 d; interp_tac; kill_by Hreq.
Qed.
