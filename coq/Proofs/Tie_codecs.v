(* CommunicationType, DataFormatIdentifier, AddressAndLengthFormatIdentifier, Baudrate, as executed (Gen/Fn_Codecs.v), are the model (C19) *)
From Coq Require Import ZArith List Bool Lia ZifyBool.
From UDS Require Import Lib.Bytes Lib.ErrM Lib.PyOps Gen.Maps Gen.Fn_Codecs Model.Helpers Model.MemLoc Proofs.Tie_common.
Import ListNotations.
Open Scope Z_scope.
Ltac Zify.zify_post_hook ::= Z.to_euclidean_division_equations.

(* the tables the function translator met are the tables the data translator read *)
Lemma tbl_addr : tbl_AddressAndLengthFormatIdentifier_address_map = gen_alfid_address_map. Proof. reflexivity. Qed.
Lemma tbl_size : tbl_AddressAndLengthFormatIdentifier_memsize_map = gen_alfid_memsize_map. Proof. reflexivity. Qed.
Lemma tbl_baud : tbl_Baudrate_baudrate_map = gen_baudrate_map. Proof. reflexivity. Qed.

Theorem tie_alfid_byte af sf : fn_alfid_byte af sf = (al <- mk_alfid af sf ;; alfid_byte al).
Proof.
  unfold fn_alfid_byte, mk_alfid, alfid_byte. rewrite tbl_addr, tbl_size, !dict_mem_get.
  destruct (py_dict_mem gen_alfid_address_map af) eqn:Ha; [|reflexivity].
  destruct (py_dict_mem gen_alfid_memsize_map sf) eqn:Hs; [|reflexivity].
  cbn [bind ret al_addr al_size]. rewrite !dict_mem_get, Ha, Hs. reflexivity.
Qed.

(* ---- CommunicationType, DataFormatIdentifier ---------------------------------------------------------------------- *)
Theorem tie_commtype_byte sn n m : fn_commtype_byte sn n m = (c <- mk_commtype sn n m ;; ret (commtype_byte c)).
Proof.
  unfold fn_commtype_byte, mk_commtype, commtype_byte. destruct n, m; cbn [negb andb orb]; split_ifs; try reflexivity; try lia.
Qed.
Theorem tie_commtype_from_byte v :
  fn_commtype_from_byte v =
  (if (v <? 0) || (255 <? v) then fail EValue else c <- commtype_from_byte v ;; ret (ct_subnet c, ct_normal c, ct_nm c)).
Proof.
  unfold fn_commtype_from_byte, commtype_from_byte, mk_commtype.
  split_ifs; cbn [orb negb andb bind ret fail ct_subnet ct_normal ct_nm] in *; try reflexivity; try lia; try discriminate.
Qed.
Theorem tie_dfi_byte c e : fn_dfi_byte c e = (d <- mk_dfi c e ;; ret (dfi_byte d)).
Proof. unfold fn_dfi_byte, mk_dfi, dfi_byte. split_ifs; try reflexivity; try lia. Qed.
Theorem tie_dfi_from_byte b : fn_dfi_from_byte b = (d <- dfi_from_byte b ;; ret (df_comp d, df_enc d)).
Proof. unfold fn_dfi_from_byte, dfi_from_byte, mk_dfi. split_ifs; try reflexivity; try lia. Qed.

(* ---- Baudrate -------------------------------------------------------------------------------------------------------- *)
Theorem tie_baud r t : fn_baud r t = (b <- mk_baud r t ;; ret (bd_rate b, bd_type b)).
Proof.
  unfold fn_baud, mk_baud. rewrite tbl_baud, !dict_mem_get.
  unfold gen_baud_Auto, gen_baud_Fixed, gen_baud_Identifier, gen_baud_Specific.
  split_ifs; try reflexivity; try lia.
Qed.

Ltac note_bounds :=
  repeat match goal with
         | |- context [Z.land ?x 255] =>
           lazymatch goal with H : 0 <= Z.land x 255 < 256 |- _ => fail | _ => pose proof (land255 x) end
         | |- context [py_dict_get gen_baudrate_map ?k] =>
           lazymatch goal with H : 0 <= py_dict_get gen_baudrate_map k <= 19 |- _ => fail | _ => pose proof (baud_get_range k) end
         end.

Theorem tie_baud_bytes r t : fn_baud_bytes r t = (b <- mk_baud r t ;; baud_bytes b).
Proof.
  unfold fn_baud_bytes, mk_baud, baud_bytes, pack_B, pack_be. rewrite tbl_baud, !dict_mem_get.
  unfold gen_baud_Auto, gen_baud_Fixed, gen_baud_Identifier, gen_baud_Specific.
  change (256 ^ Z.of_nat 1) with 256.
  note_bounds.
  split_ifs; cbn [bind ret fail bd_rate bd_type]; rewrite ?dict_mem_get; split_ifs; try reflexivity; try lia.
Qed.

Theorem tie_baud_effective r t : fn_baud_effective r t = (b <- mk_baud r t ;; baud_effective b).
Proof.
  unfold fn_baud_effective, mk_baud, baud_effective. rewrite tbl_baud, !dict_mem_get.
  unfold gen_baud_Auto, gen_baud_Fixed, gen_baud_Identifier, gen_baud_Specific.
  split_ifs; cbn [bind ret fail bd_rate bd_type]; try reflexivity; try lia;
  unfold gen_baudrate_map; cbn [find]; split_ifs; try reflexivity; try lia.
Qed.

