(* ... with a pending-response callback configured: called once per pending frame (C06) *)
From Coq Require Import ZArith List Bool String Lia ZifyBool.
From UDS Require Import Lib.Bytes Lib.ErrM Lib.PyOps Gen.Fn_SendRequest Model.Message Model.Client Model.Services Proofs.Tie_common Proofs.Tie_send_common.
Import ListNotations.
Open Scope Z_scope.


Theorem tie_send_request_cb_W cfg T P2 P2S now a1 : timing_cb cfg (Some T) P2 P2S true -> now < a1 ->
  fn_send_request_cb_W T P2 P2S now a1 = ret (obs_sr (send_request cfg st_init tp_req (-1) now [(a1, Frame [127; 62; 120])])).
Proof. intros (HT & H2 & H2s & Hcb) H0. unfold timing in *. unfold fn_send_request_cb_W. sr_tac HT H2 H2s Hcb. Qed.
Theorem tie_send_request_cb_WP cfg T P2 P2S now a1 a2 : timing_cb cfg (Some T) P2 P2S true -> now < a1 ->
  fn_send_request_cb_WP T P2 P2S now a1 a2 = ret (obs_sr (send_request cfg st_init tp_req (-1) now [(a1, Frame [127; 62; 120]); (a2, Frame [126; 0])])).
Proof. intros (HT & H2 & H2s & Hcb) H0. unfold timing in *. unfold fn_send_request_cb_WP. sr_tac HT H2 H2s Hcb. Qed.
Theorem tie_send_request_cb_WW cfg T P2 P2S now a1 a2 : timing_cb cfg (Some T) P2 P2S true -> now < a1 ->
  fn_send_request_cb_WW T P2 P2S now a1 a2 = ret (obs_sr (send_request cfg st_init tp_req (-1) now [(a1, Frame [127; 62; 120]); (a2, Frame [127; 62; 120])])).
Proof. intros (HT & H2 & H2s & Hcb) H0. unfold timing in *. unfold fn_send_request_cb_WW. sr_tac HT H2 H2s Hcb. Qed.
