(* io_control on a configured entry {codec of 2 bytes, masks m0 = 0x01, m1 = 0x03 (overlapping m0: the record is the OR, not the sum), m2 = 0x80, mask_size 1}, as executed up to send_request
   (Gen/Fn_Io.v): symbolic control parameter and values, the masks as a dict of three names set or cleared, with a name the table does not
   define (refused also when it is given as cleared), as one boolean, absent - the model's io_make (C01, C07). *)
From Coq Require Import ZArith List Bool String Lia ZifyBool.
From UDS Require Import Lib.Bytes Lib.ErrM Lib.PyOps Gen.Fn_Io Model.Message Model.Client Model.Services Model.Helpers Model.Svc_Simple Model.Svc_Did
  Proofs.Tie_common Proofs.Tie_simple_common.
Import ListNotations.
Open Scope Z_scope.

Definition io_table : list (Z * (Z * bool * list Z * option Z)) := [(306, (2, true, [1; 3; 128], Some 1))].

Ltac io_tac Hio :=
  unfold payload_of, io_make, fetch_io, lookup, check_io_entry, codec_encode, mk_req_data, mk_req, validate_int, to_bytes, pack_be, byte_len;
  rewrite Hio; unfold io_table; cbn [find forallb fold_left nth List.length repeat Z.to_nat Pos.to_nat Pos.iter_op Nat.add]; eval_svc;
  repeat (progress (msimpl; cbn [find forallb fold_left nth List.length repeat app]; unfold guard; packs; split_ifs));
  rewrite ?app_nil_r, <- ?app_assoc; cbn [app be_enc]; finish.

Theorem tie_io_request_nomask cfg cp v : ios cfg = io_table -> fn_io_request_nomask cp v = payload_of (io_make cfg 306 cp v MNone).
Proof. intros Hio. unfold fn_io_request_nomask. destruct cp, v; io_tac Hio. Qed.
Theorem tie_io_request_bool cfg cp v b : ios cfg = io_table -> fn_io_request_bool cp v b = payload_of (io_make cfg 306 cp v (MBool b)).
Proof. intros Hio. unfold fn_io_request_bool. destruct cp, v, b; io_tac Hio. Qed.
Theorem tie_io_request_dict cfg cp v b0 b1 b2 : ios cfg = io_table ->
  fn_io_request_dict cp v b0 b1 b2 = payload_of (io_make cfg 306 cp v (MList [(0, b0); (1, b1); (2, b2)])).
Proof. intros Hio. unfold fn_io_request_dict. destruct cp, v, b0, b1, b2; io_tac Hio. Qed.
(* a name the table does not define is an index outside the table in the model *)
Theorem tie_io_request_undefined_name cfg cp v b0 bx : ios cfg = io_table ->
  fn_io_request_undefined_name cp v b0 bx = payload_of (io_make cfg 306 cp v (MList [(0, b0); (3, bx)])).
Proof. intros Hio. unfold fn_io_request_undefined_name. destruct cp, v, b0, bx; io_tac Hio. Qed.
