(* Proofs for C01 / C07, continued: request_file_transfer and io_control agree with Spec/IsoRequests.v for every argument value
   (accepted domain = documented domain, and inside it exactly the ISO bytes). *)
From Coq Require Import ZArith List Bool String Lia ZifyBool.
From UDS Require Import Lib.Bytes Lib.ErrM Lib.PyOps Gen.Maps Gen.DtcGroups Spec.IsoBits Spec.IsoRequests Model.Message Model.Client Model.Services
  Model.Helpers Model.MemLoc Model.Svc_Simple Model.Svc_Memory Model.Svc_Did Model.Svc_File Model.Svc_Dtc Model.History
  Proofs.Bytes_lemmas Proofs.C17_lemmas Proofs.C19_lemmas Proofs.C05_lemmas Proofs.Client_lemmas Proofs.C14_lemmas Proofs.C07_lemmas.
Import ListNotations.
Open Scope string_scope.
Open Scope Z_scope.
Open Scope list_scope.

(* ---- RequestFileTransfer --------------------------------------------------------------------------------------------- *)
Definition fs_iso (f : fsarg) : iso_fsize := match f with FsNone => IsoFsNone | FsInt v => IsoFsInt v | FsObj u c w => IsoFsObj u c w end.

Definition dstage (use_dfi : bool) (d : option (Z * Z)) : M (option dfi) :=
  if use_dfi then (x <- (match d with Some (c, e) => mk_dfi c e | None => mk_dfi 0 0 end) ;; ret (Some x))
  else match d with Some _ => fail EValue | None => ret None end.
Definition dbytes (dfo : option dfi) : M bytes := match dfo with Some x => pack_B (dfi_byte x) | None => ret [] end.
Definition fstage (use_fs : bool) (f : fsarg) : M (option filesize) :=
  if use_fs then
    match f with
    | FsNone => fail EValue
    | FsInt v => x <- mk_filesize (Some v) None None ;;
                 y <- mk_filesize (fs_unc x) (fs_unc x) (Some (fs_width x)) ;; ret (Some y)
    | FsObj u c w =>
      x <- mk_filesize u c w ;;
      match fs_unc x with
      | None => fail EValue
      | Some uu => match fs_comp x with
                   | None => y <- mk_filesize (Some uu) (Some uu) (Some (fs_width x)) ;; ret (Some y)
                   | Some _ => ret (Some x)
                   end
      end
    end
  else match f with FsNone => ret None | _ => fail EValue end.
Definition fbytes (fso : option filesize) : M bytes :=
  match fso with
  | Some x =>
    w <- to_bytes 1 (fs_width x) ;;
    u <- (match fs_unc x with Some v => to_bytes (Z.to_nat (fs_width x)) v | None => ret [] end) ;;
    c <- (match fs_comp x with Some v => to_bytes (Z.to_nat (fs_width x)) v | None => ret [] end) ;;
    ret (w ++ u ++ c)
  | None => ret []
  end.

Lemma rft_make_stages moop path d f :
  rft_make moop path d f =
  (_ <- guard ((1 <=? moop) && (moop <=? 6)) EValue ;;
   _ <- guard (negb (Nat.eqb (List.length path) 0)) EValue ;;
   _ <- guard (forallb (fun ch => (0 <=? ch) && (ch <? 128)) path) EValue ;;
   _ <- guard (Z.of_nat (List.length path) <=? 65535) EValue ;;
   dfo <- dstage ((moop =? 1) || (moop =? 3) || (moop =? 4) || (moop =? 6)) d ;;
   fso <- fstage ((moop =? 1) || (moop =? 3) || (moop =? 6)) f ;;
   mb <- to_bytes 1 moop ;;
   lb <- to_bytes 2 (Z.of_nat (List.length path)) ;;
   db <- dbytes dfo ;;
   fb <- fbytes fso ;;
   mk_req_data "RequestFileTransfer" (mb ++ lb ++ path ++ db ++ fb)).
Proof. reflexivity. Qed.

Lemma pow256 (w : Z) : 0 <= w -> 256 ^ w = 2 ^ (w * 8).
Proof. intros H. change 256 with (2 ^ 8). rewrite <- Z.pow_mul_r by lia. f_equal. lia. Qed.

Lemma byte_len_fits (v : Z) : 0 <= v -> 0 <= byte_len v /\ v < 256 ^ byte_len v.
Proof.
  intros H. unfold byte_len. destruct (v <=? 0) eqn:E.
  - assert (v = 0) by lia. subst. split; [lia|reflexivity].
  - assert (0 < v) as Hp by lia. pose proof (Z.log2_spec v Hp) as [_ Hu]. pose proof (Z.log2_nonneg v) as Hn.
    set (k := Z.log2 v) in *. assert (k + 1 <= 8 * ((k + 8) / 8)) as Hb by (pose proof (Z.div_mod (k + 8) 8 ltac:(lia)); pose proof (Z.mod_pos_bound (k + 8) 8 ltac:(lia)); lia).
    split; [apply Z.div_pos; lia|].
    rewrite pow256 by (apply Z.div_pos; lia).
    eapply Z.lt_le_trans; [replace (Z.succ k) with (k + 1) in Hu by lia; exact Hu|]. apply Z.pow_le_mono_r; lia.
Qed.

Lemma dstage_spec (use_dfi : bool) (d : option (Z * Z)) :
  match (if use_dfi then match d with Some (c, e) => if in_u c 15 && in_u e 15 then Some (u8 (16 * c + e)) else None | None => Some (u8 0) end
         else match d with Some _ => None | None => Some [] end) with
  | Some b => exists x, dstage use_dfi d = inr x /\ dbytes x = inr b
  | None => exists e, dstage use_dfi d = inl e
  end.
Proof.
  unfold dstage. destruct use_dfi.
  - destruct d as [[c e]|].
    + unfold in_u. destruct ((0 <=? c) && (c <=? 15) && ((0 <=? e) && (e <=? 15))) eqn:E.
      * destruct (dfi_roundtrip c e ltac:(lia) ltac:(lia)) as (x & Hx & Hb & _). rewrite Hx. cbn [bind ret]. eexists. split; [reflexivity|].
        cbn [dbytes]. rewrite Hb. unfold iso_dfi_byte. apply pack_B_enc. lia.
      * unfold mk_dfi. replace ((c <? 0) || (15 <? c) || (e <? 0) || (15 <? e)) with true by lia. eexists; reflexivity.
    + destruct (dfi_roundtrip 0 0 ltac:(lia) ltac:(lia)) as (x & Hx & Hb & _). rewrite Hx. cbn [bind ret]. eexists. split; [reflexivity|].
      cbn [dbytes]. rewrite Hb. reflexivity.
  - destruct d as [[c e]|]; [eexists; reflexivity|]. eexists. split; reflexivity.
Qed.

Definition fs_ok (u c w : option Z) : bool :=
  (match u, c with None, None => false | _, _ => true end)
  && (match u with Some x => 0 <=? x | None => true end)
  && (match c with Some x => 0 <=? x | None => true end)
  && match w with
     | Some wd => (0 <=? wd) && (match c with Some x => x <=? 2 ^ (wd * 8) - 1 | None => true end)
                  && (match u with Some x => x <=? 2 ^ (wd * 8) - 1 | None => true end)
     | None => true
     end.
Definition fs_w (u c w : option Z) : Z :=
  match w with Some wd => wd
  | None => byte_len (Z.max (match u with Some x => x | None => 0 end) (match c with Some x => x | None => 0 end)) end.

Lemma mk_filesize_spec u c w :
  mk_filesize u c w = if fs_ok u c w then inr {| fs_unc := u; fs_comp := c; fs_width := fs_w u c w |} else inl EValue.
Proof.
  unfold mk_filesize, fs_ok, fs_w.
  destruct (match u, c with None, None => false | _, _ => true end); [|reflexivity]. cbn [guard bind andb].
  destruct (match u with Some x => 0 <=? x | None => true end); [|reflexivity]. cbn [guard bind andb].
  destruct (match c with Some x => 0 <=? x | None => true end); [|reflexivity]. cbn [guard bind andb].
  destruct w as [wd|]; [|reflexivity].
  destruct (0 <=? wd); [|reflexivity]. cbn [guard bind andb].
  destruct (match c with Some x => x <=? 2 ^ (wd * 8) - 1 | None => true end); [|reflexivity]. cbn [guard bind andb].
  destruct (match u with Some x => x <=? 2 ^ (wd * 8) - 1 | None => true end); reflexivity.
Qed.

Definition fobj (u c w : option Z) : M (option filesize) :=
  x <- mk_filesize u c w ;;
  match fs_unc x with
  | None => fail EValue
  | Some uu => match fs_comp x with
               | None => y <- mk_filesize (Some uu) (Some uu) (Some (fs_width x)) ;; ret (Some y)
               | Some _ => ret (Some x)
               end
  end.

Lemma to_bytes_w wd v : 0 <= wd -> 0 <= v < 256 ^ wd -> to_bytes (Z.to_nat wd) v = inr (be_enc (Z.to_nat wd) v).
Proof. intros Hw Hv. unfold to_bytes. apply pack_be_ok. rewrite Z2Nat.id by lia. exact Hv. Qed.
Lemma to_bytes_w_bad wd v : 0 <= wd -> ~ (0 <= v < 256 ^ wd) -> to_bytes (Z.to_nat wd) v = inl EOverflow.
Proof. intros Hw Hv. unfold to_bytes. apply pack_be_err. rewrite Z2Nat.id by lia. exact Hv. Qed.

Definition fails {A} (m : M A) : Prop := exists e, m = inl e.

Lemma fbytes_some unc comp wd : 0 <= wd ->
  fbytes (Some {| fs_unc := Some unc; fs_comp := Some comp; fs_width := wd |}) =
  if (wd <=? 255) && (0 <=? unc) && (unc <? 256 ^ wd) && (0 <=? comp) && (comp <? 256 ^ wd)
  then inr (u8 wd ++ be_enc (Z.to_nat wd) unc ++ be_enc (Z.to_nat wd) comp)
  else inl EOverflow.
Proof.
  intros Hw. cbn [fbytes fs_width fs_unc fs_comp]. unfold to_bytes at 1.
  destruct (wd <=? 255) eqn:E1; cbn [andb];
    [rewrite pack_be_ok by (change (256 ^ Z.of_nat 1) with 256; lia)|rewrite pack_be_err by (change (256 ^ Z.of_nat 1) with 256; lia); reflexivity].
  cbn [bind].
  destruct (0 <=? unc) eqn:E2; cbn [andb]; [|rewrite to_bytes_w_bad by lia; reflexivity].
  destruct (unc <? 256 ^ wd) eqn:E3; cbn [andb]; [|rewrite to_bytes_w_bad by lia; reflexivity].
  rewrite to_bytes_w by lia. cbn [bind].
  destruct (0 <=? comp) eqn:E4; cbn [andb]; [|rewrite to_bytes_w_bad by lia; reflexivity].
  destruct (comp <? 256 ^ wd) eqn:E5; cbn [andb]; [|rewrite to_bytes_w_bad by lia; reflexivity].
  rewrite to_bytes_w by lia. reflexivity.
Qed.

Lemma sized_spec u c w :
  match iso_sized u c w with
  | Some b => exists x, fobj u c w = inr x /\ fbytes x = inr b
  | None => fails (fobj u c w) \/ exists x, fobj u c w = inr x /\ fails (fbytes x)
  end.
Proof.
  unfold iso_sized, fobj. rewrite mk_filesize_spec.
  destruct u as [unc|].
  2:{ left. destruct (fs_ok None c w); eexists; reflexivity. }
  set (comp := match c with Some x => x | None => unc end).
  set (wd := match w with Some x => x | None => iso_bytes_for (Z.max unc comp) end).
  destruct (fs_ok (Some unc) c w) eqn:Eok.
  2:{ (* constructor refuses: the Spec refuses too *)
      replace ((0 <=? unc) && (0 <=? comp) && (0 <=? wd) && (wd <=? 255) && (unc <? 256 ^ wd) && (comp <? 256 ^ wd)) with false;
        [left; eexists; reflexivity|].
      symmetry. unfold fs_ok in Eok. subst comp wd. destruct c as [cc|], w as [ww|]; cbn [andb] in Eok;
        try match type of Eok with context [2 ^ (?x * 8)] => destruct (0 <=? x) eqn:Ew; [rewrite <- (pow256 x) in Eok by lia|] end; lia. }
  cbn [bind fs_unc fs_comp fs_width].
  assert (0 <= unc /\ 0 <= comp /\ 0 <= wd /\ fs_w (Some unc) c w = (match w with Some x => x | None => byte_len (Z.max unc (match c with Some x => x | None => 0 end)) end)) as (Hu & Hc & Hw & Hfw).
  { unfold fs_ok in Eok. subst comp wd. unfold fs_w. destruct c as [cc|], w as [ww|]; cbn [andb] in Eok; repeat split; try lia;
      change iso_bytes_for with byte_len; try (apply byte_len_fits; lia). }
  assert (fs_w (Some unc) c w = wd) as Hwd.
  { rewrite Hfw. subst wd comp. destruct w as [ww|]; [reflexivity|]. unfold iso_bytes_for, byte_len. destruct c as [cc|]; [reflexivity|].
    replace (Z.max unc 0) with unc by lia. replace (Z.max unc unc) with unc by lia. reflexivity. }
  rewrite Hwd.
  assert (fs_ok (Some unc) c w = true -> match w with Some _ => unc < 256 ^ wd /\ comp < 256 ^ wd | None => True end) as Hfit.
  { intros _. unfold fs_ok in Eok. subst comp wd. destruct w as [ww|]; [|exact I]. destruct c as [cc|]; cbn [andb] in Eok;
      (destruct (0 <=? ww) eqn:Ew; [rewrite <- (pow256 ww) in Eok by lia|]); lia. }
  destruct c as [cc|].
  - (* both sizes given *)
    cbn [bind ret]. change cc with comp.
    destruct ((0 <=? unc) && (0 <=? comp) && (0 <=? wd) && (wd <=? 255) && (unc <? 256 ^ wd) && (comp <? 256 ^ wd)) eqn:E.
    + eexists. split; [reflexivity|]. rewrite fbytes_some by lia.
      replace ((wd <=? 255) && (0 <=? unc) && (unc <? 256 ^ wd) && (0 <=? comp) && (comp <? 256 ^ wd)) with true by lia. reflexivity.
    + right. eexists. split; [reflexivity|]. rewrite fbytes_some by lia.
      replace ((wd <=? 255) && (0 <=? unc) && (unc <? 256 ^ wd) && (0 <=? comp) && (comp <? 256 ^ wd)) with false by lia. eexists; reflexivity.
  - (* compressed size defaults to the uncompressed size *)
    change comp with unc in *. rewrite mk_filesize_spec.
    assert (unc < 256 ^ wd) as Hf.
    { destruct w as [ww|]; [apply (Hfit Eok)|]. subst wd. change iso_bytes_for with byte_len.
      replace (Z.max unc unc) with unc by lia. apply byte_len_fits; lia. }
    replace (fs_ok (Some unc) (Some unc) (Some wd)) with true
      by (unfold fs_ok; cbn [andb]; rewrite <- (pow256 wd) by lia; lia).
    cbn [bind ret fs_w].
    destruct ((0 <=? unc) && (0 <=? unc) && (0 <=? wd) && (wd <=? 255) && (unc <? 256 ^ wd) && (unc <? 256 ^ wd)) eqn:E.
    + eexists. split; [reflexivity|]. rewrite fbytes_some by lia.
      replace ((wd <=? 255) && (0 <=? unc) && (unc <? 256 ^ wd) && (0 <=? unc) && (unc <? 256 ^ wd)) with true by lia. reflexivity.
    + right. eexists. split; [reflexivity|]. rewrite fbytes_some by lia.
      replace ((wd <=? 255) && (0 <=? unc) && (unc <? 256 ^ wd) && (0 <=? unc) && (unc <? 256 ^ wd)) with false by lia. eexists; reflexivity.
Qed.

Lemma fint_is_fobj v :
  (x <- mk_filesize (Some v) None None ;; y <- mk_filesize (fs_unc x) (fs_unc x) (Some (fs_width x)) ;; ret (Some y)) = fobj (Some v) None None.
Proof. unfold fobj. rewrite mk_filesize_spec. destruct (fs_ok (Some v) None None); reflexivity. Qed.

Lemma fstage_spec (use_fs : bool) (f : fsarg) :
  match (if use_fs then match fs_iso f with IsoFsNone => None | IsoFsInt v => iso_sized (Some v) None None | IsoFsObj u c w => iso_sized u c w end
         else match fs_iso f with IsoFsNone => Some [] | _ => None end) with
  | Some b => exists x, fstage use_fs f = inr x /\ fbytes x = inr b
  | None => fails (fstage use_fs f) \/ exists x, fstage use_fs f = inr x /\ fails (fbytes x)
  end.
Proof.
  unfold fstage. destruct use_fs.
  - destruct f as [|v|u c w]; cbn [fs_iso].
    + left. eexists; reflexivity.
    + rewrite fint_is_fobj. apply sized_spec.
    + apply (sized_spec u c w).
  - destruct f as [|v|u c w]; cbn [fs_iso]; [eexists; split; reflexivity|left; eexists; reflexivity|left; eexists; reflexivity].
Qed.

Theorem file_transfer_agrees st moop path d f :
  agrees st (rft_make moop path d f) (iso_file_transfer moop path d (fs_iso f)).
Proof.
  rewrite rft_make_stages. unfold iso_file_transfer, in_u.
  destruct ((1 <=? moop) && (moop <=? 6)) eqn:Em.
  2:{ replace (negb ((0 <=? moop) && (moop <=? 6) && (1 <=? moop))) with true by lia. eexists; reflexivity. }
  replace (negb ((0 <=? moop) && (moop <=? 6) && (1 <=? moop))) with false by lia. cbn [guard bind ret].
  destruct (Nat.eqb (List.length path) 0) eqn:El.
  { apply Nat.eqb_eq in El. rewrite El. cbn. eexists; reflexivity. }
  apply Nat.eqb_neq in El. cbn [negb guard bind ret].
  replace (1 <=? Z.of_nat (List.length path)) with true by lia. cbn [andb].
  assert (forallb (fun ch => (0 <=? ch) && (ch <? 128)) path = forallb (fun ch => (0 <=? ch) && (ch <=? 127)) path) as Ef
    by (clear; induction path as [|ch t IH]; [reflexivity|]; cbn [forallb]; rewrite IH; f_equal; lia).
  rewrite Ef. clear Ef.
  destruct (Z.of_nat (List.length path) <=? 65535) eqn:E16; cbn [andb negb].
  2:{ destruct (forallb _ path); cbn [guard bind ret]; eexists; reflexivity. }
  destruct (forallb (fun ch => (0 <=? ch) && (ch <=? 127)) path); cbn [negb guard bind ret]; [|eexists; reflexivity].
  pose proof (dstage_spec ((moop =? 1) || (moop =? 3) || (moop =? 4) || (moop =? 6)) d) as Hd. unfold in_u in Hd.
  destruct (if (moop =? 1) || (moop =? 3) || (moop =? 4) || (moop =? 6) then _ else _) as [db|].
  2:{ destruct Hd as [e He]. rewrite He. eexists; reflexivity. }
  destruct Hd as (dx & Hd1 & Hd2). rewrite Hd1. cbn [bind].
  pose proof (fstage_spec ((moop =? 1) || (moop =? 3) || (moop =? 6)) f) as Hf.
  destruct (if (moop =? 1) || (moop =? 3) || (moop =? 6) then _ else _) as [fb|].
  2:{ destruct Hf as [[e He]|(fx & Hf1 & e & He)].
      - rewrite He. eexists; reflexivity.
      - rewrite Hf1. cbn [bind]. unfold to_bytes at 1 2.
        rewrite pack_be_ok by (change (256 ^ Z.of_nat 1) with 256; lia). cbn [bind].
        rewrite pack_be_ok by (change (256 ^ Z.of_nat 2) with 65536; lia). cbn [bind].
        rewrite Hd2. cbn [bind]. rewrite He. eexists; reflexivity. }
  destruct Hf as (fx & Hf1 & Hf2). rewrite Hf1. cbn [bind]. unfold to_bytes at 1 2.
  rewrite pack_be_ok by (change (256 ^ Z.of_nat 1) with 256; lia). cbn [bind].
  rewrite pack_be_ok by (change (256 ^ Z.of_nat 2) with 65536; lia). cbn [bind].
  rewrite Hd2, Hf2. cbn [bind].
  exists 56, false. split; [in_iso|]. unfold mk_req_data, ireq. apply (frame_mk_req_nosub st "RequestFileTransfer" 56 (Some _)). in_iso.
Qed.

(* ---- InputOutputControlByIdentifier ---------------------------------------------------------------------------------- *)
Definition masks_iso (m : maskarg) : iso_masks := match m with MNone => IsoMNone | MBool b => IsoMBool b | MList l => IsoMList l end.
Definition io_entry_of (cfg : config) (did : Z) : option io_entry := match fetch_io cfg did with inr e => Some e | inl _ => None end.

Lemma forallb_eq {A} (f g : A -> bool) l : (forall x, f x = g x) -> forallb f l = forallb g l.
Proof. intros H. induction l as [|x t IH]; [reflexivity|]. cbn [forallb]. rewrite H, IH. reflexivity. Qed.

Lemma check_io_entry_spec e : check_io_entry e = if iso_io_entry_wf e then inr tt else inl EValue.
Proof.
  destruct e as [[[sh hm] mvals] msize]. unfold check_io_entry, iso_io_entry_wf.
  destruct (negb hm || forallb (fun m => 0 <=? m) mvals); cbn [guard bind ret andb]; [|reflexivity].
  destruct msize as [ms|]; [|reflexivity].
  destruct (0 <=? ms) eqn:E; cbn [guard bind ret andb]; [|reflexivity].
  rewrite (forallb_eq (fun m => m <=? 2 ^ (ms * 8) - 1) (fun m => m <? 256 ^ ms)) by (intros x; rewrite pow256 by lia; lia).
  destruct (negb hm || forallb (fun m => m <? 256 ^ ms) mvals); reflexivity.
Qed.

Lemma mask_number_nonneg mvals l : forallb (fun m => 0 <=? m) mvals = true -> 0 <= iso_mask_number mvals l.
Proof.
  intros Hm. unfold iso_mask_number. assert (forall acc, 0 <= acc -> 0 <= fold_left (fun (acc : Z) '((i, b) : Z * bool) => if b then Z.lor acc (nth (Z.to_nat i) mvals 0) else acc) l acc) as G.
  { induction l as [|[i b] t IH]; intros acc Ha; [exact Ha|]. cbn [fold_left]. apply IH. destruct b; [|exact Ha].
    apply Z.lor_nonneg. split; [exact Ha|]. destruct (nth_in_or_default (Z.to_nat i) mvals 0) as [Hin| ->]; [|lia].
    rewrite forallb_forall in Hm. specialize (Hm _ Hin). lia. }
  apply G. lia.
Qed.

Theorem io_control_agrees st cfg did cp values masks :
  agrees st (io_make cfg did cp values masks) (iso_io_control (io_entry_of cfg did) did cp values (masks_iso masks)).
Proof.
  unfold io_make, iso_io_control, io_entry_of, in_u.
  destruct ((0 <=? did) && (did <=? 65535)) eqn:Ed; cbn [negb].
  2:{ rewrite validate_int_out by lia. destruct (fetch_io cfg did) as [x|[[[sh hm] mvals] msize]]; eexists; reflexivity. }
  rewrite validate_int_in by lia. cbn [bind].
  assert ((match cp with Some c => validate_int c 0 3 | None => ret tt end)
          = if (match cp with Some c => (0 <=? c) && (c <=? 3) | None => true end) then inr tt else inl EValue) as Ec.
  { destruct cp as [c|]; [|reflexivity]. destruct ((0 <=? c) && (c <=? 3)) eqn:E; [rewrite validate_int_in by lia|rewrite validate_int_out by lia]; reflexivity. }
  rewrite Ec. clear Ec.
  destruct (match cp with Some c => (0 <=? c) && (c <=? 3) | None => true end) eqn:Ecp; cbn [negb bind].
  2:{ destruct (fetch_io cfg did) as [x|[[[sh hm] mvals] msize]]; eexists; reflexivity. }
  assert ((match values, masks with None, MNone => ret tt | None, _ => fail EValue | _, _ => ret tt end)
          = if (match values, masks_iso masks with None, IsoMNone => false | None, _ => true | _, _ => false end) then inl EValue else inr tt) as Ev
    by (destruct values, masks; reflexivity).
  rewrite Ev. clear Ev.
  destruct (match values, masks_iso masks with None, IsoMNone => false | None, _ => true | _, _ => false end) eqn:Evm; cbn [bind].
  { destruct (fetch_io cfg did) as [x|[[[sh hm] mvals] msize]]; eexists; reflexivity. }
  destruct (fetch_io cfg did) as [x|[[[sh hm] mvals] msize]]; [eexists; reflexivity|]. cbn [bind].
  rewrite check_io_entry_spec.
  destruct (iso_io_entry_wf (sh, hm, mvals, msize)) eqn:Ewf; cbn [negb bind]; [|eexists; reflexivity].
  rewrite pack_H_ok by lia. cbn [bind].
  assert ((match cp with Some c => pack_B c | None => ret [] end) = inr (match cp with Some c => u8 c | None => [] end)) as Ecb
    by (destruct cp as [c|]; [apply pack_B_enc; lia|reflexivity]).
  rewrite Ecb. clear Ecb. cbn [bind].
  assert ((match values with Some v => codec_encode sh v | None => ret [] end)
          = match (match values with Some v => if (sh <? 0) || (Z.of_nat (List.length v) =? sh) then Some v else None | None => Some [] end) with
            | Some b => inr b | None => inl EValue end) as Evb.
  { destruct values as [v|]; [|reflexivity]. unfold codec_encode. destruct ((sh <? 0) || (Z.of_nat (List.length v) =? sh)); reflexivity. }
  rewrite Evb. clear Evb.
  destruct (match values with Some v => if (sh <? 0) || (Z.of_nat (List.length v) =? sh) then Some v else None | None => Some [] end) as [vb|];
    cbn [bind]; [|eexists; reflexivity].
  unfold iso_io_entry_wf in Ewf.
  destruct masks as [|b|l]; cbn [masks_iso].
  - cbn [bind ret]. exists 47, false. split; [in_iso|]. unfold mk_req_data, ireq, u16. apply (frame_mk_req_nosub st "InputOutputControlByIdentifier" 47 (Some _)). in_iso.
  - destruct msize as [ms|]; [|eexists; reflexivity]. cbn [bind ret].
    exists 47, false. split; [in_iso|]. unfold mk_req_data, ireq, u16. apply (frame_mk_req_nosub st "InputOutputControlByIdentifier" 47 (Some _)). in_iso.
  - destruct hm; cbn [negb andb]; [|eexists; reflexivity].
    destruct (forallb (fun '(i, _) => (0 <=? i) && (i <? Z.of_nat (List.length mvals))) l); cbn [guard bind ret]; [|eexists; reflexivity].
    fold (iso_mask_number mvals l). set (num := iso_mask_number mvals l).
    cbn [negb orb] in Ewf. apply andb_true_iff in Ewf as [Ewf1 Ewf2].
    assert (0 <= num) as Hn by (apply mask_number_nonneg; exact Ewf1).
    destruct msize as [ms|].
    + apply andb_true_iff in Ewf2 as [Ewf2 _]. assert (0 <= ms) as Hms by lia.
      destruct (num <? 256 ^ ms) eqn:Ef.
      * unfold to_bytes. rewrite pack_be_ok by (rewrite Z2Nat.id by lia; lia). cbn [bind].
        exists 47, false. split; [in_iso|]. unfold mk_req_data, ireq, u16. apply (frame_mk_req_nosub st "InputOutputControlByIdentifier" 47 (Some _)). in_iso.
      * unfold to_bytes. rewrite pack_be_err by (rewrite Z2Nat.id by lia; lia). eexists; reflexivity.
    + change (iso_bytes_for num) with (byte_len num).
      assert (0 <= byte_len num /\ num < 256 ^ byte_len num) as [Hb Hf].
      { unfold byte_len. destruct (num <=? 0) eqn:E.
        - assert (num = 0) by lia. replace num with 0 by lia. split; [lia|reflexivity].
        - assert (0 < num) as Hp by lia. pose proof (Z.log2_spec num Hp) as [_ Hu]. pose proof (Z.log2_nonneg num) as Hl.
          set (k := Z.log2 num) in *. assert (k + 1 <= 8 * ((k + 8) / 8)) as Hk by (pose proof (Z.div_mod (k + 8) 8 ltac:(lia)); pose proof (Z.mod_pos_bound (k + 8) 8 ltac:(lia)); lia).
          split; [apply Z.div_pos; lia|]. rewrite pow256 by (apply Z.div_pos; lia).
          eapply Z.lt_le_trans; [replace (Z.succ k) with (k + 1) in Hu by lia; exact Hu|]. apply Z.pow_le_mono_r; lia. }
      replace (num <? 256 ^ byte_len num) with true by lia.
      unfold to_bytes. rewrite pack_be_ok by (rewrite Z2Nat.id by lia; lia). cbn [bind].
      exists 47, false. split; [in_iso|]. unfold mk_req_data, ireq, u16. apply (frame_mk_req_nosub st "InputOutputControlByIdentifier" 47 (Some _)). in_iso.
Qed.
