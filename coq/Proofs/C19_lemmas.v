(* Proofs for C19: the fixed-width helper codecs are exact inverses on their whole domain and put
   every flag / nibble on the ISO bit.  One-byte domains: complete kernel sweeps; 24-bit domains: arithmetic. *)
From Coq Require Import ZArith List Bool String Lia ZifyBool.
From UDS Require Import Lib.Bytes Lib.ErrM Lib.PyOps Lib.Sweep Gen.Masks Gen.Maps Spec.IsoBits
  Model.Helpers Proofs.Bytes_lemmas.
Import ListNotations.
Open Scope string_scope.
Open Scope Z_scope.
Open Scope list_scope.

(* ---- all flag vectors of a given length --------------------------------------------------------- *)
Fixpoint all_bools (n : nat) : list (list bool) :=
  match n with
  | O => [[]]
  | S k => map (cons true) (all_bools k) ++ map (cons false) (all_bools k)
  end.

Lemma all_bools_complete n vals : List.length vals = n -> In vals (all_bools n).
Proof.
  revert vals. induction n as [|n IH]; intros vals Hl.
  - destruct vals; [left; reflexivity|discriminate].
  - destruct vals as [|b vs]; [discriminate|]. cbn [all_bools]. apply in_app_iff.
    injection Hl as Hl. destruct b; [left|right]; apply in_map; apply IH; exact Hl.
Qed.

Definition list_bool_eqb (a b : list bool) : bool :=
  (Nat.eqb (List.length a) (List.length b)) && forallb (fun '(x, y) => Bool.eqb x y) (combine a b).
Lemma list_bool_eqb_eq a b : list_bool_eqb a b = true -> a = b.
Proof.
  unfold list_bool_eqb. revert b. induction a as [|x xs IH]; intros [|y ys] H; cbn in H; try discriminate; auto.
  apply andb_true_iff in H as [Hl H]. apply andb_true_iff in H as [Hxy H].
  apply Bool.eqb_prop in Hxy. subst. f_equal. apply IH. apply andb_true_iff. split; assumption.
Qed.

(* ---- generic statement for a flag codec --------------------------------------------------------- *)
Section Flags.
  Variable fields : list string.
  Variable enc dec bits : list (string * Z).

  (* for a flag vector: encoding is the ISO value, decoding gives the vector back *)
  Definition flags_vec_chk (vals : list bool) : bool :=
    (flags_enc fields enc vals =? iso_flags_value bits fields vals)
    && list_bool_eqb (flags_dec fields dec (flags_enc fields enc vals)) vals.
  (* for a byte: decoding reads the ISO bits, re-encoding gives the byte back up to the bits not carried *)
  Definition flags_byte_chk (b : Z) : bool :=
    list_bool_eqb (flags_dec fields dec b) (iso_flags_of_byte bits fields b)
    && (flags_enc fields enc (flags_dec fields dec b) =? Z.land b (iso_mask bits)).

  Hypothesis Hvec : forallb flags_vec_chk (all_bools (List.length fields)) = true.
  Hypothesis Hbyte : all_below flags_byte_chk 256 = true.

  Lemma flags_vec_ok vals : List.length vals = List.length fields ->
    flags_enc fields enc vals = iso_flags_value bits fields vals /\
    flags_dec fields dec (flags_enc fields enc vals) = vals.
  Proof.
    intros Hl. pose proof Hvec as H. rewrite forallb_forall in H.
    specialize (H vals (all_bools_complete _ vals Hl)). unfold flags_vec_chk in H.
    apply andb_true_iff in H as [H1 H2]. split; [lia|apply list_bool_eqb_eq; exact H2].
  Qed.

  Lemma flags_byte_ok b : 0 <= b < 256 ->
    flags_dec fields dec b = iso_flags_of_byte bits fields b /\
    flags_enc fields enc (flags_dec fields dec b) = Z.land b (iso_mask bits).
  Proof.
    intros Hb. pose proof (all_below_spec flags_byte_chk 256 ltac:(lia) Hbyte b Hb) as H.
    unfold flags_byte_chk in H. apply andb_true_iff in H as [H1 H2].
    split; [apply list_bool_eqb_eq; exact H1|lia].
  Qed.
End Flags.

Lemma status_vec : forallb (flags_vec_chk gen_status_fields gen_status_enc gen_status_dec iso_status_bits)
                           (all_bools (List.length gen_status_fields)) = true.
Proof. vm_compute. reflexivity. Qed.
Lemma status_byte : all_below (flags_byte_chk gen_status_fields gen_status_enc gen_status_dec iso_status_bits) 256 = true.
Proof. vm_compute. reflexivity. Qed.
Lemma severity_vec : forallb (flags_vec_chk gen_severity_fields gen_severity_enc gen_severity_dec iso_severity_bits)
                             (all_bools (List.length gen_severity_fields)) = true.
Proof. vm_compute. reflexivity. Qed.
Lemma severity_byte : all_below (flags_byte_chk gen_severity_fields gen_severity_enc gen_severity_dec iso_severity_bits) 256 = true.
Proof. vm_compute. reflexivity. Qed.
Lemma dtcclass_vec : forallb (flags_vec_chk gen_dtcclass_fields gen_dtcclass_enc gen_dtcclass_dec iso_dtcclass_bits)
                             (all_bools (List.length gen_dtcclass_fields)) = true.
Proof. vm_compute. reflexivity. Qed.
Lemma dtcclass_byte : all_below (flags_byte_chk gen_dtcclass_fields gen_dtcclass_enc gen_dtcclass_dec iso_dtcclass_bits) 256 = true.
Proof. vm_compute. reflexivity. Qed.

Lemma field_counts_and_masks :
  List.length gen_status_fields = 8%nat /\ List.length gen_severity_fields = 3%nat /\
  List.length gen_dtcclass_fields = 5%nat /\
  iso_mask iso_status_bits = 255 /\ iso_mask iso_severity_bits = 224 /\ iso_mask iso_dtcclass_bits = 31.
Proof. vm_compute. repeat split; reflexivity. Qed.

(* ---- CommunicationType -------------------------------------------------------------------------- *)
Definition commtype_val_chk (subnet : Z) : bool :=
  forallb (fun '(n, m) =>
    match mk_commtype subnet n m with
    | inr c =>
      (n || m) && (commtype_byte c =? iso_commtype_byte subnet n m)
      && match commtype_from_byte (commtype_byte c) with
         | inr c' => (ct_subnet c' =? subnet) && Bool.eqb (ct_normal c') n && Bool.eqb (ct_nm c') m
         | inl _ => false
         end
    | inl e => negb (n || m) && (err_code e =? 1)
    end) [(true, true); (true, false); (false, true); (false, false)].
Lemma commtype_val_sweep : all_below commtype_val_chk 16 = true.
Proof. vm_compute. reflexivity. Qed.

Definition commtype_byte_chk (b : Z) : bool :=
  match commtype_from_byte b with
  | inr c => negb (Z.land b 3 =? 0) && (commtype_byte c =? Z.land b 243)
             && (ct_subnet c =? b / 16) && Bool.eqb (ct_normal c) (Z.testbit b 0) && Bool.eqb (ct_nm c) (Z.testbit b 1)
  | inl e => (Z.land b 3 =? 0) && (err_code e =? 1)
  end.
Lemma commtype_byte_sweep : all_below commtype_byte_chk 256 = true.
Proof. vm_compute. reflexivity. Qed.

Lemma commtype_roundtrip subnet n m : 0 <= subnet < 16 -> n || m = true ->
  exists c, mk_commtype subnet n m = inr c /\ commtype_byte c = iso_commtype_byte subnet n m /\
            commtype_from_byte (commtype_byte c) = inr c.
Proof.
  intros Hs Hnm. pose proof (all_below_spec commtype_val_chk 16 ltac:(lia) commtype_val_sweep subnet Hs) as H.
  unfold commtype_val_chk in H. rewrite forallb_forall in H.
  assert (In (n, m) [(true, true); (true, false); (false, true); (false, false)]) as Hin
    by (destruct n, m; cbn; auto 6).
  specialize (H (n, m) Hin). cbv beta iota in H.
  destruct (mk_commtype subnet n m) as [e|c] eqn:Em.
  - rewrite Hnm in H. discriminate.
  - exists c. split; [reflexivity|].
    apply andb_true_iff in H as [H H3]. apply andb_true_iff in H as [_ H2].
    split; [lia|].
    destruct (commtype_from_byte (commtype_byte c)) as [e'|c'] eqn:Ef; [discriminate|].
    apply andb_true_iff in H3 as [H3 Hc]. apply andb_true_iff in H3 as [Ha Hb].
    apply Bool.eqb_prop in Hb. apply Bool.eqb_prop in Hc.
    unfold mk_commtype in Em.
    destruct ((subnet <? 0) || (15 <? subnet)); [discriminate|].
    destruct (negb n && negb m); [discriminate|]. injection Em as Em. subst c.
    destruct c' as [s' n' m']. cbn [ct_subnet ct_normal ct_nm] in *. apply Z.eqb_eq in Ha. subst. reflexivity.
Qed.

Lemma commtype_decode b : 0 <= b < 256 ->
  (Z.land b 3 <> 0 -> exists c, commtype_from_byte b = inr c /\ commtype_byte c = Z.land b 243 /\
      ct_subnet c = b / 16 /\ ct_normal c = Z.testbit b 0 /\ ct_nm c = Z.testbit b 1) /\
  (Z.land b 3 = 0 -> commtype_from_byte b = inl EValue).
Proof.
  intros Hb. pose proof (all_below_spec commtype_byte_chk 256 ltac:(lia) commtype_byte_sweep b Hb) as H.
  unfold commtype_byte_chk in H. destruct (commtype_from_byte b) as [e|c].
  - apply andb_true_iff in H as [H1 H2]. split; [intros; lia|]. intros _. destruct e; cbn in H2; try discriminate. reflexivity.
  - apply andb_true_iff in H as [H H5]. apply andb_true_iff in H as [H H4]. apply andb_true_iff in H as [H H3].
    apply andb_true_iff in H as [H1 H2]. apply Bool.eqb_prop in H4. apply Bool.eqb_prop in H5.
    split; [|intros; lia]. intros _. exists c. repeat split; try assumption; lia.
Qed.

(* ---- DataFormatIdentifier ------------------------------------------------------------------------ *)
Definition dfi_val_chk (c e : Z) : bool :=
  match mk_dfi c e with
  | inr d => (dfi_byte d =? iso_dfi_byte c e)
             && match dfi_from_byte (dfi_byte d) with inr d' => (df_comp d' =? c) && (df_enc d' =? e) | inl _ => false end
  | inl _ => false
  end.
Lemma dfi_val_sweep : all_below2 dfi_val_chk 16 16 = true.
Proof. vm_compute. reflexivity. Qed.
Definition dfi_byte_chk (b : Z) : bool :=
  match dfi_from_byte b with
  | inr d => (dfi_byte d =? b) && (df_comp d =? b / 16) && (df_enc d =? b mod 16)
  | inl _ => false
  end.
Lemma dfi_byte_sweep : all_below dfi_byte_chk 256 = true.
Proof. vm_compute. reflexivity. Qed.

Lemma dfi_roundtrip c e : 0 <= c < 16 -> 0 <= e < 16 ->
  exists d, mk_dfi c e = inr d /\ dfi_byte d = iso_dfi_byte c e /\ dfi_from_byte (dfi_byte d) = inr d.
Proof.
  intros Hc He. pose proof (all_below2_spec dfi_val_chk 16 16 ltac:(lia) ltac:(lia) dfi_val_sweep c e Hc He) as H.
  unfold dfi_val_chk in H. destruct (mk_dfi c e) as [er|d] eqn:Em; [discriminate|].
  exists d. split; [reflexivity|]. apply andb_true_iff in H as [H1 H2]. split; [lia|].
  destruct (dfi_from_byte (dfi_byte d)) as [er|d'] eqn:Ef; [discriminate|].
  unfold mk_dfi in Em. destruct ((c <? 0) || (15 <? c) || (e <? 0) || (15 <? e)); [discriminate|].
  injection Em as Em. subst d. destruct d' as [c' e']. cbn [df_comp df_enc] in *.
  apply andb_true_iff in H2 as [Hx Hy]. apply Z.eqb_eq in Hx. apply Z.eqb_eq in Hy. subst. reflexivity.
Qed.

Lemma dfi_decode b : 0 <= b < 256 ->
  exists d, dfi_from_byte b = inr d /\ dfi_byte d = b /\ df_comp d = b / 16 /\ df_enc d = b mod 16.
Proof.
  intros Hb. pose proof (all_below_spec dfi_byte_chk 256 ltac:(lia) dfi_byte_sweep b Hb) as H.
  unfold dfi_byte_chk in H. destruct (dfi_from_byte b) as [er|d]; [discriminate|].
  exists d. split; [reflexivity|]. lia.
Qed.

(* ---- AddressAndLengthFormatIdentifier ------------------------------------------------------------ *)
(* the maps are exactly bits -> bits / 8 for 8, 16 .. 64 (order independent) *)
Definition alfid_map_ok (m : list (Z * Z)) : bool :=
  forallb (fun '(k, v) => (k =? 8 * v) && (1 <=? v) && (v <=? 8)) m
  && forallb (fun v => match map_get m (8 * v) with Some w => w =? v | None => false end) [1; 2; 3; 4; 5; 6; 7; 8].
Lemma alfid_maps_ok : alfid_map_ok gen_alfid_address_map = true /\ alfid_map_ok gen_alfid_memsize_map = true.
Proof. vm_compute. split; reflexivity. Qed.

Definition alfid_chk (i j : Z) : bool :=
  match mk_alfid (8 * (i + 1)) (8 * (j + 1)) with
  | inr a => match alfid_byte a with
             | inr v => (v =? iso_alfid_byte (8 * (i + 1)) (8 * (j + 1))) && (v / 16 =? j + 1) && (v mod 16 =? i + 1)
             | inl _ => false end
  | inl _ => false
  end.
Lemma alfid_sweep : all_below2 alfid_chk 8 8 = true.
Proof. vm_compute. reflexivity. Qed.

Lemma alfid_nibbles na ns : 1 <= na <= 8 -> 1 <= ns <= 8 ->
  exists a v, mk_alfid (8 * na) (8 * ns) = inr a /\ alfid_byte a = inr v /\
              v = iso_alfid_byte (8 * na) (8 * ns) /\ v / 16 = ns /\ v mod 16 = na.
Proof.
  intros Ha Hs.
  pose proof (all_below2_spec alfid_chk 8 8 ltac:(lia) ltac:(lia) alfid_sweep (na - 1) (ns - 1) ltac:(lia) ltac:(lia)) as H.
  unfold alfid_chk in H. replace (na - 1 + 1) with na in H by lia. replace (ns - 1 + 1) with ns in H by lia.
  destruct (mk_alfid (8 * na) (8 * ns)) as [e|a]; [discriminate|].
  destruct (alfid_byte a) as [e|v] eqn:Eb; [discriminate|]. exists a, v.
  apply andb_true_iff in H as [H H3]. apply andb_true_iff in H as [H1 H2].
  apply Z.eqb_eq in H1. apply Z.eqb_eq in H2. apply Z.eqb_eq in H3. auto.
Qed.

(* ---- Baudrate ----------------------------------------------------------------------------------- *)
Lemma baud_types_distinct :
  gen_baud_Fixed = 0 /\ gen_baud_Specific = 1 /\ gen_baud_Identifier = 2 /\ gen_baud_Auto = 3.
Proof. vm_compute. repeat split; reflexivity. Qed.

(* the table of fixed baud rates is ISO's, both ways *)
Definition baud_table_chk : bool :=
  forallb (fun '(k, v) => match map_get iso_baud_ids k with Some w => w =? v | None => false end) gen_baudrate_map
  && forallb (fun '(k, v) => match map_get gen_baudrate_map k with Some w => w =? v | None => false end) iso_baud_ids.
(* for every ISO row (rate, id): Fixed encodes to [id]; Identifier id decodes (effective) to rate; Auto picks
   Fixed; changing an Identifier baud rate to Fixed or Specific gives the rate back *)
Definition baud_row_chk : bool :=
  forallb (fun '(k, v) =>
    match mk_baud k gen_baud_Fixed, mk_baud v gen_baud_Identifier, mk_baud k gen_baud_Auto with
    | inr bf, inr bi, inr ba =>
      match baud_bytes bf, baud_bytes bi, baud_effective bi, baud_make_new_type bi gen_baud_Fixed,
            baud_make_new_type bi gen_baud_Specific with
      | inr [x], inr [y], inr r, inr nf, inr ns =>
        (x =? v) && (y =? v) && (r =? k) && (bd_rate nf =? k) && (bd_type nf =? gen_baud_Fixed)
        && (bd_rate ns =? k) && (bd_type ns =? gen_baud_Specific) && (bd_type ba =? gen_baud_Fixed)
      | _, _, _, _, _ => false
      end
    | _, _, _ => false
    end) iso_baud_ids.
Lemma baud_table_ok : baud_table_chk = true /\ baud_row_chk = true.
Proof. vm_compute. split; reflexivity. Qed.

Definition baud_id_chk (r : Z) : bool :=
  match mk_baud r gen_baud_Identifier with
  | inr b => match baud_bytes b with inr [x] => x =? r | _ => false end
  | inl _ => false
  end.
Lemma baud_id_sweep : all_below baud_id_chk 256 = true.
Proof. vm_compute. reflexivity. Qed.

Lemma baud_identifier r : 0 <= r < 256 ->
  exists b, mk_baud r gen_baud_Identifier = inr b /\ baud_bytes b = inr [r].
Proof.
  intros Hr. pose proof (all_below_spec baud_id_chk 256 ltac:(lia) baud_id_sweep r Hr) as H.
  unfold baud_id_chk in H. destruct (mk_baud r gen_baud_Identifier) as [e|b]; [discriminate|].
  exists b. split; [reflexivity|]. destruct (baud_bytes b) as [e|[|x [|y l]]]; try discriminate.
  f_equal. f_equal. lia.
Qed.

Lemma three_bytes v : 0 <= v < 16777216 ->
  (b1 <- pack_B (Z.land (Z.shiftr v 16) 255) ;;
   b2 <- pack_B (Z.land (Z.shiftr v 8) 255) ;;
   b3 <- pack_B (Z.land (Z.shiftr v 0) 255) ;; ret (b1 ++ b2 ++ b3)) = inr (be_enc 3 v).
Proof.
  intros Hv. rewrite !shr_land_255 by lia. change (2 ^ 16) with 65536. change (2 ^ 8) with 256. change (2 ^ 0) with 1.
  rewrite Z.div_1_r.
  unfold pack_B. rewrite !pack_be_ok by (change (256 ^ Z.of_nat 1) with 256; lia).
  cbn [bind ret]. rewrite be_enc_3. cbn [be_enc app].
  rewrite !Z.mod_mod by lia. reflexivity.
Qed.

(* 24-bit specific baud rate: every value 0..0xFFFFFF is sent as its 3-byte big-endian encoding *)
Lemma baud_specific r : 0 <= r <= 16777215 ->
  exists b, mk_baud r gen_baud_Specific = inr b /\ bd_rate b = r /\ baud_bytes b = inr (be_enc 3 r) /\
            be_dec (be_enc 3 r) = r.
Proof.
  intros Hr. unfold mk_baud. replace (r <? 0) with false by lia.
  change (gen_baud_Specific =? gen_baud_Auto) with false. cbv iota.
  change (gen_baud_Specific =? gen_baud_Specific) with true. cbv iota.
  replace (16777215 <? r) with false by lia.
  eexists. split; [reflexivity|]. split; [reflexivity|]. split.
  - unfold baud_bytes. cbn [bd_type bd_rate].
    change (gen_baud_Specific =? gen_baud_Fixed) with false. change (gen_baud_Specific =? gen_baud_Specific) with true.
    cbv iota. exact (three_bytes r ltac:(lia)).
  - apply be_dec_enc. change (256 ^ Z.of_nat 3) with 16777216. lia.
Qed.

Lemma baud_specific_too_big r : 16777215 < r -> mk_baud r gen_baud_Specific = inl EValue.
Proof.
  intros Hr. unfold mk_baud. replace (r <? 0) with false by lia.
  change (gen_baud_Specific =? gen_baud_Auto) with false. cbv iota.
  change (gen_baud_Specific =? gen_baud_Specific) with true. cbv iota.
  replace (16777215 <? r) with true by lia. reflexivity.
Qed.

(* ---- pack_dtc ----------------------------------------------------------------------------------- *)
Lemma pack_dtc_ok d : 0 <= d < 16777216 ->
  pack_dtc d = inr (be_enc 3 d) /\ be_dec (be_enc 3 d) = d /\ wf_bytes (be_enc 3 d).
Proof.
  intros Hd. split; [unfold pack_dtc; exact (three_bytes d Hd)|]. split; [|apply be_enc_wf].
  apply be_dec_enc. change (256 ^ Z.of_nat 3) with 16777216. lia.
Qed.
