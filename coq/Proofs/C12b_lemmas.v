(* Proofs for C12, continued: the client model composed with the reference ECU.  One call of the client is run reactively against the
   ECU (Model/Ecu.v `react`: every frame the client sends is processed by the ECU, its answer arrives 1 + lat microseconds later);
   for a client outside suppress / override blocks whose first window admits that delay, a write followed by a read returns the
   written value (data identifiers, memory ranges), and request_download + transfer_data blocks + request_transfer_exit leave exactly
   the concatenated blocks at the requested address. *)
From Coq Require Import ZArith List Bool String Lia ZifyBool.
From UDS Require Import Lib.Bytes Lib.ErrM Lib.PyOps Gen.Maps Spec.IsoBits Spec.IsoRequests Model.Message Model.Client Model.Services
  Model.Helpers Model.MemLoc Model.Svc_Simple Model.Svc_Memory Model.Svc_Did Model.Svc_File Model.Svc_Dtc Model.History Model.Ecu
  Proofs.Bytes_lemmas Proofs.C17_lemmas Proofs.C19_lemmas Proofs.C05_lemmas Proofs.Client_lemmas Proofs.C14_lemmas Proofs.C07_lemmas
  Proofs.C02_lemmas Proofs.C12_lemmas.
Import ListNotations.
Open Scope string_scope.
Open Scope Z_scope.
Open Scope list_scope.

(* ---- the client model and the reference ECU, composed ------------------------------------------------------------------ *)
(* a client outside any suppress / override block *)
Definition plain (st : cstate) : Prop := spr_on st = false /\ ov st = OvOff.
(* a reply that arrives d microseconds after the request is inside the first window *)
Definition in_first_window (cfg : config) (st : cstate) (d : Z) : Prop :=
  0 < d /\ d <= (match st_p2 st with Some v => v | None => p2 cfg end) /\ (forall o, req_to cfg = Some o -> d <= o).

Lemma first_wait_ok single deadline now d p2v :
  (deadline = None /\ single = p2v /\ d <= p2v) \/ (exists o, deadline = Some (now + o) /\ single = Z.min o p2v /\ d <= o /\ d <= p2v) ->
  now + d <= now + snd (wait_len single deadline now).
Proof.
  intros [(-> & -> & H)|(o & -> & -> & H1 & H2)]; unfold wait_len; cbn [snd]; [lia|].
  destruct (now + Z.min o p2v <? now + o); cbn [snd]; lia.
Qed.

Lemma send_request_one_reply cfg st r sv p now d f rs code :
  wire_payload st r = inr p -> q_svc r = Some sv -> q_spr r = false -> spr_on st = false ->
  in_first_window cfg st d ->
  p_valid (parse_response f) = true -> p_svc (parse_response f) = Some rs -> p_code (parse_response f) = Some code ->
  s_sid rs = s_sid sv -> p_positive (parse_response f) = true ->
  exists w, send_request cfg st r (-1) now [(now + d, Frame f)]
            = (COk (Some (parse_response f)), now + d, [], [EvF; EvS p; EvW w now]).
Proof.
  intros Hw Hsv Hspr Hso (Hd0 & Hd1 & Hd2) Hv Hs Hc Hsid Hpos.
  unfold send_request. rewrite Hsv. change (-1 <? 0) with true. cbv iota.
  cbn [flush]. replace (now + d <=? now) with false by lia.
  rewrite Hso. cbn [andb]. unfold wire_payload in Hw. rewrite Hsv, Hso in Hw. cbn [andb] in Hw.
  destruct (request_payload r None) as [e|p0]; cbn [bind ret] in Hw; [discriminate|]. injection Hw as Hp.
  rewrite Hspr. cbn [orb andb negb]. rewrite Hp.
  cbn [wait_loop].
  match goal with |- context [wait_len ?sg ?dl now] =>
    assert (now + d <= now + snd (wait_len sg dl now)) as Hwin
      by (apply (first_wait_ok sg dl now d (match st_p2 st with Some v => v | None => p2 cfg end));
          destruct (req_to cfg) as [o|]; [right; exists o; repeat split; auto|left; repeat split; auto]);
    destruct (wait_len sg dl now) as [is_single w]
  end.
  cbn [snd] in Hwin. replace (now + d <=? now + w) with true by lia.
  rewrite Hv. cbn [negb]. rewrite Hs, Hc. rewrite Hsid, Z.eqb_refl. cbn [negb]. rewrite Hpos. cbn [negb].
  replace (Z.max now (now + d)) with (now + d) by lia. exists w. reflexivity.
Qed.

Lemma wdbi_service : exists s, svc_by_name "WriteDataByIdentifier" = Some s /\ from_response_id 110 = Some s /\ s_sid s = 46 /\ s_sub s = false
                               /\ s_rdata s = true /\ In s services.
Proof. eexists. split; [vm_compute; reflexivity|]. split; [vm_compute; reflexivity|]. repeat split; vm_compute; tauto. Qed.

Lemma did_bytes did : 0 <= did <= 65535 -> be_enc 2 did = [did / 256; did mod 256] /\ (did / 256) * 256 + did mod 256 = did /\ 0 <= did / 256 <= 255.
Proof.
  intros H. split; [|lia]. cbn [be_enc app]. replace (did / 256 / 256) with 0 by lia.
  replace ((did / 256) mod 256) with (did / 256) by lia. reflexivity.
Qed.

(* write_data_by_identifier against the ECU: the value is stored under the identifier, the call returns the echo *)
Theorem write_did_composed cfg st e did v now lat :
  plain st -> in_first_window cfg st (1 + lat) -> 0 <= did <= 65535 ->
  (exists sh, fetch_codec (pc_of cfg) did = inr sh /\ (sh < 0 \/ Z.of_nat (List.length v) = sh)) ->
  let '(out, st', t, tr, e') := react 4 cfg st e (CWriteDid did v) now lat 0 [] in
  (exists r, out = ORet (Some (r, [did]))) /\ st' = st /\ t = now + 1 + lat /\
  sent_frames tr = [46 :: be_enc 2 did ++ v] /\
  abs_did e' did = Some v /\ (forall k, k <> did -> abs_did e' k = abs_did e k) /\ e_mem e' = e_mem e /\ e_dl e' = e_dl e.
Proof.
  intros [Hso Hov] Hwin Hdid (sh & Hsh & Hlen).
  destruct wdbi_service as (sv & Hname & Hresp & Hsid & Hsub & Hrd & Hin).
  destruct (did_bytes did Hdid) as (Hb & Hcomb & Hhi).
  (* the request *)
  assert (exists rq, wdbi_make cfg did v = inr rq /\ q_svc rq = Some sv /\ q_spr rq = false /\
                     wire_payload st rq = inr (46 :: be_enc 2 did ++ v)) as (rq & Hmk & Hq1 & Hq2 & Hwire).
  { unfold wdbi_make. rewrite validate_int_in by lia. cbn [bind]. rewrite Hsh. cbn [bind]. rewrite pack_H_ok by lia. cbn [bind].
    unfold codec_encode. replace ((sh <? 0) || (Z.of_nat (List.length v) =? sh)) with true by lia. cbn [bind ret].
    unfold mk_req_data, mk_req. rewrite Hname. unfold mk_request. cbn [andb]. eexists. split; [reflexivity|]. cbn [q_svc q_spr].
    split; [reflexivity|]. split; [reflexivity|].
    pose proof (wire_nosub st sv (Some (be_enc 2 did ++ v)) _ Hin Hsub eq_refl) as Hw. rewrite Hov, Hsid in Hw. exact Hw. }
  (* the ECU's answer *)
  pose proof (ecu_write_did e (did / 256) (did mod 256) v) as He. rewrite Hcomb in He.
  (* the reply, parsed *)
  set (f := [110; did / 256; did mod 256]).
  assert (parse_response f = {| p_svc := Some sv; p_code := Some 0; p_name := nrc_name 0; p_positive := true; p_valid := true;
                                p_reason := RNone; p_unexpected := false; p_data := [did / 256; did mod 256]; p_orig := Some f |}) as Hparse.
  { unfold f, parse_response. change (negb (110 =? 127)) with true. cbv iota. rewrite Hresp. reflexivity. }
  (* first pass: silence *)
  cbn [react]. unfold run_call at 1. cbn [run_inner is_decorated]. unfold write_data_by_identifier at 1.
  pose proof (accepted_sends_frame cfg st (wdbi_make cfg did v) (wdbi_interpret did) no_post now [] (46 :: be_enc 2 did ++ v)) as Hs1.
  assert (frame_of st (wdbi_make cfg did v) = inr (46 :: be_enc 2 did ++ v)) as Hfo by (unfold frame_of; rewrite Hmk; exact Hwire).
  specialize (Hs1 Hfo).
  destruct (single_request cfg st (wdbi_make cfg did v) (wdbi_interpret did) no_post now []) as [[[[res0 st0] t0] s0] tr0].
  cbv beta iota in Hs1. change (sent tr0) with (sent_frames tr0) in Hs1. rewrite Hs1. cbn [List.length Nat.ltb Nat.leb nth].
  rewrite Hb. cbn [app]. destruct (ecu_step e (46 :: did / 256 :: did mod 256 :: v)) as [e' rep].
  destruct He as (Hrep & Habs & Hother & Hmem & Hdl). subst rep.
  (* second pass: the answer is there *)
  cbn [app]. cbn [react]. unfold run_call at 1. cbn [run_inner is_decorated]. unfold write_data_by_identifier at 1.
  unfold single_request. rewrite Hmk.
  replace (now + 1 + lat + Z.of_nat 0) with (now + (1 + lat)) by lia.
  destruct (send_request_one_reply cfg st rq sv _ now (1 + lat) f sv 0 Hwire Hq1 Hq2 Hso Hwin
              ltac:(rewrite Hparse; reflexivity) ltac:(rewrite Hparse; reflexivity) ltac:(rewrite Hparse; reflexivity) eq_refl
              ltac:(rewrite Hparse; reflexivity)) as (w & Hsr).
  fold f. rewrite Hsr. unfold wdbi_interpret. rewrite Hparse. cbn [p_data]. rewrite Hcomb, Z.eqb_refl. cbn [guard bind ret deliver no_post].
  cbn [sent_frames flat_map app List.length Nat.ltb Nat.leb].
  split; [eexists; reflexivity|]. split; [reflexivity|]. split; [lia|]. split; [rewrite Hb; reflexivity|].
  split; [exact Habs|]. split; [exact Hother|]. split; assumption.
Qed.

Lemma rdbi_service : exists s, svc_by_name "ReadDataByIdentifier" = Some s /\ from_response_id 98 = Some s /\ s_sid s = 34 /\ s_sub s = false
                               /\ In s services.
Proof. eexists. split; [vm_compute; reflexivity|]. split; [vm_compute; reflexivity|]. repeat split; vm_compute; tauto. Qed.

(* read_data_by_identifier of one identifier against an ECU that holds a value of the configured length: that value is returned *)
Theorem read_did_composed cfg st e did v now lat :
  plain st -> in_first_window cfg st (1 + lat) -> 0 < did <= 65535 ->
  fetch_codec (pc_of cfg) did = inr (Z.of_nat (List.length v)) -> abs_did e did = Some v ->
  let '(out, st', t, tr, e') := react 4 cfg st e (CReadDids [did]) now lat 0 [] in
  (exists r, out = ORet (Some (r, enc_values [(did, v)]))) /\ st' = st /\ t = now + 1 + lat /\
  sent_frames tr = [34 :: be_enc 2 did] /\ e' = e.
Proof.
  intros [Hso Hov] Hwin Hdid Hsh Habs.
  destruct rdbi_service as (sv & Hname & Hresp & Hsid & Hsub & Hin).
  destruct (did_bytes did ltac:(lia)) as (Hb & Hcomb & Hhi).
  assert (exists rq, rdbi_make cfg true [did] = inr rq /\ q_svc rq = Some sv /\ q_spr rq = false /\
                     wire_payload st rq = inr (34 :: be_enc 2 did)) as (rq & Hmk & Hq1 & Hq2 & Hwire).
  { unfold rdbi_make. cbn [iterM]. rewrite validate_int_in by lia. cbn [bind ret readall_rule]. rewrite Hsh. cbn [bind ret].
    cbn [pack_dids]. rewrite pack_H_ok by lia. cbn [bind ret]. rewrite app_nil_r.
    unfold mk_req_data, mk_req. rewrite Hname. unfold mk_request. cbn [andb]. eexists. split; [reflexivity|]. cbn [q_svc q_spr].
    split; [reflexivity|]. split; [reflexivity|].
    pose proof (wire_nosub st sv (Some (be_enc 2 did)) _ Hin Hsub eq_refl) as Hw. rewrite Hov, Hsid in Hw. exact Hw. }
  rewrite <- Hcomb in Habs. pose proof (ecu_read_did e (did / 256) (did mod 256) v Habs) as He.
  set (f := 98 :: did / 256 :: did mod 256 :: v).
  assert (parse_response f = {| p_svc := Some sv; p_code := Some 0; p_name := nrc_name 0; p_positive := true; p_valid := true;
                                p_reason := RNone; p_unexpected := false; p_data := did / 256 :: did mod 256 :: v; p_orig := Some f |}) as Hparse.
  { unfold f, parse_response. change (negb (98 =? 127)) with true. cbv iota. rewrite Hresp. reflexivity. }
  cbn [react]. unfold run_call at 1. cbn [run_inner is_decorated]. unfold read_data_by_identifier at 1.
  set (interp := fun r : resp => v0 <- rdbi_interpret cfg [did] r ;; ret (enc_values v0)).
  pose proof (accepted_sends_frame cfg st (rdbi_make cfg true [did]) interp no_post now [] (34 :: be_enc 2 did)) as Hs1.
  assert (frame_of st (rdbi_make cfg true [did]) = inr (34 :: be_enc 2 did)) as Hfo by (unfold frame_of; rewrite Hmk; exact Hwire).
  specialize (Hs1 Hfo).
  destruct (single_request cfg st (rdbi_make cfg true [did]) interp no_post now []) as [[[[res0 st0] t0] s0] tr0].
  cbv beta iota in Hs1. change (sent tr0) with (sent_frames tr0) in Hs1. rewrite Hs1. cbn [List.length Nat.ltb Nat.leb nth].
  rewrite Hb. cbn [app]. rewrite He.
  cbn [app]. cbn [react]. unfold run_call at 1. cbn [run_inner is_decorated]. unfold read_data_by_identifier at 1. fold interp.
  unfold single_request. rewrite Hmk.
  replace (now + 1 + lat + Z.of_nat 0) with (now + (1 + lat)) by lia.
  destruct (send_request_one_reply cfg st rq sv _ now (1 + lat) f sv 0 Hwire Hq1 Hq2 Hso Hwin
              ltac:(rewrite Hparse; reflexivity) ltac:(rewrite Hparse; reflexivity) ltac:(rewrite Hparse; reflexivity) eq_refl
              ltac:(rewrite Hparse; reflexivity)) as (w & Hsr).
  fold f. rewrite Hsr.
  assert (interp (parse_response f) = inr (enc_values [(did, v)])) as Hint.
  { unfold interp, rdbi_interpret. rewrite Hparse. cbn [p_data].
    pose proof (rdbi_loop_decode (pc_of cfg) [did] [(did, v)] [] [] (S (List.length (did / 256 :: did mod 256 :: v)))) as HL.
    cbn [app enc_dids flat_map List.length] in HL. unfold enc_did in HL. cbn [fst snd] in HL. rewrite Hb in HL. cbn [app] in HL. rewrite app_nil_r in HL.
    cbn [List.length]. rewrite HL.
    - cbn [bind app forallb existsb]. rewrite Z.eqb_refl. cbn [orb andb guard bind ret]. reflexivity.
    - constructor; [|constructor]. split; [cbn [fst]; lia|exact Hsh].
    - constructor; [|constructor]. left. cbn [fst]. lia.
    - cbn [map fst app]. constructor; [intros []|constructor].
    - cbn [List.length]. lia. }
  rewrite Hint. cbn [deliver no_post sent_frames flat_map app List.length Nat.ltb Nat.leb].
  split; [eexists; reflexivity|]. split; [reflexivity|]. split; [lia|]. split; [rewrite Hb; reflexivity|reflexivity].
Qed.

(* C12 for the DID store: whatever was written through the client is what a read through the client returns *)
Theorem write_then_read_composed cfg st e did v now now2 lat :
  plain st -> in_first_window cfg st (1 + lat) -> 0 < did <= 65535 ->
  fetch_codec (pc_of cfg) did = inr (Z.of_nat (List.length v)) ->
  let '(_, st1, _, _, e1) := react 4 cfg st e (CWriteDid did v) now lat 0 [] in
  let '(out, _, _, _, e2) := react 4 cfg st1 e1 (CReadDids [did]) now2 lat 0 [] in
  (exists r, out = ORet (Some (r, enc_values [(did, v)]))) /\ e2 = e1.
Proof.
  intros Hp Hw Hd Hsh.
  pose proof (write_did_composed cfg st e did v now lat Hp Hw ltac:(lia) (ex_intro _ _ (conj Hsh (or_intror eq_refl)))) as H1.
  destruct (react 4 cfg st e (CWriteDid did v) now lat 0 []) as [[[[out1 st1] t1] tr1] e1].
  destruct H1 as (_ & -> & _ & _ & Habs & _).
  pose proof (read_did_composed cfg st e1 did v now2 lat Hp Hw Hd Hsh Habs) as H2.
  destruct (react 4 cfg st e1 (CReadDids [did]) now2 lat 0 []) as [[[[out2 st2] t2] tr2] e2].
  destruct H2 as (Hr & _ & _ & _ & He). split; assumption.
Qed.

Lemma parse_memloc_wire na ns addr size data :
  1 <= na <= 8 -> 1 <= ns <= 8 -> 0 <= addr < 256 ^ na -> 0 <= size < 256 ^ ns ->
  parse_memloc ((16 * ns + na) :: be_enc (Z.to_nat na) addr ++ be_enc (Z.to_nat ns) size ++ data)
  = Some ((16 * ns + na) :: be_enc (Z.to_nat na) addr ++ be_enc (Z.to_nat ns) size, addr, size, data).
Proof.
  intros Ha Hs Ra Rs. unfold parse_memloc.
  replace ((16 * ns + na) mod 16) with na by lia. replace ((16 * ns + na) / 16) with ns by lia.
  set (A := Z.to_nat na). set (S_ := Z.to_nat ns).
  assert ((1 <= A <= 8)%nat /\ (1 <= S_ <= 8)%nat) as [HA HS] by (unfold A, S_; lia).
  rewrite !app_length, !be_enc_length.
  replace (Nat.leb 1 A && Nat.leb A 8 && Nat.leb 1 S_ && Nat.leb S_ 8 && Nat.leb (A + S_) (A + (S_ + List.length data))) with true.
  2:{ symmetry. rewrite !andb_true_iff. repeat split; apply Nat.leb_le; lia. }
  assert (firstn (A + S_) (be_enc A addr ++ be_enc S_ size ++ data) = be_enc A addr ++ be_enc S_ size) as F1.
  { rewrite app_assoc. rewrite <- (be_enc_length A addr) at 1. rewrite <- (be_enc_length S_ size) at 1. rewrite <- app_length. apply firstn_app_exact. }
  assert (firstn A (be_enc A addr ++ be_enc S_ size ++ data) = be_enc A addr) as F2
    by (rewrite <- (be_enc_length A addr) at 1; apply firstn_app_exact).
  assert (skipn A (be_enc A addr ++ be_enc S_ size ++ data) = be_enc S_ size ++ data) as F3
    by (rewrite <- (be_enc_length A addr) at 1; apply skipn_app_exact).
  assert (firstn S_ (be_enc S_ size ++ data) = be_enc S_ size) as F4
    by (rewrite <- (be_enc_length S_ size) at 1; apply firstn_app_exact).
  assert (skipn (A + S_) (be_enc A addr ++ be_enc S_ size ++ data) = data) as F5.
  { rewrite app_assoc. rewrite <- (be_enc_length A addr) at 1. rewrite <- (be_enc_length S_ size) at 1. rewrite <- app_length. apply skipn_app_exact. }
  rewrite F1, F2, F3, F4, F5.
  rewrite !be_dec_enc by (unfold A, S_; rewrite Z2Nat.id by lia; assumption). reflexivity.
Qed.

Lemma mem_services :
  (exists s, svc_by_name "WriteMemoryByAddress" = Some s /\ from_response_id 125 = Some s /\ s_sid s = 61 /\ s_sub s = false /\ In s services) /\
  (exists s, svc_by_name "ReadMemoryByAddress" = Some s /\ from_response_id 99 = Some s /\ s_sid s = 35 /\ s_sub s = false /\ In s services).
Proof. split; eexists; (split; [vm_compute; reflexivity|]); (split; [vm_compute; reflexivity|]); repeat split; vm_compute; tauto. Qed.

(* the resolved widths of a memory location, as the client sends them *)
Definition resolves (cfg : config) (addr size : Z) (af sf : option Z) (m : memloc) (na ns : Z) : Prop :=
  client_memloc cfg addr size af sf = inr m /\ 1 <= na <= 8 /\ 1 <= ns <= 8 /\
  al_addr (ml_alfid m) = 8 * na /\ al_size (ml_alfid m) = 8 * ns /\ ml_addr m = addr /\ ml_size m = size /\
  0 <= addr < 256 ^ na /\ 0 <= size < 256 ^ ns.

Definition memloc_frame (na ns addr size : Z) : bytes := (16 * ns + na) :: be_enc (Z.to_nat na) addr ++ be_enc (Z.to_nat ns) size.

Lemma resolves_wire cfg addr size af sf m na ns : resolves cfg addr size af sf m na ns -> memloc_wire m = inr (memloc_frame na ns addr size).
Proof.
  intros (Hm & Ha & Hs & Ea & Es & Eaddr & Esize & Ra & Rs).
  destruct (memloc_wire_spec m na ns Ha Hs Ea Es) as [H _]. rewrite Eaddr, Esize in H. apply H. split; assumption.
Qed.

(* write_memory_by_address against the ECU: the bytes are stored at the address, the echo is accepted *)
Theorem write_mem_composed cfg st e addr size af sf data m na ns now lat :
  plain st -> in_first_window cfg st (1 + lat) -> resolves cfg addr size af sf m na ns -> Z.of_nat (List.length data) = size ->
  let '(out, st', t, tr, e') := react 4 cfg st e (CWriteMem addr size af sf data) now lat 0 [] in
  (exists r, out = ORet (Some (r, [16 * ns + na; addr; size]))) /\ st' = st /\
  sent_frames tr = [61 :: memloc_frame na ns addr size ++ data] /\
  e' = set_mem e (mem_write (e_mem e) addr data).
Proof.
  intros [Hso Hov] Hwin Hres Hlen. pose proof (resolves_wire _ _ _ _ _ _ _ _ Hres) as Hwire0.
  destruct Hres as (Hm & Ha & Hs & Ea & Es & Eaddr & Esize & Ra & Rs).
  destruct mem_services as [(sv & Hname & Hresp & Hsid & Hsub & Hin) _].
  set (fr := 61 :: memloc_frame na ns addr size ++ data).
  assert (exists rq, wmba_make cfg addr size af sf data = inr rq /\ q_svc rq = Some sv /\ q_spr rq = false /\ wire_payload st rq = inr fr)
    as (rq & Hmk & Hq1 & Hq2 & Hwire).
  { unfold wmba_make. rewrite Hm. cbn [bind]. rewrite Hwire0. cbn [bind].
    unfold mk_req_data, mk_req. rewrite Hname. unfold mk_request. cbn [andb]. eexists. split; [reflexivity|]. cbn [q_svc q_spr].
    split; [reflexivity|]. split; [reflexivity|].
    pose proof (wire_nosub st sv (Some (memloc_frame na ns addr size ++ data)) _ Hin Hsub eq_refl) as Hw. rewrite Hov, Hsid in Hw. exact Hw. }
  assert (ecu_step e fr = (set_mem e (mem_write (e_mem e) addr data), 125 :: memloc_frame na ns addr size)) as He.
  { unfold fr, memloc_frame. cbn [ecu_step app]. cbn [Z.eqb Pos.eqb].
    rewrite <- app_assoc. rewrite (parse_memloc_wire na ns addr size data Ha Hs Ra Rs). rewrite Hlen, Z.eqb_refl. reflexivity. }
  set (f := 125 :: memloc_frame na ns addr size).
  assert (parse_response f = {| p_svc := Some sv; p_code := Some 0; p_name := nrc_name 0; p_positive := true; p_valid := true;
                                p_reason := RNone; p_unexpected := false; p_data := memloc_frame na ns addr size; p_orig := Some f |}) as Hparse.
  { unfold f, parse_response, memloc_frame. change (negb (125 =? 127)) with true. cbv iota. rewrite Hresp. reflexivity. }
  cbn [react]. unfold run_call at 1. cbn [run_inner is_decorated]. unfold write_memory_by_address at 1.
  pose proof (accepted_sends_frame cfg st (wmba_make cfg addr size af sf data) (wmba_interpret cfg addr size af sf) no_post now [] fr) as Hs1.
  assert (frame_of st (wmba_make cfg addr size af sf data) = inr fr) as Hfo by (unfold frame_of; rewrite Hmk; exact Hwire).
  specialize (Hs1 Hfo).
  destruct (single_request cfg st (wmba_make cfg addr size af sf data) (wmba_interpret cfg addr size af sf) no_post now []) as [[[[res0 st0] t0] s0] tr0].
  cbv beta iota in Hs1. change (sent tr0) with (sent_frames tr0) in Hs1. rewrite Hs1. cbn [List.length Nat.ltb Nat.leb nth].
  rewrite He. fold f.
  cbn [react]. unfold run_call at 1. cbn [run_inner is_decorated]. unfold write_memory_by_address at 1.
  unfold single_request. rewrite Hmk.
  replace (now + 1 + lat + Z.of_nat 0) with (now + (1 + lat)) by lia.
  destruct (send_request_one_reply cfg st rq sv _ now (1 + lat) f sv 0 Hwire Hq1 Hq2 Hso Hwin
              ltac:(rewrite Hparse; reflexivity) ltac:(rewrite Hparse; reflexivity) ltac:(rewrite Hparse; reflexivity) eq_refl
              ltac:(rewrite Hparse; reflexivity)) as (w & Hsr).
  unfold f at 1. cbn [app]. fold f. rewrite Hsr.
  rewrite (wmba_echo cfg addr size af sf m na ns (parse_response f) [] Hm Ha Hs Ea Es Eaddr Esize Ra Rs)
    by (rewrite Hparse; cbn [p_data]; unfold memloc_frame; rewrite app_nil_r; reflexivity).
  cbn [deliver no_post sent_frames flat_map app List.length Nat.ltb Nat.leb].
  split; [eexists; reflexivity|]. split; [reflexivity|]. split; reflexivity.
Qed.

(* read_memory_by_address against the ECU: the stored bytes of the range come back *)
Theorem read_mem_composed cfg st e addr size af sf out m na ns now lat :
  plain st -> in_first_window cfg st (1 + lat) -> resolves cfg addr size af sf m na ns ->
  mem_read (e_mem e) addr (Z.to_nat size) = Some out -> Z.of_nat (List.length out) = size -> 0 < size ->
  let '(res, st', t, tr, e') := react 4 cfg st e (CReadMem addr size af sf) now lat 0 [] in
  (exists r, res = ORet (Some (r, enc_bytes out))) /\ st' = st /\ sent_frames tr = [35 :: memloc_frame na ns addr size] /\ e' = e.
Proof.
  intros [Hso Hov] Hwin Hres Hrd Hlen Hpos. pose proof (resolves_wire _ _ _ _ _ _ _ _ Hres) as Hwire0.
  destruct Hres as (Hm & Ha & Hs & Ea & Es & Eaddr & Esize & Ra & Rs).
  destruct mem_services as [_ (sv & Hname & Hresp & Hsid & Hsub & Hin)].
  set (fr := 35 :: memloc_frame na ns addr size).
  assert (exists rq, rmba_make cfg addr size af sf = inr rq /\ q_svc rq = Some sv /\ q_spr rq = false /\ wire_payload st rq = inr fr)
    as (rq & Hmk & Hq1 & Hq2 & Hwire).
  { unfold rmba_make. rewrite Hm. cbn [bind]. rewrite Hwire0. cbn [bind].
    unfold mk_req_data, mk_req. rewrite Hname. unfold mk_request. cbn [andb]. eexists. split; [reflexivity|]. cbn [q_svc q_spr].
    split; [reflexivity|]. split; [reflexivity|].
    pose proof (wire_nosub st sv (Some (memloc_frame na ns addr size)) _ Hin Hsub eq_refl) as Hw. rewrite Hov, Hsid in Hw. exact Hw. }
  assert (out <> []) as Hne by (intros ->; cbn in Hlen; lia).
  assert (ecu_step e fr = (e, 99 :: out)) as He.
  { unfold fr, memloc_frame. cbn [ecu_step]. cbn [Z.eqb Pos.eqb].
    pose proof (parse_memloc_wire na ns addr size [] Ha Hs Ra Rs) as Hp. rewrite app_nil_r in Hp. rewrite Hp. rewrite Hrd.
    destruct out as [|o1 out']; [congruence|]. reflexivity. }
  set (f := 99 :: out).
  assert (parse_response f = {| p_svc := Some sv; p_code := Some 0; p_name := nrc_name 0; p_positive := true; p_valid := true;
                                p_reason := RNone; p_unexpected := false; p_data := out; p_orig := Some f |}) as Hparse.
  { unfold f, parse_response. change (negb (99 =? 127)) with true. cbv iota. rewrite Hresp. destruct out as [|o1 out']; [congruence|]. reflexivity. }
  cbn [react]. unfold run_call at 1. cbn [run_inner is_decorated]. unfold read_memory_by_address at 1.
  pose proof (accepted_sends_frame cfg st (rmba_make cfg addr size af sf) (rmba_interpret cfg size) no_post now [] fr) as Hs1.
  assert (frame_of st (rmba_make cfg addr size af sf) = inr fr) as Hfo by (unfold frame_of; rewrite Hmk; exact Hwire).
  specialize (Hs1 Hfo).
  destruct (single_request cfg st (rmba_make cfg addr size af sf) (rmba_interpret cfg size) no_post now []) as [[[[res0 st0] t0] s0] tr0].
  cbv beta iota in Hs1. change (sent tr0) with (sent_frames tr0) in Hs1. rewrite Hs1. cbn [List.length Nat.ltb Nat.leb nth].
  rewrite He.
  cbn [react app]. fold f. unfold run_call at 1. cbn [run_inner is_decorated]. unfold read_memory_by_address at 1.
  unfold single_request. rewrite Hmk.
  replace (now + 1 + lat + Z.of_nat 0) with (now + (1 + lat)) by lia.
  destruct (send_request_one_reply cfg st rq sv _ now (1 + lat) f sv 0 Hwire Hq1 Hq2 Hso Hwin
              ltac:(rewrite Hparse; reflexivity) ltac:(rewrite Hparse; reflexivity) ltac:(rewrite Hparse; reflexivity) eq_refl
              ltac:(rewrite Hparse; reflexivity)) as (w & Hsr).
  rewrite Hsr.
  assert (rmba_interpret cfg size (parse_response f) = inr (enc_bytes out)) as Hint.
  { unfold rmba_interpret. rewrite Hparse. cbn [p_data]. clear Hparse Hsr He. destruct out as [|o1 out']; [congruence|]. rewrite Hlen.
    replace (size <? size) with false by lia. reflexivity. }
  rewrite Hint. cbn [deliver no_post sent_frames flat_map app List.length Nat.ltb Nat.leb].
  split; [eexists; reflexivity|]. split; [reflexivity|]. split; reflexivity.
Qed.

(* C12 for memory: the bytes written to a range through the client are the bytes a read of that range through the client returns *)
Theorem write_then_read_mem_composed cfg st e addr af sf data m na ns now now2 lat :
  plain st -> in_first_window cfg st (1 + lat) -> data <> [] ->
  resolves cfg addr (Z.of_nat (List.length data)) af sf m na ns ->
  let '(_, st1, _, _, e1) := react 4 cfg st e (CWriteMem addr (Z.of_nat (List.length data)) af sf data) now lat 0 [] in
  let '(out, _, _, _, e2) := react 4 cfg st1 e1 (CReadMem addr (Z.of_nat (List.length data)) af sf) now2 lat 0 [] in
  (exists r, out = ORet (Some (r, enc_bytes data))) /\ e2 = e1.
Proof.
  intros Hp Hw Hne Hres.
  pose proof (write_mem_composed cfg st e addr _ af sf data m na ns now lat Hp Hw Hres eq_refl) as H1.
  destruct (react 4 cfg st e (CWriteMem addr (Z.of_nat (List.length data)) af sf data) now lat 0 []) as [[[[out1 st1] t1] tr1] e1].
  destruct H1 as (_ & -> & _ & ->).
  assert (0 < Z.of_nat (List.length data)) as Hpos by (destruct data; [congruence|cbn; lia]).
  pose proof (read_mem_composed cfg st (set_mem e (mem_write (e_mem e) addr data)) addr _ af sf data m na ns now2 lat Hp Hw Hres) as H2.
  cbn [e_mem set_mem] in H2. rewrite Nat2Z.id in H2. specialize (H2 (mem_read_write _ _ _) eq_refl Hpos).
  destruct (react 4 cfg st (set_mem e (mem_write (e_mem e) addr data)) (CReadMem addr (Z.of_nat (List.length data)) af sf) now2 lat 0 []) as [[[[out2 st2] t2] tr2] e2].
  destruct H2 as (Hr & _ & _ & He). split; assumption.
Qed.

(* one request/response exchange of a decorated client method against the ECU: the ECU processes the frame, its (non-empty,
   positive, matching) answer comes back inside the first window and is interpreted *)
Lemma react_one_exchange cfg st e c now lat mk interp rq sv fr rep e' sv' code sd :
  plain st -> in_first_window cfg st (1 + lat) ->
  (forall n s, run_inner cfg st c n s = single_request cfg st mk interp no_post n s) -> is_decorated c = true ->
  mk = inr rq -> q_svc rq = Some sv -> q_spr rq = false -> wire_payload st rq = inr fr ->
  ecu_step e fr = (e', rep) -> rep <> [] ->
  p_valid (parse_response rep) = true -> p_svc (parse_response rep) = Some sv' -> s_sid sv' = s_sid sv ->
  p_code (parse_response rep) = Some code -> p_positive (parse_response rep) = true ->
  interp (parse_response rep) = inr sd ->
  exists w, react 4 cfg st e c now lat 0 [] = (ORet (Some (parse_response rep, sd)), st, now + (1 + lat), [EvF; EvS fr; EvW w now], e').
Proof.
  intros [Hso Hov] Hwin Hrun Hdec Hmk Hq1 Hq2 Hwire He Hne Hv Hs Hsid Hc Hpos Hint.
  cbn [react]. unfold run_call at 1. rewrite Hrun, Hdec.
  pose proof (accepted_sends_frame cfg st mk interp no_post now [] fr) as Hs1.
  assert (frame_of st mk = inr fr) as Hfo by (unfold frame_of; rewrite Hmk; exact Hwire).
  specialize (Hs1 Hfo).
  destruct (single_request cfg st mk interp no_post now []) as [[[[res0 st0] t0] s0] tr0].
  cbv beta iota in Hs1. change (sent tr0) with (sent_frames tr0) in Hs1. rewrite Hs1. cbn [List.length Nat.ltb Nat.leb nth].
  rewrite He. destruct rep as [|r0 rep']; [congruence|].
  cbn [app react]. unfold run_call at 1. rewrite Hrun, Hdec.
  unfold single_request. rewrite Hmk.
  replace (now + 1 + lat + Z.of_nat 0) with (now + (1 + lat)) by lia.
  destruct (send_request_one_reply cfg st rq sv fr now (1 + lat) (r0 :: rep') sv' code Hwire Hq1 Hq2 Hso Hwin Hv Hs Hc Hsid Hpos) as (w & Hsr).
  rewrite Hsr. rewrite Hint. cbn [deliver no_post sent_frames flat_map app List.length Nat.ltb Nat.leb].
  exists w. reflexivity.
Qed.

Lemma transfer_services :
  (exists s, svc_by_name "RequestDownload" = Some s /\ from_response_id 116 = Some s /\ s_sid s = 52 /\ s_sub s = false /\ In s services) /\
  (exists s, svc_by_name "TransferData" = Some s /\ from_response_id 118 = Some s /\ s_sid s = 54 /\ s_sub s = false /\ In s services) /\
  (exists s, svc_by_name "RequestTransferExit" = Some s /\ from_response_id 119 = Some s /\ s_sid s = 55 /\ s_sub s = false /\ s_rdata s = false /\ In s services).
Proof.
  split; [|split]; eexists; (split; [vm_compute; reflexivity|]); (split; [vm_compute; reflexivity|]); repeat split; vm_compute; tauto.
Qed.

(* request_download against the ECU: the transfer is armed at the address, the block length of the ECU comes back *)
Theorem request_download_composed cfg st e addr size af sf m na ns now lat :
  plain st -> in_first_window cfg st (1 + lat) -> resolves cfg addr size af sf m na ns -> 0 <= e_blk e < 65536 ->
  exists r w, react 4 cfg st e (CUpDown false addr size af sf None) now lat 0 []
  = (ORet (Some (r, [e_blk e])), st, now + (1 + lat), [EvF; EvS (52 :: 0 :: memloc_frame na ns addr size); EvW w now],
     set_dl e (Some {| dl_addr := addr; dl_size := size; dl_data := []; dl_next := 1 |})).
Proof.
  intros Hp Hwin Hres Hblk. pose proof (resolves_wire _ _ _ _ _ _ _ _ Hres) as Hwire0.
  destruct Hres as (Hm & Ha & Hs & Ea & Es & Eaddr & Esize & Ra & Rs). destruct Hp as [Hso Hov].
  destruct transfer_services as [(sv & Hname & Hresp & Hsid & Hsub & Hin) _].
  set (fr := 52 :: 0 :: memloc_frame na ns addr size).
  assert (exists rq, rud_make cfg false addr size af sf None = inr rq /\ q_svc rq = Some sv /\ q_spr rq = false /\ wire_payload st rq = inr fr)
    as (rq & Hmk & Hq1 & Hq2 & Hwire).
  { unfold rud_make. destruct (dfi_roundtrip 0 0 ltac:(lia) ltac:(lia)) as (x & Hx & Hb & _). rewrite Hx. cbn [bind].
    rewrite Hm. cbn [bind]. rewrite Hb. change (iso_dfi_byte 0 0) with 0. rewrite pack_B_enc by lia. cbn [bind]. rewrite Hwire0. cbn [bind].
    unfold mk_req_data, mk_req. rewrite Hname. unfold mk_request. cbn [andb]. eexists. split; [reflexivity|]. cbn [q_svc q_spr].
    split; [reflexivity|]. split; [reflexivity|].
    pose proof (wire_nosub st sv (Some (be_enc 1 0 ++ memloc_frame na ns addr size)) _ Hin Hsub eq_refl) as Hw. rewrite Hov, Hsid in Hw. exact Hw. }
  assert (ecu_step e fr = (set_dl e (Some {| dl_addr := addr; dl_size := size; dl_data := []; dl_next := 1 |}), [116; 32] ++ be_enc 2 (e_blk e))) as He.
  { pose proof (ecu_request_download e 0 (Z.to_nat na) (Z.to_nat ns) addr size ltac:(lia) ltac:(lia)) as H.
    rewrite !Z2Nat.id in H by lia. apply H; assumption. }
  set (rep := [116; 32] ++ be_enc 2 (e_blk e)).
  assert (parse_response rep = {| p_svc := Some sv; p_code := Some 0; p_name := nrc_name 0; p_positive := true; p_valid := true;
                                  p_reason := RNone; p_unexpected := false; p_data := 32 :: be_enc 2 (e_blk e); p_orig := Some rep |}) as Hparse.
  { unfold rep, parse_response. cbn [app]. change (negb (116 =? 127)) with true. cbv iota. rewrite Hresp. reflexivity. }
  destruct (react_one_exchange cfg st e (CUpDown false addr size af sf None) now lat (rud_make cfg false addr size af sf None) rud_interpret
              rq sv fr rep (set_dl e (Some {| dl_addr := addr; dl_size := size; dl_data := []; dl_next := 1 |})) sv 0 [e_blk e] (conj Hso Hov) Hwin) as (w & Hr); try assumption; try reflexivity; try (rewrite Hparse; reflexivity).
  - unfold rep. cbn [app]. discriminate.
  - apply (rud_decode _ 2 (e_blk e) []); [lia|change (256 ^ 2) with 65536; lia|]. rewrite Hparse. cbn [p_data]. rewrite app_nil_r. reflexivity.
  - eexists. exists w. exact Hr.
Qed.

(* transfer_data against an ECU armed for a download: the block is appended, the counter advances *)
Theorem transfer_data_composed cfg st e d ctr data now lat :
  plain st -> in_first_window cfg st (1 + lat) -> e_dl e = Some d -> ctr = dl_next d -> 0 <= ctr <= 255 ->
  exists r w, react 4 cfg st e (CTransferData ctr (Some data)) now lat 0 []
  = (ORet (Some (r, [ctr; 0])), st, now + (1 + lat), [EvF; EvS (54 :: ctr :: data); EvW w now], fst (ecu_step e (54 :: ctr :: data))).
Proof.
  intros Hp Hwin Hd Hc Hr. destruct Hp as [Hso Hov].
  destruct transfer_services as (_ & (sv & Hname & Hresp & Hsid & Hsub & Hin) & _).
  set (fr := 54 :: ctr :: data).
  assert (exists rq, td_make ctr (Some data) = inr rq /\ q_svc rq = Some sv /\ q_spr rq = false /\ wire_payload st rq = inr fr)
    as (rq & Hmk & Hq1 & Hq2 & Hwire).
  { unfold td_make. rewrite validate_int_in by lia. cbn [bind]. rewrite pack_B_enc by lia. cbn [bind obytes].
    rewrite be_enc_1. replace (ctr mod 256) with ctr by lia.
    unfold mk_req_data, mk_req. rewrite Hname. unfold mk_request. cbn [andb]. eexists. split; [reflexivity|]. cbn [q_svc q_spr].
    split; [reflexivity|]. split; [reflexivity|].
    pose proof (wire_nosub st sv (Some ([ctr] ++ data)) _ Hin Hsub eq_refl) as Hw. rewrite Hov, Hsid in Hw. exact Hw. }
  assert (ecu_step e fr = (fst (ecu_step e fr), [118; ctr])) as He.
  { unfold fr. cbn [ecu_step]. change (54 =? 46) with false. change (54 =? 34) with false. change (54 =? 61) with false.
    change (54 =? 35) with false. change (54 =? 52) with false. change (54 =? 54) with true. cbv iota. rewrite Hd, Hc, Z.eqb_refl. reflexivity. }
  assert (parse_response [118; ctr] = {| p_svc := Some sv; p_code := Some 0; p_name := nrc_name 0; p_positive := true; p_valid := true;
                                         p_reason := RNone; p_unexpected := false; p_data := [ctr]; p_orig := Some [118; ctr] |}) as Hparse.
  { unfold parse_response. change (negb (118 =? 127)) with true. cbv iota. rewrite Hresp. reflexivity. }
  destruct (react_one_exchange cfg st e (CTransferData ctr (Some data)) now lat (td_make ctr (Some data)) (td_interpret ctr)
              rq sv fr [118; ctr] (fst (ecu_step e fr)) sv 0 [ctr; 0] (conj Hso Hov) Hwin) as (w & Hx); try assumption; try reflexivity; try (rewrite Hparse; reflexivity); try discriminate.
  - unfold td_interpret. rewrite Hparse. cbn [p_data]. rewrite Z.eqb_refl. reflexivity.
  - eexists. exists w. exact Hx.
Qed.

(* request_transfer_exit against an ECU with a running download: the collected bytes are written to memory *)
Theorem transfer_exit_composed cfg st e d now lat :
  plain st -> in_first_window cfg st (1 + lat) -> e_dl e = Some d ->
  exists r w, react 4 cfg st e (CTransferExit None) now lat 0 []
  = (ORet (Some (r, [0])), st, now + (1 + lat), [EvF; EvS [55]; EvW w now],
     set_dl (set_mem e (mem_write (e_mem e) (dl_addr d) (dl_data d))) None).
Proof.
  intros Hp Hwin Hd. destruct Hp as [Hso Hov].
  destruct transfer_services as (_ & _ & (sv & Hname & Hresp & Hsid & Hsub & Hrd & Hin)).
  assert (exists rq, rte_make None = inr rq /\ q_svc rq = Some sv /\ q_spr rq = false /\ wire_payload st rq = inr [55])
    as (rq & Hmk & Hq1 & Hq2 & Hwire).
  { unfold rte_make, mk_req. rewrite Hname. unfold mk_request. cbn [andb]. eexists. split; [reflexivity|]. cbn [q_svc q_spr].
    split; [reflexivity|]. split; [reflexivity|].
    pose proof (wire_nosub st sv None _ Hin Hsub eq_refl) as Hw. rewrite Hov, Hsid in Hw. exact Hw. }
  assert (ecu_step e [55] = (set_dl (set_mem e (mem_write (e_mem e) (dl_addr d) (dl_data d))) None, [119])) as He.
  { cbn [ecu_step]. change (55 =? 46) with false. change (55 =? 34) with false. change (55 =? 61) with false.
    change (55 =? 35) with false. change (55 =? 52) with false. change (55 =? 54) with false. change (55 =? 55) with true. cbv iota. rewrite Hd. reflexivity. }
  assert (parse_response [119] = {| p_svc := Some sv; p_code := Some 0; p_name := nrc_name 0; p_positive := true; p_valid := true;
                                    p_reason := RNone; p_unexpected := false; p_data := []; p_orig := Some [119] |}) as Hparse.
  { unfold parse_response. change (negb (119 =? 127)) with true. cbv iota. rewrite Hresp, Hrd. reflexivity. }
  destruct (react_one_exchange cfg st e (CTransferExit None) now lat (rte_make None) (fun r => ret (enc_bytes (p_data r)))
              rq sv [55] [119] (set_dl (set_mem e (mem_write (e_mem e) (dl_addr d) (dl_data d))) None) sv 0 [0] (conj Hso Hov) Hwin) as (w & Hx); try assumption; try reflexivity; try (rewrite Hparse; reflexivity); try discriminate.
  eexists. exists w. exact Hx.
Qed.

(* the application pushes the blocks one after the other with the counters 1, 2, .., 0xFF, 0, .. *)
Fixpoint client_push (cfg : config) (st : cstate) (e : ecu) (ctr : Z) (blocks : list bytes) (now lat : Z) : ecu :=
  match blocks with
  | [] => e
  | b :: tl =>
    let '(_, st', t, _, e') := react 4 cfg st e (CTransferData ctr (Some b)) now lat 0 [] in
    client_push cfg st' e' ((ctr + 1) mod 256) tl t lat
  end.

Lemma client_push_is_push_blocks cfg st lat : plain st -> in_first_window cfg st (1 + lat) ->
  forall blocks e d ctr now, e_dl e = Some d -> ctr = dl_next d -> 0 <= ctr <= 255 ->
  client_push cfg st e ctr blocks now lat = push_blocks e ctr blocks.
Proof.
  intros Hp Hwin. induction blocks as [|b tl IH]; intros e d ctr now Hd Hc Hr; [reflexivity|].
  cbn [client_push push_blocks].
  destruct (transfer_data_composed cfg st e d ctr b now lat Hp Hwin Hd Hc Hr) as (r & w & Hx). rewrite Hx.
  assert (exists d', e_dl (fst (ecu_step e (54 :: ctr :: b))) = Some d' /\ dl_next d' = (ctr + 1) mod 256) as (d' & Hd' & Hn').
  { cbn [ecu_step]. change (54 =? 46) with false. change (54 =? 34) with false. change (54 =? 61) with false.
    change (54 =? 35) with false. change (54 =? 52) with false. change (54 =? 54) with true. cbv iota. rewrite Hd, Hc, Z.eqb_refl.
    cbn [fst e_dl set_dl]. eexists. split; reflexivity. }
  apply (IH _ d'); [exact Hd'|symmetry; exact Hn'|]. pose proof (Z.mod_pos_bound (ctr + 1) 256 ltac:(lia)). lia.
Qed.

(* C12, third clause, through the client: request_download, the blocks with transfer_data, request_transfer_exit - the ECU holds
   exactly the concatenation of the blocks at the requested address; nothing else of the store changed *)
Theorem download_composed cfg st e addr size af sf m na ns blocks now lat now3 :
  plain st -> in_first_window cfg st (1 + lat) -> resolves cfg addr size af sf m na ns -> 0 <= e_blk e < 65536 ->
  let '(_, st1, t1, _, e1) := react 4 cfg st e (CUpDown false addr size af sf None) now lat 0 [] in
  let e2 := client_push cfg st1 e1 1 blocks t1 lat in
  let '(out, _, _, _, e3) := react 4 cfg st1 e2 (CTransferExit None) now3 lat 0 [] in
  (exists r, out = ORet (Some (r, [0]))) /\ e_dl e3 = None /\
  mem_read (e_mem e3) addr (List.length (List.concat blocks)) = Some (List.concat blocks) /\ e_dids e3 = e_dids e.
Proof.
  intros Hp Hwin Hres Hblk.
  destruct (request_download_composed cfg st e addr size af sf m na ns now lat Hp Hwin Hres Hblk) as (r1 & w1 & H1). rewrite H1. cbv beta iota zeta.
  set (e1 := set_dl e (Some {| dl_addr := addr; dl_size := size; dl_data := []; dl_next := 1 |})).
  rewrite (client_push_is_push_blocks cfg st lat Hp Hwin blocks e1 _ 1 _ eq_refl eq_refl ltac:(lia)).
  pose proof (push_blocks_spec blocks e1 {| dl_addr := addr; dl_size := size; dl_data := []; dl_next := 1 |} eq_refl ltac:(cbn; lia)) as P.
  cbv zeta in P. cbn [dl_next] in P. destruct P as (d' & P1 & P2 & P3 & P4 & P5 & P6).
  destruct (transfer_exit_composed cfg st (push_blocks e1 1 blocks) d' now3 lat Hp Hwin P1) as (r3 & w3 & H3). rewrite H3.
  split; [eexists; reflexivity|]. cbn [e_dl set_dl e_mem set_mem e_dids]. split; [reflexivity|].
  cbn [dl_data app] in P4. rewrite P2, P4. cbn [dl_addr]. split; [apply mem_read_write|]. rewrite P6. reflexivity.
Qed.

(* a call that is refused before anything is sent (argument outside the documented domain, missing configuration) leaves the ECU,
   the client state and the clock as they were: it cannot disturb what was written before it or what is read after it *)
Lemma react_rejected cfg st e c now lat mk interp er :
  (forall n s, run_inner cfg st c n s = single_request cfg st mk interp no_post n s) -> mk = inl er ->
  exists out, react 4 cfg st e c now lat 0 [] = (out, st, now, [], e).
Proof.
  intros Hrun Hmk. cbn [react]. unfold run_call. rewrite Hrun. unfold single_request. rewrite Hmk.
  cbn [sent_frames flat_map List.length Nat.ltb Nat.leb]. eexists. reflexivity.
Qed.

(* ---- any sequence of writes through the client: afterwards every identifier holds the value of the LAST write to it (or what it held
   before), and a read through the client returns it ------------------------------------------------------------------------- *)
Fixpoint client_writes (cfg : config) (st : cstate) (e : ecu) (ws : list (Z * bytes)) (now lat : Z) : ecu :=
  match ws with
  | [] => e
  | (d, v) :: tl =>
    let '(_, st', t, _, e') := react 4 cfg st e (CWriteDid d v) now lat 0 [] in
    client_writes cfg st' e' tl t lat
  end.

Definition last_write (ws : list (Z * bytes)) (did : Z) : option bytes :=
  fold_left (fun acc '(d, v) => if d =? did then Some v else acc) ws None.

Definition wf_write (cfg : config) (w : Z * bytes) : Prop :=
  0 <= fst w <= 65535 /\ exists sh, fetch_codec (pc_of cfg) (fst w) = inr sh /\ (sh < 0 \/ Z.of_nat (List.length (snd w)) = sh).

Lemma last_write_acc ws did acc :
  fold_left (fun a '(d, v) => if d =? did then Some v else a) ws acc
  = match last_write ws did with Some x => Some x | None => acc end.
Proof.
  unfold last_write. revert acc. induction ws as [|[d v] tl IH]; intros acc; [reflexivity|]. cbn [fold_left].
  rewrite IH. rewrite (IH (if d =? did then Some v else None)).
  destruct (fold_left _ tl None); [reflexivity|]. destruct (d =? did); reflexivity.
Qed.

Theorem client_writes_last cfg st lat : plain st -> in_first_window cfg st (1 + lat) ->
  forall ws e now, Forall (wf_write cfg) ws ->
  forall did, abs_did (client_writes cfg st e ws now lat) did = match last_write ws did with Some v => Some v | None => abs_did e did end.
Proof.
  intros Hp Hw. induction ws as [|[d v] tl IH]; intros e now Hf did; [reflexivity|].
  inversion Hf as [|? ? (Hd & Hc) Hf']; subst. cbn [fst snd] in Hd, Hc.
  cbn [client_writes].
  pose proof (write_did_composed cfg st e d v now lat Hp Hw Hd Hc) as H.
  destruct (react 4 cfg st e (CWriteDid d v) now lat 0 []) as [[[[out st'] t] tr] e'].
  destruct H as (_ & -> & _ & _ & Habs & Hoth & _).
  rewrite (IH e' t Hf' did). unfold last_write at 2. cbn [fold_left]. rewrite last_write_acc.
  destruct (last_write tl did); [reflexivity|].
  destruct (d =? did) eqn:E.
  - assert (d = did) by lia. subst. exact Habs.
  - apply Hoth. lia.
Qed.

Theorem read_after_writes cfg st lat : plain st -> in_first_window cfg st (1 + lat) ->
  forall ws e now now2 did v, Forall (wf_write cfg) ws -> last_write ws did = Some v ->
  0 < did <= 65535 -> fetch_codec (pc_of cfg) did = inr (Z.of_nat (List.length v)) ->
  let e1 := client_writes cfg st e ws now lat in
  let '(out, _, _, _, e2) := react 4 cfg st e1 (CReadDids [did]) now2 lat 0 [] in
  (exists r, out = ORet (Some (r, enc_values [(did, v)]))) /\ e2 = e1.
Proof.
  intros Hp Hw ws e now now2 did v Hf Hl Hd Hc. cbv zeta.
  pose proof (client_writes_last cfg st lat Hp Hw ws e now Hf did) as Ha. rewrite Hl in Ha.
  pose proof (read_did_composed cfg st (client_writes cfg st e ws now lat) did v now2 lat Hp Hw Hd Hc Ha) as H.
  destruct (react 4 cfg st (client_writes cfg st e ws now lat) (CReadDids [did]) now2 lat 0 []) as [[[[out st'] t] tr] e2].
  destruct H as (Hr & _ & _ & _ & He). split; assumption.
Qed.

(* ---- non-vacuity: the premises are inhabited ----------------------------------------------------------------------------- *)
Example nv_plain_window : plain st_init /\ in_first_window cfg_default st_init (1 + 500).
Proof. split; [split; reflexivity|]. unfold in_first_window. cbn. repeat split; try lia. intros o H. injection H as <-. lia. Qed.
Example nv_resolves : exists m, resolves cfg_default 4096 8 None None m 2 1.
Proof. eexists. unfold resolves. split; [vm_compute; reflexivity|]. cbn. repeat split; lia. Qed.
