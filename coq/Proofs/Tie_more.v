(* Further client methods as executed (Gen/Fn_More.v): read_memory_by_address of 2 bytes on any 1..6 data bytes, tolerant and strict - the
   padding rule of C11: longer data is accepted only as zero padding and only when tolerated; request_transfer_exit;
   clear_dynamically_defined_did (C11, C01/C07, C03). *)
From Coq Require Import ZArith List Bool String Lia ZifyBool.
From UDS Require Import Lib.Bytes Lib.ErrM Lib.PyOps Gen.Fn_More Model.Message Model.Client Model.Services Model.Helpers Model.MemLoc Model.Svc_Simple
  Model.Svc_Memory Proofs.Tie_common Proofs.Tie_simple_common.
Import ListNotations.
Open Scope Z_scope.

Ltac rm_tac := unfold rmba_interpret, all_zero; change (Z.to_nat 2) with 2%nat; cbn [List.length skipn firstn forallb Z.of_nat Pos.of_succ_nat Pos.succ Z.to_nat Pos.to_nat Pos.iter_op Nat.add];
               repeat match goal with |- context [Z.pos ?a <? Z.pos ?b] => let v := eval vm_compute in (Z.pos a <? Z.pos b) in change (Z.pos a <? Z.pos b) with v end;
               crunch; cbn [forallb skipn firstn andb] in *; crunch; finish.

Theorem tie_read_memory_2_tolerant cfg d r : tol_pad cfg = true -> d <> [] -> (List.length d < 7)%nat -> p_data r = d ->
  fn_read_memory_2_tolerant d = rmba_interpret cfg 2 r.
Proof.
  intros Ht Hne Hl Hd. unfold fn_read_memory_2_tolerant, rmba_interpret. rewrite Hd, Ht.
  destruct d as [|d0 [|d1 [|d2 [|d3 [|d4 [|d5 [|d6 rest]]]]]]]; [congruence|..|cbn in Hl; lia]; rm_tac.
Qed.
Theorem tie_read_memory_2_strict cfg d r : tol_pad cfg = false -> d <> [] -> (List.length d < 7)%nat -> p_data r = d ->
  fn_read_memory_2_strict d = rmba_interpret cfg 2 r.
Proof.
  intros Ht Hne Hl Hd. unfold fn_read_memory_2_strict, rmba_interpret. rewrite Hd, Ht.
  destruct d as [|d0 [|d1 [|d2 [|d3 [|d4 [|d5 [|d6 rest]]]]]]]; [congruence|..|cbn in Hl; lia]; rm_tac.
Qed.

Theorem tie_request_transfer_exit_request data : fn_request_transfer_exit_request data = payload_of (rte_make data).
Proof. unfold fn_request_transfer_exit_request, rte_make. destruct data; req_tac. Qed.
Theorem tie_request_transfer_exit_interpret data d r : d <> [] -> p_data r = d ->
  fn_request_transfer_exit_interpret data d = ret (enc_bytes (p_data r)).
Proof. intros Hne Hd. unfold fn_request_transfer_exit_interpret. rewrite Hd. destruct data; cases3 d; interp_tac. Qed.

Theorem tie_clear_did_request did : fn_clear_did_request did = payload_of (dddi_clear_make (Some did)).
Proof. unfold fn_clear_did_request, dddi_clear_make. req_tac. Qed.
Theorem tie_clear_did_interpret did d r p : fn_clear_did_request did = inr p -> d <> [] -> p_data r = d ->
  fn_clear_did_interpret did d = dddi_interpret 3 (Some did) true r.
Proof.
  intros Hreq Hne Hd. unfold fn_clear_did_request in Hreq. unfold fn_clear_did_interpret, dddi_interpret. rewrite Hd.
  cases4 d; interp_tac; kill_by Hreq; cbn [List.length Nat.ltb Nat.leb] in *; try lia.
Qed.
