(* ... inside a suppress_positive_response block, wait_nrc True / False (C09) *)
From Coq Require Import ZArith List Bool String Lia ZifyBool.
From UDS Require Import Lib.Bytes Lib.ErrM Lib.PyOps Gen.Fn_SendRequest Model.Message Model.Client Model.Services Proofs.Tie_common Proofs.Tie_send_common.
Import ListNotations.
Open Scope Z_scope.


Theorem tie_send_request_spr_wait_silence cfg T P2 P2S now : timing cfg (Some T) P2 P2S ->
  fn_send_request_spr_wait_silence T P2 P2S now = ret (obs_sr (send_request cfg (spr_enter (spr_call st_init true)) tp_req (-1) now [])).
Proof. intros (HT & H2 & H2s & Hcb). unfold timing in *. unfold fn_send_request_spr_wait_silence. sr_tac HT H2 H2s Hcb. Qed.
Theorem tie_send_request_spr_wait_P cfg T P2 P2S now a1 : timing cfg (Some T) P2 P2S -> now < a1 ->
  fn_send_request_spr_wait_P T P2 P2S now a1 = ret (obs_sr (send_request cfg (spr_enter (spr_call st_init true)) tp_req (-1) now [(a1, Frame [126; 0])])).
Proof. intros (HT & H2 & H2s & Hcb) H0. unfold timing in *. unfold fn_send_request_spr_wait_P. sr_tac HT H2 H2s Hcb. Qed.
Theorem tie_send_request_spr_wait_N cfg T P2 P2S now a1 : timing cfg (Some T) P2 P2S -> now < a1 ->
  fn_send_request_spr_wait_N T P2 P2S now a1 = ret (obs_sr (send_request cfg (spr_enter (spr_call st_init true)) tp_req (-1) now [(a1, Frame [127; 62; 34])])).
Proof. intros (HT & H2 & H2s & Hcb) H0. unfold timing in *. unfold fn_send_request_spr_wait_N. sr_tac HT H2 H2s Hcb. Qed.
Theorem tie_send_request_spr_wait_W cfg T P2 P2S now a1 : timing cfg (Some T) P2 P2S -> now < a1 ->
  fn_send_request_spr_wait_W T P2 P2S now a1 = ret (obs_sr (send_request cfg (spr_enter (spr_call st_init true)) tp_req (-1) now [(a1, Frame [127; 62; 120])])).
Proof. intros (HT & H2 & H2s & Hcb) H0. unfold timing in *. unfold fn_send_request_spr_wait_W. sr_tac HT H2 H2s Hcb. Qed.
Theorem tie_send_request_spr_wait_WP cfg T P2 P2S now a1 a2 : timing cfg (Some T) P2 P2S -> now < a1 ->
  fn_send_request_spr_wait_WP T P2 P2S now a1 a2 = ret (obs_sr (send_request cfg (spr_enter (spr_call st_init true)) tp_req (-1) now [(a1, Frame [127; 62; 120]); (a2, Frame [126; 0])])).
Proof. intros (HT & H2 & H2s & Hcb) H0. unfold timing in *. unfold fn_send_request_spr_wait_WP. sr_tac HT H2 H2s Hcb. Qed.
Theorem tie_send_request_spr_wait_WN cfg T P2 P2S now a1 a2 : timing cfg (Some T) P2 P2S -> now < a1 ->
  fn_send_request_spr_wait_WN T P2 P2S now a1 a2 = ret (obs_sr (send_request cfg (spr_enter (spr_call st_init true)) tp_req (-1) now [(a1, Frame [127; 62; 120]); (a2, Frame [127; 62; 34])])).
Proof. intros (HT & H2 & H2s & Hcb) H0. unfold timing in *. unfold fn_send_request_spr_wait_WN. sr_tac HT H2 H2s Hcb. Qed.
Theorem tie_send_request_spr_silence cfg T P2 P2S now : timing cfg (Some T) P2 P2S ->
  fn_send_request_spr_silence T P2 P2S now = ret (obs_sr (send_request cfg (spr_enter (spr_call st_init false)) tp_req (-1) now [])).
Proof. intros (HT & H2 & H2s & Hcb). unfold timing in *. unfold fn_send_request_spr_silence. sr_tac HT H2 H2s Hcb. Qed.
Theorem tie_send_request_spr_P cfg T P2 P2S now a1 : timing cfg (Some T) P2 P2S -> now < a1 ->
  fn_send_request_spr_P T P2 P2S now a1 = ret (obs_sr (send_request cfg (spr_enter (spr_call st_init false)) tp_req (-1) now [(a1, Frame [126; 0])])).
Proof. intros (HT & H2 & H2s & Hcb) H0. unfold timing in *. unfold fn_send_request_spr_P. sr_tac HT H2 H2s Hcb. Qed.
