(* C06: a negative-response frame with any code other than 0x78 ends the request as negative with that code. *)
From Coq Require Import ZArith List Bool String Lia ZifyBool.
From UDS Require Import Lib.Bytes Lib.ErrM Lib.PyOps Spec.Timing Model.Message Model.Client
  Proofs.C17_lemmas Proofs.C05_lemmas Proofs.Client_lemmas.
Import ListNotations.
Open Scope Z_scope.
Open Scope list_scope.

Definition negative_frame (s : svc) (code : Z) (tail : bytes) : bytes := 127 :: s_sid s :: code :: tail.

Lemma negative_final s code tail spr : In s services -> code <> 120 ->
  is_pending (negative_frame s code tail) = false /\
  exists r, final_result (s_sid s + 64) spr (negative_frame s code tail) = CErr ENegative (Some r) /\
    r = parse_response (negative_frame s code tail) /\
    p_code r = Some code /\ p_name r = nrc_name code /\ p_positive r = false /\ p_valid r = true /\
    p_svc r = Some s /\ p_data r = tail /\ p_orig r = Some (negative_frame s code tail).
Proof.
  intros Hin Hc. destruct (parse_negative s code tail Hin) as (Pv & Pp & Pc & Ps & Pn & Pd). cbv zeta in *.
  unfold negative_frame. split.
  - unfold is_pending. rewrite Pv, Pp, Pc. cbn. lia.
  - exists (parse_response (127 :: s_sid s :: code :: tail)). split.
    + unfold final_result. rewrite Pv, Ps, Pc, Pp. cbn [negb]. rewrite Z.eqb_refl. reflexivity.
    + repeat split; auto. destruct (parse_response_total (127 :: s_sid s :: code :: tail)) as [Ho _]. exact Ho.
Qed.

(* k 'response pending' frames, then a negative frame with code <> 0x78, each inside its window:
   the loop ends with exactly that negative response; one callback per pending frame *)
Lemma loop_negative cfg p2star s spr deadline code tail :
  In s services -> code <> 120 -> 0 <= p2star ->
  forall (pend : list (Z * bytes)) af rest single (star : bool) now, 0 <= single ->
  in_windows deadline single (if star then single else p2star) now (map fst pend ++ [af]) ->
  let x := wait_loop cfg p2star (s_sid s + 64) spr deadline single star now
             (map (fun '(a, tl) => (a, Frame (pending_frame s tl))) pend ++ (af, Frame (negative_frame s code tail)) :: rest) in
  wl_res x = CErr ENegative (Some (parse_response (negative_frame s code tail))) /\
  p_code (parse_response (negative_frame s code tail)) = Some code /\
  p_name (parse_response (negative_frame s code tail)) = nrc_name code /\
  p_positive (parse_response (negative_frame s code tail)) = false /\
  count_cb (wl_trace x) = (if has_cb cfg then List.length pend else O) /\
  cb_then_w (wl_trace x).
Proof.
  intros Hin Hc Hp pend af rest single star now Hs Hw.
  destruct (negative_final s code tail spr Hin Hc) as (Hnp & r & Hf & Hr & Pc & Pn & Pp & _).
  pose proof (wait_loop_delivers cfg p2star s spr deadline (negative_frame s code tail) Hin Hnp Hp pend af rest single star now Hs Hw) as D.
  cbv zeta in *. destruct D as (D1 & _ & D3 & _). subst r.
  pose proof (wait_loop_quiet cfg p2star (s_sid s + 64) spr deadline
    (map (fun '(a, tl) => (a, Frame (pending_frame s tl))) pend ++ (af, Frame (negative_frame s code tail)) :: rest) single star now) as Q.
  cbv zeta in Q. destruct Q as (_ & _ & _ & _ & Q5).
  rewrite D1, Hf. repeat split; auto.
Qed.

(* what the caller gets for a negative inner outcome, by switch *)
Lemma deliver_negative {A} cfg (r : resp) :
  p_positive r = false ->
  @deliver A cfg (CErr ENegative (Some r)) = if ex_neg cfg then ORaise ENegative (Some r) else ORetResp r.
Proof.
  intros Hp. cbn. assert (set_flags r (Some false) None None = r) as E.
  { destruct r; cbn in *. subst. reflexivity. }
  rewrite E. reflexivity.
Qed.
