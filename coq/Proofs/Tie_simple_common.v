(* Tactics shared by the "code is the model" theorems about client methods (Tie_simple_req.v, Tie_simple_int.v). *)
From Coq Require Import ZArith List Bool String Lia ZifyBool.
From UDS Require Import Lib.Bytes Lib.ErrM Lib.PyOps Model.Message Model.Client Model.Services Model.Helpers Model.Svc_Simple Proofs.Tie_common.
Import ListNotations.
Open Scope Z_scope.
Ltac Zify.zify_post_hook ::= Z.to_euclidean_division_equations.

(* the request a client method hands to send_request, as the bytes send_request transmits (no suppress override) *)
Definition payload_of (m : M req) : M bytes := rq <- m ;; request_payload rq None.

Ltac eval_svc :=
  repeat match goal with
         | |- context [svc_by_name ?n] => let e := eval vm_compute in (svc_by_name n) in change (svc_by_name n) with e
         end.
Ltac msimpl := cbn [bind ret fail mk_request request_payload q_svc q_sub q_spr q_data s_sub s_sid s_name s_rdata andb orb negb
                    obytes odata app enc_bytes length Nat.leb].
Ltac packs := unfold pack_B, pack_H, pack_be; change (256 ^ Z.of_nat 1) with 256; change (256 ^ Z.of_nat 2) with 65536.
Ltac list_eq := repeat first [ reflexivity | match goal with
   | |- @inr _ _ _ = @inr _ _ _ => apply f_equal
   | |- ret _ = ret _ => apply f_equal
   | |- (_ :: _) = (_ :: _) => apply f_equal2; [lia|] end ].
Ltac finish := try reflexivity; try lia; try congruence; try discriminate; try (solve [list_eq]).
Ltac crunch := repeat (progress (msimpl; unfold guard; packs; split_ifs)).
Ltac req_tac := unfold payload_of, mk_req, mk_req_data, validate_int; eval_svc; crunch; rewrite ?app_nil_r; cbn [app]; finish.
Ltac interp_tac := unfold mk_req, mk_req_data, validate_int; eval_svc; crunch; finish.
(* a branch in which the request would not have been built contradicts the hypothesis that it was *)
Ltac kill_by H := repeat match goal with Hc : ?c = _ |- _ => match type of H with context [if c then _ else _] => rewrite Hc in H end end;
                  try discriminate H.
Ltac cases2 d := destruct d as [|?d0 [|?d1 ?rest]]; [congruence| |].
Ltac cases3 d := destruct d as [|?d0 [|?d1 [|?d2 ?rest]]]; [congruence| | |].
Ltac cases4 d := destruct d as [|?d0 [|?d1 [|?d2 [|?d3 ?rest]]]]; [congruence| | | |].
Ltac cases6 d := destruct d as [|?d0 [|?d1 [|?d2 [|?d3 [|?d4 [|?d5 ?rest]]]]]]; [congruence| | | | | |].
