(* Proofs for C03: a response is accepted only if it answers the request that was sent - the service identifier and
   every echoed request parameter equal what was transmitted.  One inversion lemma per service: interpretation
   succeeded  ->  the echo bytes of the response are the request's. *)
From Coq Require Import ZArith List Bool String Lia ZifyBool.
From UDS Require Import Lib.Bytes Lib.ErrM Lib.PyOps Model.Message Model.Client Model.Services Model.Helpers
  Model.MemLoc Model.Svc_Simple Model.Svc_Memory Model.Svc_Did Model.Svc_File Model.Svc_Dtc Model.History
  Proofs.Bytes_lemmas Proofs.C17_lemmas Proofs.C05_lemmas Proofs.Client_lemmas.
Import ListNotations.
Open Scope Z_scope.
Open Scope list_scope.

(* peel one monadic step of a successful computation *)
Ltac inv1 H :=
  match type of H with
  | bind (guard ?b ?e) _ = inr _ => let E := fresh "G" in destruct b eqn:E; cbn [guard bind ret fail] in H; [|discriminate H]
  | bind (validate_int ?v ?lo ?hi) _ = inr _ =>
    let E := fresh "V" in unfold validate_int in H; destruct ((v <? lo) || (hi <? v)) eqn:E; cbn [bind ret fail] in H; [discriminate H|]
  | bind ?m _ = inr _ => let E := fresh "B" in destruct m eqn:E; cbn [bind] in H; [discriminate H|]
  | (if ?b then _ else _) = inr _ => let E := fresh "C" in destruct b eqn:E; try discriminate H
  | fail _ = inr _ => discriminate H
  | inl _ = inr _ => discriminate H
  end.
Ltac inv H := repeat inv1 H.

(* ---- the service identifier ----------------------------------------------------------------------------------------- *)
Lemma wait_loop_accepts cfg p2star rsid spr deadline s :
  forall single (star : bool) now r,
  wl_res (wait_loop cfg p2star rsid spr deadline single star now s) = COk (Some r) ->
  exists rs, p_svc r = Some rs /\ s_sid rs + 64 = rsid /\ p_positive r = true /\ p_valid r = true.
Proof.
  induction s as [|[a it] rest IH]; intros single star now r; cbn [wait_loop].
  - destruct (wait_len single deadline now) as [is_single w]. destruct spr; cbn; discriminate.
  - destruct (wait_len single deadline now) as [is_single w].
    destruct (a <=? now + w); [|destruct spr; cbn; discriminate].
    destruct it as [f|]; [|cbn; discriminate].
    destruct (negb (p_valid (parse_response f))) eqn:Ev; [cbn; discriminate|].
    destruct (p_svc (parse_response f)) as [rs|] eqn:Es; [|cbn; discriminate].
    destruct (p_code (parse_response f)) as [code|]; [|cbn; discriminate].
    destruct (negb (s_sid rs + 64 =? rsid)) eqn:Er; [cbn; discriminate|].
    destruct (negb (p_positive (parse_response f))) eqn:Ep.
    + destruct (code =? 120); [|cbn; discriminate].
      specialize (IH (if star then single else p2star) true (Z.max now a) r).
      destruct (wait_loop cfg p2star rsid spr deadline (if star then single else p2star) true (Z.max now a) rest)
        as [[[res t] s'] tr]. cbn [wl_res fst] in *. exact IH.
    + destruct spr; cbn; [discriminate|]. intros H. injection H as H. subst r.
      exists rs. apply negb_false_iff in Ev, Er, Ep. repeat split; auto. lia.
Qed.

Lemma send_request_accepts cfg st rq to now s r sv :
  q_svc rq = Some sv ->
  wl_res (send_request cfg st rq to now s) = COk (Some r) ->
  exists rs, p_svc r = Some rs /\ s_sid rs = s_sid sv /\ p_positive r = true /\ p_valid r = true.
Proof.
  intros Hs. unfold send_request. rewrite Hs.
  destruct (if to <? 0 then _ else _) as [overall single].
  destruct (request_payload rq _); [cbn; discriminate|]. destruct (_ && _); [cbn; discriminate|].
  match goal with |- context [wait_loop ?a ?b ?c ?d ?e ?f ?g ?h ?i] =>
    pose proof (wait_loop_accepts a b c d e i f g h r) as W; destruct (wait_loop a b c d e f g h i) as [[[res t] s'] tr] end.
  cbn [wl_res fst] in *. intros H. destruct (W H) as (rs & A & B & C & D). exists rs. repeat split; auto. lia.
Qed.

(* a client call returns a response only if send_request accepted it and the service's checks passed *)
Lemma single_request_accepts cfg st mk interp post now s r sd rq :
  mk = inr rq ->
  (let '(res, _, _, _, _) := single_request cfg st mk interp post now s in res = COk (Some (r, sd))) ->
  interp r = inr sd /\ wl_res (send_request cfg st rq (-1) now s) = COk (Some r).
Proof.
  intros Hm. unfold single_request. rewrite Hm.
  destruct (send_request cfg st rq (-1) now s) as [[[res t] s'] tr]. cbn [wl_res fst].
  destruct res as [[r0|]|e r0]; try discriminate.
  destruct (interp r0) as [e|sd0] eqn:Ei; [discriminate|]. intros H. injection H as H1 H2. subst. auto.
Qed.

(* ---- echoes, service by service ------------------------------------------------------------------------------------- *)
Lemma dsc_echo cfg session r sd : dsc_interpret cfg session r = inr sd -> exists rest, p_data r = session :: rest.
Proof.
  unfold dsc_interpret. destruct (p_data r) as [|echo rec]; [discriminate|]. intros H. inv H. exists rec. f_equal. lia.
Qed.
Lemma sa_echo k level r sd : sa_interpret k level r = inr sd ->
  exists lv rest, normalize_level k level = inr lv /\ p_data r = lv :: rest.
Proof.
  unfold sa_interpret. intros H. inv H. destruct (p_data r) as [|echo seed]; [discriminate|]. inv H.
  exists z, seed. split; [reflexivity|]. f_equal. lia.
Qed.
Lemma tp_echo r sd : tp_interpret r = inr sd -> exists rest, p_data r = 0 :: rest.
Proof. unfold tp_interpret. destruct (p_data r) as [|echo rest]; [discriminate|]. intros H. inv H. exists rest. f_equal. lia. Qed.
Lemma er_echo t r sd : er_interpret t r = inr sd -> exists rest, p_data r = t :: rest.
Proof.
  unfold er_interpret. destruct (p_data r) as [|echo rest]; [discriminate|]. intros H.
  destruct (echo =? 4); [destruct rest as [|x tl]; [discriminate H|]|]; cbn [bind ret] in H; inv H; eexists; f_equal; lia.
Qed.
Lemma rc_echo rid ct r sd : rc_interpret rid ct r = inr sd ->
  exists i1 i0 rec, p_data r = ct :: i1 :: i0 :: rec /\ i1 * 256 + i0 = rid.
Proof.
  unfold rc_interpret. destruct (p_data r) as [|e [|i1 [|i0 rec]]]; try discriminate. intros H. inv H.
  exists i1, i0, rec. split; [f_equal; lia|lia].
Qed.
Lemma atp_echo a r sd : atp_interpret a r = inr sd -> exists rest, p_data r = a :: rest.
Proof. unfold atp_interpret. destruct (p_data r) as [|echo rest]; [discriminate|]. intros H. inv H. exists rest. f_equal. lia. Qed.
Lemma echo1_echo x r sd : echo1_interpret x r = inr sd -> exists rest, p_data r = x :: rest.
Proof. unfold echo1_interpret. destruct (p_data r) as [|echo rest]; [discriminate|]. intros H. inv H. exists rest. f_equal. lia. Qed.
Lemma td_echo seq r sd : td_interpret seq r = inr sd -> exists rest, p_data r = seq :: rest.
Proof. unfold td_interpret. destruct (p_data r) as [|echo rest]; [discriminate|]. intros H. inv H. exists rest. f_equal. lia. Qed.
Lemma wdbi_echo did r sd : wdbi_interpret did r = inr sd -> exists d1 d0 rest, p_data r = d1 :: d0 :: rest /\ d1 * 256 + d0 = did.
Proof.
  unfold wdbi_interpret. destruct (p_data r) as [|d1 [|d0 rest]]; try discriminate. intros H. inv H. exists d1, d0, rest. split; [reflexivity|lia].
Qed.

(* WriteMemoryByAddress: format byte, address and size echoed in the request's widths *)
Lemma wmba_echo_checked cfg a s af sf r sd : wmba_interpret cfg a s af sf r = inr sd ->
  exists m ab sb b, client_memloc cfg a s af sf = inr m /\ addr_bytes m = inr ab /\ size_bytes m = inr sb /\
    alfid_byte (ml_alfid m) = inr b /\
    nth 0 (p_data r) 0 = b /\
    be_dec (firstn (List.length ab) (skipn 1 (p_data r))) = a /\
    be_dec (firstn (List.length sb) (skipn (1 + List.length ab) (p_data r))) = s /\
    (1 + List.length ab + List.length sb <= List.length (p_data r))%nat.
Proof.
  unfold wmba_interpret. intros H. inv H.
  exists m, b, b0, z. repeat split; auto; try lia.
Qed.

(* DynamicallyDefineDataIdentifier: subfunction and DID *)
Lemma dddi_echo sub did must r sd : dddi_interpret sub did must r = inr sd ->
  exists rest, p_data r = sub :: rest /\
    match did with
    | Some d => (exists d1 d0 tl, rest = d1 :: d0 :: tl /\ d1 * 256 + d0 = d) \/ (must = false /\ (List.length rest < 2)%nat)
    | None => True
    end.
Proof.
  unfold dddi_interpret. destruct (p_data r) as [|echo rest]; [discriminate|]. intros H. inv H.
  exists rest. split; [f_equal; lia|]. destruct did as [d|]; [|exact I].
  destruct rest as [|d1 [|d0 tl]]; cbn in B.
  - destruct must; [discriminate|]. right. split; [reflexivity|cbn; lia].
  - destruct must; [discriminate|]. right. split; [reflexivity|cbn; lia].
  - left. exists d1, d0, tl. split; [reflexivity|]. unfold guard in B. destruct (d =? d1 * 256 + d0) eqn:E; [lia|discriminate].
Qed.

(* InputOutputControlByIdentifier: DID and control parameter *)
Lemma io_echo cfg did cp r sd : io_interpret cfg did cp r = inr sd ->
  be_dec (firstn 2 (p_data r)) = did /\
  match cp with Some c => nth 2 (p_data r) 0 = c /\ (3 <= List.length (p_data r))%nat | None => (2 <= List.length (p_data r))%nat end.
Proof.
  unfold io_interpret. intros H. inv H. destruct i as [[[sh hm] masks] ms]. inv H.
  split; [lia|]. apply Nat.leb_le in G. destruct cp as [c|]; [split; [lia|exact G]|exact G].
Qed.

(* RequestFileTransfer: mode of operation and data format identifier *)
Lemma rft_echo cfg moop d r sd : rft_interpret cfg moop d r = inr sd ->
  nth 0 sd (-1) = moop /\ (exists rest, p_data r = moop :: rest) /\
  (((moop =? 1) || (moop =? 3) || (moop =? 4) || (moop =? 6) = true) ->
     nth 2 sd (-1) = match d with Some (c, e) => 16 * c + e | None => 0 end).
Proof.
  unfold rft_interpret, rft_interpret_raw. destruct (p_data r) as [|m rest]; [discriminate|].
  match goal with |- (match ?X with _ => _ end = _) -> _ => destruct X as [e|sd0] eqn:Ex end.
  - destruct e; try discriminate; destruct (_ && _); discriminate.
  - intros H. inv H. assert (m = moop) by lia. subst m. injection H as H. subst sd0.
    assert (exists a1 a2 a3 a4 a5 a6, sd = [moop; a1; a2; a3; a4; a5; a6]) as (a1 & a2 & a3 & a4 & a5 & a6 & Es).
    { repeat match type of Ex with
             | bind ?mm _ = inr _ => destruct mm as [?|?]; cbn [bind] in Ex; [discriminate Ex|]
             | (let '(_, _) := ?p in _) = inr _ => destruct p
             end.
      injection Ex as Ex. subst sd. do 6 eexists. reflexivity. }
    subst sd. cbn [nth] in *. split; [reflexivity|]. split; [eexists; reflexivity|].
    intros Hu. rewrite Hu in B. unfold guard in B.
    match type of B with (if ?b then _ else _) = _ => destruct b eqn:Eg; [lia|discriminate B] end.
Qed.

(* Authentication: task *)
Lemma auth_echo task r sd : auth_interpret task r = inr sd -> exists retv rest, p_data r = task :: retv :: rest.
Proof.
  unfold auth_interpret. destruct (p_data r) as [|sub [|retv rest]]; try discriminate. intros H.
  match type of H with bind ?mm _ = _ => destruct mm as [e|[[[[[[[? ?] ?] ?] ?] ?] ?] ?]]; cbn [bind] in H; [discriminate H|] end.
  inv H. exists retv, rest. f_equal. lia.
Qed.

(* ReadDataByIdentifier: exactly the requested identifiers come back *)
Lemma rdbi_echo cfg l r vals : rdbi_interpret cfg l r = inr vals ->
  (forall k v, In (k, v) vals -> In k l) /\ (forall k, In k l -> exists v, In (k, v) vals).
Proof.
  unfold rdbi_interpret. intros H. inv H. injection H as H. subst vals. split.
  - intros k v Hin. rewrite forallb_forall in G. specialize (G _ Hin). cbn in G.
    apply existsb_exists in G as [x [Hx E]]. assert (x = k) by lia. subst. exact Hx.
  - intros k Hin. rewrite forallb_forall in G0. specialize (G0 _ Hin).
    apply existsb_exists in G0 as [[k' v] [Hx E]]. assert (k' = k) by lia. subst. eauto.
Qed.

(* ReadDTCInformation: subfunction, memory selection, functional group, record numbers, snapshot DTC *)
Lemma rdtci_echo cfg sub a r sd : rdtci_interpret cfg sub a r = inr sd ->
  exists x, rdtci_decode cfg sub a (p_data r) = inr x /\ r_echo x = sub /\ rdtci_client_checks sub a x = inr tt /\
            (exists rest, p_data r = sub :: rest).
Proof.
  unfold rdtci_interpret. destruct (rdtci_decode cfg sub a (p_data r)) as [e|x] eqn:Ed.
  - destruct (p_data r) as [|echo rest]; [discriminate|]. destruct (echo =? sub); discriminate.
  - intros H. inv H. destruct u. exists x. split; [reflexivity|]. split; [lia|]. split; [exact B|].
    unfold rdtci_decode in Ed. inv Ed. destruct (p_data r) as [|echo rest]; [discriminate|].
    assert (r_echo x = echo) as Ee.
    { repeat match type of Ed with
             | (if ?b then _ else _) = inr _ => destruct b
             | bind ?m _ = inr _ => destruct m; cbn [bind] in Ed; [discriminate Ed|]
             | inl _ = inr _ => discriminate Ed
             | fail _ = inr _ => discriminate Ed
             | ret _ = inr _ => injection Ed as Ed; subst x; reflexivity
             | inr _ = inr _ => injection Ed as Ed; subst x; reflexivity
             end. }
    exists rest. f_equal. lia.
Qed.

Ltac peel_check H :=
  match type of H with bind ?m _ = inr _ => let E := fresh "K" in destruct m as [?|[]] eqn:E; cbn [bind] in H; [discriminate H|] end.

Lemma rdtci_checks_memsel sub a x ms : rdtci_client_checks sub a x = inr tt ->
  (sub = 23 \/ sub = 24 \/ sub = 25) -> da_memsel a = Some ms -> r_memsel x = ms.
Proof.
  unfold rdtci_client_checks. intros H Hs Hm. peel_check H. peel_check H. peel_check H. peel_check H.
  rewrite Hm in K2. replace ((sub =? 23) || (sub =? 24) || (sub =? 25)) with true in K2 by lia.
  unfold guard in K2. destruct (ms =? r_memsel x) eqn:E; [lia|discriminate].
Qed.

Lemma rdtci_checks_fgid sub a x g : rdtci_client_checks sub a x = inr tt ->
  (sub = 85 \/ sub = 66) -> da_fgid a = Some g -> r_fgid x = g.
Proof.
  unfold rdtci_client_checks. intros H Hs Hm. peel_check H. peel_check H. peel_check H. peel_check H. peel_check H.
  rewrite Hm in H. replace ((sub =? 85) || (sub =? 66)) with true in H by lia.
  unfold guard in H. destruct (g =? r_fgid x) eqn:E; [lia|discriminate].
Qed.

Lemma rdtci_checks_snapshot_dtc sub a x one want : rdtci_client_checks sub a x = inr tt ->
  (sub = 4 \/ sub = 24) -> r_dtcs x = [one] -> da_dtc a = Some want -> d_id one = want.
Proof.
  unfold rdtci_client_checks. intros H Hs Hd Hw. peel_check H.
  rewrite Hd, Hw in K. replace ((sub =? 4) || (sub =? 24)) with true in K by lia.
  unfold guard in K. destruct (d_id one =? want) eqn:E; [lia|discriminate].
Qed.
