(* read_memory_by_address / write_memory_by_address / request_download, executed up to the point where the request is built
   (Gen/Fn_ClientFormats.v): the formats the caller's MemoryLocation ends up with are the model's - the explicit format, else the configured
   server format (address and size independently of each other), else the automatic width (C14, C01). *)
From Coq Require Import ZArith List Bool Lia ZifyBool.
From UDS Require Import Lib.Bytes Lib.ErrM Lib.PyOps Gen.Maps Gen.Fn_ClientFormats Model.Helpers Model.MemLoc Proofs.Tie_common.
Import ListNotations.
Open Scope Z_scope.
Ltac Zify.zify_post_hook ::= Z.to_euclidean_division_equations.

Lemma tbl_addr : tbl_AddressAndLengthFormatIdentifier_address_map = gen_alfid_address_map. Proof. reflexivity. Qed.
Lemma tbl_size : tbl_AddressAndLengthFormatIdentifier_memsize_map = gen_alfid_memsize_map. Proof. reflexivity. Qed.
Lemma autosize_shape v : autosize v =
  if 1 <? (py_bit_length v + 7) / 8
  then if 64 <? (py_bit_length v + 7) / 8 * 8 then fail EValue else ret ((py_bit_length v + 7) / 8 * 8)
  else ret 8.
Proof.
  unfold autosize. change (bit_length v) with (py_bit_length v). set (k := (py_bit_length v + 7) / 8).
  destruct (1 <? k) eqn:H1.
  - replace (Z.max 1 k) with k by lia. reflexivity.
  - replace (Z.max 1 k) with 1 by lia. reflexivity.
Qed.
Lemma mem8a : py_dict_mem gen_alfid_address_map 8 = true. Proof. reflexivity. Qed.
Lemma mem8s : py_dict_mem gen_alfid_memsize_map 8 = true. Proof. reflexivity. Qed.
Definition obs_formats (m : memloc) := (ml_af m, ml_sf m, al_addr (ml_alfid m), al_size (ml_alfid m)).
Ltac crunch := repeat (progress (cbn [bind ret fail ml_af ml_sf ml_addr ml_size ml_alfid al_addr al_size];
                                 rewrite ?autosize_shape, ?dict_mem_get, ?mem8a, ?mem8s; use_hyps; split_ifs)).
Ltac fmt_tac af sf ca cs :=
  unfold mk_memloc, apply_server_formats, set_format_if_none, resolve_alfid, mk_alfid, obs_formats;
  rewrite ?tbl_addr, ?tbl_size, ?ceil_div8;
  destruct af as [af|], sf as [sf|], ca as [ca|], cs as [cs|]; crunch; try reflexivity; try congruence; try lia.

Theorem tie_client_formats_read a s af sf ca cs :
  fn_client_formats_read a s af sf ca cs = (m <- mk_memloc a s af sf ;; m2 <- apply_server_formats m ca cs ;; ret (obs_formats m2)).
Proof. unfold fn_client_formats_read. fmt_tac af sf ca cs. Qed.
Theorem tie_client_formats_write a s af sf ca cs :
  fn_client_formats_write a s af sf ca cs = (m <- mk_memloc a s af sf ;; m2 <- apply_server_formats m ca cs ;; ret (obs_formats m2)).
Proof. unfold fn_client_formats_write. fmt_tac af sf ca cs. Qed.
Theorem tie_client_formats_download a s af sf ca cs :
  fn_client_formats_download a s af sf ca cs = (m <- mk_memloc a s af sf ;; m2 <- apply_server_formats m ca cs ;; ret (obs_formats m2)).
Proof. unfold fn_client_formats_download. fmt_tac af sf ca cs. Qed.
