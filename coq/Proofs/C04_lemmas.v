(* Proofs for C04: whatever bytes arrive, a call that has transmitted its request ends with a result or a documented
   error - never an internal one, and never out of fuel: every decoding loop strictly advances its cursor, so the
   fuel S (length data) always suffices. *)
From Coq Require Import ZArith List Bool String Lia ZifyBool.
From UDS Require Import Lib.Bytes Lib.ErrM Lib.PyOps Model.Message Model.Client Model.Services Model.Helpers
  Model.MemLoc Model.Svc_Simple Model.Svc_Memory Model.Svc_Did Model.Svc_File Model.Svc_Dtc Model.History
  Proofs.C17_lemmas Proofs.C05_lemmas Proofs.Client_lemmas Proofs.History_lemmas.
Import ListNotations.
Open Scope Z_scope.
Open Scope list_scope.

(* a monadic result is acceptable when it is a value or a documented error *)
Definition ok_res {A} (m : M A) : Prop := match m with inl e => err_internal e = false | inr _ => True end.
Definition ok_cres {A} (c : cres A) : Prop := match c with CErr e _ => err_internal e = false | COk _ => True end.

Lemma ok_ret {A} (a : A) : ok_res (ret a).
Proof. exact I. Qed.
Lemma ok_bind {A B} (m : M A) (f : A -> M B) : ok_res m -> (forall a, m = inr a -> ok_res (f a)) -> ok_res (bind m f).
Proof. destruct m as [e|a]; cbn; auto. Qed.
Lemma ok_guard b e : err_internal e = false -> ok_res (guard b e).
Proof. destruct b; cbn; auto. Qed.
Lemma ok_validate v lo hi : ok_res (validate_int v lo hi).
Proof. unfold validate_int. destruct (_ || _); cbn; auto. Qed.

Ltac ok_step :=
  match goal with
  | |- ok_res (ret _) => exact I
  | |- ok_res (inr _) => exact I
  | |- ok_res (fail EInvalid) => reflexivity
  | |- ok_res (fail EUnexpected) => reflexivity
  | |- ok_res (fail EValue) => reflexivity
  | |- ok_res (fail EConfig) => reflexivity
  | |- ok_res (fail ENotImpl) => reflexivity
  | |- ok_res (inl EInvalid) => reflexivity
  | |- ok_res (inl EUnexpected) => reflexivity
  | |- ok_res (inl EValue) => reflexivity
  | |- ok_res (inl EConfig) => reflexivity
  | |- ok_res (inl ENotImpl) => reflexivity
  | |- ok_res (bind (guard _ _) _) => apply ok_bind; [apply ok_guard; reflexivity|intros ? _]
  | |- ok_res (bind (validate_int _ _ _) _) => apply ok_bind; [apply ok_validate|intros ? _]
  | |- ok_res (guard _ _) => apply ok_guard; reflexivity
  | |- ok_res (bind _ _) => apply ok_bind; [|intros ? _]
  | |- ok_res (if ?b then _ else _) => destruct b
  | |- ok_res (match ?x with _ => _ end) => destruct x
  end.
Ltac ok_auto := repeat ok_step.

(* ---- the receive loop ----------------------------------------------------------------------------------------- *)
Lemma wait_loop_ok cfg p2star rsid spr deadline s :
  forall single (star : bool) now, ok_cres (wl_res (wait_loop cfg p2star rsid spr deadline single star now s)).
Proof.
  induction s as [|[a it] rest IH]; intros single star now; cbn [wait_loop].
  - destruct (wait_len single deadline now) as [is_single w]. destruct spr; cbn; auto.
  - destruct (wait_len single deadline now) as [is_single w].
    destruct (a <=? now + w); [|destruct spr; cbn; auto].
    destruct it as [f|]; [|cbn; auto].
    pose proof (parse_response_total f) as [_ T]. cbv zeta in T.
    destruct (negb (p_valid (parse_response f))) eqn:Ev; [cbn; auto|].
    apply negb_false_iff in Ev.
    destruct T as [(_ & _ & (sv & Hs) & (c & Hc))|(Hv & _)]; [|congruence].
    rewrite Hs, Hc.
    destruct (negb (s_sid sv + 64 =? rsid)); [cbn; auto|].
    destruct (negb (p_positive (parse_response f))).
    + destruct (c =? 120); [|cbn; auto].
      specialize (IH (if star then single else p2star) true (Z.max now a)).
      destruct (wait_loop cfg p2star rsid spr deadline (if star then single else p2star) true (Z.max now a) rest)
        as [[[res t] s'] tr]. cbn [wl_res fst] in *. exact IH.
    + destruct spr; cbn; auto.
Qed.

(* send_request: once a frame has been sent, the outcome is never an internal error *)
Lemma send_request_ok cfg st r to now s :
  let x := send_request cfg st r to now s in
  sent (wl_trace x) <> [] -> ok_cres (wl_res x).
Proof.
  cbv zeta. unfold send_request. destruct (q_svc r) as [sv|]; [|cbn; congruence].
  destruct (if to <? 0 then _ else _) as [overall single].
  destruct (request_payload r _) as [e|p]; [cbn; congruence|].
  destruct (_ && _); [cbn; auto|].
  match goal with |- context [wait_loop ?a ?b ?c ?d ?e ?f ?g ?h ?i] =>
    pose proof (wait_loop_ok a b c d e i f g h) as W;
    destruct (wait_loop a b c d e f g h i) as [[[res t] s'] tr] end.
  cbn in *. intros _. exact W.
Qed.

Lemma send_request_sent cfg st r to now s :
  sent (wl_trace (send_request cfg st r to now s)) = [] \/
  exists p, sent (wl_trace (send_request cfg st r to now s)) = [p].
Proof.
  pose proof (send_request_shape cfg st r to now s) as Sh. cbv zeta in Sh.
  destruct (wire_payload st r) as [e|p].
  - destruct Sh as [[H|H] _]; rewrite H; left; reflexivity.
  - destruct Sh as (tr & Ht & C1 & _). rewrite Ht. right. exists p. cbn.
    f_equal. clear - C1. induction tr as [|x xs IH]; [reflexivity|]. destruct x; cbn in *; try (apply IH; assumption). discriminate.
Qed.

(* the common shape: if the interpretation of any response is acceptable, so is the whole call once it has sent *)
Lemma single_request_ok cfg st mk interp post now s :
  (forall r, ok_res (interp r)) ->
  let '(res, _, _, _, tr) := single_request cfg st mk interp post now s in
  sent tr <> [] -> ok_cres res.
Proof.
  intros Hi. unfold single_request. destruct mk as [e|rq]; [cbn; congruence|].
  pose proof (send_request_ok cfg st rq (-1) now s) as So. cbv zeta in So.
  destruct (send_request cfg st rq (-1) now s) as [[[res t] s'] tr]. cbn [wl_res wl_trace fst snd] in So.
  destruct res as [[r|]|e r]; try exact So.
  specialize (Hi r). destruct (interp r) as [e|sd]; [|intros; exact I].
  intros _. exact Hi.
Qed.

(* ---- interpretation functions of the fixed-header services ------------------------------------------------------ *)
Lemma dsc_interpret_ok cfg session r : ok_res (dsc_interpret cfg session r).
Proof. unfold dsc_interpret. ok_auto. Qed.
Lemma normalize_level_ok k level : ok_res (normalize_level k level).
Proof. unfold normalize_level. ok_auto. Qed.
Lemma sa_interpret_ok k level r : ok_res (sa_interpret k level r).
Proof.
  unfold sa_interpret. ok_step. destruct (p_data r) as [|echo seed]; [reflexivity|].
  apply ok_bind; [apply normalize_level_ok|intros expected _]. ok_auto.
Qed.
Lemma tp_interpret_ok r : ok_res (tp_interpret r).
Proof. unfold tp_interpret. ok_auto. Qed.
Lemma er_interpret_ok t r : ok_res (er_interpret t r).
Proof.
  unfold er_interpret. destruct (p_data r) as [|echo rest]; [reflexivity|].
  apply ok_bind; [destruct (echo =? 4); [destruct rest; cbn; auto|exact I]|intros pd _]. ok_auto.
Qed.
Lemma rc_interpret_ok rid ct r : ok_res (rc_interpret rid ct r).
Proof. unfold rc_interpret. destruct (p_data r) as [|a [|b [|c rec]]]; try reflexivity. ok_auto. Qed.
Lemma atp_interpret_ok a r : ok_res (atp_interpret a r).
Proof. unfold atp_interpret. ok_auto. Qed.
Lemma echo1_interpret_ok x r : ok_res (echo1_interpret x r).
Proof. unfold echo1_interpret. ok_auto. Qed.
Lemma td_interpret_ok x r : ok_res (td_interpret x r).
Proof. unfold td_interpret. ok_auto. Qed.

(* ---- memory services ---------------------------------------------------------------------------------------------- *)
Lemma rmba_interpret_ok cfg size r : ok_res (rmba_interpret cfg size r).
Proof. unfold rmba_interpret. destruct (p_data r); [reflexivity|]. ok_auto. Qed.
Lemma rud_interpret_ok r : ok_res (rud_interpret r).
Proof. unfold rud_interpret. ok_auto. Qed.
Lemma dddi_interpret_ok sub did must r : ok_res (dddi_interpret sub did must r).
Proof.
  unfold dddi_interpret. destruct (p_data r) as [|echo rest]; [reflexivity|]. ok_step. ok_step.
  apply ok_bind; [destruct did; [destruct (match rest with d1 :: d0 :: _ => _ | _ => None end); [apply ok_guard; reflexivity|destruct must; cbn; auto]|exact I]|intros ? _].
  exact I.
Qed.

(* errors of the request-building helpers that interpretation re-runs (WriteMemoryByAddress recomputes the widths) *)
Lemma autosize_ok v : ok_res (autosize v).
Proof. unfold autosize. ok_auto. Qed.
Lemma mk_alfid_ok_res a s : ok_res (mk_alfid a s).
Proof. unfold mk_alfid. destruct (map_get _ a); [destruct (map_get _ s)|]; cbn; auto. Qed.
Lemma resolve_alfid_ok a s af sf : ok_res (resolve_alfid a s af sf).
Proof.
  unfold resolve_alfid. apply ok_bind; [destruct af; [exact I|apply autosize_ok]|intros x _].
  apply ok_bind; [destruct sf; [exact I|apply autosize_ok]|intros y _]. apply mk_alfid_ok_res.
Qed.
Lemma set_format_ok m a s : ok_res (set_format_if_none m a s).
Proof. unfold set_format_if_none. apply ok_bind; [apply resolve_alfid_ok|intros; exact I]. Qed.
Lemma client_memloc_ok cfg a s af sf : ok_res (client_memloc cfg a s af sf).
Proof.
  unfold client_memloc, mk_memloc, apply_server_formats.
  apply ok_bind; [apply ok_bind; [apply resolve_alfid_ok|intros; exact I]|intros m _].
  apply ok_bind; [apply set_format_ok|intros m1 _]. apply set_format_ok.
Qed.

(* a location produced by client_memloc has formats of the width maps, so the byte counts are found *)
Lemma resolve_alfid_mk a s af sf al : resolve_alfid a s af sf = inr al -> exists x y, mk_alfid x y = inr al.
Proof.
  unfold resolve_alfid.
  destruct (match af with Some x => ret x | None => autosize a end) as [e|x]; cbn [bind]; [intros H; discriminate H|].
  destruct (match sf with Some x => ret x | None => autosize s end) as [e|y]; cbn [bind]; [intros H; discriminate H|].
  eauto.
Qed.

Lemma set_format_alfid m a s m' : set_format_if_none m a s = inr m' ->
  exists x y, mk_alfid x y = inr (ml_alfid m').
Proof.
  unfold set_format_if_none.
  destruct (resolve_alfid _ _ _ _) as [e|al] eqn:E; cbn [bind ret]; [intros H; discriminate H|].
  intros H. injection H as H. subst m'. cbn. eapply resolve_alfid_mk. exact E.
Qed.

Lemma alfid_maps_found x y al : mk_alfid x y = inr al ->
  (exists na, map_get Gen.Maps.gen_alfid_address_map (al_addr al) = Some na) /\
  (exists ns, map_get Gen.Maps.gen_alfid_memsize_map (al_size al) = Some ns).
Proof.
  unfold mk_alfid. destruct (map_get _ x) as [na|] eqn:Ea; [|discriminate].
  destruct (map_get _ y) as [ns|] eqn:Es; [|discriminate].
  intros H. injection H as H. subst al. cbn. eauto.
Qed.

Lemma fit_bytes_ok n v : ok_res (fit_bytes n v).
Proof. unfold fit_bytes. ok_auto. Qed.

Lemma client_memloc_bytes_ok cfg a s af sf m : client_memloc cfg a s af sf = inr m ->
  ok_res (addr_bytes m) /\ ok_res (size_bytes m) /\ ok_res (alfid_byte (ml_alfid m)).
Proof.
  unfold client_memloc, apply_server_formats.
  destruct (mk_memloc a s af sf) as [e|m0]; cbn [bind]; [discriminate|].
  destruct (set_format_if_none m0 (srv_addr cfg) None) as [e|m1]; cbn [bind]; [discriminate|].
  intros H. apply set_format_alfid in H as (x & y & Hal). apply alfid_maps_found in Hal as [[na Ha] [ns Hs]].
  unfold addr_bytes, size_bytes, alfid_byte, nbytes. rewrite Ha, Hs. cbn [bind ret].
  repeat split; try apply fit_bytes_ok.
Qed.

Lemma wmba_interpret_ok cfg a s af sf r : ok_res (wmba_interpret cfg a s af sf r).
Proof.
  unfold wmba_interpret. pose proof (client_memloc_ok cfg a s af sf) as Hm.
  destruct (client_memloc cfg a s af sf) as [e|m] eqn:Em; cbn [bind]; [exact Hm|].
  destruct (client_memloc_bytes_ok cfg a s af sf m Em) as (Ha & Hs & Hb).
  destruct (addr_bytes m) as [e|ab]; cbn [bind]; [exact Ha|].
  destruct (size_bytes m) as [e|sb]; cbn [bind]; [exact Hs|].
  destruct (Nat.ltb _ _); [reflexivity|].
  destruct (alfid_byte (ml_alfid m)) as [e|b]; cbn [bind]; [exact Hb|]. ok_auto.
Qed.

(* ---- identifier-based services -------------------------------------------------------------------------------- *)
Lemma fetch_codec_ok pc did : ok_res (fetch_codec pc did).
Proof. unfold fetch_codec. destruct (lookup did _); [exact I|]. destruct (lookup (-1) _); [exact I|reflexivity]. Qed.

(* the multi-DID loop: every round consumes at least the two identifier bytes, so S (length d) rounds suffice *)
Lemma rdbi_loop_ok pc requested d : forall fuel offset vals,
  (List.length d - offset < fuel)%nat -> ok_res (rdbi_loop fuel pc requested d offset vals).
Proof.
  induction fuel as [|k IH]; intros offset vals Hf; [lia|]. cbn [rdbi_loop].
  destruct (Nat.leb (List.length d) offset) eqn:E1; [exact I|].
  destruct (Nat.leb (List.length d) (offset + 1)) eqn:E2; [destruct (_ && _); [exact I|reflexivity]|].
  destruct (_ && _); [exact I|].
  destruct (fetch_codec pc _) as [e|sh] eqn:Ef.
  - pose proof (fetch_codec_ok pc (be_dec (firstn 2 (skipn offset d)))) as F. rewrite Ef in F.
    destruct (existsb _ requested); [exact F|reflexivity].
  - destruct (Nat.ltb _ _) eqn:E3; [reflexivity|]. apply IH.
    apply Nat.leb_gt in E1. lia.
Qed.

Lemma rdbi_interpret_ok cfg l r : ok_res (rdbi_interpret cfg l r).
Proof.
  unfold rdbi_interpret. apply ok_bind; [apply rdbi_loop_ok; lia|intros vals _]. ok_auto.
Qed.

Lemma wdbi_interpret_ok did r : ok_res (wdbi_interpret did r).
Proof. unfold wdbi_interpret. destruct (p_data r) as [|a [|b rest]]; try reflexivity. ok_auto. Qed.

Lemma fetch_io_ok cfg did : ok_res (fetch_io cfg did).
Proof. unfold fetch_io. destruct (lookup did _); [exact I|]. destruct (lookup (-1) _); [exact I|reflexivity]. Qed.
Lemma check_io_entry_ok e : ok_res (check_io_entry e).
Proof. unfold check_io_entry. destruct e as [[[sh hm] masks] ms]. ok_step. destruct ms; [|exact I]. ok_auto. Qed.

Lemma io_interpret_ok cfg did cp r : ok_res (io_interpret cfg did cp r).
Proof.
  unfold io_interpret. ok_step. apply ok_bind; [apply fetch_io_ok|intros e _].
  apply ok_bind; [apply check_io_entry_ok|intros ? _]. destruct e as [[[sh hm] masks] ms]. ok_auto.
Qed.

(* ---- file transfer and authentication ----------------------------------------------------------------------------- *)
Lemma take_num_ok d c n : ok_res (take_num d c n).
Proof. unfold take_num. ok_auto. Qed.

Lemma rft_interpret_ok cfg moop dfi r : ok_res (rft_interpret cfg moop dfi r).
Proof.
  unfold rft_interpret, rft_interpret_raw. destruct (p_data r) as [|m rest] eqn:Ed; [reflexivity|].
  match goal with |- ok_res (match ?X with _ => _ end) => assert (ok_res X) as HX; [|destruct X as [e|sd]] end.
  { apply ok_bind.
    - destruct (_ || _); [|exact I]. destruct rest as [|lfid rest']; [reflexivity|].
      destruct (8 <? lfid); [reflexivity|]. destruct (lfid =? 0); [reflexivity|].
      apply ok_bind; [apply take_num_ok|intros; exact I].
    - intros [maxlen cur1] _. apply ok_bind.
      + destruct (_ || _); [|exact I]. destruct (nth_error _ cur1); [|reflexivity]. destruct (_ && _); [reflexivity|exact I].
      + intros [dfv cur2] _. apply ok_bind.
        * destruct (_ || _); [|exact I]. apply ok_bind; [apply take_num_ok|intros l _].
          destruct (8 <? l); [reflexivity|]. destruct (l =? 0); [reflexivity|].
          apply ok_bind; [apply take_num_ok|intros u _]. destruct (m =? 4); [|exact I].
          apply ok_bind; [apply take_num_ok|intros; exact I].
        * intros [[unc comp] cur3] _. apply ok_bind.
          -- destruct (m =? 6); [|exact I]. apply ok_bind; [apply take_num_ok|intros; exact I].
          -- intros [pos cur4] _. ok_auto. }
  - destruct e; cbn in HX; try discriminate; try reflexivity; try (destruct (_ && _); reflexivity).
  - ok_auto.
Qed.

Lemma extract_param_ok d c : ok_res (extract_param d c).
Proof. unfold extract_param. destruct (skipn c d) as [|a [|b body]]; try reflexivity. ok_auto. Qed.

Lemma auth_interpret_ok task r : ok_res (auth_interpret task r).
Proof.
  unfold auth_interpret. destruct (p_data r) as [|sub [|retv rest]] eqn:Ed; try reflexivity.
  apply ok_bind; [|intros [[[[[[[chal eph] cert] pown] skey] algo] need] off] _; ok_auto].
  repeat match goal with
         | |- ok_res (if ?b then _ else _) => destruct b
         | |- ok_res (bind (extract_param _ _) _) => apply ok_bind; [apply extract_param_ok|intros [? ?] _]
         | |- ok_res (ret _) => exact I
         | |- ok_res (fail EInvalid) => reflexivity
         end.
Qed.

(* ---- ReadDTCInformation: every loop advances ------------------------------------------------------------------------ *)
Lemma loop_records_ok pc sub ws d : forall fuel cur acc,
  (List.length d - cur < fuel)%nat -> ok_res (loop_records fuel pc sub ws d cur acc).
Proof.
  induction fuel as [|k IH]; intros cur acc Hf; [lia|]. cbn [loop_records].
  destruct (Nat.leb (List.length d) cur) eqn:E1; [exact I|]. apply Nat.leb_gt in E1.
  destruct (Nat.ltb _ _).
  - destruct (_ && _); [exact I|]. destruct (_ || _); [reflexivity|]. apply IH. destruct ws; lia.
  - destruct (_ && _); apply IH; destruct ws; lia.
Qed.

Lemma loop_pairs_ok pc fault d : forall fuel cur acc,
  (List.length d - cur < fuel)%nat -> ok_res (loop_pairs fuel pc fault d cur acc).
Proof.
  induction fuel as [|k IH]; intros cur acc Hf; [lia|]. cbn [loop_pairs].
  destruct (Nat.leb (List.length d) cur) eqn:E1; [exact I|]. apply Nat.leb_gt in E1.
  destruct (Nat.ltb _ _); [destruct (_ && _); [exact I|reflexivity]|].
  destruct (_ && _); apply IH; lia.
Qed.

Lemma loop_dids_ok pc recnum d : forall ndid cur acc,
  ok_res (loop_dids ndid pc recnum d cur acc) /\
  (forall snaps cur', loop_dids ndid pc recnum d cur acc = inr (snaps, cur') -> (cur <= cur')%nat).
Proof.
  induction ndid as [|k IH]; intros cur acc; cbn [loop_dids]; [split; [exact I|intros ? ? H; injection H as _ H; lia]|].
  destruct (Nat.ltb _ _); [split; [reflexivity|discriminate]|].
  destruct (fetch_codec pc _) as [e|sh] eqn:Ef; cbn [bind].
  - pose proof (fetch_codec_ok pc (be_dec (firstn (Z.to_nat (pc_snap pc)) (skipn cur d)))) as F. rewrite Ef in F.
    split; [exact F|discriminate].
  - destruct (Nat.ltb _ _); [split; [reflexivity|discriminate]|].
    match goal with |- context [loop_dids k pc recnum d ?c ?a] => destruct (IH c a) as [I1 I2] end.
    split; [exact I1|]. intros snaps cur' H. specialize (I2 _ _ H). lia.
Qed.

Lemma loop_snap_by_dtc_ok pc d : forall fuel cur acc,
  (List.length d - cur < fuel)%nat -> ok_res (loop_snap_by_dtc fuel pc d cur acc).
Proof.
  induction fuel as [|k IH]; intros cur acc Hf; [lia|]. cbn [loop_snap_by_dtc].
  destruct (Nat.leb (List.length d) cur) eqn:E1; [exact I|]. apply Nat.leb_gt in E1.
  destruct (_ && _); [exact I|]. destruct (Nat.ltb _ 2); [reflexivity|].
  destruct (_ =? 0); [reflexivity|]. destruct (Nat.ltb _ _); [reflexivity|].
  match goal with |- context [loop_dids ?n pc ?r d ?c ?a] => destruct (loop_dids_ok pc r d n c a) as [D1 D2];
    destruct (loop_dids n pc r d c a) as [e|[snaps cur']] eqn:El end; cbn [bind]; [exact D1|].
  apply IH. specialize (D2 _ _ eq_refl). lia.
Qed.

Lemma loop_snap_by_rec_ok pc d : forall fuel cur acc,
  (List.length d - cur < fuel)%nat -> ok_res (loop_snap_by_rec fuel pc d cur acc).
Proof.
  induction fuel as [|k IH]; intros cur acc Hf; [lia|]. cbn [loop_snap_by_rec].
  destruct (Nat.leb (List.length d) cur) eqn:E1; [exact I|]. apply Nat.leb_gt in E1.
  destruct (_ && _); [exact I|]. destruct (_ || _); [exact I|]. destruct (Nat.ltb _ 6); [reflexivity|].
  destruct (_ =? 0); [reflexivity|]. destruct (Nat.ltb _ _); [reflexivity|]. destruct (_ && _); [exact I|].
  match goal with |- context [loop_dids ?n pc ?r d ?c ?a] => destruct (loop_dids_ok pc r d n c a) as [D1 D2];
    destruct (loop_dids n pc r d c a) as [e|[snaps cur']] eqn:El end; cbn [bind]; [exact D1|].
  apply IH. specialize (D2 _ _ eq_refl). lia.
Qed.

Lemma loop_ext_by_dtc_ok pc size d : forall fuel cur acc,
  (List.length d - cur < fuel)%nat -> ok_res (loop_ext_by_dtc fuel pc size d cur acc).
Proof.
  induction fuel as [|k IH]; intros cur acc Hf; [lia|]. cbn [loop_ext_by_dtc].
  destruct (Nat.leb (List.length d) cur) eqn:E1; [exact I|]. apply Nat.leb_gt in E1.
  destruct (_ =? 0); [destruct (_ && _); [exact I|reflexivity]|].
  destruct (Nat.ltb _ _); [reflexivity|]. apply IH. lia.
Qed.

Lemma loop_ext_by_rec_ok pc size recnum d : forall fuel cur acc,
  (cur <= List.length d)%nat -> (List.length d - cur < fuel)%nat -> ok_res (loop_ext_by_rec fuel pc size recnum d cur acc).
Proof.
  induction fuel as [|k IH]; intros cur acc Hc Hf; [lia|]. cbn [loop_ext_by_rec].
  destruct (Nat.eqb cur (List.length d)) eqn:E1; [exact I|]. apply Nat.eqb_neq in E1.
  destruct (_ && _); [destruct (pc_tol pc); [exact I|reflexivity]|].
  destruct (Nat.ltb (List.length d - cur) 4) eqn:E2; [reflexivity|]. apply Nat.ltb_ge in E2.
  destruct (existsb _ acc); [reflexivity|].
  destruct (Nat.ltb (List.length d - (cur + 4)) size) eqn:E3; [reflexivity|]. apply Nat.ltb_ge in E3.
  apply IH; lia.
Qed.

Lemma loop_wwh_ok pc : forall fuel d acc, (List.length d < fuel)%nat -> ok_res (loop_wwh fuel pc d acc).
Proof.
  induction fuel as [|k IH]; intros d acc Hf; [lia|]. cbn [loop_wwh].
  destruct d as [|a [|b [|c [|e [|f tl]]]]]; try exact I; try (destruct (_ && _); [exact I|reflexivity]).
  cbn [List.length] in Hf. destruct (_ && _); apply IH; cbn [List.length]; lia.
Qed.

Lemma check_subfunction_ok std_ sub : ok_res (check_subfunction_valid std_ sub).
Proof. unfold check_subfunction_valid. ok_auto. Qed.
Lemma ext_size_of_ok cfg a : ok_res (ext_size_of cfg a).
Proof. unfold ext_size_of. destruct (match da_ext_size a with Some v => Some v | None => ext_size cfg end); [|reflexivity]. ok_auto. Qed.

Lemma rdtci_decode_ok cfg sub a d : ok_res (rdtci_decode cfg sub a d).
Proof.
  unfold rdtci_decode. apply ok_bind; [apply check_subfunction_ok|intros ? _].
  destruct d as [|echo rest]; [reflexivity|].
  set (d := echo :: rest).
  destruct (_ || _).
  { destruct (Nat.ltb _ _); [reflexivity|]. apply ok_bind; [apply loop_records_ok; lia|intros; exact I]. }
  destruct (_ || _).
  { apply ok_bind; [apply loop_pairs_ok; lia|intros; exact I]. }
  destruct (in_group _ sub).
  { destruct (Nat.ltb _ _); [reflexivity|exact I]. }
  destruct (in_group _ sub).
  { destruct (Nat.ltb _ _); [reflexivity|]. ok_step. apply ok_bind; [apply loop_snap_by_dtc_ok; lia|intros; exact I]. }
  destruct (in_group _ sub).
  { ok_step. destruct (Nat.ltb _ _); [reflexivity|]. apply ok_bind; [apply loop_snap_by_rec_ok; lia|intros; exact I]. }
  destruct (in_group _ sub).
  { apply ok_bind; [apply ext_size_of_ok|intros size _]. destruct (Nat.ltb _ _); [reflexivity|].
    apply ok_bind; [apply loop_ext_by_dtc_ok; lia|intros; exact I]. }
  destruct (in_group _ sub).
  { apply ok_bind; [apply ext_size_of_ok|intros size _]. destruct (Nat.ltb (List.length d) 2) eqn:E2; [reflexivity|].
    apply Nat.ltb_ge in E2. destruct (239 <? _); [reflexivity|].
    apply ok_bind; [apply loop_ext_by_rec_ok; lia|intros; exact I]. }
  destruct (_ || _); [|exact I].
  destruct (Nat.ltb _ _); [reflexivity|]. destruct (254 <? _); [reflexivity|]. destruct (negb _); [reflexivity|].
  apply ok_bind; [apply loop_wwh_ok; rewrite skipn_length; lia|intros; exact I].
Qed.

Lemma rdtci_client_checks_ok sub a x : ok_res (rdtci_client_checks sub a x).
Proof. unfold rdtci_client_checks. ok_auto. Qed.

Lemma rdtci_interpret_ok cfg sub a r : ok_res (rdtci_interpret cfg sub a r).
Proof.
  unfold rdtci_interpret. pose proof (rdtci_decode_ok cfg sub a (p_data r)) as D.
  destruct (rdtci_decode cfg sub a (p_data r)) as [e|x].
  - destruct (p_data r) as [|echo rest]; [exact D|]. destruct (echo =? sub); [exact D|reflexivity].
  - ok_step. apply ok_bind; [apply rdtci_client_checks_ok|intros; exact I].
Qed.

(* ---- every modelled client call ----------------------------------------------------------------------------------- *)
Global Hint Unfold request_seed send_key tester_present ecu_reset clear_dtc routine_control access_timing_parameter
  transfer_data request_transfer_exit link_control control_dtc_setting read_memory_by_address write_memory_by_address
  request_upload_download dynamically_define_did do_clear_dynamically_defined_did read_data_by_identifier
  test_data_identifier write_data_by_identifier io_control request_file_transfer authentication
  read_dtc_information change_session : calls04.

(* when building the request cannot fail internally and a built request can always be put on the wire, the call
   never ends with an internal error, sent or not *)
Lemma single_request_always_ok cfg st mk interp post now s :
  ok_res mk -> (forall rq, mk = inr rq -> exists p, wire_payload st rq = inr p) -> (forall r, ok_res (interp r)) ->
  let '(res, _, _, _, _) := single_request cfg st mk interp post now s in ok_cres res.
Proof.
  intros Hm Hw Hi. pose proof (single_request_ok cfg st mk interp post now s Hi) as H.
  unfold single_request in *. destruct mk as [e|rq]; [exact Hm|].
  destruct (Hw rq eq_refl) as [p Hp].
  pose proof (send_request_shape cfg st rq (-1) now s) as Sh. cbv zeta in Sh. rewrite Hp in Sh.
  destruct (send_request cfg st rq (-1) now s) as [[[res t] s'] tr]. cbn [wl_trace wl_res fst snd] in Sh.
  destruct Sh as (tr' & Ht & _). subst tr.
  destruct res as [[r|]|e r]; try (apply H; cbn; discriminate).
  destruct (interp r); apply H; cbn; discriminate.
Qed.

Lemma sa_make_ok k level data : ok_res (sa_make k level data).
Proof.
  unfold sa_make. ok_step. apply ok_bind; [apply normalize_level_ok|intros lv _].
  unfold mk_req. destruct History_lemmas.security_access_in_table as (sv & Hs & _). rewrite Hs.
  unfold mk_request. cbn [andb]. exact I.
Qed.

Lemma sa_make_sends st k level data rq : sa_make k level data = inr rq -> exists p, wire_payload st rq = inr p.
Proof.
  unfold sa_make, validate_int. destruct ((level <? 0) || (127 <? level)); cbn [bind ret fail]; [discriminate|].
  destruct (normalize_level k level) as [e|lv] eqn:En; cbn [bind]; [discriminate|].
  assert (1 <= lv <= 126) as Hlv.
  { unfold normalize_level, validate_int in En. destruct ((level <? 1) || (126 <? level)) eqn:Er; cbn [bind ret fail] in En; [discriminate|].
    destruct k; [destruct (level mod 2 =? 0) eqn:Em|destruct (level mod 2 =? 1) eqn:Em]; injection En as En; subst lv; lia. }
  unfold mk_req. destruct History_lemmas.security_access_in_table as (sv & Hs & Hsid & Hsub & Hin). rewrite Hs.
  intros Hm. eexists. exact (wire_payload_spec st sv lv (Some data) rq Hin ltac:(lia) Hm).
Qed.

Lemma unlock_ok cfg st level params now s :
  let '(res, _, _, _, _) := unlock_security_access cfg st level params now s in ok_cres res.
Proof.
  unfold unlock_security_access. destruct (algo cfg <=? 0); [reflexivity|].
  unfold request_seed, send_key.
  pose proof (single_request_always_ok cfg st (sa_make false level params) (sa_interpret false level) no_post now s
                (sa_make_ok false level params) (sa_make_sends st false level params) (sa_interpret_ok false level)) as H1.
  destruct (single_request cfg st (sa_make false level params) (sa_interpret false level) no_post now s)
    as [[[[res1 st1] t1] s1] tr1].
  destruct res1 as [[[r sd]|]|e r]; try exact H1.
  destruct (_ && _); [exact H1|].
  destruct (algo_run cfg (seed_of sd) level) as [key ev].
  destruct (algo_fails cfg); [reflexivity|].
  pose proof (single_request_always_ok cfg st1 (sa_make true level key) (sa_interpret true level) no_post t1 s1
                (sa_make_ok true level key) (sa_make_sends st1 true level key) (sa_interpret_ok true level)) as H2.
  destruct (single_request cfg st1 (sa_make true level key) (sa_interpret true level) no_post t1 s1)
    as [[[[res2 st2] t2] s2] tr2]. exact H2.
Qed.

(* every modelled client call: once it has transmitted a frame, whatever is received, the outcome is a value or a
   documented error *)
Lemma run_inner_ok cfg st c now s :
  let '(res, _, _, _, tr) := run_inner cfg st c now s in sent tr <> [] -> ok_cres res.
Proof.
  destruct c; cbn [run_inner];
    try solve [autounfold with calls04; apply single_request_ok; intros r;
               first [ apply dsc_interpret_ok | apply sa_interpret_ok | apply tp_interpret_ok | apply er_interpret_ok
                     | apply rc_interpret_ok | apply atp_interpret_ok | apply echo1_interpret_ok | apply td_interpret_ok
                     | apply rmba_interpret_ok | apply wmba_interpret_ok | apply rud_interpret_ok | apply dddi_interpret_ok
                     | apply wdbi_interpret_ok | apply io_interpret_ok | apply rft_interpret_ok | apply auth_interpret_ok
                     | apply rdtci_interpret_ok | exact I
                     | (apply ok_bind; [apply rdbi_interpret_ok|intros; exact I]) ]].
  - (* raw send_request *)
    unfold raw_request. destruct (mk_request _ _ _ _); [cbn; congruence|].
    pose proof (send_request_ok cfg st r timeout now s) as So. cbv zeta in So.
    destruct (send_request cfg st r timeout now s) as [[[res t] s'] tr]. cbn [wl_res wl_trace fst snd] in So.
    destruct res as [[r0|]|e r0]; exact So.
  - (* unlock_security_access *)
    pose proof (unlock_ok cfg st level params now s) as H.
    destruct (unlock_security_access cfg st level params now s) as [[[[res st'] t] s'] tr]. intros _. exact H.
  - (* communication_control *)
    unfold communication_control. destruct (ct_normalize a); [cbn; congruence|].
    apply single_request_ok. intros r. apply echo1_interpret_ok.
  - (* read_data_by_identifier_first *)
    unfold read_data_by_identifier_first. destruct (iterM (fun d => validate_int d 0 65535) l); [cbn; congruence|].
    match goal with |- context [single_request ?a ?b ?c ?d ?e ?f ?g] =>
      pose proof (single_request_ok a b c d e f g) as H; destruct (single_request a b c d e f g) as [[[[res st'] t] s'] tr] end.
    assert (sent tr <> [] -> ok_cres res) as H'.
    { apply H. intros r. apply ok_bind; [apply rdbi_interpret_ok|intros; exact I]. }
    intros Hs. specialize (H' Hs). destruct res as [[[r sd]|]|e r]; [|exact I|exact H'].
    repeat match goal with |- ok_cres (match ?x with _ => _ end) => destruct x end; exact I.
Qed.
