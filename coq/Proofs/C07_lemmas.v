(* Proofs for C01 / C07: the request builders accept exactly the documented domain and, inside it, produce exactly
   the ISO frame of Spec/IsoRequests.v; outside it they fail, so nothing is sent.  Arithmetic by lia; facts about
   the service table by computation over the regenerated Gen/ServiceTable.v. *)
From Coq Require Import ZArith List Bool String Lia ZifyBool.
From UDS Require Import Lib.Bytes Lib.ErrM Lib.PyOps Gen.Maps Gen.DtcGroups Spec.IsoRequests Model.Message Model.Client Model.Services
  Model.Helpers Model.MemLoc Model.Svc_Simple Model.Svc_Memory Model.Svc_Did Model.Svc_File Model.Svc_Dtc Model.History
  Proofs.Bytes_lemmas Proofs.C17_lemmas Proofs.C19_lemmas Proofs.C05_lemmas Proofs.Client_lemmas Proofs.C14_lemmas.
Import ListNotations.
Open Scope string_scope.
Open Scope Z_scope.
Open Scope list_scope.

(* what reaches the connection for a request builder *)
Definition frame_of (st : cstate) (m : M req) : M bytes := rq <- m ;; wire_payload st rq.

(* the frame ISO prescribes for a request of the Spec *)
Definition iso_frame (st : cstate) (sid : Z) (hs : bool) (ir : iso_req) : bytes :=
  apply_override (ov st)
    (sid :: (if hs then match i_sub ir with Some sb => [if spr_on st then sb + 128 else sb] | None => [] end else [])
         ++ i_data ir).

(* a builder agrees with the Spec: inside the documented domain it yields exactly the ISO frame (bit 7 of the
   subfunction set iff suppression is on), outside it fails *)
Definition agrees (st : cstate) (m : M req) (spec : option iso_req) : Prop :=
  match spec with
  | Some ir => exists sid hs, In (i_name ir, sid, hs) iso_services /\ frame_of st m = inr (iso_frame st sid hs ir)
  | None => exists e, m = inl e
  end.

(* ---- the service table is ISO's ----------------------------------------------------------------------------------- *)
Definition svc_row_ok (row : string * Z * bool) : bool :=
  let '(n, sid, hs) := row in
  match svc_by_name n with
  | Some s => (s_sid s =? sid) && Bool.eqb (s_sub s) hs && existsb (svc_beq s) services
  | None => false
  end.
Lemma iso_services_ok : forallb svc_row_ok iso_services = true.
Proof. vm_compute. reflexivity. Qed.

Lemma svc_row n sid hs : In (n, sid, hs) iso_services ->
  exists s, svc_by_name n = Some s /\ s_sid s = sid /\ s_sub s = hs /\ In s services.
Proof.
  intros Hin. pose proof iso_services_ok as H. rewrite forallb_forall in H. specialize (H _ Hin). unfold svc_row_ok in H.
  destruct (svc_by_name n) as [s|]; [|discriminate]. apply andb_true_iff in H as [H H3]. apply andb_true_iff in H as [H1 H2].
  exists s. split; [reflexivity|]. split; [lia|]. split; [apply Bool.eqb_prop; exact H2|].
  apply existsb_exists in H3 as [t [Ht Hb]]. apply svc_beq_eq in Hb. subst. exact Ht.
Qed.

Lemma wire_nosub st s d rq : In s services -> s_sub s = false ->
  mk_request (Some s) None false d = inr rq ->
  wire_payload st rq = inr (apply_override (ov st) (s_sid s :: match d with Some x => x | None => [] end)).
Proof.
  intros Hin Hs Hm. destruct (svc_facts s Hin) as (H0 & H1 & _).
  unfold mk_request in Hm. cbn [andb] in Hm. injection Hm as Hr. subst rq.
  unfold wire_payload, request_payload. cbn [q_svc q_sub q_spr q_data]. rewrite Hs. rewrite andb_false_r. cbn [orb].
  rewrite (pack_B_ok (s_sid s)) by lia. reflexivity.
Qed.

(* mk_req for a service with a subfunction *)
Lemma frame_mk_req_sub st n sid sub d :
  In (n, sid, true) iso_services -> 0 <= sub < 128 ->
  frame_of st (mk_req n (Some sub) (Some d)) = inr (iso_frame st sid true {| i_name := n; i_sub := Some sub; i_data := d |}).
Proof.
  intros Hin Hs. destruct (svc_row n sid true Hin) as (s & Hn & Hsid & Hsub & Hs_in).
  unfold frame_of, mk_req. rewrite Hn.
  destruct (mk_request (Some s) (Some sub) false (Some d)) as [e|rq] eqn:Em; [unfold mk_request in Em; cbn in Em; discriminate|].
  cbn [bind]. rewrite (wire_payload_spec st s sub (Some d) rq Hs_in Hs Em). rewrite Hsub, Hsid. reflexivity.
Qed.
Lemma frame_mk_req_sub_nodata st n sid sub :
  In (n, sid, true) iso_services -> 0 <= sub < 128 ->
  frame_of st (mk_req n (Some sub) None) = inr (iso_frame st sid true {| i_name := n; i_sub := Some sub; i_data := [] |}).
Proof.
  intros Hin Hs. destruct (svc_row n sid true Hin) as (s & Hn & Hsid & Hsub & Hs_in).
  unfold frame_of, mk_req. rewrite Hn.
  destruct (mk_request (Some s) (Some sub) false None) as [e|rq] eqn:Em; [unfold mk_request in Em; cbn in Em; discriminate|].
  cbn [bind]. rewrite (wire_payload_spec st s sub None rq Hs_in Hs Em). rewrite Hsub, Hsid. reflexivity.
Qed.
(* ... and without *)
Lemma frame_mk_req_nosub st n sid d :
  In (n, sid, false) iso_services ->
  frame_of st (mk_req n None d) = inr (iso_frame st sid false {| i_name := n; i_sub := None; i_data := match d with Some x => x | None => [] end |}).
Proof.
  intros Hin. destruct (svc_row n sid false Hin) as (s & Hn & Hsid & Hsub & Hs_in).
  unfold frame_of, mk_req. rewrite Hn.
  destruct (mk_request (Some s) None false d) as [e|rq] eqn:Em; [unfold mk_request in Em; cbn in Em; discriminate|].
  cbn [bind]. rewrite (wire_nosub st s d rq Hs_in Hsub Em). rewrite Hsid. reflexivity.
Qed.

Ltac in_iso := solve [cbn; repeat (first [left; reflexivity | right])].

Lemma validate_int_in v lo hi : lo <= v <= hi -> validate_int v lo hi = inr tt.
Proof. intros H. unfold validate_int. replace ((v <? lo) || (hi <? v)) with false by lia. reflexivity. Qed.
Lemma validate_int_out v lo hi : ~ (lo <= v <= hi) -> validate_int v lo hi = inl EValue.
Proof. intros H. unfold validate_int. replace ((v <? lo) || (hi <? v)) with true by lia. reflexivity. Qed.
Lemma pack_H_ok v : 0 <= v <= 65535 -> pack_H v = inr (be_enc 2 v).
Proof. intros H. unfold pack_H. apply pack_be_ok. change (256 ^ Z.of_nat 2) with 65536. lia. Qed.
Lemma pack_B_enc v : 0 <= v <= 255 -> pack_B v = inr (be_enc 1 v).
Proof. intros H. unfold pack_B. apply pack_be_ok. change (256 ^ Z.of_nat 1) with 256. lia. Qed.

(* ---- one lemma per request builder ---------------------------------------------------------------------------------- *)
Lemma change_session_agrees st session : agrees st (dsc_make session) (iso_change_session session).
Proof.
  unfold iso_change_session, in_u, dsc_make. destruct ((0 <=? session) && (session <=? 127)) eqn:E.
  - exists 16, true. split; [in_iso|]. rewrite validate_int_in by lia. cbn [bind].
    apply frame_mk_req_sub_nodata; [in_iso|lia].
  - rewrite validate_int_out by lia. eexists; reflexivity.
Qed.

Lemma ecu_reset_agrees st t : agrees st (er_make t) (iso_ecu_reset t).
Proof.
  unfold iso_ecu_reset, in_u, er_make. destruct ((0 <=? t) && (t <=? 127)) eqn:E.
  - exists 17, true. split; [in_iso|]. rewrite validate_int_in by lia. cbn [bind].
    apply frame_mk_req_sub_nodata; [in_iso|lia].
  - rewrite validate_int_out by lia. eexists; reflexivity.
Qed.

Lemma tester_present_agrees st : agrees st (mk_req "TesterPresent" (Some 0) None) iso_tester_present.
Proof. exists 62, true. split; [in_iso|]. apply frame_mk_req_sub_nodata; [in_iso|lia]. Qed.

Lemma security_agrees st k level data : agrees st (sa_make k level data) (iso_security k level data).
Proof.
  unfold iso_security, sa_make. destruct ((1 <=? level) && (level <=? 126)) eqn:E.
  - exists 39, true. split; [in_iso|]. rewrite validate_int_in by lia. cbn [bind].
    unfold normalize_level. rewrite validate_int_in by lia. cbn [bind ret].
    destruct k.
    + destruct (level mod 2 =? 0) eqn:Em; cbn [bind];
        (replace (2 * ((level + 1) / 2)) with (if level mod 2 =? 0 then level else level + 1) by (rewrite Em; lia));
        rewrite Em; apply frame_mk_req_sub; [in_iso|lia|in_iso|lia].
    + destruct (level mod 2 =? 1) eqn:Em; cbn [bind];
        (replace (2 * ((level + 1) / 2) - 1) with (if level mod 2 =? 1 then level else level - 1) by (rewrite Em; lia));
        rewrite Em; apply frame_mk_req_sub; [in_iso|lia|in_iso|lia].
  - unfold validate_int. destruct ((level <? 0) || (127 <? level)); cbn [bind ret fail]; [eexists; reflexivity|].
    unfold normalize_level. rewrite validate_int_out by lia. eexists; reflexivity.
Qed.

Lemma clear_dtc_agrees st cfg g m : agrees st (cdi_make cfg g m) (iso_clear_dtc (std cfg) g m).
Proof.
  unfold iso_clear_dtc, in_u, cdi_make. destruct ((0 <=? g) && (g <=? 16777215)) eqn:E.
  - rewrite validate_int_in by lia. cbn [bind]. rewrite (proj1 (pack_dtc_ok g ltac:(lia))). cbn [bind].
    destruct m as [m|].
    + destruct ((2020 <=? std cfg) && ((0 <=? m) && (m <=? 255))) eqn:E2.
      * exists 20, false. split; [in_iso|]. replace (std cfg <? 2020) with false by lia.
        rewrite validate_int_in by lia. cbn [bind]. rewrite pack_B_enc by lia. cbn [bind].
        unfold mk_req_data. apply frame_mk_req_nosub. in_iso.
      * destruct (std cfg <? 2020) eqn:Es; [eexists; reflexivity|]. rewrite validate_int_out by lia. eexists; reflexivity.
    + exists 20, false. split; [in_iso|]. cbn [bind ret]. rewrite app_nil_r. unfold mk_req_data. apply frame_mk_req_nosub. in_iso.
  - rewrite validate_int_out by lia. eexists; reflexivity.
Qed.

Lemma routine_agrees st rid ct d : agrees st (rc_make rid ct d) (iso_routine rid ct d).
Proof.
  unfold iso_routine, in_u, rc_make. destruct ((0 <=? rid) && (rid <=? 65535) && ((0 <=? ct) && (ct <=? 127))) eqn:E.
  - exists 49, true. split; [in_iso|]. rewrite !validate_int_in by lia. cbn [bind]. rewrite pack_H_ok by lia. cbn [bind].
    unfold obytes, odata. apply frame_mk_req_sub; [in_iso|lia].
  - unfold validate_int. destruct ((rid <? 0) || (65535 <? rid)) eqn:E1; cbn [bind ret fail]; [eexists; reflexivity|].
    destruct ((ct <? 0) || (127 <? ct)) eqn:E2; cbn [bind ret fail]; [eexists; reflexivity|]. lia.
Qed.

Lemma access_timing_agrees st a rec : agrees st (atp_make a rec) (iso_access_timing a rec).
Proof.
  unfold iso_access_timing, in_u, atp_make. destruct ((0 <=? a) && (a <=? 127)) eqn:E.
  - rewrite validate_int_in by lia. cbn [bind]. destruct rec as [d|]; destruct (a =? 4) eqn:E4; try (eexists; reflexivity).
    + exists 131, true. split; [in_iso|]. apply frame_mk_req_sub; [in_iso|lia].
    + exists 131, true. split; [in_iso|]. apply frame_mk_req_sub; [in_iso|lia].
  - rewrite validate_int_out by lia. eexists; reflexivity.
Qed.

Lemma transfer_data_agrees st seq d : agrees st (td_make seq d) (iso_transfer_data seq d).
Proof.
  unfold iso_transfer_data, in_u, td_make. destruct ((0 <=? seq) && (seq <=? 255)) eqn:E.
  - exists 54, false. split; [in_iso|]. rewrite validate_int_in by lia. cbn [bind]. rewrite pack_B_enc by lia. cbn [bind].
    unfold mk_req_data, obytes, odata. apply frame_mk_req_nosub. in_iso.
  - rewrite validate_int_out by lia. eexists; reflexivity.
Qed.

Lemma transfer_exit_agrees st d : agrees st (rte_make d) (iso_transfer_exit d).
Proof. exists 55, false. split; [in_iso|]. unfold rte_make, odata. apply frame_mk_req_nosub. in_iso. Qed.

Lemma control_dtc_agrees st t d : agrees st (cds_make t d) (iso_control_dtc t d).
Proof.
  unfold iso_control_dtc, in_u, cds_make. destruct ((0 <=? t) && (t <=? 127)) eqn:E.
  - exists 133, true. split; [in_iso|]. rewrite validate_int_in by lia. cbn [bind].
    destruct d as [d|]; [apply frame_mk_req_sub|apply frame_mk_req_sub_nodata]; first [in_iso|lia].
  - rewrite validate_int_out by lia. eexists; reflexivity.
Qed.

Lemma comm_control_agrees st cfg ct subnet normal nm node cty :
  mk_commtype subnet normal nm = inr cty ->
  agrees st (cc_make cfg ct cty node) (iso_comm_control (std cfg) ct subnet normal nm node).
Proof.
  intros Hc. unfold mk_commtype in Hc. destruct ((subnet <? 0) || (15 <? subnet)) eqn:Es; [discriminate|].
  destruct (negb normal && negb nm) eqn:Ef; [discriminate|]. injection Hc as Hc. subst cty.
  assert (commtype_byte {| ct_subnet := subnet; ct_normal := normal; ct_nm := nm |}
          = 16 * subnet + (if nm then 2 else 0) + (if normal then 1 else 0)) as Eb.
  { destruct (commtype_roundtrip subnet normal nm ltac:(lia) ltac:(destruct normal, nm; cbn in *; auto; discriminate)) as (c & Hm & Hb & _).
    unfold mk_commtype in Hm. rewrite Es, Ef in Hm. injection Hm as Hm. subst c. rewrite Hb. unfold Spec.IsoBits.iso_commtype_byte.
    destruct normal, nm; lia. }
  unfold iso_comm_control, in_u, cc_make.
  replace (normal || nm) with true by (destruct normal, nm; cbn in *; auto; discriminate).
  replace ((0 <=? subnet) && (subnet <=? 15)) with true by lia. rewrite !andb_true_r.
  destruct ((0 <=? ct) && (ct <=? 127)) eqn:E; [|rewrite validate_int_out by lia; eexists; reflexivity].
  rewrite validate_int_in by lia. cbn [bind]. rewrite Eb.
  destruct ((2013 <=? std cfg) && ((ct =? 4) || (ct =? 5))) eqn:Er; destruct node as [n|]; cbn [bind ret fail andb]; try (eexists; reflexivity).
  - destruct ((0 <=? n) && (n <=? 65535)) eqn:En.
    + exists 40, true. split; [in_iso|]. rewrite pack_B_enc by (destruct normal, nm; lia). cbn [bind].
      rewrite validate_int_in by lia. cbn [bind]. rewrite pack_H_ok by lia. cbn [bind]. apply frame_mk_req_sub; [in_iso|lia].
    + rewrite pack_B_enc by (destruct normal, nm; lia). cbn [bind]. rewrite validate_int_out by lia. eexists; reflexivity.
  - exists 40, true. split; [in_iso|]. rewrite pack_B_enc by (destruct normal, nm; lia). cbn [bind ret]. rewrite app_nil_r.
    apply frame_mk_req_sub; [in_iso|lia].
Qed.

Lemma clear_did_agrees st did : agrees st (dddi_clear_make did) (iso_clear_did did).
Proof.
  unfold iso_clear_did, in_u, dddi_clear_make. destruct did as [d|].
  - destruct ((0 <=? d) && (d <=? 65535)) eqn:E.
    + exists 44, true. split; [in_iso|]. rewrite validate_int_in by lia. cbn [bind]. rewrite pack_H_ok by lia. cbn [bind].
      apply frame_mk_req_sub; [in_iso|lia].
    + rewrite validate_int_out by lia. eexists; reflexivity.
  - exists 44, true. split; [in_iso|]. apply frame_mk_req_sub; [in_iso|lia].
Qed.

Lemma pack_dids_spec l : forallb (fun d => in_u d 65535) l = true -> pack_dids l = inr (u16s l).
Proof.
  induction l as [|d tl IH]; intros H; [reflexivity|]. cbn [forallb] in H. apply andb_true_iff in H as [Hd Ht].
  unfold in_u in Hd. cbn [pack_dids u16s]. rewrite pack_H_ok by lia. cbn [bind]. rewrite (IH Ht). reflexivity.
Qed.
Lemma iterM_validate l : forallb (fun d => in_u d 65535) l = true -> iterM (fun d => validate_int d 0 65535) l = inr tt.
Proof.
  induction l as [|d tl IH]; intros H; [reflexivity|]. cbn [forallb] in H. apply andb_true_iff in H as [Hd Ht].
  unfold in_u in Hd. cbn [iterM]. rewrite validate_int_in by lia. cbn [bind]. apply IH. exact Ht.
Qed.
Lemma iterM_validate_bad l : forallb (fun d => in_u d 65535) l = false -> iterM (fun d => validate_int d 0 65535) l = inl EValue.
Proof.
  induction l as [|d tl IH]; intros H; [discriminate|]. cbn [forallb] in H. cbn [iterM].
  destruct (in_u d 65535) eqn:Ed; unfold in_u in Ed.
  - rewrite validate_int_in by lia. cbn [bind]. apply IH. exact H.
  - rewrite validate_int_out by lia. reflexivity.
Qed.

Lemma test_did_agrees st cfg l : agrees st (rdbi_make cfg false l) (iso_test_did l).
Proof.
  unfold iso_test_did, rdbi_make. destruct (forallb (fun d => in_u d 65535) l) eqn:E.
  - exists 34, false. split; [in_iso|]. rewrite iterM_validate by exact E. cbn [bind ret]. rewrite pack_dids_spec by exact E. cbn [bind].
    unfold mk_req_data. apply frame_mk_req_nosub. in_iso.
  - rewrite iterM_validate_bad by exact E. eexists; reflexivity.
Qed.

Lemma write_did_agrees st cfg did v :
  agrees st (wdbi_make cfg did v)
            (iso_write_did did (match fetch_codec (pc_of cfg) did with inr n => Some n | inl _ => None end) v).
Proof.
  unfold iso_write_did, in_u, wdbi_make.
  destruct ((0 <=? did) && (did <=? 65535)) eqn:E.
  - rewrite validate_int_in by lia. cbn [bind]. destruct (fetch_codec (pc_of cfg) did) as [e|n]; cbn [bind]; [eexists; reflexivity|].
    rewrite pack_H_ok by lia. cbn [bind andb]. unfold codec_encode.
    destruct ((n <? 0) || (Z.of_nat (List.length v) =? n)) eqn:El; cbn [bind ret fail]; [|eexists; reflexivity].
    exists 46, false. split; [in_iso|]. unfold mk_req_data. apply frame_mk_req_nosub. in_iso.
  - rewrite validate_int_out by lia. destruct (fetch_codec (pc_of cfg) did); eexists; reflexivity.
Qed.

(* ---- memory-addressed requests: via the C14 lemmas ------------------------------------------------------------------- *)
Lemma memloc_wire_iso m na ns : 1 <= na <= 8 -> 1 <= ns <= 8 ->
  al_addr (ml_alfid m) = 8 * na -> al_size (ml_alfid m) = 8 * ns ->
  match iso_memloc na ns (ml_addr m) (ml_size m) with
  | Some w => memloc_wire m = inr w
  | None => memloc_wire m = inl EValue
  end.
Proof.
  intros Ha Hs Ea Es. destruct (memloc_wire_spec m na ns Ha Hs Ea Es) as [Hin Hout]. unfold iso_memloc.
  destruct ((1 <=? na) && (na <=? 8) && (1 <=? ns) && (ns <=? 8) && (0 <=? ml_addr m) && (ml_addr m <? 256 ^ na) && (0 <=? ml_size m) && (ml_size m <? 256 ^ ns)) eqn:E.
  - apply Hin. lia.
  - apply Hout. lia.
Qed.

(* the three plain memory requests: the location's wire form (C14) after the service-specific prefix *)
Lemma mem_request_frame st cfg name sid (pre post : bytes) a s af sf :
  In (name, sid, false) iso_services ->
  match client_memloc cfg a s af sf with
  | inl e => frame_of st (m <- client_memloc cfg a s af sf ;; w <- memloc_wire m ;; mk_req_data name (pre ++ w ++ post)) = inl e
  | inr m =>
    match memloc_wire m with
    | inl e => frame_of st (m <- client_memloc cfg a s af sf ;; w <- memloc_wire m ;; mk_req_data name (pre ++ w ++ post)) = inl e
    | inr w => frame_of st (m <- client_memloc cfg a s af sf ;; w <- memloc_wire m ;; mk_req_data name (pre ++ w ++ post))
               = inr (apply_override (ov st) (sid :: pre ++ w ++ post))
    end
  end.
Proof.
  intros Hin. destruct (client_memloc cfg a s af sf) as [e|m]; [reflexivity|]. cbn [bind].
  destruct (memloc_wire m) as [e|w]; [reflexivity|]. cbn [bind].
  pose proof (frame_mk_req_nosub st name sid (Some (pre ++ w ++ post)) Hin) as F.
  unfold mk_req_data. exact F.
Qed.

Lemma rmba_make_eq cfg a s af sf :
  rmba_make cfg a s af sf = (m <- client_memloc cfg a s af sf ;; w <- memloc_wire m ;; mk_req_data "ReadMemoryByAddress" ([] ++ w ++ [])).
Proof. unfold rmba_make. destruct (client_memloc cfg a s af sf); [reflexivity|]. cbn [bind]. destruct (memloc_wire m); [reflexivity|]. cbn [bind app]. rewrite app_nil_r. reflexivity. Qed.
Lemma wmba_make_eq cfg a s af sf d :
  wmba_make cfg a s af sf d = (m <- client_memloc cfg a s af sf ;; w <- memloc_wire m ;; mk_req_data "WriteMemoryByAddress" ([] ++ w ++ d)).
Proof. reflexivity. Qed.

(* ReadDataByIdentifier with configuration: accepted iff every DID is 0..0xFFFF and configured, read-all only last *)
Definition rdbi_domain (cfg : config) (l : list Z) : bool :=
  forallb (fun d => in_u d 65535) l
  && forallb (fun d => match fetch_codec (pc_of cfg) d with inr _ => true | inl _ => false end) l
  && match readall_rule (pc_of cfg) l false with inr _ => true | inl _ => false end.

Lemma iterM_fetch cfg l :
  forallb (fun d => match fetch_codec (pc_of cfg) d with inr _ => true | inl _ => false end) l = true ->
  iterM (fun d => _ <- fetch_codec (pc_of cfg) d ;; ret tt) l = inr tt.
Proof.
  induction l as [|d tl IH]; intros H; [reflexivity|]. cbn [forallb] in H. apply andb_true_iff in H as [Hd Ht].
  cbn [iterM]. destruct (fetch_codec (pc_of cfg) d); [discriminate|]. cbn [bind ret]. apply IH. exact Ht.
Qed.
Lemma iterM_fetch_bad cfg l :
  forallb (fun d => match fetch_codec (pc_of cfg) d with inr _ => true | inl _ => false end) l = false ->
  exists e, iterM (fun d => _ <- fetch_codec (pc_of cfg) d ;; ret tt) l = inl e.
Proof.
  induction l as [|d tl IH]; intros H; [discriminate|]. cbn [forallb] in H. cbn [iterM].
  destruct (fetch_codec (pc_of cfg) d) as [e|sh]; cbn [bind ret]; [eexists; reflexivity|]. apply IH. exact H.
Qed.

Lemma read_dids_agrees st cfg l :
  agrees st (rdbi_make cfg true l) (if rdbi_domain cfg l then ireq "ReadDataByIdentifier" None (u16s l) else None).
Proof.
  unfold rdbi_domain, rdbi_make. destruct (forallb (fun d => in_u d 65535) l) eqn:E1; cbn [andb].
  - rewrite iterM_validate by exact E1. cbn [bind].
    destruct (forallb (fun d => match fetch_codec (pc_of cfg) d with inr _ => true | inl _ => false end) l) eqn:E2; cbn [andb].
    + rewrite iterM_fetch by exact E2. cbn [bind].
      destruct (readall_rule (pc_of cfg) l false) as [e|[]]; cbn [bind]; [eexists; reflexivity|].
      exists 34, false. split; [in_iso|]. rewrite pack_dids_spec by exact E1. cbn [bind]. unfold mk_req_data. apply frame_mk_req_nosub. in_iso.
    + destruct (iterM_fetch_bad cfg l E2) as [e He]. rewrite He. eexists; reflexivity.
  - rewrite iterM_validate_bad by exact E1. eexists; reflexivity.
Qed.

(* ---- rejected means nothing reaches the connection -------------------------------------------------------------- *)
Lemma rejected_sends_nothing cfg st e interp post now s :
  single_request cfg st (inl e) interp post now s = (CErr e None, st, now, s, []).
Proof. reflexivity. Qed.

(* accepted means exactly that frame is sent, once, after one flush *)
Lemma accepted_sends_frame cfg st mk interp post now s f :
  frame_of st mk = inr f ->
  let '(_, _, _, _, tr) := single_request cfg st mk interp post now s in sent tr = [f].
Proof.
  intros Hf. pose proof (single_request_trace cfg st mk interp post now s) as T.
  destruct (single_request cfg st mk interp post now s) as [[[[res st'] t] s'] tr].
  destruct T as (_ & _ & _ & _ & T5). unfold frame_of in Hf. destruct mk as [e|rq]; [discriminate|]. cbn [bind] in Hf.
  rewrite Hf in T5. exact T5.
Qed.

(* ---- LinkControl: the caller's Baudrate object in all its forms against ISO's identifier table ---------------------- *)
Lemma baud_table_is_iso : gen_baudrate_map = iso_baud_ids.
Proof. reflexivity. Qed.
Lemma map_get_baud r : map_get gen_baudrate_map r = iso_id_of_rate r.
Proof. reflexivity. Qed.
Lemma id_of_rate_bound r i : iso_id_of_rate r = Some i -> 0 <= r <= 1000000 /\ 0 <= i <= 255.
Proof.
  unfold iso_id_of_rate, iso_baud_ids. cbn [find].
  repeat match goal with |- context [?a =? r] => destruct (a =? r) eqn:?; [intros H; injection H as <-; lia|] end.
  discriminate.
Qed.
Lemma rate_of_id_bound i k : iso_rate_of_id i = Some k -> 0 <= k <= 1000000 /\ 0 <= i <= 255 /\ iso_id_of_rate k = Some i.
Proof.
  unfold iso_rate_of_id, iso_baud_ids. cbn [find].
  repeat match goal with |- context [?a =? i] => destruct (a =? i) eqn:?; [intros H; injection H as <-; assert (i = a) as -> by lia; repeat split; try lia; reflexivity|] end.
  discriminate.
Qed.

Definition lc_arg (b : option (Z * Z)) : M (option baud) :=
  match b with Some (r, t) => (x <- mk_baud r t ;; ret (Some x)) | None => ret None end.

Lemma bind_ret_same {A} (m : M A) : (x <- m ;; ret x) = m.
Proof. destruct m; reflexivity. Qed.

Lemma link_control_agrees_none st ct : agrees st (x <- lc_arg None ;; lc_make_client ct x) (iso_link_control ct None).
Proof.
  unfold iso_link_control, in_u, lc_arg. cbn [bind ret]. unfold lc_make_client, lc_make.
  destruct ((0 <=? ct) && (ct <=? 127)) eqn:E; [|rewrite validate_int_out by lia; eexists; reflexivity].
  rewrite validate_int_in by lia. cbn [bind].
  destruct ((ct =? 2) || (ct =? 1)) eqn:E12.
  - replace ((ct =? 1) || (ct =? 2)) with true by lia. eexists; reflexivity.
  - replace ((ct =? 1) || (ct =? 2)) with false by lia. cbn [bind ret].
    replace (ct =? 2) with false by lia. replace (ct =? 1) with false by lia. cbn [bind ret].
    exists 135, true. split; [in_iso|]. rewrite bind_ret_same. apply frame_mk_req_sub_nodata; [in_iso|lia].
Qed.

(* what Baudrate(rate, ty) is, when it can be built: its stored rate and its resolved type 0 / 1 / 2 *)
Ltac fin := cbn [bd_rate bd_type]; repeat split; cbn [bd_rate bd_type]; try lia; try (left; split; [lia|eauto]).

Lemma mk_baud_cases rate ty :
  match mk_baud rate ty with
  | inr b => bd_rate b = rate /\ 0 <= rate /\
             ((bd_type b = 0 /\ exists i, iso_id_of_rate rate = Some i) \/ (bd_type b = 1 /\ rate <= 16777215) \/ (bd_type b = 2 /\ rate <= 255)) /\
             (ty = 3 -> bd_type b = match iso_id_of_rate rate with Some _ => 0 | None => if rate <=? 255 then 2 else 1 end) /\
             (ty <> 3 -> bd_type b = ty)
  | inl e => e = EValue /\ iso_baud_meaning rate ty = None
  end.
Proof.
  unfold mk_baud, iso_baud_meaning. rewrite map_get_baud.
  unfold gen_baud_Auto, gen_baud_Fixed, gen_baud_Specific, gen_baud_Identifier.
  destruct (rate <? 0) eqn:Er; [split; reflexivity|].
  destruct (ty =? 3) eqn:E3.
  - destruct (iso_id_of_rate rate) as [i|] eqn:Ei.
    + cbn [Z.eqb Pos.eqb]. cbv iota. fin.
    + destruct (rate <=? 255) eqn:E255.
      * cbn [Z.eqb Pos.eqb]. cbv iota. replace (255 <? rate) with false by lia. fin.
      * cbn [Z.eqb Pos.eqb]. cbv iota. destruct (16777215 <? rate) eqn:Eb.
        -- split; [reflexivity|]. replace (rate <=? 16777215) with false by lia. reflexivity.
        -- fin.
  - destruct (ty =? 1) eqn:E1.
    + destruct (16777215 <? rate) eqn:Eb.
      * split; [reflexivity|]. replace (ty =? 0) with false by lia. replace (rate <=? 16777215) with false by lia. reflexivity.
      * fin.
    + destruct (ty =? 2) eqn:E2.
      * destruct (255 <? rate) eqn:Eb.
        -- split; [reflexivity|]. replace (ty =? 0) with false by lia. replace (rate <=? 255) with false by lia. reflexivity.
        -- fin.
      * destruct (ty =? 0) eqn:E0.
        -- destruct (iso_id_of_rate rate) as [i|] eqn:Ei.
           ++ fin.
           ++ split; reflexivity.
        -- split; reflexivity.
Qed.

Lemma eff_not_id r t : t <> 2 -> baud_effective {| bd_rate := r; bd_type := t |} = inr r.
Proof. intros H. unfold baud_effective, gen_baud_Identifier. cbn [bd_type bd_rate]. replace (t =? 2) with false by lia. reflexivity. Qed.
Lemma eff_id r : baud_effective {| bd_rate := r; bd_type := 2 |} = match iso_rate_of_id r with Some k => inr k | None => inl ERuntime end.
Proof.
  unfold baud_effective, gen_baud_Identifier, iso_rate_of_id. cbn [bd_type bd_rate]. change (2 =? 2) with true. cbv iota.
  rewrite baud_table_is_iso. destruct (find _ iso_baud_ids) as [[k v]|]; reflexivity.
Qed.
Lemma mk_specific r : 0 <= r <= 16777215 -> mk_baud r 1 = inr {| bd_rate := r; bd_type := 1 |}.
Proof.
  intros H. unfold mk_baud, gen_baud_Auto, gen_baud_Specific. replace (r <? 0) with false by lia.
  change (1 =? 3) with false. cbv iota. change (1 =? 1) with true. cbv iota. replace (16777215 <? r) with false by lia. reflexivity.
Qed.
Lemma mk_fixed r : 0 <= r -> mk_baud r 0 = match iso_id_of_rate r with Some _ => inr {| bd_rate := r; bd_type := 0 |} | None => inl EValue end.
Proof.
  intros H. unfold mk_baud, gen_baud_Auto, gen_baud_Specific, gen_baud_Identifier, gen_baud_Fixed. replace (r <? 0) with false by lia.
  change (0 =? 3) with false. cbv iota. change (0 =? 1) with false. change (0 =? 2) with false. change (0 =? 0) with true. cbv iota.
  rewrite map_get_baud. reflexivity.
Qed.
Lemma bytes_specific r : 0 <= r <= 16777215 -> baud_bytes {| bd_rate := r; bd_type := 1 |} = inr (be_enc 3 r).
Proof.
  intros H. unfold baud_bytes, gen_baud_Fixed, gen_baud_Specific. cbn [bd_type bd_rate].
  change (1 =? 0) with false. change (1 =? 1) with true. cbv iota. exact (three_bytes r ltac:(lia)).
Qed.
Lemma bytes_fixed r i : iso_id_of_rate r = Some i -> baud_bytes {| bd_rate := r; bd_type := 0 |} = inr (be_enc 1 i).
Proof.
  intros H. unfold baud_bytes, gen_baud_Fixed. cbn [bd_type bd_rate]. change (0 =? 0) with true. cbv iota.
  rewrite map_get_baud, H. apply pack_B_enc. pose proof (id_of_rate_bound r i H). lia.
Qed.
Lemma bytes_id r : 0 <= r <= 255 -> baud_bytes {| bd_rate := r; bd_type := 2 |} = inr (be_enc 1 r).
Proof.
  intros H. unfold baud_bytes, gen_baud_Fixed, gen_baud_Specific, gen_baud_Identifier. cbn [bd_type bd_rate].
  change (2 =? 0) with false. change (2 =? 1) with false. change (2 =? 2) with true. cbv iota. apply pack_B_enc. lia.
Qed.

Lemma meaning_resolved rate ty b : mk_baud rate ty = inr b ->
  bd_rate b = rate /\ 0 <= rate /\
  ((bd_type b = 0 /\ exists i, iso_id_of_rate rate = Some i /\ iso_baud_meaning rate ty = Some (rate, Some i)) \/
   (bd_type b = 1 /\ rate <= 16777215 /\ iso_baud_meaning rate ty = Some (rate, iso_id_of_rate rate)) \/
   (bd_type b = 2 /\ rate <= 255 /\ iso_baud_meaning rate ty = match iso_rate_of_id rate with Some k => Some (k, Some rate) | None => None end)).
Proof.
  intros Eb. pose proof (mk_baud_cases rate ty) as H. rewrite Eb in H. destruct H as (Hr & H0 & Hd & Ha & Hn).
  split; [exact Hr|]. split; [exact H0|].
  assert (iso_baud_meaning rate ty = iso_baud_meaning rate (bd_type b)) as Em.
  { unfold iso_baud_meaning. replace (rate <? 0) with false by lia.
    destruct (ty =? 3) eqn:E3.
    - rewrite (Ha ltac:(lia)). destruct Hd as [[H1 _]|[[H1 _]|[H1 _]]]; rewrite (Ha ltac:(lia)) in H1;
        destruct (iso_id_of_rate rate); try destruct (rate <=? 255); try lia; reflexivity.
    - rewrite (Hn ltac:(lia)). replace (ty =? 3) with false by lia. reflexivity. }
  rewrite Em. unfold iso_baud_meaning. replace (rate <? 0) with false by lia.
  destruct Hd as [[H1 [i Hi]]|[[H1 H2]|[H1 H2]]]; rewrite H1.
  - left. split; [reflexivity|]. exists i. split; [exact Hi|]. change (0 =? 3) with false. cbv iota. change (0 =? 0) with true. cbv iota. rewrite Hi. reflexivity.
  - right; left. split; [reflexivity|]. split; [exact H2|]. change (1 =? 3) with false. cbv iota. change (1 =? 0) with false. change (1 =? 1) with true. cbv iota.
    replace (rate <=? 16777215) with true by lia. reflexivity.
  - right; right. split; [reflexivity|]. split; [exact H2|]. change (2 =? 3) with false. cbv iota. change (2 =? 0) with false. change (2 =? 1) with false. change (2 =? 2) with true. cbv iota.
    replace (rate <=? 255) with true by lia. reflexivity.
Qed.

Ltac sb := cbn [bind ret orb andb negb bd_type bd_rate Z.eqb Pos.eqb]; cbv iota.

Lemma link_control_agrees_some st ct rate ty :
  agrees st (x <- lc_arg (Some (rate, ty)) ;; lc_make_client ct x) (iso_link_control ct (Some (rate, ty))).
Proof.
  unfold lc_arg, iso_link_control, in_u.
  destruct (mk_baud rate ty) as [e|b] eqn:Eb.
  - pose proof (mk_baud_cases rate ty) as H. rewrite Eb in H. destruct H as [-> Hm]. cbn [bind]. rewrite Hm.
    destruct ((0 <=? ct) && (ct <=? 127)); [destruct (ct =? 1); [|destruct (ct =? 2)]|]; eexists; reflexivity.
  - destruct (meaning_resolved rate ty b Eb) as (Hr & H0 & Hd). destruct b as [r t]. cbn [bd_rate bd_type] in *. subst r.
    cbn [bind ret]. unfold lc_make_client, lc_make.
    destruct ((0 <=? ct) && (ct <=? 127)) eqn:E; [|rewrite validate_int_out by lia; eexists; reflexivity].
    rewrite validate_int_in by lia. cbn [bind].
    unfold baud_make_new_type, gen_baud_Specific, gen_baud_Fixed.
    destruct (ct =? 1) eqn:E1.
    + (* fixed-baud-rate transition *)
      assert (ct = 1) as -> by lia. sb.
      destruct Hd as [(-> & i & Hi & Hm)|[(-> & Hb & Hm)|(-> & Hb & Hm)]]; rewrite Hm; sb.
      * rewrite (bytes_fixed rate i Hi). sb. rewrite eff_not_id by lia. sb.
        exists 135, true. split; [in_iso|]. rewrite bind_ret_same. apply frame_mk_req_sub; [in_iso|lia].
      * rewrite eff_not_id by lia. sb. rewrite mk_fixed by lia.
        destruct (iso_id_of_rate rate) as [i|] eqn:Hi; [|eexists; reflexivity].
        sb. rewrite (bytes_fixed rate i Hi). sb.
        exists 135, true. split; [in_iso|]. rewrite bind_ret_same. apply frame_mk_req_sub; [in_iso|lia].
      * rewrite bytes_id by lia. sb. rewrite eff_id.
        destruct (iso_rate_of_id rate) as [k|] eqn:Hk.
        -- sb. exists 135, true. split; [in_iso|]. rewrite bind_ret_same. apply frame_mk_req_sub; [in_iso|lia].
        -- destruct (mk_req "LinkControl" (Some 1) (Some (be_enc 1 rate))); eexists; reflexivity.
    + destruct (ct =? 2) eqn:E2.
      * (* specific-baud-rate transition *)
        assert (ct = 2) as -> by lia. sb.
        destruct Hd as [(-> & i & Hi & Hm)|[(-> & Hb & Hm)|(-> & Hb & Hm)]]; rewrite Hm; sb.
        -- pose proof (id_of_rate_bound rate i Hi) as Hbd.
           rewrite eff_not_id by lia. sb. rewrite mk_specific by lia. sb.
           rewrite bytes_specific by lia. sb.
           exists 135, true. split; [in_iso|]. rewrite bind_ret_same. apply frame_mk_req_sub; [in_iso|lia].
        -- rewrite eff_not_id by lia. sb. rewrite mk_specific by lia. sb.
           rewrite bytes_specific by lia. sb.
           exists 135, true. split; [in_iso|]. rewrite bind_ret_same. apply frame_mk_req_sub; [in_iso|lia].
        -- rewrite eff_id. destruct (iso_rate_of_id rate) as [k|] eqn:Hk; [|eexists; reflexivity].
           pose proof (rate_of_id_bound rate k Hk) as Hbd.
           sb. rewrite mk_specific by lia. sb. rewrite bytes_specific by lia. sb.
           exists 135, true. split; [in_iso|]. rewrite bind_ret_same. apply frame_mk_req_sub; [in_iso|lia].
      * replace ((ct =? 2) || (ct =? 1)) with false by lia. eexists; reflexivity.
Qed.

Theorem link_control_agrees st ct b : agrees st (x <- lc_arg b ;; lc_make_client ct x) (iso_link_control ct b).
Proof. destruct b as [[r t]|]; [apply link_control_agrees_some|apply link_control_agrees_none]. Qed.

(* ... and that builder is what the client method runs *)
Lemma link_control_call cfg st ct b now s :
  run_inner cfg st (CLinkControl ct b) now s =
  single_request cfg st (x <- lc_arg b ;; lc_make_client ct x) (echo1_interpret ct) no_post now s.
Proof. destruct b as [[r t]|]; reflexivity. Qed.

(* ---- ReadDTCInformation: every report type, every argument combination, every edition ------------------------------ *)
Lemma need_spec o hi : need o 0 hi = match o with Some v => if in_u v hi then inr v else inl EValue | None => inl EValue end.
Proof.
  unfold need, in_u. destruct o as [v|]; [|reflexivity].
  destruct ((0 <=? v) && (v <=? hi)) eqn:E; [rewrite validate_int_in by lia|rewrite validate_int_out by lia]; reflexivity.
Qed.

Lemma dtc_all_bound sub : iso_in sub iso_dtc_all = true -> 1 <= sub <= 86.
Proof.
  unfold iso_in, iso_dtc_all. cbn [existsb]. intros H.
  repeat (apply orb_true_iff in H as [H|H]; [lia|]). discriminate H.
Qed.

(* the library's grouping lists are ISO's *)
Lemma grp_all : gen_dtc_subfunctions = iso_dtc_all. Proof. reflexivity. Qed.
Lemma grp sub name l : group name = l -> in_group name sub = iso_in sub l.
Proof. intros H. unfold in_group, iso_in. rewrite H. reflexivity. Qed.

Definition sev_of (a : dtcargs) : option (option Z) := iso_severity_mask (da_severity a) (da_sev_obj a) (da_class a).

Ltac opt_cases :=
  repeat match goal with
         | |- context [match ?o with Some _ => _ | None => _ end] => is_var o; destruct o
         | |- context [in_u ?v ?hi] => destruct (in_u v hi) eqn:?
         end.

Lemma pack_B_u v : in_u v 255 = true -> pack_B v = inr (be_enc 1 v).
Proof. unfold in_u. intros H. apply pack_B_enc. lia. Qed.
Lemma pack_B_u239 v : in_u v 239 = true -> pack_B v = inr (be_enc 1 v).
Proof. unfold in_u. intros H. apply pack_B_enc. lia. Qed.
Lemma pack_B_u254 v : in_u v 254 = true -> pack_B v = inr (be_enc 1 v).
Proof. unfold in_u. intros H. apply pack_B_enc. lia. Qed.
Lemma pack_dtc_u v : in_u v 16777215 = true -> pack_dtc v = inr (be_enc 3 v).
Proof. unfold in_u. intros H. unfold pack_dtc. apply three_bytes. lia. Qed.

Lemma iso_in_single sub k : iso_in sub [k] = (sub =? k).
Proof. unfold iso_in. cbn [existsb]. apply orb_false_r. Qed.

Ltac body :=
  rewrite ?need_spec; unfold iso_cat, iso_opt; cbn [fold_right]; opt_cases; cbn [bind ret fail];
  try (eexists; reflexivity);
  rewrite ?pack_dtc_u by assumption; cbn [bind ret];
  repeat (first [rewrite pack_B_u by assumption | rewrite pack_B_u239 by assumption | rewrite pack_B_u254 by assumption]; cbn [bind ret]);
  rewrite ?app_nil_r; exists 25, true; (split; [in_iso|]); apply frame_mk_req_sub; [in_iso|lia].

Theorem rdtci_agrees st cfg sub a : sub <> 26 -> sub <> 86 ->
  agrees st (rdtci_make cfg sub a)
    (iso_read_dtc (std cfg) sub (da_status a) (da_severity a) (da_sev_obj a) (da_class a) (da_dtc a) (da_snap a) (da_ext a) (da_memsel a) (da_fgid a)).
Proof.
  intros N26 N86. unfold rdtci_make, iso_read_dtc, check_subfunction_valid.
  rewrite grp_all. rewrite (grp sub "subfunction2020" iso_dtc_2020 eq_refl).
  unfold in_u at 1.
  destruct ((0 <=? sub) && (sub <=? 255) && (1 <=? sub)) eqn:Er; cbn [negb orb];
    [rewrite validate_int_in by lia|rewrite validate_int_out by lia; eexists; reflexivity].
  cbn [bind]. fold (iso_in sub iso_dtc_all).
  destruct (iso_in sub iso_dtc_all) eqn:Eall; cbn [negb guard bind ret fail]; [|eexists; reflexivity].
  pose proof (dtc_all_bound sub Eall) as Hb.
  destruct (iso_in sub iso_dtc_2020 && (std cfg <? 2020)) eqn:E20; [eexists; reflexivity|].
  cbn [bind].
  destruct a as [status severity sevobj cls dtc snap ext memsel fgid esz].
  cbn [da_status da_severity da_sev_obj da_class da_dtc da_snap da_ext da_memsel da_fgid].
  rewrite (grp sub "request_subfn_no_param" [10; 11; 12; 13; 14; 20; 21; 3] eq_refl).
  rewrite (grp sub "request_subfn_status_mask" [1; 2; 15; 17; 18; 19] eq_refl).
  rewrite (grp sub "request_subfn_mask_record_plus_snapshot_record_number" [4] eq_refl).
  rewrite (grp sub "request_subfn_mask_record_plus_snapshot_record_number_plus_memory_selection" [24] eq_refl).
  rewrite (grp sub "request_subfn_snapshot_record_number" [5] eq_refl).
  rewrite (grp sub "request_subfn_mask_record_plus_extdata_record_number" [6; 16] eq_refl).
  rewrite (grp sub "request_subfn_mask_record_plus_extdata_record_number_plus_memory_selection" [25] eq_refl).
  rewrite (grp sub "request_subfn_severity_plus_status_mask" [7; 8] eq_refl).
  rewrite (grp sub "request_subfn_mask_record" [9] eq_refl).
  rewrite (grp sub "request_subfn_status_mask_plus_memory_selection" [23] eq_refl).
  rewrite !iso_in_single.
  unfold iso_severity_mask.
  (* the severity mask byte *)
  destruct cls as [c|]; [destruct severity as [sv|]; [|eexists; reflexivity]|]; cbn [bind ret].
  all: destruct (iso_in sub [10; 11; 12; 13; 14; 20; 21; 3]) eqn:G1;
       [cbn [bind ret]; exists 25, true; split; [in_iso|]; apply frame_mk_req_sub_nodata; [in_iso|lia]|].
  all: destruct (iso_in sub [1; 2; 15; 17; 18; 19]) eqn:G2; [body|].
  all: destruct (sub =? 4) eqn:G3; [body|].
  all: destruct (sub =? 24) eqn:G4; [body|].
  all: destruct (sub =? 5) eqn:G5; [body|].
  all: destruct (iso_in sub [6; 16]) eqn:G6; [body|].
  all: destruct (sub =? 25) eqn:G7; [body|].
  all: destruct (iso_in sub [7; 8]) eqn:G8; [body|].
  all: destruct (sub =? 9) eqn:G9; [body|].
  all: destruct (sub =? 23) eqn:G10; [body|].
  all: destruct (sub =? 22) eqn:G11; [body|].
  all: destruct (sub =? 66) eqn:G12; [body|].
  all: destruct (sub =? 85) eqn:G13; [body|].
  all: exfalso; clear - Eall N26 N86 G1 G2 G3 G4 G5 G6 G7 G8 G9 G10 G11 G12 G13; unfold iso_in, iso_dtc_all in *; cbn [existsb] in *; lia.
Qed.

Lemma read_dtc_call cfg st sub a now s :
  read_dtc_information cfg st sub a now s = single_request cfg st (rdtci_make cfg sub a) (rdtci_interpret cfg sub a) no_post now s.
Proof. reflexivity. Qed.

(* ---- DynamicallyDefineDataIdentifier, defineByIdentifier: any number of source entries --------------------------------- *)
Definition bydid_enc (e : Z * Z * Z) : M bytes := let '(sd, pos, ms) := e in a <- pack_H sd ;; b <- pack_B pos ;; c <- pack_B ms ;; ret (a ++ b ++ c).

Lemma pack_B_out v : ~ (0 <= v <= 255) -> exists e, pack_B v = inl e.
Proof. intros H. unfold pack_B, pack_be. destruct ((0 <=? v) && (v <? 256 ^ Z.of_nat 1)) eqn:E; [change (256 ^ Z.of_nat 1) with 256 in E; lia|]. eexists; reflexivity. Qed.

Lemma bydid_entry_ok e d : iso_bydid_entry e = Some d -> bydid_ok e = true /\ bydid_enc e = inr d.
Proof.
  destruct e as [[sd pos] ms]. unfold iso_bydid_entry, bydid_ok, bydid_enc, in_u.
  destruct ((0 <=? sd) && (sd <=? 65535) && ((0 <=? pos) && (pos <=? 255)) && ((0 <=? ms) && (ms <=? 255))) eqn:E; [|discriminate].
  intros H. injection H as <-. split; [lia|].
  rewrite pack_H_ok by lia. cbn [bind]. rewrite !pack_B_enc by lia. reflexivity.
Qed.

Lemma bydid_entry_bad e : iso_bydid_entry e = None -> bydid_ok e = false \/ exists x, bydid_enc e = inl x.
Proof.
  destruct e as [[sd pos] ms]. unfold iso_bydid_entry, bydid_ok, bydid_enc, in_u.
  destruct ((0 <=? sd) && (sd <=? 65535) && ((0 <=? pos) && (pos <=? 255)) && ((0 <=? ms) && (ms <=? 255))) eqn:E; [discriminate|].
  intros _. destruct ((0 <=? sd) && (sd <=? 65535) && (0 <=? pos) && (0 <=? ms)) eqn:E2; [right|left; reflexivity].
  rewrite pack_H_ok by lia. cbn [bind].
  destruct (Z_le_dec pos 255) as [Hp|Hp].
  - rewrite pack_B_enc by lia. cbn [bind]. destruct (pack_B_out ms ltac:(lia)) as [x Hx]. rewrite Hx. eexists; reflexivity.
  - destruct (pack_B_out pos ltac:(lia)) as [x Hx]. rewrite Hx. eexists; reflexivity.
Qed.

Lemma mapM_bydid_ok entries d : iso_cat (map iso_bydid_entry entries) = Some d ->
  forallb bydid_ok entries = true /\ exists es, mapM bydid_enc entries = inr es /\ List.concat es = d.
Proof.
  revert d. induction entries as [|e l IH]; intros d H.
  - cbn in H. injection H as <-. split; [reflexivity|]. exists []. split; reflexivity.
  - cbn [map iso_cat fold_right] in H. fold (iso_cat (map iso_bydid_entry l)) in H.
    destruct (iso_bydid_entry e) as [de|] eqn:Ee; [|discriminate].
    destruct (iso_cat (map iso_bydid_entry l)) as [dl|] eqn:El; [|discriminate]. injection H as <-.
    destruct (bydid_entry_ok e de Ee) as [Ho He]. destruct (IH dl eq_refl) as (Hf & es & Hm & Hc).
    split; [cbn [forallb]; rewrite Ho, Hf; reflexivity|].
    exists (de :: es). cbn [mapM]. rewrite He. cbn [bind]. rewrite Hm. cbn [bind ret List.concat]. rewrite Hc. split; reflexivity.
Qed.

Lemma mapM_bydid_bad entries : iso_cat (map iso_bydid_entry entries) = None ->
  forallb bydid_ok entries = false \/ exists x, mapM bydid_enc entries = inl x.
Proof.
  induction entries as [|e l IH]; intros H; [cbn in H; discriminate|].
  cbn [map iso_cat fold_right] in H. fold (iso_cat (map iso_bydid_entry l)) in H.
  destruct (iso_bydid_entry e) as [de|] eqn:Ee.
  - destruct (iso_cat (map iso_bydid_entry l)) as [dl|] eqn:El; [discriminate|].
    destruct (bydid_entry_ok e de Ee) as [Ho He]. destruct (IH eq_refl) as [Hf|[x Hx]].
    + left. cbn [forallb]. rewrite Hf. apply andb_false_r.
    + right. cbn [mapM]. rewrite He. cbn [bind]. rewrite Hx. eexists; reflexivity.
  - destruct (bydid_entry_bad e Ee) as [Ho|[x Hx]].
    + left. cbn [forallb]. rewrite Ho. reflexivity.
    + right. cbn [mapM]. rewrite Hx. eexists; reflexivity.
Qed.

Theorem define_by_did_agrees st cfg did entries :
  agrees st (dddi_define_make cfg did (DefByDid entries)) (iso_define_by_did did entries).
Proof.
  unfold dddi_define_make, iso_define_by_did. fold bydid_enc.
  destruct entries as [|e0 l0] eqn:Een.
  - cbn [forallb guard bind ret]. destruct (validate_int did 0 65535); eexists; reflexivity.
  - rewrite <- Een. assert (Nat.eqb (List.length entries) 0 = false) as Hl by (subst entries; reflexivity).
    unfold in_u. destruct ((0 <=? did) && (did <=? 65535)) eqn:Ed.
    + destruct (iso_cat (map iso_bydid_entry entries)) as [d|] eqn:Ec.
      * destruct (mapM_bydid_ok entries d Ec) as (Hf & es & Hm & Hc). rewrite Hf. cbn [guard bind ret].
        rewrite validate_int_in by lia. cbn [bind]. rewrite Hl. cbn [negb guard bind ret]. rewrite pack_H_ok by lia. cbn [bind].
        change (mapM _ entries) with (mapM bydid_enc entries). rewrite Hm. cbn [bind]. rewrite Hc. exists 44, true. split; [in_iso|]. apply frame_mk_req_sub; [in_iso|lia].
      * destruct (mapM_bydid_bad entries Ec) as [Hf|[x Hx]].
        -- rewrite Hf. eexists; reflexivity.
        -- destruct (forallb bydid_ok entries); [|eexists; reflexivity]. cbn [guard bind ret].
           rewrite validate_int_in by lia. cbn [bind]. rewrite Hl. cbn [negb guard bind ret]. rewrite pack_H_ok by lia. cbn [bind].
           change (mapM _ entries) with (mapM bydid_enc entries). rewrite Hx. eexists; reflexivity.
    + destruct (forallb bydid_ok entries); [|eexists; reflexivity]. cbn [guard bind ret]. rewrite validate_int_out by lia. eexists; reflexivity.
Qed.

(* ---- Authentication: the nine tasks, every present / absent / over-long parameter ------------------------------------ *)
Lemma append_param_spec p : append_param p = match iso_l16 p with Some d => inr d | None => inl EValue end.
Proof.
  unfold append_param, iso_l16. destruct p as [b|]; [|reflexivity].
  destruct (Z.of_nat (List.length b) <=? 65535) eqn:E.
  - rewrite validate_int_in by lia. cbn [bind]. rewrite pack_H_ok by lia. reflexivity.
  - rewrite validate_int_out by lia. reflexivity.
Qed.
Lemma algo16_spec a : algo16 a = match iso_raw16 a with Some d => inr d | None => inl EValue end.
Proof. unfold algo16, iso_raw16. destruct a as [b|]; [|reflexivity]. destruct (Nat.eqb _ 16); reflexivity. Qed.
Lemma oint_spec o hi : oint o 0 hi = match o with Some v => if in_u v hi then inr v else inl EValue | None => inl EValue end.
Proof.
  unfold oint, in_u. destruct o as [v|]; [|reflexivity].
  destruct ((0 <=? v) && (v <=? hi)) eqn:E; [rewrite validate_int_in by lia|rewrite validate_int_out by lia]; reflexivity.
Qed.

Ltac au_cases :=
  repeat match goal with
         | |- context [match iso_l16 ?o with Some _ => _ | None => _ end] => destruct (iso_l16 o) eqn:?
         | |- context [match iso_raw16 ?o with Some _ => _ | None => _ end] => destruct (iso_raw16 o) eqn:?
         | |- context [match ?o with Some _ => _ | None => _ end] => is_var o; destruct o
         | |- context [in_u ?v ?hi] => destruct (in_u v hi) eqn:?
         end.

Ltac au_body :=
  rewrite ?oint_spec, ?append_param_spec, ?algo16_spec; unfold iso_cat, iso_opt; cbn [fold_right];
  au_cases; cbn [bind ret fail]; try (eexists; reflexivity);
  repeat (first [rewrite pack_B_enc by (unfold in_u in *; lia) | rewrite pack_H_ok by (unfold in_u in *; lia)]; cbn [bind ret]);
  try (eexists; reflexivity);
  rewrite ?app_nil_r; exists 41, true; (split; [in_iso|]); apply frame_mk_req_sub; [in_iso|lia].

Theorem authentication_agrees st task a :
  agrees st (auth_make task a)
    (iso_authentication task (au_cfg a) (au_cert a) (au_chal a) (au_algo a) (au_evalid a) (au_certdata a) (au_pown a) (au_eph a) (au_add a)).
Proof.
  unfold auth_make, iso_authentication. unfold in_u at 1.
  destruct ((0 <=? task) && (task <=? 8)) eqn:Et; [rewrite validate_int_in by lia|rewrite validate_int_out by lia; eexists; reflexivity].
  cbn [bind].
  destruct a as [cfg cert chal algo evalid certdata pown eph add].
  cbn [au_cfg au_cert au_chal au_algo au_evalid au_certdata au_pown au_eph au_add].
  destruct ((task =? 0) || (task =? 8)) eqn:E0;
    [cbn [bind ret]; exists 41, true; split; [in_iso|]; apply frame_mk_req_sub_nodata; [in_iso|lia]|].
  destruct ((task =? 1) || (task =? 2)) eqn:E1; [au_body|].
  destruct (task =? 5) eqn:E5; [au_body|].
  destruct (task =? 3) eqn:E3; [au_body|].
  destruct (task =? 4) eqn:E4; [au_body|].
  au_body.
Qed.
