(* seed replies of 3 data bytes, key reply of one byte *)
From Coq Require Import ZArith List Bool String Lia ZifyBool.
From UDS Require Import Lib.Bytes Lib.ErrM Lib.PyOps Gen.Fn_Unlock Model.Message Model.Client Model.Services Model.Helpers Model.Svc_Simple
  Proofs.Tie_common Proofs.Tie_simple_common Proofs.Tie_unlock_common.
Import ListNotations.
Open Scope Z_scope.

Theorem unlock_lenient_3_1 level params x0 x1 x2 y0 r1 r2 : p_data r1 = [x0; x1; x2] -> p_data r2 = [y0] ->
  fn_unlock_lenient level params ([x0; x1; x2]) [y0] = ret (unlock_spec level params r1 r2).
Proof.
  intros Hd1 Hd2. unfold fn_unlock_lenient, unlock_spec, sa_interpret; rewrite Hd1, Hd2.
  assert (Hm : level mod 2 = 0 \/ level mod 2 = 1) by (pose proof (Z.mod_pos_bound level 2); lia).
  set (m := level mod 2) in *. u_tac level m.
Qed.
