(* Where the code looks at the edition in the configuration, as executed on a symbolic edition (Gen/Fn_Edition.v: Client.__init__,
   set_config, set_configs -> refresh_config -> validate_config; clear_dtc and communication_control under a symbolic edition), is the
   decision rule of C18. *)
From Coq Require Import ZArith List Bool String Lia ZifyBool.
From UDS Require Import Lib.Bytes Lib.ErrM Lib.PyOps Spec.IsoEditions Gen.Fn_Edition Model.Message Model.Client Model.Services Model.Helpers
  Model.Svc_Simple Proofs.Tie_common Proofs.Tie_simple_common.
Import ListNotations.
Open Scope Z_scope.
Ltac Zify.zify_post_hook ::= Z.to_euclidean_division_equations.

Definition is_edition (v : Z) : bool := existsb (Z.eqb v) iso_editions.
Definition refused (v : Z) : Z := if is_edition v then 0 else 2.       (* 0 = accepted, 2 = ConfigError *)

Theorem tie_edition_at_construction v : fn_edition_at_construction v = if is_edition v then ret 0 else fail EConfig.
Proof. unfold fn_edition_at_construction, is_edition, iso_editions. cbn [existsb]. split_ifs; cbn [orb] in *; try reflexivity; try lia; try discriminate. Qed.
Theorem tie_edition_at_construction_no_timeout v : fn_edition_at_construction_no_timeout v = if is_edition v then ret 0 else fail EConfig.
Proof. unfold fn_edition_at_construction_no_timeout, is_edition, iso_editions. cbn [existsb]. split_ifs; cbn [orb] in *; try reflexivity; try lia; try discriminate. Qed.
Theorem tie_edition_set_config v : fn_edition_set_config v = if is_edition v then ret 0 else fail EConfig.
Proof. unfold fn_edition_set_config, is_edition, iso_editions. cbn [existsb]. split_ifs; cbn [orb] in *; try reflexivity; try lia; try discriminate. Qed.

(* set_config(edition v); set_config(request_timeout); set_config(edition w); set_config(request_timeout, the same value again);
   set_configs({p2_timeout}): each change is refused exactly while the edition then in the configuration is not one of the three *)
Theorem tie_edition_later_changes v w :
  fn_edition_later_changes v w = ret [refused v; refused v; refused w; refused w; refused w].
Proof.
  unfold fn_edition_later_changes, refused, is_edition, iso_editions. cbn [existsb app].
  split_ifs; cbn [orb] in *; try reflexivity; try lia; try discriminate.
Qed.

Theorem tie_edition_clear_dtc_request cfg g m : fn_edition_clear_dtc_request (std cfg) g m =
  if is_edition (std cfg) then payload_of (cdi_make cfg g m) else fail EConfig.
Proof.
  unfold fn_edition_clear_dtc_request, is_edition, iso_editions, cdi_make, pack_dtc. cbn [existsb].
  destruct m; unfold payload_of, mk_req, mk_req_data, validate_int; eval_svc;
    repeat match goal with |- context [Z.land ?x 255] =>
             lazymatch goal with H : 0 <= Z.land x 255 < 256 |- _ => fail | _ => pose proof (land255 x) end end;
    crunch; cbn [orb] in *; rewrite ?app_nil_r; cbn [app]; finish.
Qed.

(* communication_control(ct, 0x01, node) under a symbolic edition: the node identifier is required exactly for the control types 4 and 5
   from the 2013 edition on, and refused otherwise *)
Theorem tie_edition_communication_control_request cfg ct node : fn_edition_communication_control_request (std cfg) ct node =
  if is_edition (std cfg) then (cty <- ct_normalize (CtInt 1) ;; payload_of (cc_make cfg ct cty node)) else fail EConfig.
Proof.
  unfold fn_edition_communication_control_request, is_edition, iso_editions, cc_make. cbn [existsb].
  change (ct_normalize (CtInt 1)) with (@inr err commtype {| ct_subnet := 0; ct_normal := true; ct_nm := false |}).
  cbn [bind]. change (commtype_byte {| ct_subnet := 0; ct_normal := true; ct_nm := false |}) with 1.
  destruct node; unfold payload_of, mk_req, mk_req_data, validate_int; eval_svc;
    crunch; cbn [orb andb] in *; rewrite ?app_nil_r; cbn [app]; finish.
Qed.

(* a client owns its configuration: two clients built from one dictionary, one reconfigured, the dictionary edited afterwards *)
Theorem tie_config_isolated v w : fn_config_isolated v w = ret [v; 2006; 1; 2013].
Proof. reflexivity. Qed.
