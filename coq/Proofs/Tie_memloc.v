(* udsoncan/common/MemoryLocation.py and AddressAndLengthFormatIdentifier.py, as executed (Gen/Fn_MemLoc.v), are the model (C14) *)
From Coq Require Import ZArith List Bool Lia ZifyBool.
From UDS Require Import Lib.Bytes Lib.ErrM Lib.PyOps Gen.Maps Gen.Fn_MemLoc Model.Helpers Model.MemLoc Proofs.Tie_common.
Import ListNotations.
Open Scope Z_scope.
Ltac Zify.zify_post_hook ::= Z.to_euclidean_division_equations.

(* the tables the function translator met are the tables the data translator read *)
Lemma tbl_addr : tbl_AddressAndLengthFormatIdentifier_address_map = gen_alfid_address_map. Proof. reflexivity. Qed.
Lemma tbl_size : tbl_AddressAndLengthFormatIdentifier_memsize_map = gen_alfid_memsize_map. Proof. reflexivity. Qed.

(* ---- MemoryLocation: automatic widths, format precedence, the transmitted bytes ----------------------------------- *)
Lemma autosize_shape v : autosize v =
  if 1 <? (py_bit_length v + 7) / 8
  then if 64 <? (py_bit_length v + 7) / 8 * 8 then fail EValue else ret ((py_bit_length v + 7) / 8 * 8)
  else ret 8.
Proof.
  unfold autosize. change (bit_length v) with (py_bit_length v). set (k := (py_bit_length v + 7) / 8).
  destruct (1 <? k) eqn:H1.
  - replace (Z.max 1 k) with k by lia. reflexivity.
  - replace (Z.max 1 k) with 1 by lia. reflexivity.
Qed.

Theorem tie_autosize_address v : fn_autosize_address v = autosize v.
Proof. unfold fn_autosize_address. rewrite ceil_div8, autosize_shape. reflexivity. Qed.
Theorem tie_autosize_memorysize v : fn_autosize_memorysize v = autosize v.
Proof. unfold fn_autosize_memorysize. rewrite ceil_div8, autosize_shape. reflexivity. Qed.

Theorem tie_alfid_byte af sf : fn_alfid_byte af sf = (al <- mk_alfid af sf ;; alfid_byte al).
Proof.
  unfold fn_alfid_byte, mk_alfid, alfid_byte. rewrite tbl_addr, tbl_size, !dict_mem_get.
  destruct (py_dict_mem gen_alfid_address_map af) eqn:Ha; [|reflexivity].
  destruct (py_dict_mem gen_alfid_memsize_map sf) eqn:Hs; [|reflexivity].
  cbn [bind ret al_addr al_size]. rewrite !dict_mem_get, Ha, Hs. reflexivity.
Qed.

Lemma mem8a : py_dict_mem gen_alfid_address_map 8 = true. Proof. reflexivity. Qed.
Lemma mem8s : py_dict_mem gen_alfid_memsize_map 8 = true. Proof. reflexivity. Qed.

Definition obs_formats (m : memloc) := (ml_af m, ml_sf m, al_addr (ml_alfid m), al_size (ml_alfid m)).
Ltac crunch := repeat (progress (cbn [bind ret fail ml_af ml_sf ml_addr ml_size ml_alfid al_addr al_size];
                                 rewrite ?autosize_shape, ?dict_mem_get, ?mem8a, ?mem8s; use_hyps; split_ifs)).

(* MemoryLocation(a, s, af, sf) followed by set_format_if_none(ca, cs): the formats the object ends up with *)
Theorem tie_memloc_formats a s af sf ca cs :
  fn_memloc_formats a s af sf ca cs = (m <- mk_memloc a s af sf ;; m2 <- set_format_if_none m ca cs ;; ret (obs_formats m2)).
Proof.
  unfold fn_memloc_formats, mk_memloc, set_format_if_none, resolve_alfid, mk_alfid, obs_formats.
  rewrite tbl_addr, tbl_size, !ceil_div8.
  destruct af as [af|], sf as [sf|], ca as [ca|], cs as [cs|]; crunch; try reflexivity; try congruence; try lia.
Qed.

Lemma fit_shape (t : list (Z * Z)) (k v : Z) : 0 <= py_dict_get t k ->
  fit_bytes (Z.to_nat (py_dict_get t k)) v =
  if v <? 0 then fail EValue else if v <? 256 ^ py_dict_get t k then ret (be_enc (Z.to_nat (py_dict_get t k)) v) else fail EValue.
Proof.
  intros Hg. unfold fit_bytes. rewrite Z2Nat.id by lia.
  destruct (v <? 0) eqn:H1; cbn [orb]; [reflexivity|].
  destruct (256 ^ py_dict_get t k <=? v) eqn:H2, (v <? 256 ^ py_dict_get t k) eqn:H3; try reflexivity; lia.
Qed.

(* get_address_bytes / get_memorysize_bytes of a location whose format is af / sf *)
Theorem tie_addr_bytes a af :
  fn_addr_bytes a af = (al <- mk_alfid af 8 ;; addr_bytes {| ml_addr := a; ml_size := 0; ml_af := Some af; ml_sf := Some 8; ml_alfid := al |}).
Proof.
  unfold fn_addr_bytes, mk_alfid, addr_bytes, nbytes. rewrite tbl_addr, !dict_mem_get, mem8s.
  pose proof (addr_get_range af) as Hr.
  destruct (py_dict_mem gen_alfid_address_map af) eqn:Hm; [|reflexivity].
  cbn [bind ret ml_alfid al_addr ml_addr]. rewrite dict_mem_get, Hm. cbn [bind ret].
  rewrite fit_shape by lia. rewrite shl_pow by lia.
  split_ifs; try reflexivity; try lia.
Qed.
Theorem tie_size_bytes s sf :
  fn_size_bytes s sf = (al <- mk_alfid 8 sf ;; size_bytes {| ml_addr := 0; ml_size := s; ml_af := Some 8; ml_sf := Some sf; ml_alfid := al |}).
Proof.
  unfold fn_size_bytes, mk_alfid, size_bytes, nbytes. rewrite tbl_size, !dict_mem_get, mem8a.
  pose proof (size_get_range sf) as Hr.
  destruct (py_dict_mem gen_alfid_memsize_map sf) eqn:Hm; [|reflexivity].
  cbn [bind ret ml_alfid al_size ml_size]. rewrite dict_mem_get, Hm. cbn [bind ret].
  rewrite fit_shape by lia. rewrite shl_pow by lia.
  split_ifs; try reflexivity; try lia.
Qed.

