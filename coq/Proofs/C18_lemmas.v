(* Proofs for C18: edition gating.  The edition x feature part is finite and computed over the regenerated
   grouping lists; the parameters (group, node id, memory selection, reply bytes) are universally quantified. *)
From Coq Require Import ZArith List Bool String Lia ZifyBool.
From UDS Require Import Lib.Bytes Lib.ErrM Lib.PyOps Gen.DtcGroups Spec.IsoEditions Model.Message Model.Client
  Model.Services Model.Helpers Model.Svc_Simple Model.Svc_Did Model.Svc_Dtc Model.History
  Proofs.Bytes_lemmas Proofs.C17_lemmas Proofs.C19_lemmas.
Import ListNotations.
Open Scope string_scope.
Open Scope Z_scope.
Open Scope list_scope.

Definition mem (x : Z) (l : list Z) : bool := existsb (Z.eqb x) l.
Definition same_set (a b : list Z) : bool := forallb (fun x => mem x b) a && forallb (fun x => mem x a) b.

(* the regenerated lists are ISO's *)
Lemma dtc_lists_are_iso :
  same_set (group "subfunction2020") iso_dtc_subfunctions_2020 = true /\
  same_set gen_dtc_subfunctions iso_dtc_subfunctions = true.
Proof. vm_compute. split; reflexivity. Qed.

Lemma mem_same_set a b x : same_set a b = true -> mem x a = mem x b.
Proof.
  unfold same_set. intros H. apply andb_true_iff in H as [H1 H2]. rewrite forallb_forall in H1, H2.
  destruct (mem x a) eqn:Ea.
  - unfold mem in Ea. apply existsb_exists in Ea as [y [Hy Exy]]. assert (y = x) by lia. subst y.
    symmetry. exact (H1 x Hy).
  - destruct (mem x b) eqn:Eb; [|reflexivity].
    unfold mem in Eb. apply existsb_exists in Eb as [y [Hy Exy]]. assert (y = x) by lia. subst y.
    specialize (H2 x Hy). congruence.
Qed.

(* check_subfunction_valid, for every subfunction value and every edition *)
Lemma check_subfunction_spec std_ sub :
  check_subfunction_valid std_ sub =
  if negb (mem sub iso_dtc_subfunctions) then inl EValue
  else if mem sub iso_dtc_subfunctions_2020 && (std_ <? 2020) then inl ENotImpl
  else inr tt.
Proof.
  destruct dtc_lists_are_iso as [S1 S2].
  unfold check_subfunction_valid, in_group, validate_int.
  fold (mem sub (group "subfunction2020")). fold (mem sub gen_dtc_subfunctions).
  rewrite (mem_same_set _ _ sub S1), (mem_same_set _ _ sub S2).
  destruct ((sub <? 1) || (255 <? sub)) eqn:Er; cbn [bind fail ret].
  - (* out of 1..255: not an ISO subfunction either *)
    assert (mem sub iso_dtc_subfunctions = false) as Em.
    { unfold mem, iso_dtc_subfunctions. cbn [existsb]. lia. }
    rewrite Em. reflexivity.
  - unfold guard. destruct (mem sub iso_dtc_subfunctions); cbn [negb bind fail ret]; [|reflexivity].
    destruct (mem sub iso_dtc_subfunctions_2020 && (std_ <? 2020)); reflexivity.
Qed.

(* consequences: the 2020 subfunctions are refused exactly under earlier editions; no other subfunction is gated *)
Lemma gating_2020 std_ sub : mem sub iso_dtc_subfunctions_2020 = true ->
  (std_ < 2020 -> check_subfunction_valid std_ sub = inl ENotImpl) /\
  (2020 <= std_ -> check_subfunction_valid std_ sub = inr tt).
Proof.
  intros H. rewrite check_subfunction_spec.
  assert (mem sub iso_dtc_subfunctions = true) as Hd.
  { unfold mem, iso_dtc_subfunctions_2020, iso_dtc_subfunctions in *. cbn [existsb] in *. lia. }
  rewrite Hd, H. cbn [negb andb]. split; intros Hs.
  - replace (std_ <? 2020) with true by lia. reflexivity.
  - replace (std_ <? 2020) with false by lia. reflexivity.
Qed.

Lemma not_gated std_ std' sub : mem sub iso_dtc_subfunctions_2020 = false ->
  check_subfunction_valid std_ sub = check_subfunction_valid std' sub.
Proof. intros H. rewrite !check_subfunction_spec. rewrite H. reflexivity. Qed.

(* a refused subfunction sends nothing *)
Lemma rdtci_make_refused cfg sub a e : check_subfunction_valid (std cfg) sub = inl e -> rdtci_make cfg sub a = inl e.
Proof. intros H. unfold rdtci_make. rewrite H. reflexivity. Qed.

(* ---- clear_dtc memory selection ------------------------------------------------------------------------------ *)
Lemma cdi_memsel cfg g m : 0 <= g <= 16777215 ->
  (std cfg < 2020 -> cdi_make cfg g (Some m) = inl ENotImpl) /\
  (2020 <= std cfg -> 0 <= m <= 255 ->
     exists rq, cdi_make cfg g (Some m) = inr rq /\ q_data rq = Some (be_enc 3 g ++ [m])).
Proof.
  intros Hg. unfold cdi_make, validate_int. replace ((g <? 0) || (16777215 <? g)) with false by lia. cbn [bind ret].
  rewrite (proj1 (pack_dtc_ok g ltac:(lia))). cbn [bind]. split.
  - intros Hs. replace (std cfg <? 2020) with true by lia. reflexivity.
  - intros Hs Hm. replace (std cfg <? 2020) with false by lia.
    replace ((m <? 0) || (255 <? m)) with false by lia. cbn [bind ret]. rewrite (pack_B_ok m) by lia. cbn [bind].
    unfold mk_req_data, mk_req.
    destruct (svc_by_name "ClearDiagnosticInformation") as [s|] eqn:Es.
    + unfold mk_request. cbn [andb]. eexists. split; [reflexivity|]. reflexivity.
    + exfalso. revert Es. vm_compute. discriminate.
Qed.

Lemma cdi_no_memsel cfg cfg' g : cdi_make cfg g None = cdi_make cfg' g None.
Proof. reflexivity. Qed.

(* ---- communication_control node identification ---------------------------------------------------------------- *)
Definition node_required (std_ ct : Z) : bool := (2013 <=? std_) && mem ct iso_enhanced_address_types.

Lemma cc_node_rule cfg ct cty node : 0 <= ct <= 127 ->
  (match node with Some n => 0 <= n <= 65535 | None => True end) ->
  0 <= commtype_byte cty < 256 ->
  (exists rq, cc_make cfg ct cty node = inr rq) <->
  (match node with Some _ => true | None => false end) = node_required (std cfg) ct.
Proof.
  intros Hct Hn Hb. unfold cc_make, validate_int, node_required, mem, iso_enhanced_address_types. cbn [existsb].
  replace ((ct <? 0) || (127 <? ct)) with false by lia. cbn [bind ret]. rewrite orb_false_r.
  destruct ((2013 <=? std cfg) && ((ct =? 4) || (ct =? 5))) eqn:Er; destruct node as [n|]; cbn [bind ret fail];
    split; intros H; try discriminate; try reflexivity; try (destruct H as [rq H]; discriminate).
  - rewrite (pack_B_ok (commtype_byte cty)) by lia. cbn [bind].
    replace ((n <? 0) || (65535 <? n)) with false by lia. cbn [bind ret].
    unfold pack_H. rewrite pack_be_ok by (change (256 ^ Z.of_nat 2) with 65536; lia). cbn [bind].
    unfold mk_req. destruct (svc_by_name "CommunicationControl") as [s|] eqn:Es;
      [|exfalso; revert Es; vm_compute; discriminate].
    unfold mk_request. cbn [andb]. eexists. reflexivity.
  - rewrite (pack_B_ok (commtype_byte cty)) by lia. cbn [bind].
    unfold mk_req. destruct (svc_by_name "CommunicationControl") as [s|] eqn:Es;
      [|exfalso; revert Es; vm_compute; discriminate].
    unfold mk_request. cbn [andb]. eexists. reflexivity.
Qed.

(* ---- session-change reply under >= 2013: exactly four timing bytes are demanded ---------------------------- *)
Lemma dsc_reply_length cfg session r sd :
  dsc_interpret cfg session r = inr sd ->
  (2013 <= std cfg -> List.length (p_data r) = 5%nat) /\ (1 <= List.length (p_data r))%nat.
Proof.
  unfold dsc_interpret. destruct (p_data r) as [|echo rec]; [discriminate|].
  destruct (2013 <=? std cfg) eqn:Es.
  - destruct rec as [|a1 [|a0 [|b1 [|b0 [|x rec']]]]]; cbn [bind ret fail]; try discriminate.
    intros _. split; [reflexivity|cbn; lia].
  - intros _. split; [intros; lia|cbn; lia].
Qed.

(* ---- edition values ---------------------------------------------------------------------------------------------- *)
Lemma nth_set_nth_same l i v : (i < List.length l)%nat -> nth i (set_nth l i v) 0 = v.
Proof. revert i. induction l as [|x l IH]; intros i H; [cbn in H; lia|]. destruct i as [|k]; [reflexivity|]. cbn [set_nth nth]. apply IH. cbn in H. lia. Qed.

(* every configuration change validates the edition that is in the configuration afterwards *)
Lemma set_config_validates cfgv st now slot v :
  let '(out, cfgv', _, _) := step_op cfgv st now (OSetCfg slot v) in
  cfgv' = set_nth cfgv (Z.to_nat slot) v /\
  (mem (nth 6 cfgv' 0) iso_editions = true -> out = []) /\ (mem (nth 6 cfgv' 0) iso_editions = false -> out = [2; err_code EConfig]).
Proof.
  cbn [step_op]. split; [reflexivity|]. unfold mem, iso_editions. cbn [existsb]. rewrite orb_false_r.
  set (e := nth 6 (set_nth cfgv (Z.to_nat slot) v) 0).
  destruct ((e =? 2006) || ((e =? 2013) || (e =? 2020))) eqn:E.
  - replace ((e =? 2006) || (e =? 2013) || (e =? 2020)) with true by lia. split; [reflexivity|discriminate].
  - replace ((e =? 2006) || (e =? 2013) || (e =? 2020)) with false by lia. split; [discriminate|reflexivity].
Qed.

Lemma set_edition cfgv st now v : (6 < List.length cfgv)%nat ->
  let '(out, cfgv', _, _) := step_op cfgv st now (OSetCfg 6 v) in
  (mem v iso_editions = true -> out = []) /\ (mem v iso_editions = false -> out = [2; err_code EConfig]).
Proof.
  intros Hl. pose proof (set_config_validates cfgv st now 6 v) as H. cbn [step_op] in *. destruct H as (_ & H1 & H2).
  change (Z.to_nat 6) with 6%nat in *. rewrite (nth_set_nth_same cfgv 6 v Hl) in *. split; assumption.
Qed.
