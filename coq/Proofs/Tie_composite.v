(* The consistency check of a composite definition by memory address, as executed (Gen/Fn_Composite.v: DynamicDidDefinition.add of two /
   three MemoryLocations with symbolic explicit formats, then get_alfid): the announced format byte is the first entry's, and EVERY other
   entry must have the same one - else ValueError (C14). *)
From Coq Require Import ZArith List Bool Lia ZifyBool.
From UDS Require Import Lib.Bytes Lib.ErrM Lib.PyOps Gen.Maps Gen.Fn_Composite Model.Helpers Model.MemLoc Proofs.Tie_common.
Import ListNotations.
Open Scope Z_scope.

Lemma tbl_addr : tbl_AddressAndLengthFormatIdentifier_address_map = gen_alfid_address_map. Proof. reflexivity. Qed.
Lemma tbl_size : tbl_AddressAndLengthFormatIdentifier_memsize_map = gen_alfid_memsize_map. Proof. reflexivity. Qed.

Definition format_byte (af sf : Z) : M Z := al <- mk_alfid af sf ;; alfid_byte al.
Ltac c_tac := unfold format_byte, mk_alfid, alfid_byte; rewrite tbl_addr, tbl_size, ?dict_mem_get;
  repeat match goal with |- context [Z.land ?x 255] =>
           lazymatch goal with H : 0 <= Z.land x 255 < 256 |- _ => fail | _ => pose proof (land255 x) end end;
  repeat (progress (cbn [bind ret fail al_addr al_size]; rewrite ?dict_mem_get; use_hyps; split_ifs));
  try reflexivity; try lia; try congruence.

Theorem tie_composite_alfid2 af1 sf1 af2 sf2 :
  fn_composite_alfid2 af1 sf1 af2 sf2 =
  (a1 <- format_byte af1 sf1 ;; a2 <- format_byte af2 sf2 ;; if a1 =? a2 then ret a1 else fail EValue).
Proof. unfold fn_composite_alfid2. c_tac. Qed.
Theorem tie_composite_alfid3 af1 sf1 af2 sf2 af3 sf3 :
  fn_composite_alfid3 af1 sf1 af2 sf2 af3 sf3 =
  (a1 <- format_byte af1 sf1 ;; a2 <- format_byte af2 sf2 ;; a3 <- format_byte af3 sf3 ;;
   if (a1 =? a2) && (a1 =? a3) then ret a1 else fail EValue).
Proof. unfold fn_composite_alfid3. c_tac. Qed.
