(* The request a client method builds, as executed (Gen/Fn_SimpleReq.v: the method of udsoncan/client.py run on symbolic arguments up
   to its call of send_request, through the service's make_request and Request.get_payload), is the model's builder followed by
   request_payload: same refusals (ValueError, NotImplementedError ...), same bytes. *)
From Coq Require Import ZArith List Bool String Lia ZifyBool.
From UDS Require Import Lib.Bytes Lib.ErrM Lib.PyOps Gen.Fn_SimpleReq Model.Message Model.Client Model.Services Model.Helpers Model.Svc_Simple
  Proofs.Tie_common Proofs.Tie_simple_common.
Import ListNotations.
Open Scope Z_scope.
Ltac Zify.zify_post_hook ::= Z.to_euclidean_division_equations.

Theorem tie_ecu_reset_request t : fn_ecu_reset_request t = payload_of (er_make t).
Proof. unfold fn_ecu_reset_request, er_make. req_tac. Qed.
Theorem tie_routine_control_request rid ct data : fn_routine_control_request rid ct data = payload_of (rc_make rid ct data).
Proof. unfold fn_routine_control_request, rc_make. destruct data; req_tac. Qed.
Theorem tie_tester_present_request : fn_tester_present_request = payload_of (mk_req "TesterPresent" (Some 0) None).
Proof. unfold fn_tester_present_request. req_tac. Qed.
Theorem tie_change_session_request sn : fn_change_session_request sn = payload_of (dsc_make sn).
Proof. unfold fn_change_session_request, dsc_make. req_tac. Qed.
Theorem tie_change_session_2006_request sn : fn_change_session_2006_request sn = payload_of (dsc_make sn).
Proof. unfold fn_change_session_2006_request, dsc_make. req_tac. Qed.
Theorem tie_request_seed_request level data : fn_request_seed_request level data = payload_of (sa_make false level data).
Proof. unfold fn_request_seed_request, sa_make, normalize_level. req_tac. Qed.
Theorem tie_send_key_request level key : fn_send_key_request level key = payload_of (sa_make true level key).
Proof. unfold fn_send_key_request, sa_make, normalize_level. req_tac. Qed.
Theorem tie_access_timing_parameter_request a rc : fn_access_timing_parameter_request a rc = payload_of (atp_make a rc).
Proof. unfold fn_access_timing_parameter_request, atp_make. destruct rc; req_tac. Qed.
Theorem tie_transfer_data_request sq data : fn_transfer_data_request sq data = payload_of (td_make sq data).
Proof. unfold fn_transfer_data_request, td_make. destruct data; req_tac. Qed.
Theorem tie_control_dtc_setting_request t data : fn_control_dtc_setting_request t data = payload_of (cds_make t data).
Proof. unfold fn_control_dtc_setting_request, cds_make. destruct data; req_tac. Qed.
Theorem tie_clear_dtc_request cfg g m : std cfg = 2020 -> fn_clear_dtc_request g m = payload_of (cdi_make cfg g m).
Proof. intros Hs. unfold fn_clear_dtc_request, cdi_make, pack_dtc. rewrite Hs. destruct m; req_tac. Qed.
