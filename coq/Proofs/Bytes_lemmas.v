(* Lemmas about big-endian byte strings, Python slicing primitives and shift/mask arithmetic. *)
From Coq Require Import ZArith List Bool Lia ZifyBool.
From UDS Require Import Lib.Bytes Lib.ErrM Lib.PyOps.
Import ListNotations.
Open Scope Z_scope.
Ltac Zify.zify_post_hook ::= Z.to_euclidean_division_equations.

Lemma be_enc_length n v : length (be_enc n v) = n.
Proof. revert v. induction n as [|n IH]; intros v; cbn [be_enc]; [reflexivity|]. rewrite app_length, IH. cbn. lia. Qed.

Lemma be_dec_acc_app acc l1 l2 : be_dec_acc acc (l1 ++ l2) = be_dec_acc (be_dec_acc acc l1) l2.
Proof. revert acc. induction l1 as [|x xs IH]; intros acc; cbn; [reflexivity|apply IH]. Qed.

Lemma be_dec_acc_shift acc l : be_dec_acc acc l = acc * 256 ^ Z.of_nat (length l) + be_dec_acc 0 l.
Proof.
  revert acc. induction l as [|x xs IH]; intros acc.
  - cbn. lia.
  - cbn [be_dec_acc length]. rewrite IH. rewrite (IH (0 * 256 + x)).
    rewrite Nat2Z.inj_succ, Z.pow_succ_r by lia. lia.
Qed.

Lemma pow256_pos n : 0 < 256 ^ Z.of_nat n.
Proof. apply Z.pow_pos_nonneg; lia. Qed.

Lemma be_dec_enc n v : 0 <= v < 256 ^ Z.of_nat n -> be_dec (be_enc n v) = v.
Proof.
  unfold be_dec. revert v. induction n as [|n IH]; intros v Hv.
  - cbn in *. lia.
  - cbn [be_enc]. rewrite be_dec_acc_app. cbn [be_dec_acc].
    rewrite Nat2Z.inj_succ, Z.pow_succ_r in Hv by lia.
    rewrite IH.
    + pose proof (Z.div_mod v 256 ltac:(lia)). lia.
    + pose proof (pow256_pos n). split; [apply Z.div_pos; lia|apply Z.div_lt_upper_bound; lia].
Qed.

Lemma be_enc_wf n v : wf_bytes (be_enc n v).
Proof.
  revert v. induction n as [|n IH]; intros v; cbn [be_enc]; [constructor|].
  apply Forall_app. split; [apply IH|]. constructor; [|constructor].
  pose proof (Z.mod_pos_bound v 256 ltac:(lia)). lia.
Qed.

Lemma be_dec_acc_bound acc l : wf_bytes l -> 0 <= acc ->
  acc * 256 ^ Z.of_nat (length l) <= be_dec_acc acc l < (acc + 1) * 256 ^ Z.of_nat (length l).
Proof.
  intros Hwf. revert acc. induction Hwf as [|x xs Hx Hxs IH]; intros acc Hacc.
  - cbn. lia.
  - cbn [be_dec_acc length]. rewrite Nat2Z.inj_succ, Z.pow_succ_r by lia.
    specialize (IH (acc * 256 + x) ltac:(lia)). pose proof (pow256_pos (length xs)). nia.
Qed.

Lemma be_dec_bound l : wf_bytes l -> 0 <= be_dec l < 256 ^ Z.of_nat (length l).
Proof. intros H. pose proof (be_dec_acc_bound 0 l H ltac:(lia)). unfold be_dec. lia. Qed.

Lemma be_enc_dec l : wf_bytes l -> be_enc (length l) (be_dec l) = l.
Proof.
  intros Hwf. induction l as [|x xs IH] using rev_ind; [reflexivity|].
  apply Forall_app in Hwf as [Hxs Hx]. inversion Hx as [|? ? Hx0 _]; subst.
  rewrite app_length. cbn [length]. rewrite Nat.add_1_r. cbn [be_enc].
  unfold be_dec. rewrite be_dec_acc_app. cbn [be_dec_acc]. fold (be_dec xs).
  replace ((be_dec xs * 256 + x) / 256) with (be_dec xs) by lia.
  replace ((be_dec xs * 256 + x) mod 256) with x by lia.
  rewrite IH by assumption. reflexivity.
Qed.

Lemma pack_be_ok n v e : 0 <= v < 256 ^ Z.of_nat n -> pack_be n v e = inr (be_enc n v).
Proof.
  intros Hv. unfold pack_be.
  replace ((0 <=? v) && (v <? 256 ^ Z.of_nat n)) with true by lia. reflexivity.
Qed.

Lemma pack_be_err n v e : ~ (0 <= v < 256 ^ Z.of_nat n) -> pack_be n v e = inl e.
Proof.
  intros Hv. unfold pack_be.
  replace ((0 <=? v) && (v <? 256 ^ Z.of_nat n)) with false by lia. reflexivity.
Qed.

(* shift / mask as div / mod *)
Lemma land_255 x : 0 <= x -> Z.land x 255 = x mod 256.
Proof. intros _. change 255 with (Z.ones 8). rewrite Z.land_ones by lia. reflexivity. Qed.

Lemma shr_land_255 x k : 0 <= x -> 0 <= k -> Z.land (Z.shiftr x k) 255 = (x / 2 ^ k) mod 256.
Proof.
  intros Hx Hk. rewrite Z.shiftr_div_pow2 by lia. apply land_255.
  apply Z.div_pos; [lia|apply Z.pow_pos_nonneg; lia].
Qed.

Lemma be_enc_3 v : be_enc 3 v = [(v / 65536) mod 256; (v / 256) mod 256; v mod 256].
Proof. cbn [be_enc app]. rewrite Z.div_div by lia. reflexivity. Qed.

Lemma be_enc_2 v : be_enc 2 v = [(v / 256) mod 256; v mod 256].
Proof. reflexivity. Qed.

Lemma be_enc_1 v : be_enc 1 v = [v mod 256].
Proof. reflexivity. Qed.

(* slicing *)
Lemma firstn_app_exact {A} (l1 l2 : list A) : firstn (length l1) (l1 ++ l2) = l1.
Proof. rewrite firstn_app, Nat.sub_diag, firstn_all. cbn. apply app_nil_r. Qed.

Lemma skipn_app_exact {A} (l1 l2 : list A) : skipn (length l1) (l1 ++ l2) = l2.
Proof. rewrite skipn_app, Nat.sub_diag, skipn_all. reflexivity. Qed.

Lemma wf_bytes_app l1 l2 : wf_bytes (l1 ++ l2) <-> wf_bytes l1 /\ wf_bytes l2.
Proof. apply Forall_app. Qed.
