(* Structural facts about send_request / wait_loop / the decorator / single_request used by C06, C08, C09,
   C10, C13, C15. *)
From Coq Require Import ZArith List Bool String Lia ZifyBool.
From UDS Require Import Lib.Bytes Lib.ErrM Lib.PyOps Lib.Sweep Spec.Timing Model.Message Model.Client
  Model.Services Model.Svc_Simple Model.Svc_Memory Model.Svc_Did Model.Svc_File Model.Svc_Dtc Model.History
  Proofs.C17_lemmas Proofs.C05_lemmas.
Import ListNotations.
Open Scope Z_scope.
Open Scope list_scope.

(* ---- counting events ------------------------------------------------------------------------------ *)
Fixpoint count_s (tr : list ev) : nat :=
  match tr with [] => O | EvS _ :: r => S (count_s r) | _ :: r => count_s r end.
Fixpoint count_f (tr : list ev) : nat :=
  match tr with [] => O | EvF :: r => S (count_f r) | _ :: r => count_f r end.
Fixpoint count_algo (tr : list ev) : nat :=
  match tr with [] => O | EvALGO _ _ _ :: r => S (count_algo r) | _ :: r => count_algo r end.
Definition sent (tr : list ev) : list bytes :=
  flat_map (fun e => match e with EvS p => [p] | _ => [] end) tr.

Lemma count_s_app a b : count_s (a ++ b) = (count_s a + count_s b)%nat.
Proof. induction a as [|x xs IH]; cbn; [reflexivity|]. destruct x; cbn; rewrite IH; reflexivity. Qed.
Lemma count_f_app a b : count_f (a ++ b) = (count_f a + count_f b)%nat.
Proof. induction a as [|x xs IH]; cbn; [reflexivity|]. destruct x; cbn; rewrite IH; reflexivity. Qed.
Lemma count_algo_app a b : count_algo (a ++ b) = (count_algo a + count_algo b)%nat.
Proof. induction a as [|x xs IH]; cbn; [reflexivity|]. destruct x; cbn; rewrite IH; reflexivity. Qed.
Lemma sent_app a b : sent (a ++ b) = sent a ++ sent b.
Proof. unfold sent. apply flat_map_app. Qed.

(* the receive loop only waits and calls back: it never flushes, sends or runs the algorithm; every callback
   is immediately followed by the next wait; the trace starts with a wait *)
Fixpoint cb_then_w (tr : list ev) : Prop :=
  match tr with
  | [] => True
  | EvCB :: rest => (match rest with EvW _ _ :: _ => True | _ => False end) /\ cb_then_w rest
  | _ :: rest => cb_then_w rest
  end.
Definition starts_with_w (tr : list ev) : Prop := match tr with EvW _ _ :: _ => True | _ => False end.

Lemma wait_loop_quiet cfg p2star rsid spr deadline s :
  forall single (star : bool) now,
  let tr := wl_trace (wait_loop cfg p2star rsid spr deadline single star now s) in
  count_s tr = O /\ count_f tr = O /\ count_algo tr = O /\ starts_with_w tr /\ cb_then_w tr.
Proof.
  induction s as [|[a it] rest IH]; intros single star now; cbv zeta; cbn [wait_loop].
  - destruct (wait_len single deadline now) as [is_single w]. destruct spr; cbn; auto.
  - destruct (wait_len single deadline now) as [is_single w].
    destruct (a <=? now + w).
    + destruct it as [f|]; [|cbn; auto].
      destruct (negb (p_valid (parse_response f))); [cbn; auto|].
      destruct (p_svc (parse_response f)) as [rs|]; [|cbn; auto].
      destruct (p_code (parse_response f)) as [code|]; [|cbn; auto].
      destruct (negb (s_sid rs + 64 =? rsid)); [cbn; auto|].
      destruct (negb (p_positive (parse_response f))).
      * destruct (code =? 120); [|cbn; auto].
        specialize (IH (if star then single else p2star) true (Z.max now a)). cbv zeta in IH.
        destruct (wait_loop cfg p2star rsid spr deadline (if star then single else p2star) true (Z.max now a) rest)
          as [[[res t] s'] tr]. cbn [wl_trace snd] in *. destruct IH as (I1 & I2 & I3 & I4 & I5).
        destruct (has_cb cfg); cbn [app count_s count_f count_algo starts_with_w cb_then_w]; repeat split; auto;
          destruct tr as [|[] tr']; cbn in *; auto; contradiction.
      * destruct spr; cbn; auto.
    + destruct spr; cbn; auto.
Qed.

(* ---- C06: no outcome ever carries 0x78; a returned response is positive --------------------------- *)
Lemma wait_loop_no_78 cfg p2star rsid spr deadline s :
  forall single (star : bool) now,
  match wl_res (wait_loop cfg p2star rsid spr deadline single star now s) with
  | CErr ENegative (Some r) => p_code r <> Some 120 /\ p_positive r = false /\ p_valid r = true
  | CErr ENegative None => False
  | COk (Some r) => p_positive r = true /\ p_valid r = true /\ spr = false
  | _ => True
  end.
Proof.
  induction s as [|[a it] rest IH]; intros single star now; cbn [wait_loop].
  - destruct (wait_len single deadline now) as [is_single w]. destruct spr; cbn; auto.
  - destruct (wait_len single deadline now) as [is_single w].
    destruct (a <=? now + w).
    + destruct it as [f|]; [cbn; auto|cbn; auto].
      destruct (negb (p_valid (parse_response f))) eqn:Ev; [cbn; auto|].
      destruct (p_svc (parse_response f)) as [rs|]; [|cbn; auto].
      destruct (p_code (parse_response f)) as [code|] eqn:Ec; [|cbn; auto].
      destruct (negb (s_sid rs + 64 =? rsid)); [cbn; auto|].
      apply negb_false_iff in Ev.
      destruct (negb (p_positive (parse_response f))) eqn:Ep.
      * destruct (code =? 120) eqn:E78.
        -- specialize (IH (if star then single else p2star) true (Z.max now a)).
           destruct (wait_loop cfg p2star rsid spr deadline (if star then single else p2star) true (Z.max now a) rest)
             as [[[res t] s'] tr]. cbn [wl_res fst] in *. exact IH.
        -- cbn. apply negb_true_iff in Ep. split; [|auto]. rewrite Ec. intros H. injection H as H. lia.
      * apply negb_false_iff in Ep. destruct spr; cbn; auto.
    + destruct spr; cbn; auto.
Qed.

(* with suppression in force the loop never reports a timeout and never returns a response *)
Lemma wait_loop_spr cfg p2star rsid deadline s :
  forall single (star : bool) now,
  match wl_res (wait_loop cfg p2star rsid true deadline single star now s) with
  | CErr ETimeout _ => False
  | COk (Some _) => False
  | _ => True
  end.
Proof.
  induction s as [|[a it] rest IH]; intros single star now; cbn [wait_loop].
  - destruct (wait_len single deadline now) as [is_single w]. cbn. auto.
  - destruct (wait_len single deadline now) as [is_single w].
    destruct (a <=? now + w); [|cbn; auto].
    destruct it as [f|]; [|cbn; auto].
    destruct (negb (p_valid (parse_response f))); [cbn; auto|].
    destruct (p_svc (parse_response f)) as [rs|]; [|cbn; auto].
    destruct (p_code (parse_response f)) as [code|]; [|cbn; auto].
    destruct (negb (s_sid rs + 64 =? rsid)); [cbn; auto|].
    destruct (negb (p_positive (parse_response f))); [|cbn; auto].
    destruct (code =? 120); [|cbn; auto].
    specialize (IH (if star then single else p2star) true (Z.max now a)).
    destruct (wait_loop cfg p2star rsid true deadline (if star then single else p2star) true (Z.max now a) rest)
      as [[[res t] s'] tr]. cbn [wl_res fst] in *. exact IH.
Qed.

(* ---- send_request: shape of the trace ------------------------------------------------------------ *)
(* the payload send_request transmits for a request *)
Definition wire_payload (st : cstate) (r : req) : M bytes :=
  match q_svc r with
  | None => fail EValue
  | Some sv => p <- request_payload r (if spr_on st && s_sub sv then Some true else None) ;;
               ret (apply_override (ov st) p)
  end.

Lemma send_request_shape cfg st r to now s :
  let x := send_request cfg st r to now s in
  match wire_payload st r with
  | inr p => exists tr, wl_trace x = EvF :: EvS p :: tr /\ count_s tr = O /\ count_f tr = O /\ count_algo tr = O /\ cb_then_w tr
  | inl e => (wl_trace x = [] \/ wl_trace x = [EvF]) /\ wl_res x = CErr e None
  end.
Proof.
  cbv zeta. unfold send_request, wire_payload. destruct (q_svc r) as [sv|]; [|cbn; auto].
  destruct (if to <? 0 then _ else _) as [overall single].
  destruct (request_payload r (if spr_on st && s_sub sv then Some true else None)) as [e|p]; cbn [bind ret].
  - cbn. auto.
  - destruct ((q_spr r || spr_on st && s_sub sv) && negb (spr_on st && match spr_wait st with Some true => true | _ => false end)).
    + exists []. cbn. auto.
    + match goal with |- context [wait_loop ?a ?b ?c ?d ?e ?f ?g ?h ?i] =>
        pose proof (wait_loop_quiet a b c d e i f g h) as Q; cbv zeta in Q;
        destruct (wait_loop a b c d e f g h i) as [[[res t] s'] tr] end.
      cbn [wl_trace snd] in *. exists tr. destruct Q as (Q1 & Q2 & Q3 & Q4 & Q5). auto.
Qed.

(* stale frames (arrived by the time of the call) never influence the call *)
Lemma flush_stale now stale s :
  Forall (fun x => fst x <= now) stale -> flush now (stale ++ s) = flush now s.
Proof.
  induction stale as [|[a it] tl IH]; intros H; [reflexivity|].
  inversion H as [|? ? Ha Ht]; subst. cbn [app flush]. cbn [fst] in Ha.
  replace (a <=? now) with true by lia. apply IH. exact Ht.
Qed.

Lemma send_request_stale cfg st r to now stale s :
  Forall (fun x => fst x <= now) stale -> q_svc r <> None ->
  send_request cfg st r to now (stale ++ s) = send_request cfg st r to now s.
Proof.
  intros Hst Hsv. unfold send_request. destruct (q_svc r) as [sv|]; [|congruence].
  rewrite (flush_stale now stale s Hst). reflexivity.
Qed.

(* ---- suppression: what is transmitted and what comes back ---------------------------------------- *)
Lemma lor128 sub : 0 <= sub < 128 -> Z.lor sub 128 = sub + 128.
Proof.
  intros H.
  assert (all_below (fun x => Z.lor x 128 =? x + 128) 128 = true) as S by (vm_compute; reflexivity).
  pose proof (all_below_spec _ 128 ltac:(lia) S sub H) as E. cbv beta in E. lia.
Qed.

Lemma wire_payload_spec st s sub d r :
  In s services -> 0 <= sub < 128 ->
  mk_request (Some s) (Some sub) false d = inr r ->
  wire_payload st r = inr (apply_override (ov st)
    (if s_sub s then s_sid s :: (if spr_on st then sub + 128 else sub) :: match d with Some x => x | None => [] end
     else s_sid s :: match d with Some x => x | None => [] end)).
Proof.
  intros Hin Hsub Hmk. destruct (svc_facts s Hin) as (H0 & H1 & _).
  unfold mk_request in Hmk. cbn [andb] in Hmk. injection Hmk as Hr. subst r.
  unfold wire_payload, request_payload. cbn [q_svc q_sub q_spr q_data].
  destruct (s_sub s) eqn:Es.
  - rewrite andb_true_r. rewrite (pack_B_ok (s_sid s)) by lia.
    destruct (spr_on st).
    + rewrite lor128 by lia. rewrite (pack_B_ok (sub + 128)) by lia. reflexivity.
    + rewrite (pack_B_ok sub) by lia. reflexivity.
  - rewrite andb_false_r. cbn [orb]. rewrite (pack_B_ok (s_sid s)) by lia. reflexivity.
Qed.

Lemma send_request_spr_nowait cfg st r to now s sv :
  q_svc r = Some sv -> s_sub sv = true -> spr_on st = true ->
  match spr_wait st with Some true => False | _ => True end ->
  forall p, wire_payload st r = inr p ->
  send_request cfg st r to now s = (COk None, now, flush now s, [EvF; EvS p]).
Proof.
  intros Hs Hsub Hon Hw p Hp. unfold send_request. unfold wire_payload in Hp. rewrite Hs in *.
  rewrite Hon, Hsub in *. cbn [andb] in *.
  destruct (if to <? 0 then _ else _) as [overall single].
  destruct (request_payload r (Some true)) as [e|p0]; [discriminate|]. cbn [bind ret] in Hp. injection Hp as Hp. subst p.
  rewrite orb_true_r. destruct (spr_wait st) as [[|]|]; try contradiction; reflexivity.
Qed.

Lemma request_payload_err r ov e : request_payload r ov = inl e -> e = EValue \/ e = EStruct.
Proof.
  unfold request_payload, fail. destruct (q_svc r) as [sv|]; [|intros H; left; congruence].
  assert (forall v e', pack_B v = inl e' -> e' = EStruct) as PB.
  { intros v e'. unfold pack_B, pack_be, fail, ret. destruct (_ && _); intros H; [discriminate H|congruence]. }
  destruct (s_sub sv).
  - destruct (q_sub r) as [sub0|]; [|intros H; left; congruence].
    destruct (pack_B (s_sid sv)) as [e1|a] eqn:E1; cbn [bind]; [intros H; right; apply PB in E1; congruence|].
    match goal with |- context [bind (pack_B ?x) _] => destruct (pack_B x) as [e2|b] eqn:E2 end;
      cbn [bind]; [intros H; right; apply PB in E2; congruence|]. unfold ret; intros H; discriminate H.
  - destruct (_ || _); [intros H; left; congruence|].
    destruct (pack_B (s_sid sv)) as [e1|a] eqn:E1; cbn [bind]; [intros H; right; apply PB in E1; congruence|]. unfold ret; intros H; discriminate H.
Qed.

Lemma send_request_spr_wait cfg st r to now s sv :
  q_svc r = Some sv -> s_sub sv = true -> spr_on st = true ->
  match wl_res (send_request cfg st r to now s) with
  | CErr ETimeout _ => False
  | COk (Some _) => False
  | _ => True
  end.
Proof.
  intros Hs Hsub Hon. unfold send_request. rewrite Hs, Hon, Hsub. cbn [andb].
  destruct (if to <? 0 then _ else _) as [overall single].
  destruct (request_payload r (Some true)) as [e|p0] eqn:Ep;
    [destruct (request_payload_err _ _ _ Ep); subst e; cbn; exact I|].
  rewrite orb_true_r. cbn [andb].
  destruct (negb match spr_wait st with Some true => true | _ => false end); [cbn; auto|].
  match goal with |- context [wait_loop ?a ?b ?c true ?e ?f ?g ?h ?i] =>
    pose proof (wait_loop_spr a b c e i f g h) as Q;
    destruct (wait_loop a b c true e f g h i) as [[[res t] s'] tr] end.
  cbn [wl_res fst] in *. exact Q.
Qed.

(* ---- the decorator ---------------------------------------------------------------------------------- *)
Inductive oclass := KOk | KNegative | KInvalid | KUnexpected | KOther (e : err).

Definition inner_class {A} (i : cres A) : oclass :=
  match i with
  | COk _ => KOk
  | CErr ENegative (Some _) => KNegative
  | CErr EInvalid (Some _) => KInvalid
  | CErr EUnexpected (Some _) => KUnexpected
  | CErr e _ => KOther e
  end.

(* classification of what the caller observes: by exception type when raised, by flag when returned *)
Definition outcome_class {A} (o : outcome A) : oclass :=
  match o with
  | ORet _ => KOk
  | ORaise ENegative (Some _) => KNegative
  | ORaise EInvalid (Some _) => KInvalid
  | ORaise EUnexpected (Some _) => KUnexpected
  | ORaise e _ => KOther e
  | ORetResp r => if negb (p_valid r) then KInvalid else if p_unexpected r then KUnexpected
                  else if negb (p_positive r) then KNegative else KOk
  end.

Definition outcome_payload {A} (o : outcome A) : option (option bytes) :=
  match o with
  | ORet _ => None
  | ORetResp r => Some (p_orig r)
  | ORaise _ (Some r) => Some (p_orig r)
  | ORaise _ None => None
  end.

Definition looks_successful (r : resp) : bool := p_positive r && p_valid r && negb (p_unexpected r).

(* responses handed to the decorator come from send_request: valid, and negative ones are not positive *)
Definition sane_inner {A} (i : cres A) : Prop :=
  match i with
  | CErr ENegative (Some r) => p_valid r = true /\ p_unexpected r = false
  | CErr EUnexpected (Some r) => p_valid r = true
  | _ => True
  end.

Lemma deliver_class {A} cfg (i : cres A) : sane_inner i ->
  outcome_class (deliver cfg i) = inner_class i /\
  (forall cfg', outcome_payload (deliver cfg i) = outcome_payload (deliver cfg' i)) /\
  match deliver cfg i with ORetResp r => looks_successful r = false | _ => True end.
Proof.
  intros Hs. destruct i as [a|e [r|]]; cbn; auto.
  - destruct e; cbn; auto.
    + destruct Hs as [Hv Hu]. split; [|split].
      * destruct (ex_neg cfg); cbn; [reflexivity|]. rewrite Hv, Hu. reflexivity.
      * intros cfg'. destruct (ex_neg cfg), (ex_neg cfg'); reflexivity.
      * destruct (ex_neg cfg); cbn; auto.
    + split; [|split].
      * destruct (ex_inv cfg); cbn; reflexivity.
      * intros cfg'. destruct (ex_inv cfg), (ex_inv cfg'); reflexivity.
      * destruct (ex_inv cfg); cbn; auto. unfold looks_successful. cbn. rewrite andb_false_r. reflexivity.
    + split; [|split].
      * destruct (ex_unx cfg); cbn; [reflexivity|]. rewrite Hs. reflexivity.
      * intros cfg'. destruct (ex_unx cfg), (ex_unx cfg'); reflexivity.
      * destruct (ex_unx cfg); cbn; auto. unfold looks_successful. cbn. rewrite andb_false_r. reflexivity.
  - destruct e; cbn; auto.
Qed.

Lemma deliver_switch {A} cfg (i : cres A) :
  match i with
  | CErr ENegative (Some r) =>
    deliver cfg i = if ex_neg cfg then ORaise ENegative (Some (set_flags r (Some false) None None))
                    else ORetResp (set_flags r (Some false) None None)
  | CErr EInvalid (Some r) =>
    deliver cfg i = if ex_inv cfg then ORaise EInvalid (Some (set_flags r None (Some false) None))
                    else ORetResp (set_flags r None (Some false) None)
  | CErr EUnexpected (Some r) =>
    deliver cfg i = if ex_unx cfg then ORaise EUnexpected (Some (set_flags r None None (Some true)))
                    else ORetResp (set_flags r None None (Some true))
  | COk a => deliver cfg i = ORet a
  | CErr e r => deliver cfg i = ORaise e r
  end.
Proof. destruct i as [a|e [r|]]; [reflexivity| |]; destruct e; reflexivity. Qed.

(* the inner functions never read the three switches *)
Definition with_switches (cfg : config) (a b c : bool) : config :=
  {| ex_neg := a; ex_inv := b; ex_unx := c; tol_pad := tol_pad cfg; ign_zero := ign_zero cfg;
     use_srv := use_srv cfg; std := std cfg; req_to := req_to cfg; p2 := p2 cfg; p2s := p2s cfg;
     has_cb := has_cb cfg; srv_addr := srv_addr cfg; srv_size := srv_size cfg; snap_did := snap_did cfg;
     ext_size := ext_size cfg; algo := algo cfg; algo_prm := algo_prm cfg; dids := dids cfg; ios := ios cfg |}.

Lemma send_request_switches cfg a b c st r to now s :
  send_request (with_switches cfg a b c) st r to now s = send_request cfg st r to now s.
Proof.
  unfold send_request. destruct (q_svc r) as [sv|]; [|reflexivity].
  cbn [req_to p2 p2s with_switches].
  destruct (if to <? 0 then _ else _) as [overall single].
  destruct (request_payload r _); [reflexivity|]. destruct (_ && _); [reflexivity|].
  rewrite (wait_loop_cfg_irrelevant (with_switches cfg a b c) cfg) by reflexivity. reflexivity.
Qed.

Lemma single_request_switches cfg a b c st mk interp interp' post post' now s :
  (forall r, interp r = interp' r) -> (forall sd x, post sd x = post' sd x) ->
  single_request (with_switches cfg a b c) st mk interp post now s = single_request cfg st mk interp' post' now s.
Proof.
  intros Hi Hp. unfold single_request. destruct mk as [e|rq]; [reflexivity|].
  rewrite send_request_switches. destruct (send_request cfg st rq (-1) now s) as [[[res t] s'] tr].
  destruct res as [[r|]|e r]; try reflexivity. rewrite Hi. destruct (interp' r); [reflexivity|]. rewrite Hp. reflexivity.
Qed.

Ltac head_of t := match t with ?f _ => head_of f | _ => t end.
Ltac unfold_lhs_head := match goal with |- ?L = _ => let h := head_of L in unfold h end.

Lemma run_inner_switches cfg a b c st call now s :
  run_inner (with_switches cfg a b c) st call now s = run_inner cfg st call now s.
Proof.
  destruct call; cbn [run_inner];
    try solve [unfold_lhs_head; apply single_request_switches; reflexivity].
  - unfold raw_request. destruct (mk_request _ _ _ _); [reflexivity|]. rewrite send_request_switches. reflexivity.
  - unfold unlock_security_access. cbn [algo with_switches].
    destruct (algo cfg <=? 0); [reflexivity|].
    unfold request_seed, send_key. rewrite (single_request_switches cfg a b c st _ _ (sa_interpret false level) _ no_post) by reflexivity.
    destruct (single_request cfg st (sa_make false level params) (sa_interpret false level) no_post now s)
      as [[[[res st1] t1] s1] tr1].
    destruct res as [[[r sd]|]|e r]; try reflexivity.
    destruct (_ && _); [reflexivity|].
    unfold algo_run, algo_fails. cbn [algo algo_prm with_switches].
    destruct (if (algo cfg =? 1) || (algo cfg =? 6) then _ else _) as [key e].
    destruct (algo cfg =? 7); [reflexivity|].
    rewrite (single_request_switches cfg a b c st1 _ _ (sa_interpret true level) _ no_post) by reflexivity. reflexivity.
  - unfold communication_control. destruct (ct_normalize a0); [reflexivity|].
    apply single_request_switches; reflexivity.
  - unfold read_data_by_identifier_first. destruct (iterM (fun d => validate_int d 0 65535) l); [reflexivity|].
    erewrite single_request_switches; [reflexivity|reflexivity|reflexivity].
Qed.

(* ---- single_request: the client state changes only through `post` on success ------------------- *)
Lemma single_request_state cfg st mk interp post now s :
  let '(res, st', _, _, _) := single_request cfg st mk interp post now s in
  match res with
  | COk (Some (r, sd)) => st' = post sd st
  | _ => st' = st
  end.
Proof.
  unfold single_request. destruct mk as [e|rq]; [reflexivity|].
  destruct (send_request cfg st rq (-1) now s) as [[[res t] s'] tr].
  destruct res as [[r|]|e r]; try reflexivity. destruct (interp r); reflexivity.
Qed.

Lemma single_request_trace cfg st mk interp post now s :
  let '(_, _, _, _, tr) := single_request cfg st mk interp post now s in
  (count_s tr <= 1)%nat /\ count_algo tr = O /\ (count_s tr <= count_f tr)%nat /\ cb_then_w tr /\
  match mk with
  | inl _ => tr = []
  | inr rq => match wire_payload st rq with inr p => sent tr = [p] | inl _ => sent tr = [] end
  end.
Proof.
  unfold single_request. destruct mk as [e|rq]; [cbn; auto|].
  pose proof (send_request_shape cfg st rq (-1) now s) as Sh. cbv zeta in Sh.
  destruct (send_request cfg st rq (-1) now s) as [[[res t] s'] tr]. cbn [wl_trace wl_res fst snd] in Sh.
  assert ((count_s tr <= 1)%nat /\ count_algo tr = O /\ (count_s tr <= count_f tr)%nat /\ cb_then_w tr /\
          match wire_payload st rq with inr p => sent tr = [p] | inl _ => sent tr = [] end) as G.
  { destruct (wire_payload st rq) as [e|p].
    - destruct Sh as [[Ht|Ht] _]; subst tr; cbn; repeat split; auto; lia.
    - destruct Sh as (tr' & Ht & C1 & C2 & C3 & C4). subst tr. cbn [count_s count_f count_algo cb_then_w sent flat_map app].
      rewrite C1, C2, C3. repeat split; auto; try lia.
      unfold sent in *. clear - C1. induction tr' as [|x xs IH]; [reflexivity|].
      destruct x; cbn in *; try (apply IH; assumption). discriminate. }
  destruct res as [[r|]|e r]; try exact G. destruct (interp r); exact G.
Qed.
