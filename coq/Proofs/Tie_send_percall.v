(* ... send_request(request, timeout=Tp): the value given with the call is both the window and the overall limit, also after a pending frame (C05) *)
From Coq Require Import ZArith List Bool String Lia ZifyBool.
From UDS Require Import Lib.Bytes Lib.ErrM Lib.PyOps Gen.Fn_SendRequest Model.Message Model.Client Model.Services Proofs.Tie_common Proofs.Tie_send_common.
Import ListNotations.
Open Scope Z_scope.


Theorem tie_send_request_percall_silence cfg T Tp P2 P2S now : timing cfg (Some T) P2 P2S -> 0 <= Tp ->
  fn_send_request_percall_silence T Tp P2 P2S now = ret (obs_sr (send_request cfg st_init tp_req Tp now [])).
Proof. intros (HT & H2 & H2s & Hcb) H0. unfold timing in *. unfold fn_send_request_percall_silence. replace (Tp <? 0) with false by lia; sr_tac HT H2 H2s Hcb. Qed.
Theorem tie_send_request_percall_P cfg T Tp P2 P2S now a1 : timing cfg (Some T) P2 P2S -> 0 <= Tp -> now < a1 ->
  fn_send_request_percall_P T Tp P2 P2S now a1 = ret (obs_sr (send_request cfg st_init tp_req Tp now [(a1, Frame [126; 0])])).
Proof. intros (HT & H2 & H2s & Hcb) H0 H1. unfold timing in *. unfold fn_send_request_percall_P. replace (Tp <? 0) with false by lia; sr_tac HT H2 H2s Hcb. Qed.
Theorem tie_send_request_percall_WP cfg T Tp P2 P2S now a1 a2 : timing cfg (Some T) P2 P2S -> 0 <= Tp -> now < a1 ->
  fn_send_request_percall_WP T Tp P2 P2S now a1 a2 = ret (obs_sr (send_request cfg st_init tp_req Tp now [(a1, Frame [127; 62; 120]); (a2, Frame [126; 0])])).
Proof. intros (HT & H2 & H2s & Hcb) H0 H1. unfold timing in *. unfold fn_send_request_percall_WP. replace (Tp <? 0) with false by lia; sr_tac HT H2 H2s Hcb. Qed.
Theorem tie_send_request_percall_W cfg T Tp P2 P2S now a1 : timing cfg (Some T) P2 P2S -> 0 <= Tp -> now < a1 ->
  fn_send_request_percall_W T Tp P2 P2S now a1 = ret (obs_sr (send_request cfg st_init tp_req Tp now [(a1, Frame [127; 62; 120])])).
Proof. intros (HT & H2 & H2s & Hcb) H0 H1. unfold timing in *. unfold fn_send_request_percall_W. replace (Tp <? 0) with false by lia; sr_tac HT H2 H2s Hcb. Qed.
Theorem tie_send_request_percall_no_overall_silence cfg Tp P2 P2S now : timing cfg None P2 P2S -> 0 <= Tp ->
  fn_send_request_percall_no_overall_silence Tp P2 P2S now = ret (obs_sr (send_request cfg st_init tp_req Tp now [])).
Proof. intros (HT & H2 & H2s & Hcb) H0. unfold timing in *. unfold fn_send_request_percall_no_overall_silence. replace (Tp <? 0) with false by lia; sr_tac HT H2 H2s Hcb. Qed.
Theorem tie_send_request_percall_no_overall_P cfg Tp P2 P2S now a1 : timing cfg None P2 P2S -> 0 <= Tp -> now < a1 ->
  fn_send_request_percall_no_overall_P Tp P2 P2S now a1 = ret (obs_sr (send_request cfg st_init tp_req Tp now [(a1, Frame [126; 0])])).
Proof. intros (HT & H2 & H2s & Hcb) H0 H1. unfold timing in *. unfold fn_send_request_percall_no_overall_P. replace (Tp <? 0) with false by lia; sr_tac HT H2 H2s Hcb. Qed.
Theorem tie_send_request_percall_no_overall_W cfg Tp P2 P2S now a1 : timing cfg None P2 P2S -> 0 <= Tp -> now < a1 ->
  fn_send_request_percall_no_overall_W Tp P2 P2S now a1 = ret (obs_sr (send_request cfg st_init tp_req Tp now [(a1, Frame [127; 62; 120])])).
Proof. intros (HT & H2 & H2s & Hcb) H0 H1. unfold timing in *. unfold fn_send_request_percall_no_overall_W. replace (Tp <? 0) with false by lia; sr_tac HT H2 H2s Hcb. Qed.
