(* Proofs for C01 / C07, continued: dynamically_define_did by memory address agrees with Spec/IsoRequests.v for any number of
   sources, every explicit / configured / automatic width combination and every address and size (negative and oversized included). *)
From Coq Require Import ZArith List Bool String Lia ZifyBool.
From UDS Require Import Lib.Bytes Lib.ErrM Lib.PyOps Gen.Maps Gen.DtcGroups Spec.IsoBits Spec.IsoRequests Model.Message Model.Client Model.Services
  Model.Helpers Model.MemLoc Model.Svc_Simple Model.Svc_Memory Model.Svc_Did Model.Svc_File Model.Svc_Dtc Model.History Lib.Sweep
  Proofs.Bytes_lemmas Proofs.C17_lemmas Proofs.C19_lemmas Proofs.C05_lemmas Proofs.Client_lemmas Proofs.C14_lemmas Proofs.C07_lemmas Proofs.C07b_lemmas.
Import ListNotations.
Open Scope string_scope.
Open Scope Z_scope.
Open Scope list_scope.
Ltac Zify.zify_post_hook ::= Z.to_euclidean_division_equations.

Lemma fmt_ok_valid f : iso_fmt_ok f = true <-> valid_format f.
Proof.
  unfold iso_fmt_ok, valid_format. split.
  - intros H. exists (f / 8). lia.
  - intros (n & Hn & ->). lia.
Qed.

Lemma client_memloc_fields cfg addr size af sf m : client_memloc cfg addr size af sf = inr m ->
  ml_addr m = addr /\ ml_size m = size /\ valid_format (al_addr (ml_alfid m)) /\ valid_format (al_size (ml_alfid m)).
Proof.
  unfold client_memloc, mk_memloc, apply_server_formats.
  destruct (resolve_alfid addr size af sf) as [e|al0] eqn:E0; cbn [bind ret]; [discriminate|].
  destruct (set_format_if_none _ (srv_addr cfg) None) as [e|m1] eqn:E1; cbn [bind]; [discriminate|].
  intros E2. apply set_format_formats in E1 as (A1 & S1 & F1 & G1 & _). cbn [ml_addr ml_size ml_af ml_sf] in *.
  apply set_format_formats in E2 as (A2 & S2 & F2 & G2 & R2).
  rewrite A2, S2, A1, S1. split; [reflexivity|]. split; [reflexivity|].
  unfold resolve_alfid in R2.
  destruct (match ml_af m with Some x => ret x | None => autosize (ml_addr m1) end) as [e|a]; cbn [bind] in R2; [discriminate|].
  destruct (match ml_sf m with Some x => ret x | None => autosize (ml_size m1) end) as [e|s]; cbn [bind] in R2; [discriminate|].
  apply mk_alfid_inv in R2 as (V1 & V2 & E1 & E2). rewrite E1, E2. auto.
Qed.

Lemma chosen_iso af ca v : chosen_format af ca v = match af with Some f => f | None => match ca with Some f => f | None => 8 * iso_smallest v end end.
Proof. reflexivity. Qed.

Lemma client_memloc_complete cfg addr size af sf :
  0 <= addr < 2 ^ 64 -> 0 <= size < 2 ^ 64 ->
  valid_format (chosen_format af (srv_addr cfg) addr) -> valid_format (chosen_format sf (srv_size cfg) size) ->
  exists m, client_memloc cfg addr size af sf = inr m /\ ml_addr m = addr /\ ml_size m = size /\
            ml_alfid m = {| al_addr := chosen_format af (srv_addr cfg) addr; al_size := chosen_format sf (srv_size cfg) size |}.
Proof.
  intros Ha Hs Va Vs.
  destruct (autosize_spec addr ltac:(lia)) as [Aa _]. destruct (autosize_spec size ltac:(lia)) as [As _].
  destruct (Aa ltac:(lia)) as [Ea Ra]. destruct (As ltac:(lia)) as [Es Rs].
  assert (valid_format (8 * smallest_bytes addr)) as Vaa by (exists (smallest_bytes addr); auto).
  assert (valid_format (8 * smallest_bytes size)) as Vss by (exists (smallest_bytes size); auto).
  unfold client_memloc, mk_memloc, apply_server_formats, set_format_if_none, resolve_alfid, chosen_format in *.
  destruct af as [fa|], sf as [fs|], (srv_addr cfg) as [ca|], (srv_size cfg) as [cs|];
    cbn [bind ret ml_addr ml_size ml_af ml_sf]; rewrite ?Ea, ?Es; cbn [bind ret ml_addr ml_size ml_af ml_sf];
    repeat (rewrite mk_alfid_ok by assumption; cbn [bind ret ml_addr ml_size ml_af ml_sf]; rewrite ?Ea, ?Es; cbn [bind ret ml_addr ml_size ml_af ml_sf]);
    eexists; (split; [reflexivity|]); cbn [ml_addr ml_size ml_alfid]; auto.
Qed.

Definition ebytes (m : memloc) : M bytes := a <- addr_bytes m ;; s <- size_bytes m ;; ret (a ++ s).

Lemma alfid_byte_val na ns : 1 <= na <= 8 -> 1 <= ns <= 8 -> alfid_byte {| al_addr := 8 * na; al_size := 8 * ns |} = inr (16 * ns + na).
Proof.
  intros Ha Hs. unfold alfid_byte. cbn [al_addr al_size]. rewrite (proj2 addr_map_facts na Ha), (proj2 size_map_facts ns Hs). cbn [ret].
  assert (all_below2 (fun i j => Z.land (Z.lor (Z.shiftl (i + 1) 4) (j + 1)) 255 =? 16 * (i + 1) + (j + 1)) 8 8 = true) as S
    by (vm_compute; reflexivity).
  pose proof (all_below2_spec _ 8 8 ltac:(lia) ltac:(lia) S (ns - 1) (na - 1) ltac:(lia) ltac:(lia)) as Q. cbv beta in Q.
  replace (ns - 1 + 1) with ns in Q by lia. replace (na - 1 + 1) with na in Q by lia. apply Z.eqb_eq in Q. rewrite Q. reflexivity.
Qed.

Lemma pow256_le n : 0 <= n <= 8 -> 256 ^ n <= 2 ^ 64.
Proof. intros H. change (2 ^ 64) with (256 ^ 8). apply Z.pow_le_mono_r; lia. Qed.

Lemma ebytes_spec m na ns : 1 <= na <= 8 -> 1 <= ns <= 8 -> al_addr (ml_alfid m) = 8 * na -> al_size (ml_alfid m) = 8 * ns ->
  ebytes m = if (0 <=? ml_addr m) && (ml_addr m <? 256 ^ na) && (0 <=? ml_size m) && (ml_size m <? 256 ^ ns)
             then inr (be_enc (Z.to_nat na) (ml_addr m) ++ be_enc (Z.to_nat ns) (ml_size m)) else inl EValue.
Proof.
  intros Ha Hs Ea Es. unfold ebytes, addr_bytes, size_bytes, nbytes. rewrite Ea, Es.
  rewrite (proj2 addr_map_facts na Ha), (proj2 size_map_facts ns Hs). cbn [bind ret].
  destruct (0 <=? ml_addr m) eqn:E1; cbn [andb];
    [|rewrite (proj2 (fit_bytes_spec (Z.to_nat na) (ml_addr m))) by (rewrite Z2Nat.id by lia; lia); reflexivity].
  destruct (ml_addr m <? 256 ^ na) eqn:E2; cbn [andb];
    [|rewrite (proj2 (fit_bytes_spec (Z.to_nat na) (ml_addr m))) by (rewrite Z2Nat.id by lia; lia); reflexivity].
  rewrite (proj1 (fit_bytes_spec (Z.to_nat na) (ml_addr m))) by (rewrite Z2Nat.id by lia; lia). cbn [bind].
  destruct (0 <=? ml_size m) eqn:E3; cbn [andb];
    [|rewrite (proj2 (fit_bytes_spec (Z.to_nat ns) (ml_size m))) by (rewrite Z2Nat.id by lia; lia); reflexivity].
  destruct (ml_size m <? 256 ^ ns) eqn:E4; cbn [andb];
    [|rewrite (proj2 (fit_bytes_spec (Z.to_nat ns) (ml_size m))) by (rewrite Z2Nat.id by lia; lia); reflexivity].
  rewrite (proj1 (fit_bytes_spec (Z.to_nat ns) (ml_size m))) by (rewrite Z2Nat.id by lia; lia). reflexivity.
Qed.

Lemma entry_spec cfg a s af sf :
  match iso_mem_entry (srv_addr cfg) (srv_size cfg) (a, s, af, sf) with
  | Some (na, ns, b) => exists m, client_memloc cfg a s af sf = inr m /\ alfid_byte (ml_alfid m) = inr (16 * ns + na) /\ ebytes m = inr b
                                  /\ 1 <= na <= 8 /\ 1 <= ns <= 8
  | None => fails (client_memloc cfg a s af sf) \/ exists m, client_memloc cfg a s af sf = inr m /\ fails (ebytes m)
  end.
Proof.
  unfold iso_mem_entry. rewrite <- !chosen_iso.
  set (fa := chosen_format af (srv_addr cfg) a). set (fs := chosen_format sf (srv_size cfg) s).
  destruct (iso_fmt_ok fa && iso_fmt_ok fs && (0 <=? a) && (a <? 256 ^ (fa / 8)) && (0 <=? s) && (s <? 256 ^ (fs / 8))) eqn:E.
  - apply andb_true_iff in E as [E E6]. apply andb_true_iff in E as [E E5]. apply andb_true_iff in E as [E E4].
    apply andb_true_iff in E as [E E3]. apply andb_true_iff in E as [V1 V2].
    assert (0 <= a < 256 ^ (fa / 8) /\ 0 <= s < 256 ^ (fs / 8)) as (Ra & Rs) by lia.
    pose proof (proj1 (fmt_ok_valid fa) V1) as Va. pose proof (proj1 (fmt_ok_valid fs) V2) as Vs.
    unfold iso_fmt_ok in V1, V2.
    pose proof (pow256_le (fa / 8) ltac:(lia)). pose proof (pow256_le (fs / 8) ltac:(lia)).
    destruct (client_memloc_complete cfg a s af sf ltac:(lia) ltac:(lia) Va Vs) as (m & Hm & Ma & Ms & Mal).
    exists m. split; [exact Hm|]. fold fa fs in Mal.
    assert (fa = 8 * (fa / 8)) as Efa by lia. assert (fs = 8 * (fs / 8)) as Efs by lia.
    split; [rewrite Mal, Efa, Efs at 1; rewrite <- Efa, <- Efs; rewrite Efa at 1; rewrite Efs at 1; apply alfid_byte_val; lia|].
    split; [|lia].
    rewrite (ebytes_spec m (fa / 8) (fs / 8)) by (try lia; rewrite Mal; cbn [al_addr al_size]; lia).
    rewrite Ma, Ms. replace ((0 <=? a) && (a <? 256 ^ (fa / 8)) && (0 <=? s) && (s <? 256 ^ (fs / 8))) with true by lia. reflexivity.
  - destruct (client_memloc cfg a s af sf) as [e|m] eqn:Hm; [left; eexists; reflexivity|]. right. exists m. split; [reflexivity|].
    pose proof (client_memloc_fields cfg a s af sf m Hm) as (Ma & Ms & (na & Hna & Ena) & (ns & Hns & Ens)).
    rewrite (ebytes_spec m na ns Hna Hns Ena Ens). rewrite Ma, Ms.
    pose proof (pow256_le na ltac:(lia)). pose proof (pow256_le ns ltac:(lia)).
    destruct ((0 <=? a) && (a <? 256 ^ na) && (0 <=? s) && (s <? 256 ^ ns)) eqn:Eb; [|eexists; reflexivity].
    exfalso.
    destruct (client_memloc_precedence cfg a s af sf m ltac:(lia) ltac:(lia) Hm) as (_ & _ & Pa & Ps & Va & Vs).
    fold fa in Pa. fold fs in Ps. rewrite Ena in Pa. rewrite Ens in Ps.
    assert (iso_fmt_ok fa = true) as W1 by (apply fmt_ok_valid; exists na; auto).
    assert (iso_fmt_ok fs = true) as W2 by (apply fmt_ok_valid; exists ns; auto).
    rewrite W1, W2 in E. cbn [andb] in E.
    assert (fa / 8 = na) as Q1 by lia. assert (fs / 8 = ns) as Q2 by lia. rewrite Q1, Q2 in E. lia.
Qed.

Lemma fails_bind_l {A B} (m : M A) (k : A -> M B) : fails m -> fails (x <- m ;; k x).
Proof. intros [e ->]. eexists; reflexivity. Qed.
Lemma fails_bind_r {A B} (m : M A) (k : A -> M B) : (forall x, fails (k x)) -> fails (x <- m ;; k x).
Proof. intros H. destruct m as [e|x]; [eexists; reflexivity|apply H]. Qed.

Lemma mapM3 {A B C D} (f : A -> M B) (g : B -> M C) (h : C -> M D) l :
  match mapM (fun x => y <- f x ;; z <- g y ;; h z) l with
  | inr r => (ys <- mapM f l ;; zs <- mapM g ys ;; mapM h zs) = inr r
  | inl _ => fails (ys <- mapM f l ;; zs <- mapM g ys ;; mapM h zs)
  end.
Proof.
  induction l as [|x l IH]; [reflexivity|]. cbn [mapM].
  destruct (f x) as [e|y] eqn:Ef; [cbn; eexists; reflexivity|]. cbn [bind].
  destruct (g y) as [e1|z] eqn:Eg.
  { cbn. destruct (mapM f l) as [e2|ys]; cbn; [eexists; reflexivity|]. rewrite Eg. cbn. eexists; reflexivity. }
  cbn [bind]. destruct (h z) as [e2|w] eqn:Eh.
  { cbn. destruct (mapM f l) as [e3|ys]; cbn; [eexists; reflexivity|]. rewrite Eg. cbn.
    destruct (mapM g ys) as [e4|zs]; cbn; [eexists; reflexivity|]. rewrite Eh. cbn. eexists; reflexivity. }
  cbn [bind].
  destruct (mapM (fun x0 => y0 <- f x0 ;; z0 <- g y0 ;; h z0) l) as [e|r]; cbn [bind ret]; cbv beta iota in IH.
  - destruct IH as [e3 IH]. destruct (mapM f l) as [e4|ys]; cbn in *; [eexists; reflexivity|]. rewrite Eg. cbn.
    destruct (mapM g ys) as [e5|zs]; cbn in *; [eexists; reflexivity|]. rewrite Eh. cbn. rewrite IH. cbn. eexists; reflexivity.
  - destruct (mapM f l) as [e4|ys]; cbn in *; [discriminate|]. rewrite Eg. cbn.
    destruct (mapM g ys) as [e5|zs]; cbn in *; [discriminate|]. rewrite Eh. cbn. rewrite IH. reflexivity.
Qed.

Lemma mapM_ext {A B} (f g : A -> M B) l : (forall x, f x = g x) -> mapM f l = mapM g l.
Proof. intros H. induction l as [|x l IH]; [reflexivity|]. cbn [mapM]. rewrite H, IH. reflexivity. Qed.

Definition centry (cfg : config) (e : Z * Z * option Z * option Z) : M memloc := let '(a, s, af, sf) := e in client_memloc cfg a s af sf.
Notation gsel := iso_mem_sel.

(* the three passes over the sources are one pass of the client's resolution *)
Lemma three_passes cfg entries {B} (K : list memloc -> M B) :
  match mapM (centry cfg) entries with
  | inr r => (ms <- mapM (fun '(a, s, af, sf) => mk_memloc a s af sf) entries ;;
              ms1 <- mapM (fun m => set_format_if_none m (srv_addr cfg) None) ms ;;
              ms2 <- mapM (fun m => set_format_if_none m None (srv_size cfg)) ms1 ;; K ms2) = K r
  | inl _ => fails (ms <- mapM (fun '(a, s, af, sf) => mk_memloc a s af sf) entries ;;
                    ms1 <- mapM (fun m => set_format_if_none m (srv_addr cfg) None) ms ;;
                    ms2 <- mapM (fun m => set_format_if_none m None (srv_size cfg)) ms1 ;; K ms2)
  end.
Proof.
  pose proof (mapM3 (fun '(a, s, af, sf) => mk_memloc a s af sf) (fun m => set_format_if_none m (srv_addr cfg) None)
                    (fun m => set_format_if_none m None (srv_size cfg)) entries) as H.
  rewrite (mapM_ext _ (centry cfg)) in H by (intros [[[a s] af] sf]; reflexivity).
  destruct (mapM (centry cfg) entries) as [e|r].
  - destruct H as [e1 H]. destruct (mapM _ entries) as [e2|ms]; cbn [bind] in *; [eexists; reflexivity|].
    destruct (mapM _ ms) as [e3|ms1]; cbn [bind] in *; [eexists; reflexivity|]. rewrite H. eexists; reflexivity.
  - destruct (mapM _ entries) as [e2|ms]; cbn [bind] in *; [discriminate|].
    destruct (mapM _ ms) as [e3|ms1]; cbn [bind] in *; [discriminate|]. rewrite H. reflexivity.
Qed.

(* what the resolved list looks like: every element has valid widths; against the Spec's selection for widths (na, ns) *)
Lemma list_spec cfg na ns entries : 1 <= na <= 8 -> 1 <= ns <= 8 ->
  match mapM (centry cfg) entries with
  | inl _ => iso_cat (map (gsel (srv_addr cfg) (srv_size cfg) na ns) entries) = None
  | inr r =>
    List.length r = List.length entries /\
    Forall (fun m => exists na' ns', 1 <= na' <= 8 /\ 1 <= ns' <= 8 /\ alfid_byte (ml_alfid m) = inr (16 * ns' + na')) r /\
    match iso_cat (map (gsel (srv_addr cfg) (srv_size cfg) na ns) entries) with
    | Some d => Forall (fun m => alfid_byte (ml_alfid m) = inr (16 * ns + na)) r /\ exists parts, mapM ebytes r = inr parts /\ List.concat parts = d
    | None => (exists m, In m r /\ alfid_byte (ml_alfid m) <> inr (16 * ns + na)) \/ fails (mapM ebytes r)
    end
  end.
Proof.
  intros Hna Hns. induction entries as [|e l IH].
  - cbn. split; [reflexivity|]. split; [constructor|]. split; [constructor|]. exists []. split; reflexivity.
  - cbn [mapM map iso_cat fold_right]. fold (iso_cat (map (gsel (srv_addr cfg) (srv_size cfg) na ns) l)).
    destruct e as [[[a s] af] sf]. cbn [centry].
    assert (gsel (srv_addr cfg) (srv_size cfg) na ns (a, s, af, sf)
            = match iso_mem_entry (srv_addr cfg) (srv_size cfg) (a, s, af, sf) with
              | Some (na', ns', b) => if (na' =? na) && (ns' =? ns) then Some b else None | None => None end) as Eg by reflexivity.
    rewrite Eg. clear Eg.
    pose proof (entry_spec cfg a s af sf) as He.
    destruct (iso_mem_entry (srv_addr cfg) (srv_size cfg) (a, s, af, sf)) as [[[na' ns'] b]|].
    + destruct He as (m & Hm & Hal & Heb & Ra & Rs). rewrite Hm. cbn [bind].
      destruct (mapM (centry cfg) l) as [e1|r]; cbn [bind ret].
      * rewrite IH. destruct ((na' =? na) && (ns' =? ns)); reflexivity.
      * destruct IH as (Hlen & Hv & IH). cbn [List.length]. split; [congruence|].
        split; [constructor; [exists na', ns'; auto|exact Hv]|].
        destruct ((na' =? na) && (ns' =? ns)) eqn:Ew.
        -- assert (na' = na /\ ns' = ns) as [-> ->] by lia.
           destruct (iso_cat (map (gsel (srv_addr cfg) (srv_size cfg) na ns) l)) as [d|].
           ++ destruct IH as (Hall & parts & Hp & Hc). split; [constructor; assumption|].
              exists (b :: parts). cbn [mapM]. rewrite Heb. cbn [bind]. rewrite Hp. cbn [bind ret List.concat]. rewrite Hc. split; reflexivity.
           ++ destruct IH as [(m' & Hin & Hne)|[e2 Hf]]; [left; exists m'; split; [right; exact Hin|exact Hne]|].
              right. cbn [mapM]. rewrite Heb. cbn [bind]. rewrite Hf. eexists; reflexivity.
        -- left. exists m. split; [left; reflexivity|]. rewrite Hal. intros Hq. assert (16 * ns' + na' = 16 * ns + na) as Hq' by congruence. lia.
    + destruct He as [[e1 He]|(m & Hm & [e1 Hf])].
      * rewrite He. reflexivity.
      * rewrite Hm. cbn [bind]. destruct (mapM (centry cfg) l) as [e2|r]; cbn [bind ret]; [reflexivity|].
        destruct IH as (Hlen & Hv & _). cbn [List.length]. split; [congruence|].
        pose proof (client_memloc_fields cfg a s af sf m Hm) as (_ & _ & (n1 & Hn1 & En1) & (n2 & Hn2 & En2)).
        split.
        { constructor; [|exact Hv]. exists n1, n2. split; [exact Hn1|]. split; [exact Hn2|].
          destruct (ml_alfid m) as [x y]. cbn [al_addr al_size] in *. subst. apply alfid_byte_val; assumption. }
        right. cbn [mapM]. rewrite Hf. eexists; reflexivity.
Qed.

Definition dm_tail (did : Z) (entries : list (Z * Z * option Z * option Z)) (ms2 : list memloc) : M req :=
  _ <- validate_int did 0 65535 ;;
  _ <- guard (negb (Nat.eqb (List.length entries) 0)) EValue ;;
  db <- pack_H did ;;
  al <- match ms2 with
        | [] => fail EValue
        | m0 :: rest =>
          b0 <- alfid_byte (ml_alfid m0) ;;
          bs <- mapM (fun m => alfid_byte (ml_alfid m)) rest ;;
          _ <- guard (forallb (Z.eqb b0) bs) EValue ;;
          pack_B b0
        end ;;
  es <- mapM (fun m => a <- addr_bytes m ;; s <- size_bytes m ;; ret (a ++ s)) ms2 ;;
  mk_req "DynamicallyDefineDataIdentifier" (Some 2) (Some (db ++ al ++ List.concat es)).

Lemma dm_make_eq cfg did entries :
  dddi_define_make cfg did (DefByMem entries) =
  (ms <- mapM (fun '(a, s, af, sf) => mk_memloc a s af sf) entries ;;
   ms1 <- mapM (fun m => set_format_if_none m (srv_addr cfg) None) ms ;;
   ms2 <- mapM (fun m => set_format_if_none m None (srv_size cfg)) ms1 ;; dm_tail did entries ms2).
Proof. reflexivity. Qed.

Lemma dm_tail_fail_es did entries r : fails (mapM ebytes r) -> fails (dm_tail did entries r).
Proof.
  intros H. unfold dm_tail. apply fails_bind_r; intros _. apply fails_bind_r; intros _. apply fails_bind_r; intros db.
  apply fails_bind_r; intros al. apply fails_bind_l. exact H.
Qed.

Lemma dm_tail_fail_did did entries r : in_u did 65535 = false -> fails (dm_tail did entries r).
Proof. intros H. unfold dm_tail, in_u in *. rewrite validate_int_out by lia. eexists; reflexivity. Qed.

Lemma mapM_alfid_same v rest : Forall (fun m => alfid_byte (ml_alfid m) = inr v) rest ->
  exists bs, mapM (fun m => alfid_byte (ml_alfid m)) rest = inr bs /\ forallb (Z.eqb v) bs = true.
Proof.
  induction rest as [|m t IH]; intros H; [exists []; split; reflexivity|]. inversion H as [|? ? Hm Ht]; subst.
  destruct (IH Ht) as (bs & Hb & Hf). exists (v :: bs). cbn [mapM]. rewrite Hm. cbn [bind]. rewrite Hb. cbn [bind ret forallb].
  rewrite Z.eqb_refl, Hf. split; reflexivity.
Qed.

Lemma mapM_alfid_diff v rest :
  Forall (fun m => exists na' ns', 1 <= na' <= 8 /\ 1 <= ns' <= 8 /\ alfid_byte (ml_alfid m) = inr (16 * ns' + na')) rest ->
  (exists m, In m rest /\ alfid_byte (ml_alfid m) <> inr v) ->
  exists bs, mapM (fun m => alfid_byte (ml_alfid m)) rest = inr bs /\ forallb (Z.eqb v) bs = false.
Proof.
  induction rest as [|m t IH]; intros H (m' & Hin & Hne); [destruct Hin|]. inversion H as [|? ? Hm Ht]; subst.
  destruct Hm as (na' & ns' & _ & _ & Hm).
  destruct Hin as [<-|Hin].
  - assert (exists bs, mapM (fun m => alfid_byte (ml_alfid m)) t = inr bs) as [bs Hb].
    { clear -Ht. induction t as [|x t IH]; [exists []; reflexivity|]. inversion Ht as [|? ? Hx Ht']; subst.
      destruct Hx as (a1 & a2 & _ & _ & Hx). destruct (IH Ht') as [bs Hb]. exists ((16 * a2 + a1) :: bs). cbn [mapM]. rewrite Hx. cbn [bind]. rewrite Hb. reflexivity. }
    exists ((16 * ns' + na') :: bs). cbn [mapM]. rewrite Hm. cbn [bind]. rewrite Hb. cbn [bind ret forallb]. split; [reflexivity|].
    replace (v =? 16 * ns' + na') with false; [reflexivity|]. symmetry. apply Z.eqb_neq. intros ->. apply Hne. exact Hm.
  - destruct (IH Ht (ex_intro _ m' (conj Hin Hne))) as (bs & Hb & Hf). exists ((16 * ns' + na') :: bs). cbn [mapM]. rewrite Hm. cbn [bind]. rewrite Hb.
    cbn [bind ret forallb]. rewrite Hf. rewrite andb_false_r. split; reflexivity.
Qed.

Theorem define_by_memory_agrees st cfg did entries :
  agrees st (dddi_define_make cfg did (DefByMem entries)) (iso_define_by_memory (srv_addr cfg) (srv_size cfg) did entries).
Proof.
  rewrite dm_make_eq. pose proof (three_passes cfg entries (dm_tail did entries)) as H3.
  assert (forall r, mapM (centry cfg) entries = inr r -> fails (dm_tail did entries r) ->
          exists e, (ms <- mapM (fun '(a, s, af, sf) => mk_memloc a s af sf) entries ;;
                     ms1 <- mapM (fun m => set_format_if_none m (srv_addr cfg) None) ms ;;
                     ms2 <- mapM (fun m => set_format_if_none m None (srv_size cfg)) ms1 ;; dm_tail did entries ms2) = inl e) as Hfail.
  { intros r Hr [e He]. rewrite Hr in H3. rewrite H3, He. eexists; reflexivity. }
  unfold iso_define_by_memory.
  destruct entries as [|e0 t].
  { cbn [agrees]. apply (Hfail [] eq_refl). unfold dm_tail. apply fails_bind_r; intros _. eexists; reflexivity. }
  destruct (in_u did 65535) eqn:Ed.
  2:{ cbn [agrees]. destruct (mapM (centry cfg) (e0 :: t)) as [e|r] eqn:Hr; [exact H3|]. apply (Hfail r eq_refl). apply dm_tail_fail_did. exact Ed. }
  destruct e0 as [[[a s] af] sf].
  pose proof (entry_spec cfg a s af sf) as He0.
  destruct (iso_mem_entry (srv_addr cfg) (srv_size cfg) (a, s, af, sf)) as [[[na ns] b0]|] eqn:Ee0.
  2:{ cbn [agrees]. destruct (mapM (centry cfg) ((a, s, af, sf) :: t)) as [e|r] eqn:Hr; [exact H3|]. apply (Hfail r eq_refl).
      cbn [mapM centry] in Hr. destruct He0 as [[e He0]|(m & Hm & Hf)]; [rewrite He0 in Hr; discriminate|].
      rewrite Hm in Hr. cbn [bind] in Hr. destruct (mapM (centry cfg) t) as [e|r']; cbn [bind ret] in Hr; [discriminate|]. injection Hr as <-.
      apply dm_tail_fail_es. cbn [mapM]. apply fails_bind_l. exact Hf. }
  destruct He0 as (m0 & Hm0 & Hal0 & Heb0 & Rna & Rns).
  pose proof (list_spec cfg na ns ((a, s, af, sf) :: t) Rna Rns) as HL.
  destruct (mapM (centry cfg) ((a, s, af, sf) :: t)) as [e|r] eqn:Hr.
  { rewrite HL. exact H3. }
  destruct HL as (Hlen & Hv & HL).
  assert (exists rest, r = m0 :: rest) as [rest ->].
  { cbn [mapM centry] in Hr. rewrite Hm0 in Hr. cbn [bind] in Hr. destruct (mapM (centry cfg) t) as [e|r']; cbn [bind ret] in Hr; [discriminate|].
    injection Hr as <-. eexists; reflexivity. }
  destruct (iso_cat (map (gsel (srv_addr cfg) (srv_size cfg) na ns) ((a, s, af, sf) :: t))) as [d|].
  - destruct HL as (Hall & parts & Hp & Hc). rewrite H3. unfold dm_tail. unfold in_u in Ed.
    rewrite validate_int_in by lia. cbn [bind List.length Nat.eqb negb guard ret]. rewrite pack_H_ok by lia. cbn [bind].
    inversion Hall as [|? ? Hh Ht]; subst. rewrite Hh. cbn [bind].
    destruct (mapM_alfid_same _ _ Ht) as (bs & Hb & Hf). rewrite Hb. cbn [bind]. rewrite Hf. cbn [guard bind ret].
    rewrite pack_B_enc by lia. cbn [bind].
    change (mapM (fun m => a0 <- addr_bytes m ;; s0 <- size_bytes m ;; ret (a0 ++ s0)) (m0 :: rest)) with (mapM ebytes (m0 :: rest)).
    rewrite Hp. cbn [bind].
    exists 44, true. split; [in_iso|]. unfold ireq, u16. rewrite be_enc_1. replace ((16 * ns + na) mod 256) with (16 * ns + na) by lia. apply frame_mk_req_sub; [in_iso|lia].
  - cbn [agrees]. apply (Hfail _ eq_refl). destruct HL as [(m & Hin & Hne)|Hf]; [|apply dm_tail_fail_es; exact Hf].
    destruct Hin as [<-|Hin]; [contradiction|].
    inversion Hv as [|? ? _ Hvt]; subst.
    destruct (mapM_alfid_diff (16 * ns + na) rest Hvt (ex_intro _ m (conj Hin Hne))) as (bs & Hb & Hf).
    unfold dm_tail. apply fails_bind_r; intros _. apply fails_bind_r; intros _. apply fails_bind_r; intros db. apply fails_bind_l.
    rewrite Hal0. cbn [bind]. rewrite Hb. cbn [bind]. rewrite Hf. eexists; reflexivity.
Qed.
