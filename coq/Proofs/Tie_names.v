(* The identifier-to-name lookups, as executed on a symbolic identifier (Gen/Fn_Names.v: BaseSubfunction.get_name on every table of the
   services, ResponseCode.get_name, DataIdentifier.name_from_id, Routine.name_from_id, Dtc.Format.get_name), are the model's lookups (C20):
   the lookup ALGORITHM of the code (member order, matching rule, fallback), not only its tables, is what the theorems of C20 talk about. *)
From Coq Require Import ZArith List Bool String Lia ZifyBool.
From UDS Require Import Lib.Bytes Lib.ErrM Lib.PyOps Gen.Subfunctions Gen.Ids Gen.Nrc Lib.Sweep Gen.Fn_Names Model.Message Model.Names Proofs.Tie_common.
Import ListNotations.
Open Scope Z_scope.

Definition no_table : subfn_table := {| t_owner := ""; t_class := ""; t_pretty := None; t_members := [] |}.
Definition table (o c : string) : subfn_table :=
  match find (fun t => String.eqb (t_owner t) o && String.eqb (t_class t) c) subfn_tables with Some t => t | None => no_table end.

Ltac name_tac o c :=
  let t := eval vm_compute in (table o c) in change (table o c) with t;
  unfold subfn_get_name, custom_name; cbn [find member_matches t_members t_pretty t_class]; split_ifs;
  try reflexivity; try lia.

Theorem tie_name_AccessTimingParameter_AccessType v : fn_name_AccessTimingParameter_AccessType v = ret (subfn_get_name (table "AccessTimingParameter" "AccessType") v).
Proof. unfold fn_name_AccessTimingParameter_AccessType. name_tac "AccessTimingParameter"%string "AccessType"%string. Qed.
Theorem tie_name_Authentication_AuthenticationTask v : fn_name_Authentication_AuthenticationTask v = ret (subfn_get_name (table "Authentication" "AuthenticationTask") v).
Proof. unfold fn_name_Authentication_AuthenticationTask. name_tac "Authentication"%string "AuthenticationTask"%string. Qed.
Theorem tie_name_CommunicationControl_ControlType v : fn_name_CommunicationControl_ControlType v = ret (subfn_get_name (table "CommunicationControl" "ControlType") v).
Proof. unfold fn_name_CommunicationControl_ControlType. name_tac "CommunicationControl"%string "ControlType"%string. Qed.
Theorem tie_name_ControlDTCSetting_SettingType v : fn_name_ControlDTCSetting_SettingType v = ret (subfn_get_name (table "ControlDTCSetting" "SettingType") v).
Proof. unfold fn_name_ControlDTCSetting_SettingType. name_tac "ControlDTCSetting"%string "SettingType"%string. Qed.
Theorem tie_name_DiagnosticSessionControl_Session v : fn_name_DiagnosticSessionControl_Session v = ret (subfn_get_name (table "DiagnosticSessionControl" "Session") v).
Proof. unfold fn_name_DiagnosticSessionControl_Session. name_tac "DiagnosticSessionControl"%string "Session"%string. Qed.
Theorem tie_name_DynamicallyDefineDataIdentifier_Subfunction v : fn_name_DynamicallyDefineDataIdentifier_Subfunction v = ret (subfn_get_name (table "DynamicallyDefineDataIdentifier" "Subfunction") v).
Proof. unfold fn_name_DynamicallyDefineDataIdentifier_Subfunction. name_tac "DynamicallyDefineDataIdentifier"%string "Subfunction"%string. Qed.
Theorem tie_name_ECUReset_ResetType v : fn_name_ECUReset_ResetType v = ret (subfn_get_name (table "ECUReset" "ResetType") v).
Proof. unfold fn_name_ECUReset_ResetType. name_tac "ECUReset"%string "ResetType"%string. Qed.
Theorem tie_name_InputOutputControlByIdentifier_ControlParam v : fn_name_InputOutputControlByIdentifier_ControlParam v = ret (subfn_get_name (table "InputOutputControlByIdentifier" "ControlParam") v).
Proof. unfold fn_name_InputOutputControlByIdentifier_ControlParam. name_tac "InputOutputControlByIdentifier"%string "ControlParam"%string. Qed.
Theorem tie_name_LinkControl_ControlType v : fn_name_LinkControl_ControlType v = ret (subfn_get_name (table "LinkControl" "ControlType") v).
Proof. unfold fn_name_LinkControl_ControlType. name_tac "LinkControl"%string "ControlType"%string. Qed.
Theorem tie_name_ReadDTCInformation_Subfunction v : fn_name_ReadDTCInformation_Subfunction v = ret (subfn_get_name (table "ReadDTCInformation" "Subfunction") v).
Proof. unfold fn_name_ReadDTCInformation_Subfunction. name_tac "ReadDTCInformation"%string "Subfunction"%string. Qed.
Theorem tie_name_RequestFileTransfer_ModeOfOperation v : fn_name_RequestFileTransfer_ModeOfOperation v = ret (subfn_get_name (table "RequestFileTransfer" "ModeOfOperation") v).
Proof. unfold fn_name_RequestFileTransfer_ModeOfOperation. name_tac "RequestFileTransfer"%string "ModeOfOperation"%string. Qed.
Theorem tie_name_RoutineControl_ControlType v : fn_name_RoutineControl_ControlType v = ret (subfn_get_name (table "RoutineControl" "ControlType") v).
Proof. unfold fn_name_RoutineControl_ControlType. name_tac "RoutineControl"%string "ControlType"%string. Qed.

(* the 16-bit and 8-bit lookups: outside the domain both sides refuse; inside, the two functions are compared on every value by
   the kernel (a complete sweep of a finite domain, lifted by all_below_spec - not a sample) *)
Definition ms_eqb (a b : M string) : bool :=
  match a, b with
  | inl e1, inl e2 => err_code e1 =? err_code e2
  | inr s1, inr s2 => String.eqb s1 s2
  | _, _ => false
  end.
Definition mos_eqb (a b : M (option string)) : bool :=
  match a, b with
  | inl e1, inl e2 => err_code e1 =? err_code e2
  | inr (Some s1), inr (Some s2) => String.eqb s1 s2
  | inr None, inr None => true
  | _, _ => false
  end.
Lemma err_code_inj e1 e2 : err_code e1 = err_code e2 -> e1 = e2.
Proof. destruct e1, e2; cbn; intros H; try reflexivity; discriminate H. Qed.
Lemma ms_eqb_eq a b : ms_eqb a b = true -> a = b.
Proof.
  destruct a as [e1|s1], b as [e2|s2]; cbn; intros H; try discriminate H.
  - f_equal. apply err_code_inj. lia.
  - f_equal. apply String.eqb_eq. exact H.
Qed.
Lemma mos_eqb_eq a b : mos_eqb a b = true -> a = b.
Proof.
  destruct a as [e1|[s1|]], b as [e2|[s2|]]; cbn; intros H; try discriminate H; try reflexivity.
  - f_equal. apply err_code_inj. lia.
  - do 2 f_equal. apply String.eqb_eq. exact H.
Qed.

Definition did_agree (v : Z) : bool := mos_eqb (fn_name_did v) (did_name_from_id v).
Lemma did_sweep : all_below did_agree 65536 = true. Proof. vm_compute. reflexivity. Qed.
Theorem tie_name_did v : fn_name_did v = did_name_from_id v.
Proof.
  destruct (Z_lt_dec v 0) as [Hn|Hn]; [|destruct (Z_lt_dec 65535 v) as [Hb|Hb]].
  - unfold fn_name_did, did_name_from_id, chain_lookup. replace (v <? 0) with true by lia. reflexivity.
  - unfold fn_name_did, did_name_from_id, chain_lookup. replace (v <? 0) with false by lia. replace (65535 <? v) with true by lia. reflexivity.
  - apply mos_eqb_eq. exact (all_below_spec did_agree 65536 ltac:(lia) did_sweep v ltac:(lia)).
Qed.

Definition routine_agree (v : Z) : bool := mos_eqb (fn_name_routine v) (routine_name_from_id v).
Lemma routine_sweep : all_below routine_agree 65536 = true. Proof. vm_compute. reflexivity. Qed.
Theorem tie_name_routine v : fn_name_routine v = routine_name_from_id v.
Proof.
  destruct (Z_lt_dec v 0) as [Hn|Hn]; [|destruct (Z_lt_dec 65535 v) as [Hb|Hb]].
  - unfold fn_name_routine, routine_name_from_id, chain_lookup. replace (v <? 0) with true by lia. reflexivity.
  - unfold fn_name_routine, routine_name_from_id, chain_lookup. replace (v <? 0) with false by lia. replace (65535 <? v) with true by lia. reflexivity.
  - apply mos_eqb_eq. exact (all_below_spec routine_agree 65536 ltac:(lia) routine_sweep v ltac:(lia)).
Qed.

(* a code without a name is rendered by str(code): the text of a symbolic value has no counterpart in the generated term, so the
   theorem is about the codes that have a name (all of them are bytes; the fallback is exercised by the correspondence on all 256 values) *)
Definition nrc_named (v : Z) : bool := existsb (fun '(_, x) => x =? v) gen_nrc.
Definition nrc_agree (v : Z) : bool := negb (nrc_named v) || ms_eqb (fn_name_nrc v) (ret (nrc_name v)).
Lemma nrc_sweep : all_below nrc_agree 256 = true. Proof. vm_compute. reflexivity. Qed.
Lemma nrc_named_byte v : nrc_named v = true -> 0 <= v < 256.
Proof.
  unfold nrc_named. rewrite existsb_exists. intros [[n x] [Hin Hx]].
  assert (Hall : forallb (fun '(_, y) => (0 <=? y) && (y <? 256)) gen_nrc = true) by (vm_compute; reflexivity).
  rewrite forallb_forall in Hall. specialize (Hall _ Hin). cbn in Hall. lia.
Qed.
Theorem tie_name_nrc v : nrc_named v = true -> fn_name_nrc v = ret (nrc_name v).
Proof.
  intros Hn. pose proof (nrc_named_byte v Hn) as Hb.
  pose proof (all_below_spec nrc_agree 256 ltac:(lia) nrc_sweep v Hb) as H. unfold nrc_agree in H. rewrite Hn in H. cbn [negb orb] in H.
  apply ms_eqb_eq. exact H.
Qed.

Theorem tie_name_dtc_format v : fn_name_dtc_format v = ret (dtc_format_name v).
Proof. unfold fn_name_dtc_format, dtc_format_name, gen_dtc_format. cbn [find]. split_ifs; try reflexivity; try lia. Qed.
