(* Client.send_request, executed on a symbolic clock (Gen/Fn_SendRequest.v: symbolic request_timeout / p2 / p2-star, start instant and arrival instants; schedules: silence, one frame of each kind - positive, pending, negative, invalid, other service -, pending followed by a positive / negative / pending frame; with and without an overall timeout), is the model's send_request: same outcome, same timeout kind, every wait with the same timeout value at the same instant (C05, C06) *)
From Coq Require Import ZArith List Bool String Lia ZifyBool.
From UDS Require Import Lib.Bytes Lib.ErrM Lib.PyOps Gen.Fn_SendRequest Model.Message Model.Client Model.Services Proofs.Tie_common Proofs.Tie_send_common.
Import ListNotations.
Open Scope Z_scope.


Theorem tie_send_request_silence cfg T P2 P2S now : timing cfg (Some T) P2 P2S ->
  fn_send_request_silence T P2 P2S now = ret (obs_sr (send_request cfg st_init tp_req (-1) now [])).
Proof. intros (HT & H2 & H2s & Hcb). unfold timing in *. unfold fn_send_request_silence. sr_tac HT H2 H2s Hcb. Qed.
Theorem tie_send_request_silence_no_overall cfg P2 P2S now : timing cfg None P2 P2S ->
  fn_send_request_silence_no_overall P2 P2S now = ret (obs_sr (send_request cfg st_init tp_req (-1) now [])).
Proof. intros (HT & H2 & H2s & Hcb). unfold timing in *. unfold fn_send_request_silence_no_overall. sr_tac HT H2 H2s Hcb. Qed.
Theorem tie_send_request_P cfg T P2 P2S now a1 : timing cfg (Some T) P2 P2S -> now < a1 ->
  fn_send_request_P T P2 P2S now a1 = ret (obs_sr (send_request cfg st_init tp_req (-1) now [(a1, Frame [126; 0])])).
Proof. intros (HT & H2 & H2s & Hcb) H0. unfold timing in *. unfold fn_send_request_P. sr_tac HT H2 H2s Hcb. Qed.
Theorem tie_send_request_P_no_overall cfg P2 P2S now a1 : timing cfg None P2 P2S -> now < a1 ->
  fn_send_request_P_no_overall P2 P2S now a1 = ret (obs_sr (send_request cfg st_init tp_req (-1) now [(a1, Frame [126; 0])])).
Proof. intros (HT & H2 & H2s & Hcb) H0. unfold timing in *. unfold fn_send_request_P_no_overall. sr_tac HT H2 H2s Hcb. Qed.
Theorem tie_send_request_W cfg T P2 P2S now a1 : timing cfg (Some T) P2 P2S -> now < a1 ->
  fn_send_request_W T P2 P2S now a1 = ret (obs_sr (send_request cfg st_init tp_req (-1) now [(a1, Frame [127; 62; 120])])).
Proof. intros (HT & H2 & H2s & Hcb) H0. unfold timing in *. unfold fn_send_request_W. sr_tac HT H2 H2s Hcb. Qed.
Theorem tie_send_request_W_no_overall cfg P2 P2S now a1 : timing cfg None P2 P2S -> now < a1 ->
  fn_send_request_W_no_overall P2 P2S now a1 = ret (obs_sr (send_request cfg st_init tp_req (-1) now [(a1, Frame [127; 62; 120])])).
Proof. intros (HT & H2 & H2s & Hcb) H0. unfold timing in *. unfold fn_send_request_W_no_overall. sr_tac HT H2 H2s Hcb. Qed.
Theorem tie_send_request_N cfg T P2 P2S now a1 : timing cfg (Some T) P2 P2S -> now < a1 ->
  fn_send_request_N T P2 P2S now a1 = ret (obs_sr (send_request cfg st_init tp_req (-1) now [(a1, Frame [127; 62; 34])])).
Proof. intros (HT & H2 & H2s & Hcb) H0. unfold timing in *. unfold fn_send_request_N. sr_tac HT H2 H2s Hcb. Qed.
Theorem tie_send_request_N_no_overall cfg P2 P2S now a1 : timing cfg None P2 P2S -> now < a1 ->
  fn_send_request_N_no_overall P2 P2S now a1 = ret (obs_sr (send_request cfg st_init tp_req (-1) now [(a1, Frame [127; 62; 34])])).
Proof. intros (HT & H2 & H2s & Hcb) H0. unfold timing in *. unfold fn_send_request_N_no_overall. sr_tac HT H2 H2s Hcb. Qed.
Theorem tie_send_request_I cfg T P2 P2S now a1 : timing cfg (Some T) P2 P2S -> now < a1 ->
  fn_send_request_I T P2 P2S now a1 = ret (obs_sr (send_request cfg st_init tp_req (-1) now [(a1, Frame [127])])).
Proof. intros (HT & H2 & H2s & Hcb) H0. unfold timing in *. unfold fn_send_request_I. sr_tac HT H2 H2s Hcb. Qed.
Theorem tie_send_request_I_no_overall cfg P2 P2S now a1 : timing cfg None P2 P2S -> now < a1 ->
  fn_send_request_I_no_overall P2 P2S now a1 = ret (obs_sr (send_request cfg st_init tp_req (-1) now [(a1, Frame [127])])).
Proof. intros (HT & H2 & H2s & Hcb) H0. unfold timing in *. unfold fn_send_request_I_no_overall. sr_tac HT H2 H2s Hcb. Qed.
Theorem tie_send_request_U cfg T P2 P2S now a1 : timing cfg (Some T) P2 P2S -> now < a1 ->
  fn_send_request_U T P2 P2S now a1 = ret (obs_sr (send_request cfg st_init tp_req (-1) now [(a1, Frame [81; 1])])).
Proof. intros (HT & H2 & H2s & Hcb) H0. unfold timing in *. unfold fn_send_request_U. sr_tac HT H2 H2s Hcb. Qed.
Theorem tie_send_request_U_no_overall cfg P2 P2S now a1 : timing cfg None P2 P2S -> now < a1 ->
  fn_send_request_U_no_overall P2 P2S now a1 = ret (obs_sr (send_request cfg st_init tp_req (-1) now [(a1, Frame [81; 1])])).
Proof. intros (HT & H2 & H2s & Hcb) H0. unfold timing in *. unfold fn_send_request_U_no_overall. sr_tac HT H2 H2s Hcb. Qed.
Theorem tie_send_request_WP cfg T P2 P2S now a1 a2 : timing cfg (Some T) P2 P2S -> now < a1 ->
  fn_send_request_WP T P2 P2S now a1 a2 = ret (obs_sr (send_request cfg st_init tp_req (-1) now [(a1, Frame [127; 62; 120]); (a2, Frame [126; 0])])).
Proof. intros (HT & H2 & H2s & Hcb) H0. unfold timing in *. unfold fn_send_request_WP. sr_tac HT H2 H2s Hcb. Qed.
Theorem tie_send_request_WP_no_overall cfg P2 P2S now a1 a2 : timing cfg None P2 P2S -> now < a1 ->
  fn_send_request_WP_no_overall P2 P2S now a1 a2 = ret (obs_sr (send_request cfg st_init tp_req (-1) now [(a1, Frame [127; 62; 120]); (a2, Frame [126; 0])])).
Proof. intros (HT & H2 & H2s & Hcb) H0. unfold timing in *. unfold fn_send_request_WP_no_overall. sr_tac HT H2 H2s Hcb. Qed.
Theorem tie_send_request_WN cfg T P2 P2S now a1 a2 : timing cfg (Some T) P2 P2S -> now < a1 ->
  fn_send_request_WN T P2 P2S now a1 a2 = ret (obs_sr (send_request cfg st_init tp_req (-1) now [(a1, Frame [127; 62; 120]); (a2, Frame [127; 62; 34])])).
Proof. intros (HT & H2 & H2s & Hcb) H0. unfold timing in *. unfold fn_send_request_WN. sr_tac HT H2 H2s Hcb. Qed.
Theorem tie_send_request_WN_no_overall cfg P2 P2S now a1 a2 : timing cfg None P2 P2S -> now < a1 ->
  fn_send_request_WN_no_overall P2 P2S now a1 a2 = ret (obs_sr (send_request cfg st_init tp_req (-1) now [(a1, Frame [127; 62; 120]); (a2, Frame [127; 62; 34])])).
Proof. intros (HT & H2 & H2s & Hcb) H0. unfold timing in *. unfold fn_send_request_WN_no_overall. sr_tac HT H2 H2s Hcb. Qed.
Theorem tie_send_request_WW cfg T P2 P2S now a1 a2 : timing cfg (Some T) P2 P2S -> now < a1 ->
  fn_send_request_WW T P2 P2S now a1 a2 = ret (obs_sr (send_request cfg st_init tp_req (-1) now [(a1, Frame [127; 62; 120]); (a2, Frame [127; 62; 120])])).
Proof. intros (HT & H2 & H2s & Hcb) H0. unfold timing in *. unfold fn_send_request_WW. sr_tac HT H2 H2s Hcb. Qed.
Theorem tie_send_request_WW_no_overall cfg P2 P2S now a1 a2 : timing cfg None P2 P2S -> now < a1 ->
  fn_send_request_WW_no_overall P2 P2S now a1 a2 = ret (obs_sr (send_request cfg st_init tp_req (-1) now [(a1, Frame [127; 62; 120]); (a2, Frame [127; 62; 120])])).
Proof. intros (HT & H2 & H2s & Hcb) H0. unfold timing in *. unfold fn_send_request_WW_no_overall. sr_tac HT H2 H2s Hcb. Qed.
