(* Proofs for C17: Request/Response round trips, totality of parsing, unambiguous service ids.
   Everything about the 27 services is by computation over the regenerated Gen/ServiceTable.v. *)
From Coq Require Import ZArith List Bool String Lia ZifyBool.
From UDS Require Import Lib.Bytes Lib.ErrM Lib.PyOps Lib.Sweep Gen.ServiceTable Gen.Nrc Model.Message.
Import ListNotations.
Open Scope Z_scope.
Open Scope list_scope.

(* ---- decidable helpers ---------------------------------------------------------------------- *)
Fixpoint nodupZ (l : list Z) : bool :=
  match l with [] => true | x :: tl => negb (existsb (Z.eqb x) tl) && nodupZ tl end.

Lemma nodupZ_sound l : nodupZ l = true -> NoDup l.
Proof.
  induction l as [|x tl IH]; cbn [nodupZ]; intros H; [constructor|].
  apply andb_true_iff in H as [Hx Ht]. constructor; [|auto].
  intros Hin. apply negb_true_iff in Hx.
  assert (existsb (Z.eqb x) tl = true) as E.
  { apply existsb_exists. exists x. split; [exact Hin|apply Z.eqb_refl]. }
  congruence.
Qed.

Definition svc_beq (a b : svc) : bool :=
  String.eqb (s_name a) (s_name b) && (s_sid a =? s_sid b) && Bool.eqb (s_sub a) (s_sub b)
  && Bool.eqb (s_rdata a) (s_rdata b).

Lemma svc_beq_eq a b : svc_beq a b = true -> a = b.
Proof.
  destruct a as [an ai asb ad], b as [bn bi bsb bd]. unfold svc_beq. cbn [s_name s_sid s_sub s_rdata].
  intros H. repeat (apply andb_true_iff in H as [H ?]).
  apply String.eqb_eq in H. apply Z.eqb_eq in H2. apply Bool.eqb_prop in H1. apply Bool.eqb_prop in H0.
  subst. reflexivity.
Qed.

Definition opt_svc_is (o : option svc) (s : svc) : bool :=
  match o with Some t => svc_beq s t | None => false end.
Lemma opt_svc_is_eq o s : opt_svc_is o s = true -> o = Some s.
Proof. destruct o as [t|]; cbn; [intros H; apply svc_beq_eq in H; subst; reflexivity|discriminate]. Qed.

(* one boolean that packs every fact needed about a service of the table *)
Definition svc_ok (s : svc) : bool :=
  (0 <=? s_sid s) && (s_sid s + 64 <? 256) && negb (s_sid s + 64 =? 127) && negb (s_sid s =? 127)
  && opt_svc_is (from_request_id (s_sid s)) s
  && opt_svc_is (from_response_id (s_sid s + 64)) s
  && match from_response_id (s_sid s) with None => true | Some _ => false end
  && match from_request_id (s_sid s + 64) with None => true | Some _ => false end.

Lemma services_ok : forallb svc_ok services = true.
Proof. vm_compute. reflexivity. Qed.

Lemma svc_facts s : In s services ->
  0 <= s_sid s /\ s_sid s + 64 < 256 /\ s_sid s + 64 <> 127 /\ s_sid s <> 127 /\
  from_request_id (s_sid s) = Some s /\ from_response_id (s_sid s + 64) = Some s /\
  from_response_id (s_sid s) = None /\ from_request_id (s_sid s + 64) = None.
Proof.
  intros Hin. pose proof services_ok as H. rewrite forallb_forall in H. specialize (H s Hin).
  unfold svc_ok in H.
  apply andb_true_iff in H as [H H8]. apply andb_true_iff in H as [H H7].
  apply andb_true_iff in H as [H H6]. apply andb_true_iff in H as [H H5].
  apply andb_true_iff in H as [H H4]. apply andb_true_iff in H as [H H3].
  apply andb_true_iff in H as [H1 H2].
  split; [lia|]. split; [lia|]. split; [lia|]. split; [lia|].
  split; [apply opt_svc_is_eq; assumption|]. split; [apply opt_svc_is_eq; assumption|].
  split.
  - destruct (from_response_id (s_sid s)); [discriminate|reflexivity].
  - destruct (from_request_id (s_sid s + 64)); [discriminate|reflexivity].
Qed.

(* ---- unambiguous ids ------------------------------------------------------------------------ *)
Lemma sids_nodup : NoDup (map s_sid services).
Proof. apply nodupZ_sound. vm_compute. reflexivity. Qed.

Lemma rsids_nodup : NoDup (map (fun s => s_sid s + 64) services).
Proof. apply nodupZ_sound. vm_compute. reflexivity. Qed.

Lemma all_ids_nodup : NoDup (127 :: map s_sid services ++ map (fun s => s_sid s + 64) services).
Proof. apply nodupZ_sound. vm_compute. reflexivity. Qed.

Lemma from_request_id_sound id s : from_request_id id = Some s -> In s services /\ s_sid s = id.
Proof. unfold from_request_id. intros H. apply find_some in H as [Hin He]. split; [exact Hin|lia]. Qed.

Lemma from_response_id_sound id s : from_response_id id = Some s -> In s services /\ s_sid s + 64 = id.
Proof. unfold from_response_id. intros H. apply find_some in H as [Hin He]. split; [exact Hin|lia]. Qed.

Lemma unambiguous_request id s t :
  In s services -> In t services -> s_sid s = id -> s_sid t = id -> s = t.
Proof.
  intros Hs Ht Es Et. pose proof (svc_facts s Hs) as Fs. pose proof (svc_facts t Ht) as Ft.
  destruct Fs as (_&_&_&_&Fs&_). destruct Ft as (_&_&_&_&Ft&_).
  rewrite Es in Fs. rewrite Et in Ft. congruence.
Qed.

Lemma unambiguous_response id s t :
  In s services -> In t services -> s_sid s + 64 = id -> s_sid t + 64 = id -> s = t.
Proof. intros Hs Ht Es Et. apply (unambiguous_request (s_sid s)); auto; lia. Qed.

(* ---- byte packing --------------------------------------------------------------------------- *)
Lemma pack_B_ok v : 0 <= v < 256 -> pack_B v = inr [v].
Proof.
  intros Hv. unfold pack_B, pack_be.
  replace ((0 <=? v) && (v <? 256 ^ Z.of_nat 1)) with true
    by (symmetry; apply andb_true_iff; split; [apply Z.leb_le|apply Z.ltb_lt]; cbn; lia).
  unfold ret. cbn [be_enc app]. f_equal. f_equal. apply Z.mod_small. lia.
Qed.

(* bit facts about the subfunction byte, by a complete sweep of 0..127 / 0..255 *)
Definition chk_sub (sub : Z) : bool :=
  (Z.land (Z.lor sub 128) 127 =? sub) && (0 <? Z.land (Z.lor sub 128) 128) && (Z.land sub 127 =? sub)
  && negb (0 <? Z.land sub 128) && (Z.lor sub 128 <? 256) && (0 <=? Z.lor sub 128).
Lemma chk_sub_all : all_below chk_sub 128 = true.
Proof. vm_compute. reflexivity. Qed.

Lemma sub_facts sub : 0 <= sub < 128 ->
  Z.land (Z.lor sub 128) 127 = sub /\ (0 <? Z.land (Z.lor sub 128) 128) = true /\ Z.land sub 127 = sub /\
  (0 <? Z.land sub 128) = false /\ 0 <= Z.lor sub 128 < 256.
Proof.
  intros H. pose proof (all_below_spec chk_sub 128 ltac:(lia) chk_sub_all sub H) as C.
  unfold chk_sub in C. repeat (apply andb_true_iff in C as [C ?]).
  apply negb_true_iff in H2. repeat split; try lia; assumption.
Qed.

(* ---- Request round trip ----------------------------------------------------------------------- *)
Definition norm_data (d : option bytes) : option bytes :=
  match d with Some [] => None | x => x end.

(* what the parsed object must be: same service, subfunction (when the service has one), flag, data *)
Definition req_expected (s : svc) (sub : Z) (spr : bool) (d : option bytes) : req :=
  {| q_svc := Some s; q_sub := if s_sub s then Some sub else None; q_spr := spr; q_data := norm_data d |}.

Lemma req_roundtrip s sub spr d :
  In s services ->
  (s_sub s = true -> 0 <= sub < 128) ->
  (spr = true -> s_sub s = true) ->
  exists r p, mk_request (Some s) (Some sub) spr d = inr r /\ request_payload r None = inr p /\
              parse_request p = req_expected s sub spr d.
Proof.
  intros Hin Hsub Hspr. destruct (svc_facts s Hin) as (H0&H1&_&_&Hreq&_).
  unfold mk_request. destruct (s_sub s) eqn:Es.
  - specialize (Hsub eq_refl). destruct (sub_facts sub Hsub) as (F1&F2&F3&F4&F5).
    rewrite andb_false_r.
    destruct spr.
    + eexists. eexists. split; [reflexivity|].
      unfold request_payload. cbn [q_svc q_sub q_spr q_data]. rewrite Es.
      rewrite (pack_B_ok (s_sid s)) by lia.
      rewrite (pack_B_ok (Z.lor sub 128)) by lia. cbn [bind ret app]. split; [reflexivity|].
      unfold parse_request. rewrite Hreq, Es. rewrite F1, F2. unfold req_expected. rewrite Es.
      destruct d as [[|x xs]|]; reflexivity.
    + eexists. eexists. split; [reflexivity|].
      unfold request_payload. cbn [q_svc q_sub q_spr q_data]. rewrite Es.
      rewrite (pack_B_ok (s_sid s)) by lia.
      rewrite (pack_B_ok sub) by lia. cbn [bind ret app]. split; [reflexivity|].
      unfold parse_request. rewrite Hreq, Es. rewrite F3, F4. unfold req_expected. rewrite Es.
      destruct d as [[|x xs]|]; reflexivity.
  - destruct spr; [specialize (Hspr eq_refl); discriminate|].
    cbn [andb]. eexists. eexists. split; [reflexivity|].
    unfold request_payload. cbn [q_svc q_sub q_spr q_data]. rewrite Es. cbn [orb].
    rewrite (pack_B_ok (s_sid s)) by lia. cbn [bind ret app]. split; [reflexivity|].
    unfold parse_request. rewrite Hreq, Es. unfold req_expected. rewrite Es.
    destruct d as [[|x xs]|]; reflexivity.
Qed.

(* ---- Response round trip ---------------------------------------------------------------------- *)
Lemma resp_roundtrip s code d :
  In s services -> 0 <= code <= 255 ->
  (code = 0 -> s_rdata s = true -> d <> []) ->
  exists r p, mk_response (Some s) (Some code) (Some d) = inr r /\ response_payload r = inr p /\
    p_positive r = (code =? 0) /\
    let q := parse_response p in
    p_svc q = Some s /\ p_code q = Some code /\ p_positive q = (code =? 0) /\ p_data q = d /\
    p_valid q = true /\ p_name q = p_name r /\ p_reason q = RNone.
Proof.
  intros Hin Hc Hd. destruct (svc_facts s Hin) as (H0&H1&H2&H3&Hreq&Hresp&_).
  unfold mk_response.
  replace ((code <? 0) || (255 <? code)) with false
    by (symmetry; apply orb_false_iff; split; [apply Z.ltb_ge|apply Z.ltb_ge]; lia).
  unfold nrc_is_negative. rewrite negb_involutive.
  destruct (code =? 0) eqn:Ec.
  - apply Z.eqb_eq in Ec. subst code.
    eexists. eexists. split; [reflexivity|].
    unfold response_payload. cbn [p_svc p_code p_positive p_data].
    rewrite (pack_B_ok (s_sid s + 64)) by lia. cbn [bind ret app]. split; [reflexivity|]. split; [reflexivity|].
    unfold parse_response. replace (s_sid s + 64 =? 127) with false by (symmetry; apply Z.eqb_neq; lia).
    cbn [negb]. rewrite Hresp.
    destruct d as [|x xs].
    + destruct (s_rdata s) eqn:Er; [exfalso; apply Hd; auto|]. cbn. repeat split; reflexivity.
    + cbn. repeat split; reflexivity.
  - eexists. eexists. split; [reflexivity|].
    unfold response_payload. cbn [p_svc p_code p_positive p_data].
    rewrite (pack_B_ok (s_sid s)) by lia. rewrite (pack_B_ok code) by lia. cbn [bind ret app].
    split; [reflexivity|]. split; [reflexivity|].
    unfold parse_response. cbn [Z.eqb negb]. rewrite Hreq. cbn. repeat split; reflexivity.
Qed.

(* ---- re-encoding a parsed valid payload -------------------------------------------------------- *)
Lemma reencode p :
  wf_bytes p -> p_valid (parse_response p) = true -> response_payload (parse_response p) = inr p.
Proof.
  intros Hwf. unfold parse_response.
  destruct p as [|b0 rest]; [cbn; discriminate|].
  destruct (b0 =? 127) eqn:E7; cbn [negb].
  - apply Z.eqb_eq in E7. subst b0.
    destruct rest as [|b1 rest2]; [cbn; discriminate|].
    destruct (from_request_id b1) as [sv|] eqn:Ef; [|cbn; discriminate].
    destruct rest2 as [|c d]; [cbn; discriminate|].
    intros _. apply from_request_id_sound in Ef as [Hin Hid].
    destruct (svc_facts sv Hin) as (H0&H1&_).
    assert (0 <= c < 256) as Hcr.
    { inversion Hwf as [|? ? _ Ht]; subst. inversion Ht as [|? ? _ Ht2]; subst. inversion Ht2; subst. assumption. }
    unfold response_payload. cbn [p_svc p_code p_positive p_data].
    rewrite (pack_B_ok (s_sid sv)) by lia. rewrite (pack_B_ok c) by lia. cbn [bind ret app]. subst b1. reflexivity.
  - destruct (from_response_id b0) as [sv|] eqn:Ef; [|cbn; discriminate].
    apply from_response_id_sound in Ef as [Hin Hid].
    destruct (svc_facts sv Hin) as (H0&H1&_).
    destruct rest as [|b1 d].
    + destruct (s_rdata sv); [cbn; discriminate|]. intros _.
      unfold response_payload. cbn [p_svc p_code p_positive p_data].
      rewrite (pack_B_ok (s_sid sv + 64)) by lia. cbn [bind ret app]. subst b0. reflexivity.
    + intros _. unfold response_payload. cbn [p_svc p_code p_positive p_data].
      rewrite (pack_B_ok (s_sid sv + 64)) by lia. cbn [bind ret app]. subst b0. reflexivity.
Qed.

(* ---- totality: a parsed response is valid with service and code, or invalid with a reason -------- *)
Lemma parse_response_total p :
  let q := parse_response p in
  p_orig q = Some p /\
  ((p_valid q = true /\ p_reason q = RNone /\ (exists s, p_svc q = Some s) /\ (exists c, p_code q = Some c))
   \/ (p_valid q = false /\ p_reason q <> RNone /\ p_code q = None)).
Proof.
  unfold parse_response.
  destruct p as [|b0 rest]; [cbn; split; [reflexivity|right; repeat split; discriminate]|].
  destruct (negb (b0 =? 127)).
  - destruct (from_response_id b0) as [sv|]; [|cbn; split; [reflexivity|right; repeat split; discriminate]].
    destruct rest as [|b1 d].
    + destruct (s_rdata sv); cbn; split; try reflexivity;
        [right; repeat split; discriminate|left; repeat split; eauto].
    + cbn; split; [reflexivity|left; repeat split; eauto].
  - destruct rest as [|b1 rest2]; [cbn; split; [reflexivity|right; repeat split; discriminate]|].
    destruct (from_request_id b1) as [sv|]; [|cbn; split; [reflexivity|right; repeat split; discriminate]].
    destruct rest2 as [|c d]; cbn; split; try reflexivity;
      [right; repeat split; discriminate|left; repeat split; eauto].
Qed.

(* a negative frame for service s with any code is parsed as negative with exactly that code *)
Lemma parse_negative s code tail :
  In s services ->
  let q := parse_response (127 :: s_sid s :: code :: tail) in
  p_valid q = true /\ p_positive q = false /\ p_code q = Some code /\ p_svc q = Some s /\
  p_name q = nrc_name code /\ p_data q = tail.
Proof.
  intros Hin. destruct (svc_facts s Hin) as (_&_&_&_&Hreq&_).
  unfold parse_response. cbn [Z.eqb negb]. rewrite Hreq. cbn. repeat split; reflexivity.
Qed.

(* non-vacuity: the table is not empty and contains services of both kinds *)
Example services_nonempty :
  (27 <=? Z.of_nat (List.length services)) = true /\
  existsb s_sub services = true /\ existsb (fun s => negb (s_sub s)) services = true /\
  existsb (fun s => negb (s_rdata s)) services = true.
Proof. vm_compute. repeat split; reflexivity. Qed.
