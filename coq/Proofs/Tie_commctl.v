(* communication_control(control type, communication type given as an integer, node id) as executed (Gen/Fn_SimpleReq.v / Fn_SimpleInt.v) is
   the model's ct_normalize followed by cc_make, under the 2020 edition (C01, C07, C03). *)
From Coq Require Import ZArith List Bool String Lia ZifyBool.
From UDS Require Import Lib.Bytes Lib.ErrM Lib.PyOps Lib.Sweep Gen.Fn_SimpleReq Gen.Fn_SimpleInt Model.Message Model.Client Model.Services Model.Helpers
  Model.Svc_Simple Proofs.Tie_common Proofs.Tie_simple_common.
Import ListNotations.
Open Scope Z_scope.

Definition nib_ok (m y : Z) : bool := (0 <=? Z.lor m (Z.shiftl y 4)) && (Z.lor m (Z.shiftl y 4) <? 256).
Lemma nib_sweep : all_below2 nib_ok 4 16 = true. Proof. vm_compute. reflexivity. Qed.
Lemma lor_nibble m y : 0 <= m < 4 -> 0 <= y < 16 -> 0 <= Z.lor m (Z.shiftl y 4) < 256.
Proof.
  intros Hm Hy. pose proof (all_below2_spec nib_ok 4 16 ltac:(lia) ltac:(lia) nib_sweep m y Hm Hy) as H.
  unfold nib_ok in H. lia.
Qed.
Lemma land15 x : 0 <= Z.land x 15 < 16.
Proof. change 15 with (Z.ones 4). rewrite Z.land_ones by lia. lia. Qed.

Ltac note_nibbles :=
  repeat match goal with
         | |- context [Z.lor ?m (Z.shiftl (Z.land ?x 15) 4)] =>
           lazymatch goal with H : 0 <= Z.lor m (Z.shiftl (Z.land x 15) 4) < 256 |- _ => fail
           | _ => pose proof (lor_nibble m (Z.land x 15) ltac:(lia) (land15 x)) end
         end.

Theorem tie_communication_control_request cfg ct v node : std cfg = 2020 ->
  fn_communication_control_request ct v node = (cty <- ct_normalize (CtInt v) ;; payload_of (cc_make cfg ct cty node)).
Proof.
  intros Hs. unfold fn_communication_control_request, ct_normalize, commtype_from_byte, mk_commtype, cc_make, commtype_byte. rewrite Hs.
  change (2013 <=? 2020) with true. note_nibbles.
  destruct node; unfold payload_of, mk_req, validate_int; eval_svc;
    crunch; cbn [ct_subnet ct_normal ct_nm andb orb negb] in *; crunch; rewrite ?app_nil_r, <- ?app_assoc; cbn [app]; finish;
    change (Z.land (Z.lor 1 2) 3) with 3 in *; change (Z.land (Z.lor 1 0) 3) with 1 in *; change (Z.land (Z.lor 0 2) 3) with 2 in *;
    change (Z.land (Z.lor 0 0) 3) with 0 in *; finish.
Qed.

Theorem tie_communication_control_interpret ct v node d r p : fn_communication_control_request ct v node = inr p -> d <> [] -> p_data r = d ->
  fn_communication_control_interpret ct v node d = echo1_interpret ct r.
Proof.
  intros Hreq Hne Hd. unfold fn_communication_control_request in Hreq. unfold fn_communication_control_interpret, echo1_interpret. rewrite Hd.
  destruct node; cases2 d; interp_tac; kill_by Hreq.
Qed.

Definition documented {A} (m : M A) : Prop := match m with inl e => err_internal e = false | inr _ => True end.
Theorem doc_communication_control ct v node d : d <> [] -> documented (fn_communication_control_interpret ct v node d).
Proof.
  intros Hne. unfold fn_communication_control_interpret, documented. note_nibbles.
  destruct node; cases2 d; split_ifs; cbn [err_internal err_code Z.leb Z.compare Pos.compare Pos.compare_cont]; try reflexivity; try exact I; try lia.
Qed.
