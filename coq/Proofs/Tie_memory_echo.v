(* write_memory_by_address with explicit formats (16/8 and 64/64 bits), as executed (Gen/Fn_MemoryEcho.v): the request, and what the method does
   with the server echo - the format byte, the address and the size, each in the width that was sent, compared with what was sent; an
   echo of 2^63 or more decodes to itself (C03, C14). *)
From Coq Require Import ZArith List Bool String Lia ZifyBool.
From UDS Require Import Lib.Bytes Lib.ErrM Lib.PyOps Gen.Maps Gen.Fn_MemoryEcho Model.Message Model.Client Model.Services Model.Helpers Model.MemLoc Model.Svc_Simple
  Model.Svc_Memory Proofs.Tie_common Proofs.Tie_simple_common.
Import ListNotations.
Open Scope Z_scope.

Definition no_server_formats (cfg : config) : Prop := srv_addr cfg = None /\ srv_size cfg = None.

Lemma mg_a16 : map_get gen_alfid_address_map 16 = Some 2. Proof. reflexivity. Qed.
Lemma mg_s8 : map_get gen_alfid_memsize_map 8 = Some 1. Proof. reflexivity. Qed.
Lemma mg_a64 : map_get gen_alfid_address_map 64 = Some 8. Proof. reflexivity. Qed.
Lemma mg_s64 : map_get gen_alfid_memsize_map 64 = Some 8. Proof. reflexivity. Qed.

Ltac mem_step := cbn [bind ret fail ml_af ml_sf ml_addr ml_size ml_alfid al_addr al_size]; rewrite ?mg_a16, ?mg_s8, ?mg_a64, ?mg_s64.
Ltac mem_setup Ha Hs :=
  unfold wmba_make, wmba_interpret, client_memloc, apply_server_formats, set_format_if_none, mk_memloc, resolve_alfid, mk_alfid, memloc_wire, addr_bytes, size_bytes,
         nbytes, fit_bytes, alfid_byte;
  rewrite ?Ha, ?Hs; repeat (progress mem_step).

Ltac mem_norm :=
  change (Z.land (Z.lor (Z.shiftl 1 4) 2) 255) with 18; change (Z.land (Z.lor (Z.shiftl 8 4) 8) 255) with 136;
  change (Z.to_nat 2) with 2%nat; change (Z.to_nat 1) with 1%nat; change (Z.to_nat 8) with 8%nat;
  change (256 ^ Z.of_nat 2) with 65536; change (256 ^ Z.of_nat 1) with 256; change (256 ^ Z.of_nat 8) with 18446744073709551616.

Theorem tie_write_memory_request_16_8 cfg a s data : no_server_formats cfg ->
  fn_write_memory_request_16_8 a s data = payload_of (wmba_make cfg a s (Some 16) (Some 8) data).
Proof.
  intros (Ha & Hs). unfold fn_write_memory_request_16_8, payload_of. mem_setup Ha Hs. mem_norm.
  unfold mk_req_data, mk_req; eval_svc. crunch; rewrite ?app_nil_r, <- ?app_assoc; cbn [app]; finish.
Qed.

Theorem tie_write_memory_interpret_16_8 cfg a s data d r p : no_server_formats cfg ->
  fn_write_memory_request_16_8 a s data = inr p -> d <> [] -> (List.length d < 6)%nat -> p_data r = d ->
  fn_write_memory_interpret_16_8 a s data d = wmba_interpret cfg a s (Some 16) (Some 8) r.
Proof.
  intros (Ha & Hs) Hreq Hne Hl Hd. unfold fn_write_memory_request_16_8 in Hreq. unfold fn_write_memory_interpret_16_8.
  mem_setup Ha Hs. mem_norm. rewrite Hd.
  destruct d as [|d0 [|d1 [|d2 [|d3 [|d4 [|d5 rest]]]]]]; [congruence| | | | | |cbn in Hl; lia].
  all: crunch; try (kill_by Hreq); try discriminate Hreq.
  all: cbn [List.length app be_enc Nat.ltb Nat.leb Nat.add nth skipn firstn be_dec be_dec_acc fold_left] in *; crunch; finish.
Qed.

Theorem tie_write_memory_request_64_64 cfg a s data : no_server_formats cfg ->
  fn_write_memory_request_64_64 a s data = payload_of (wmba_make cfg a s (Some 64) (Some 64) data).
Proof.
  intros (Ha & Hs). unfold fn_write_memory_request_64_64, payload_of. mem_setup Ha Hs. mem_norm.
  unfold mk_req_data, mk_req; eval_svc. crunch; rewrite ?app_nil_r, <- ?app_assoc; cbn [app]; finish.
Qed.

Theorem tie_write_memory_interpret_64_64 cfg a s data d r p : no_server_formats cfg ->
  fn_write_memory_request_64_64 a s data = inr p -> (17 <= List.length d < 19)%nat -> p_data r = d ->
  fn_write_memory_interpret_64_64 a s data d = wmba_interpret cfg a s (Some 64) (Some 64) r.
Proof.
  intros (Ha & Hs) Hreq Hl Hd. unfold fn_write_memory_request_64_64 in Hreq. unfold fn_write_memory_interpret_64_64.
  mem_setup Ha Hs. mem_norm. rewrite Hd.
  assert (Hcase : (exists e0 e1 e2 e3 e4 e5 e6 e7 e8 e9 e10 e11 e12 e13 e14 e15 e16, d = [e0; e1; e2; e3; e4; e5; e6; e7; e8; e9; e10; e11; e12; e13; e14; e15; e16]) \/ (exists e0 e1 e2 e3 e4 e5 e6 e7 e8 e9 e10 e11 e12 e13 e14 e15 e16 e17, d = [e0; e1; e2; e3; e4; e5; e6; e7; e8; e9; e10; e11; e12; e13; e14; e15; e16; e17])).
  { do 17 (destruct d as [|? d]; [cbn in Hl; lia|]). destruct d as [|? d]; [left; repeat eexists|].
    destruct d as [|? d]; [right; repeat eexists|cbn in Hl; lia]. }
  destruct Hcase as [(e0 & e1 & e2 & e3 & e4 & e5 & e6 & e7 & e8 & e9 & e10 & e11 & e12 & e13 & e14 & e15 & e16 & ->)|(e0 & e1 & e2 & e3 & e4 & e5 & e6 & e7 & e8 & e9 & e10 & e11 & e12 & e13 & e14 & e15 & e16 & e17 & ->)].
  all: crunch; try (kill_by Hreq); try discriminate Hreq.
  all: cbn [List.length app be_enc Nat.ltb Nat.leb Nat.add nth skipn firstn be_dec be_dec_acc fold_left] in *; crunch; finish.
Qed.
