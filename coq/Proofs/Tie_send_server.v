(* ... after a session change that supplied server timings: the adopted P2 / P2-star replace the configured ones, with and without an overall timeout (C10) *)
From Coq Require Import ZArith List Bool String Lia ZifyBool.
From UDS Require Import Lib.Bytes Lib.ErrM Lib.PyOps Gen.Fn_SendRequest Model.Message Model.Client Model.Services Proofs.Tie_common Proofs.Tie_send_common.
Import ListNotations.
Open Scope Z_scope.


Theorem tie_send_request_server_silence cfg T S2 S2S P2 P2S now : timing cfg (Some T) P2 P2S ->
  fn_send_request_server_silence T S2 S2S P2 P2S now = ret (obs_sr (send_request cfg (set_timing st_init S2 S2S) tp_req (-1) now [])).
Proof. intros (HT & H2 & H2s & Hcb). unfold timing in *. unfold fn_send_request_server_silence. sr_tac HT H2 H2s Hcb. Qed.
Theorem tie_send_request_server_no_overall_silence cfg S2 S2S P2 P2S now : timing cfg None P2 P2S ->
  fn_send_request_server_no_overall_silence S2 S2S P2 P2S now = ret (obs_sr (send_request cfg (set_timing st_init S2 S2S) tp_req (-1) now [])).
Proof. intros (HT & H2 & H2s & Hcb). unfold timing in *. unfold fn_send_request_server_no_overall_silence. sr_tac HT H2 H2s Hcb. Qed.
Theorem tie_send_request_server_P cfg T S2 S2S P2 P2S now a1 : timing cfg (Some T) P2 P2S -> now < a1 ->
  fn_send_request_server_P T S2 S2S P2 P2S now a1 = ret (obs_sr (send_request cfg (set_timing st_init S2 S2S) tp_req (-1) now [(a1, Frame [126; 0])])).
Proof. intros (HT & H2 & H2s & Hcb) H0. unfold timing in *. unfold fn_send_request_server_P. sr_tac HT H2 H2s Hcb. Qed.
Theorem tie_send_request_server_no_overall_P cfg S2 S2S P2 P2S now a1 : timing cfg None P2 P2S -> now < a1 ->
  fn_send_request_server_no_overall_P S2 S2S P2 P2S now a1 = ret (obs_sr (send_request cfg (set_timing st_init S2 S2S) tp_req (-1) now [(a1, Frame [126; 0])])).
Proof. intros (HT & H2 & H2s & Hcb) H0. unfold timing in *. unfold fn_send_request_server_no_overall_P. sr_tac HT H2 H2s Hcb. Qed.
Theorem tie_send_request_server_WP cfg T S2 S2S P2 P2S now a1 a2 : timing cfg (Some T) P2 P2S -> now < a1 ->
  fn_send_request_server_WP T S2 S2S P2 P2S now a1 a2 = ret (obs_sr (send_request cfg (set_timing st_init S2 S2S) tp_req (-1) now [(a1, Frame [127; 62; 120]); (a2, Frame [126; 0])])).
Proof. intros (HT & H2 & H2s & Hcb) H0. unfold timing in *. unfold fn_send_request_server_WP. sr_tac HT H2 H2s Hcb. Qed.
Theorem tie_send_request_server_no_overall_WP cfg S2 S2S P2 P2S now a1 a2 : timing cfg None P2 P2S -> now < a1 ->
  fn_send_request_server_no_overall_WP S2 S2S P2 P2S now a1 a2 = ret (obs_sr (send_request cfg (set_timing st_init S2 S2S) tp_req (-1) now [(a1, Frame [127; 62; 120]); (a2, Frame [126; 0])])).
Proof. intros (HT & H2 & H2s & Hcb) H0. unfold timing in *. unfold fn_send_request_server_no_overall_WP. sr_tac HT H2 H2s Hcb. Qed.
Theorem tie_send_request_server_W cfg T S2 S2S P2 P2S now a1 : timing cfg (Some T) P2 P2S -> now < a1 ->
  fn_send_request_server_W T S2 S2S P2 P2S now a1 = ret (obs_sr (send_request cfg (set_timing st_init S2 S2S) tp_req (-1) now [(a1, Frame [127; 62; 120])])).
Proof. intros (HT & H2 & H2s & Hcb) H0. unfold timing in *. unfold fn_send_request_server_W. sr_tac HT H2 H2s Hcb. Qed.
Theorem tie_send_request_server_no_overall_W cfg S2 S2S P2 P2S now a1 : timing cfg None P2 P2S -> now < a1 ->
  fn_send_request_server_no_overall_W S2 S2S P2 P2S now a1 = ret (obs_sr (send_request cfg (set_timing st_init S2 S2S) tp_req (-1) now [(a1, Frame [127; 62; 120])])).
Proof. intros (HT & H2 & H2s & Hcb) H0. unfold timing in *. unfold fn_send_request_server_no_overall_W. sr_tac HT H2 H2s Hcb. Qed.
Theorem tie_send_request_percall_server_W cfg T Tp S2 S2S P2 P2S now a1 : timing cfg (Some T) P2 P2S -> 0 <= Tp -> now < a1 ->
  fn_send_request_percall_server_W T Tp S2 S2S P2 P2S now a1 = ret (obs_sr (send_request cfg (set_timing st_init S2 S2S) tp_req Tp now [(a1, Frame [127; 62; 120])])).
Proof. intros (HT & H2 & H2s & Hcb) H0 H1. unfold timing in *. unfold fn_send_request_percall_server_W. replace (Tp <? 0) with false by lia; sr_tac HT H2 H2s Hcb. Qed.
Theorem tie_send_request_percall_server_WP cfg T Tp S2 S2S P2 P2S now a1 a2 : timing cfg (Some T) P2 P2S -> 0 <= Tp -> now < a1 ->
  fn_send_request_percall_server_WP T Tp S2 S2S P2 P2S now a1 a2 = ret (obs_sr (send_request cfg (set_timing st_init S2 S2S) tp_req Tp now [(a1, Frame [127; 62; 120]); (a2, Frame [126; 0])])).
Proof. intros (HT & H2 & H2s & Hcb) H0 H1. unfold timing in *. unfold fn_send_request_percall_server_WP. replace (Tp <? 0) with false by lia; sr_tac HT H2 H2s Hcb. Qed.
