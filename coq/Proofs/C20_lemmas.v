(* Proofs for C20: identifier-to-name lookups are faithful on their whole domain.
   Every statement is over the regenerated tables (Gen/Subfunctions.v, Gen/Nrc.v, Gen/Ids.v) and, for the
   16-bit identifiers, against the hand-written ISO partition of Spec/IsoRanges.v.  Finite domains are
   swept completely by the kernel (all_below) and lifted to a forall by all_below_spec. *)
From Coq Require Import ZArith List Bool String Lia ZifyBool.
From UDS Require Import Lib.Bytes Lib.ErrM Lib.Sweep Gen.Subfunctions Gen.Ids Gen.Nrc Spec.IsoRanges
  Model.Message Model.Names.
Import ListNotations.
Open Scope string_scope.
Open Scope Z_scope.
Open Scope list_scope.

(* ---- specification of a subfunction-name lookup --------------------------------------------- *)
Definition has_int (t : subfn_table) (v : Z) (n : string) : Prop := In (n, GInt v) (t_members t).
Definition in_range_member (t : subfn_table) (v : Z) (n : string) : Prop :=
  exists lo hi, In (n, GRange lo hi) (t_members t) /\ lo <= v <= hi.

(* exact constant first; a range constant only for values inside the range; else the custom fallback *)
Definition subfn_name_spec (t : subfn_table) (v : Z) (n : string) : Prop :=
  has_int t v n \/
  ((forall m, ~ has_int t v m) /\ in_range_member t v n) \/
  ((forall m, ~ has_int t v m) /\ (forall m, ~ in_range_member t v m) /\ n = custom_name t).

Definition is_int_v (v : Z) (x : gen_member) : bool := match x with GInt y => y =? v | _ => false end.
Definition is_range_v (v : Z) (x : gen_member) : bool :=
  match x with GRange lo hi => (lo <=? v) && (v <=? hi) | _ => false end.

Definition has_intb (t : subfn_table) v n := existsb (fun '(m, x) => String.eqb m n && is_int_v v x) (t_members t).
Definition any_intb (t : subfn_table) v := existsb (fun '(_, x) => is_int_v v x) (t_members t).
Definition in_rangeb (t : subfn_table) v n := existsb (fun '(m, x) => String.eqb m n && is_range_v v x) (t_members t).
Definition any_rangeb (t : subfn_table) v := existsb (fun '(_, x) => is_range_v v x) (t_members t).
Definition subfn_specb (t : subfn_table) v n : bool :=
  has_intb t v n
  || (negb (any_intb t v) && in_rangeb t v n)
  || (negb (any_intb t v) && negb (any_rangeb t v) && String.eqb n (custom_name t)).

Lemma is_int_v_eq v x : is_int_v v x = true -> x = GInt v.
Proof. destruct x as [y|lo hi]; cbn; [intros H; f_equal; lia|discriminate]. Qed.

Lemma has_intb_sound t v n : has_intb t v n = true -> has_int t v n.
Proof.
  unfold has_intb, has_int. intros H. apply existsb_exists in H as [[m x] [Hin Hp]].
  apply andb_true_iff in Hp as [Hm Hx]. apply String.eqb_eq in Hm. apply is_int_v_eq in Hx. subst. exact Hin.
Qed.

Lemma any_intb_false t v : any_intb t v = false -> forall m, ~ has_int t v m.
Proof.
  unfold any_intb, has_int. intros H m Hin.
  assert (existsb (fun '(_, x) => is_int_v v x) (t_members t) = true) as E.
  { apply existsb_exists. exists (m, GInt v). split; [exact Hin|]. cbn. apply Z.eqb_refl. }
  congruence.
Qed.

Lemma in_rangeb_sound t v n : in_rangeb t v n = true -> in_range_member t v n.
Proof.
  unfold in_rangeb, in_range_member. intros H. apply existsb_exists in H as [[m x] [Hin Hp]].
  apply andb_true_iff in Hp as [Hm Hx]. apply String.eqb_eq in Hm. subst m.
  destruct x as [y|lo hi]; [discriminate|]. cbn in Hx. exists lo, hi. split; [exact Hin|lia].
Qed.

Lemma any_rangeb_false t v : any_rangeb t v = false -> forall m, ~ in_range_member t v m.
Proof.
  unfold any_rangeb, in_range_member. intros H m (lo & hi & Hin & Hr).
  assert (existsb (fun '(_, x) => is_range_v v x) (t_members t) = true) as E.
  { apply existsb_exists. exists (m, GRange lo hi). split; [exact Hin|]. cbn. lia. }
  congruence.
Qed.

Lemma subfn_specb_sound t v n : subfn_specb t v n = true -> subfn_name_spec t v n.
Proof.
  unfold subfn_specb, subfn_name_spec. intros H.
  apply orb_true_iff in H as [H|H]; [apply orb_true_iff in H as [H|H]|].
  - left. apply has_intb_sound; exact H.
  - right. left. apply andb_true_iff in H as [Ha Hb]. apply negb_true_iff in Ha.
    split; [apply any_intb_false; exact Ha|apply in_rangeb_sound; exact Hb].
  - right. right. apply andb_true_iff in H as [H Hc]. apply andb_true_iff in H as [Ha Hb].
    apply negb_true_iff in Ha. apply negb_true_iff in Hb. apply String.eqb_eq in Hc.
    split; [apply any_intb_false; exact Ha|]. split; [apply any_rangeb_false; exact Hb|exact Hc].
Qed.

Definition subfn_chk (t : subfn_table) (v : Z) : bool := subfn_specb t v (subfn_get_name t v).

Lemma subfn_sweep : forallb (fun t => all_below (subfn_chk t) 256) subfn_tables = true.
Proof. vm_compute. reflexivity. Qed.

Lemma subfn_names_faithful t v :
  In t subfn_tables -> 0 <= v < 256 -> subfn_name_spec t v (subfn_get_name t v).
Proof.
  intros Hin Hv. pose proof subfn_sweep as H. rewrite forallb_forall in H. specialize (H t Hin).
  apply subfn_specb_sound. exact (all_below_spec (subfn_chk t) 256 ltac:(lia) H v Hv).
Qed.

(* ---- response codes ---------------------------------------------------------------------------- *)
Definition nrc_name_spec (code : Z) (n : string) : Prop :=
  In (n, code) gen_nrc \/ ((forall m, ~ In (m, code) gen_nrc) /\ n = dec_string code).

Definition nrc_chk (code : Z) : bool :=
  let n := nrc_name code in
  existsb (fun '(m, x) => String.eqb m n && (x =? code)) gen_nrc
  || (negb (existsb (fun '(_, x) => x =? code) gen_nrc) && String.eqb n (dec_string code)).

Lemma nrc_sweep : all_below nrc_chk 256 = true.
Proof. vm_compute. reflexivity. Qed.

Lemma nrc_names_faithful code : 0 <= code < 256 -> nrc_name_spec code (nrc_name code).
Proof.
  intros Hc. pose proof (all_below_spec nrc_chk 256 ltac:(lia) nrc_sweep code Hc) as H.
  unfold nrc_chk in H. unfold nrc_name_spec. apply orb_true_iff in H as [H|H].
  - left. apply existsb_exists in H as [[m x] [Hin Hp]]. apply andb_true_iff in Hp as [Hm Hx].
    apply String.eqb_eq in Hm. assert (x = code) by lia. subst. exact Hin.
  - right. apply andb_true_iff in H as [Ha Hb]. apply negb_true_iff in Ha. apply String.eqb_eq in Hb.
    split; [|exact Hb]. intros m Hin.
    assert (existsb (fun '(_, x) => x =? code) gen_nrc = true) as E.
    { apply existsb_exists. exists (m, code). split; [exact Hin|apply Z.eqb_refl]. }
    congruence.
Qed.

(* ---- 16-bit identifiers: constants first, else the ISO category ---------------------------------- *)
Section Ids.
  Variable consts : list (string * Z).
  Variable chain ranges : list (Z * Z * string).
  Variable suffix : string.

  Definition id_name_spec (v : Z) (n : string) : Prop :=
    (exists K, In (K, v) consts /\ (n = K \/ n = append K suffix)) \/
    ((forall K, ~ In (K, v) consts) /\ iso_category ranges v = Some n /\ n <> "<named>").

  Definition id_specb (v : Z) (n : string) : bool :=
    existsb (fun '(K, x) => (x =? v) && (String.eqb n K || String.eqb n (append K suffix))) consts
    || (negb (existsb (fun '(_, x) => x =? v) consts)
        && match iso_category ranges v with
           | Some c => String.eqb c n && negb (String.eqb c "<named>")
           | None => false
           end).

  Lemma id_specb_sound v n : id_specb v n = true -> id_name_spec v n.
  Proof.
    unfold id_specb, id_name_spec. intros H. apply orb_true_iff in H as [H|H].
    - left. apply existsb_exists in H as [[K x] [Hin Hp]]. apply andb_true_iff in Hp as [Hx Hn].
      assert (x = v) by lia. subst x. exists K. split; [exact Hin|].
      apply orb_true_iff in Hn as [Hn|Hn]; apply String.eqb_eq in Hn; auto.
    - right. apply andb_true_iff in H as [Ha Hb]. apply negb_true_iff in Ha. split.
      + intros K Hin.
        assert (existsb (fun '(_, x) => x =? v) consts = true) as E.
        { apply existsb_exists. exists (K, v). split; [exact Hin|apply Z.eqb_refl]. }
        congruence.
      + destruct (iso_category ranges v) as [c|]; [|discriminate].
        apply andb_true_iff in Hb as [Hc Hd]. apply String.eqb_eq in Hc. subst c.
        apply negb_true_iff in Hd. apply String.eqb_neq in Hd. auto.
  Qed.

  Definition id_chk (v : Z) : bool :=
    match chain_lookup chain v with inr (Some n) => id_specb v n | _ => false end.
End Ids.

Definition did_chk := id_chk gen_did_consts gen_did_chain iso_did_ranges "DataIdentifier".
Definition routine_chk := id_chk gen_routine_consts gen_routine_chain iso_routine_ranges "".

Lemma did_sweep : all_below did_chk 65536 = true.
Proof. vm_compute. reflexivity. Qed.
Lemma routine_sweep : all_below routine_chk 65536 = true.
Proof. vm_compute. reflexivity. Qed.

Lemma did_names_faithful v : 0 <= v < 65536 ->
  exists n, did_name_from_id v = inr (Some n) /\
            id_name_spec gen_did_consts iso_did_ranges "DataIdentifier" v n.
Proof.
  intros Hv. pose proof (all_below_spec did_chk 65536 ltac:(lia) did_sweep v Hv) as H.
  unfold did_chk, id_chk in H. unfold did_name_from_id.
  destruct (chain_lookup gen_did_chain v) as [e|[n|]]; try discriminate.
  exists n. split; [reflexivity|]. apply id_specb_sound. exact H.
Qed.

Lemma routine_names_faithful v : 0 <= v < 65536 ->
  exists n, routine_name_from_id v = inr (Some n) /\
            id_name_spec gen_routine_consts iso_routine_ranges "" v n.
Proof.
  intros Hv. pose proof (all_below_spec routine_chk 65536 ltac:(lia) routine_sweep v Hv) as H.
  unfold routine_chk, id_chk in H. unfold routine_name_from_id.
  destruct (chain_lookup gen_routine_chain v) as [e|[n|]]; try discriminate.
  exists n. split; [reflexivity|]. apply id_specb_sound. exact H.
Qed.

Lemma out_of_range_rejected chain v : v < 0 \/ 65535 < v -> chain_lookup chain v = inl EValue.
Proof.
  intros H. unfold chain_lookup.
  replace ((v <? 0) || (65535 <? v)) with true by (symmetry; apply orb_true_iff; lia). reflexivity.
Qed.

Lemma iso_partitions :
  partition_from 0 iso_did_ranges = true /\ partition_from 0 iso_routine_ranges = true.
Proof. vm_compute. split; reflexivity. Qed.

(* ---- DTC format ----------------------------------------------------------------------------- *)
Definition dtc_format_spec (v : Z) (o : option string) : Prop :=
  match o with
  | Some n => In (n, v) gen_dtc_format
  | None => forall m, ~ In (m, v) gen_dtc_format
  end.

Definition dtc_format_chk (v : Z) : bool :=
  match dtc_format_name v with
  | Some n => existsb (fun '(m, x) => String.eqb m n && (x =? v)) gen_dtc_format
  | None => negb (existsb (fun '(_, x) => x =? v) gen_dtc_format)
  end.
Lemma dtc_format_sweep : all_below dtc_format_chk 256 = true.
Proof. vm_compute. reflexivity. Qed.

Lemma dtc_format_faithful v : 0 <= v < 256 -> dtc_format_spec v (dtc_format_name v).
Proof.
  intros Hv. pose proof (all_below_spec dtc_format_chk 256 ltac:(lia) dtc_format_sweep v Hv) as H.
  unfold dtc_format_chk in H. unfold dtc_format_spec. destruct (dtc_format_name v) as [n|].
  - apply existsb_exists in H as [[m x] [Hin Hp]]. apply andb_true_iff in Hp as [Hm Hx].
    apply String.eqb_eq in Hm. assert (x = v) by lia. subst. exact Hin.
  - apply negb_true_iff in H. intros m Hin.
    assert (existsb (fun '(_, x) => x =? v) gen_dtc_format = true) as E.
    { apply existsb_exists. exists (m, v). split; [exact Hin|apply Z.eqb_refl]. }
    congruence.
Qed.

(* ---- non-vacuity ------------------------------------------------------------------------------ *)
Example tables_nonempty :
  (12 <=? Z.of_nat (List.length subfn_tables)) = true /\
  existsb (fun t => existsb (fun '(_, m) => match m with GRange _ _ => true | _ => false end) (t_members t))
          subfn_tables = true /\
  (40 <=? Z.of_nat (List.length gen_nrc)) = true /\ (30 <=? Z.of_nat (List.length gen_did_consts)) = true.
Proof. vm_compute. repeat split; reflexivity. Qed.
