(* Client.standard_error_management, as executed around an inner function that ends in each possible way, under the eight settings of the
   three exception_on_* switches (Gen/Fn_Decorator.v), is the model's `deliver` (C08). *)
From Coq Require Import ZArith List Bool String Lia ZifyBool.
From UDS Require Import Lib.Bytes Lib.ErrM Lib.PyOps Gen.Fn_Decorator Model.Message Model.Client Proofs.Tie_common.
Import ListNotations.
Open Scope Z_scope.

(* how the inner function ends: 1..3 the three response exceptions (carrying rn / rp / rp), 4..8 other documented errors, else a value *)
Definition inner_of (kind : Z) (rp rn : resp) : cres resp :=
  if kind =? 1 then CErr ENegative (Some rn) else if kind =? 2 then CErr EInvalid (Some rp) else if kind =? 3 then CErr EUnexpected (Some rp)
  else if kind =? 4 then CErr EValue None else if kind =? 5 then CErr ETimeout None else if kind =? 6 then CErr EConfig None
  else if kind =? 7 then CErr ENotImpl None else if kind =? 8 then CErr ERuntime None else COk rp.
Definition flags (r : resp) : list Z := [enc_bool (p_positive r); enc_bool (p_valid r); enc_bool (p_unexpected r)].
(* what the caller sees: 0 the inner value, 1 e.response handed back, 2 a response exception raised (its response observed), else the error *)
Definition seen (o : outcome resp) : M (list Z) :=
  match o with
  | ORet a => ret (0 :: flags a)
  | ORetResp r => ret (1 :: flags r)
  | ORaise e (Some r) => ret (2 :: flags r)
  | ORaise e None => fail e
  end.
Definition with_switches (cfg : config) (a b c : bool) : Prop := ex_neg cfg = a /\ ex_inv cfg = b /\ ex_unx cfg = c.

Theorem tie_decorated cfg kind a b c rp rn : with_switches cfg a b c ->
  p_positive rp = true -> p_valid rp = true -> p_unexpected rp = false ->
  p_positive rn = false -> p_valid rn = true -> p_unexpected rn = false ->
  fn_decorated kind a b c = seen (deliver cfg (inner_of kind rp rn)).
Proof.
  intros (Ha & Hb & Hc) P1 P2 P3 N1 N2 N3. unfold fn_decorated, inner_of.
  repeat match goal with |- context [kind =? Z.pos ?k] => rewrite (Z.eqb_sym kind (Z.pos k)) end.
  destruct a, b, c; split_ifs; cbn [deliver seen set_flags flags p_positive p_valid p_unexpected enc_bool app];
    rewrite ?Ha, ?Hb, ?Hc; cbn [seen flags set_flags p_positive p_valid p_unexpected enc_bool app];
    unfold flags, set_flags; cbn [p_positive p_valid p_unexpected];
    rewrite ?P1, ?P2, ?P3, ?N1, ?N2, ?N3; try reflexivity; try lia.
Qed.

(* ... and the outcome of a decorated call does not depend on how an earlier decorated call on the same client ended *)
Theorem tie_decorated_after cfg first kind a b c rp rn : with_switches cfg a b c ->
  p_positive rp = true -> p_valid rp = true -> p_unexpected rp = false ->
  p_positive rn = false -> p_valid rn = true -> p_unexpected rn = false ->
  fn_decorated_after first kind a b c = seen (deliver cfg (inner_of kind rp rn)).
Proof.
  intros (Ha & Hb & Hc) P1 P2 P3 N1 N2 N3. unfold fn_decorated_after, inner_of.
  repeat match goal with |- context [kind =? Z.pos ?k] => rewrite (Z.eqb_sym kind (Z.pos k)) end.
  destruct a, b, c; split_ifs; cbn [deliver seen set_flags flags p_positive p_valid p_unexpected enc_bool app];
    rewrite ?Ha, ?Hb, ?Hc; cbn [seen flags set_flags p_positive p_valid p_unexpected enc_bool app];
    unfold flags, set_flags; cbn [p_positive p_valid p_unexpected];
    rewrite ?P1, ?P2, ?P3, ?N1, ?N2, ?N3; try reflexivity; try lia.
Qed.
