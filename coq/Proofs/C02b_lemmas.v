(* Proofs for C02 / C11, second part: the ReadDTCInformation decoders with nested or wider records - snapshot records by DTC
   number and by record number (identifiers on dtc_snapshot_did_size bytes, codec-length values), extended data by DTC number
   and by record number, severity records (6 bytes), fault counters - each with any number of records and any number of
   trailing zero bytes under the padding settings that tolerate them.  Reference encoders from Appendix B of DESIGN.md. *)
From Coq Require Import ZArith List Bool String Lia ZifyBool.
From UDS Require Import Lib.Bytes Lib.ErrM Lib.PyOps Model.Message Model.Client Model.Services Model.Helpers
  Model.Svc_Did Model.Svc_Dtc Proofs.Bytes_lemmas Proofs.C17_lemmas Proofs.C02_lemmas.
Import ListNotations.
Open Scope Z_scope.
Open Scope list_scope.

(* ---- snapshot records: sequences of [record number; number of DIDs; DIDs], each DID = identifier on dtc_snapshot_did_size bytes + codec-length data ---- *)
Definition did_rec (ds : nat) (x : Z * bytes) : bytes := be_enc ds (fst x) ++ snd x.
Definition wf_sdid (pc : pcfg) (x : Z * bytes) : Prop :=
  0 <= fst x < 256 ^ Z.of_nat (Z.to_nat (pc_snap pc)) /\
  exists sh, fetch_codec pc (fst x) = inr sh /\ 0 <= sh /\ Z.of_nat (List.length (snd x)) = sh.
Definition snap_of (recnum : Z) (x : Z * bytes) : snapshot := SnapDid recnum (fst x) (snd x).

Lemma did_rec_length ds x : List.length (did_rec ds x) = (ds + List.length (snd x))%nat.
Proof. unfold did_rec. rewrite app_length, be_enc_length. reflexivity. Qed.

Lemma loop_dids_decode pc recnum : forall dl pre post acc,
  Forall (wf_sdid pc) dl ->
  loop_dids (List.length dl) pc recnum (pre ++ flat_map (did_rec (Z.to_nat (pc_snap pc))) dl ++ post) (List.length pre) acc
  = inr (acc ++ map (snap_of recnum) dl, (List.length pre + List.length (flat_map (did_rec (Z.to_nat (pc_snap pc))) dl))%nat).
Proof.
  set (ds := Z.to_nat (pc_snap pc)).
  induction dl as [|x dl IH]; intros pre post acc Hw.
  - cbn [List.length loop_dids flat_map map]. rewrite app_nil_r. cbn [List.length]. rewrite Nat.add_0_r. reflexivity.
  - inversion Hw as [|? ? Hx Hl]; subst. destruct Hx as (Hd & sh & Hf & Hs0 & Hs).
    specialize (IH (pre ++ did_rec ds x) post (acc ++ [snap_of recnum x]) Hl).
    cbn [List.length loop_dids flat_map map]. fold ds. rewrite <- app_assoc.
    remember (flat_map (did_rec ds) dl ++ post) as rest eqn:Er.
    rewrite skipn_app_exact.
    assert (firstn ds (did_rec ds x ++ rest) = be_enc ds (fst x)) as F1.
    { unfold did_rec. rewrite <- app_assoc. rewrite <- (be_enc_length ds (fst x)) at 1. apply firstn_app_exact. }
    assert (skipn ds (did_rec ds x ++ rest) = snd x ++ rest) as F2.
    { unfold did_rec. rewrite <- app_assoc. rewrite <- (be_enc_length ds (fst x)) at 1. apply skipn_app_exact. }
    assert (firstn (Z.to_nat sh) (snd x ++ rest) = snd x) as F3.
    { replace (Z.to_nat sh) with (List.length (snd x)) by lia. apply firstn_app_exact. }
    rewrite F1, !F2. rewrite app_length, did_rec_length.
    replace (Nat.ltb _ ds) with false by (symmetry; apply Nat.ltb_ge; lia).
    rewrite be_dec_enc by (unfold ds; exact Hd). rewrite Hf. cbn [bind].
    replace (sh <? 0) with false by lia.
    replace (Nat.ltb _ (Z.to_nat sh)) with false by (symmetry; apply Nat.ltb_ge; lia).
    rewrite F3. subst rest. rewrite app_assoc.
    replace (List.length pre + ds + Z.to_nat sh)%nat with (List.length (pre ++ did_rec ds x))
      by (rewrite app_length, did_rec_length; lia).
    fold (snap_of recnum x). rewrite IH. rewrite <- app_assoc. cbn [app].
    f_equal. f_equal. rewrite !app_length, did_rec_length. lia.
Qed.

Definition snap_rec (ds : nat) (r : Z * list (Z * bytes)) : bytes :=
  [fst r; Z.of_nat (List.length (snd r))] ++ flat_map (did_rec ds) (snd r).
Definition wf_snap (pc : pcfg) (r : Z * list (Z * bytes)) : Prop :=
  0 <= fst r < 256 /\ (1 <= List.length (snd r) <= 255)%nat /\ Forall (wf_sdid pc) (snd r).
Definition snaps_of (r : Z * list (Z * bytes)) : list snapshot := map (snap_of (fst r)) (snd r).

Lemma all_zero_second a b l : b <> 0 -> all_zero (a :: b :: l) = false.
Proof. intros H. cbn [all_zero forallb]. replace (0 =? b) with false by lia. cbn [andb]. apply andb_false_r. Qed.

Lemma flat_dids_length_ge pc dl : Forall (wf_sdid pc) dl -> (1 <= List.length dl)%nat ->
  (Z.to_nat (pc_snap pc) <= List.length (flat_map (did_rec (Z.to_nat (pc_snap pc))) dl))%nat.
Proof.
  destruct dl as [|x dl]; cbn [List.length]; [lia|]. intros _ _. cbn [flat_map]. rewrite app_length, did_rec_length. lia.
Qed.

(* any number of snapshot records, each with 1..255 DIDs of configured fixed-length codecs, followed by n zero bytes (n = 0, or
   padding tolerated): every record number, DID and value comes back, in order, and the padding changes nothing *)
Lemma loop_snap_by_dtc_decode_pad pc : forall l pre acc fuel n,
  Forall (wf_snap pc) l -> (List.length l < fuel)%nat -> (n = 0%nat \/ pc_tol pc = true) ->
  loop_snap_by_dtc fuel pc (pre ++ flat_map (snap_rec (Z.to_nat (pc_snap pc))) l ++ repeat 0 n) (List.length pre) acc
  = inr (acc ++ flat_map snaps_of l).
Proof.
  set (ds := Z.to_nat (pc_snap pc)).
  induction l as [|r l IH]; intros pre acc fuel n Hw Hf Hn.
  - destruct fuel as [|k]; [lia|]. cbn [loop_snap_by_dtc flat_map app]. rewrite app_nil_r.
    rewrite app_length, repeat_length. rewrite skipn_app_exact. rewrite zeros_all_zero.
    destruct Hn as [->|Ht].
    + replace (Nat.leb _ _) with true by (symmetry; apply Nat.leb_le; lia). reflexivity.
    + rewrite Ht. cbn [andb]. destruct (Nat.leb _ _); reflexivity.
  - destruct fuel as [|k]; [cbn in Hf; lia|]. inversion Hw as [|? ? Hr Hl]; subst. destruct Hr as (Hrec & Hnn & Hd).
    specialize (IH (pre ++ snap_rec ds r) (acc ++ snaps_of r) k n Hl ltac:(cbn in Hf; lia) Hn).
    cbn [loop_snap_by_dtc flat_map]. fold ds. rewrite <- app_assoc.
    remember (flat_map (snap_rec ds) l ++ repeat 0 n) as rest eqn:Er.
    pose proof (flat_dids_length_ge pc (snd r) Hd ltac:(lia)) as Hge. fold ds in Hge.
    rewrite skipn_app_exact. rewrite !app_length.
    unfold snap_rec. cbn [app List.length]. rewrite ?app_length.
    replace (Nat.leb _ _) with false by (symmetry; apply Nat.leb_gt; lia).
    rewrite all_zero_second by lia. rewrite andb_false_r.
    replace (Nat.ltb _ 2) with false by (symmetry; apply Nat.ltb_ge; lia).
    unfold at_. cbn [nth]. replace (Z.of_nat (List.length (snd r)) =? 0) with false by lia.
    replace (Nat.ltb _ (2 + ds)) with false by (symmetry; apply Nat.ltb_ge; lia).
    rewrite Nat2Z.id.
    replace (pre ++ fst r :: Z.of_nat (List.length (snd r)) :: flat_map (did_rec ds) (snd r) ++ rest)
      with ((pre ++ [fst r; Z.of_nat (List.length (snd r))]) ++ flat_map (did_rec ds) (snd r) ++ rest)
      by (rewrite <- app_assoc; reflexivity).
    replace (List.length pre + 2)%nat with (List.length (pre ++ [fst r; Z.of_nat (List.length (snd r))])) by (rewrite app_length; reflexivity).
    rewrite (loop_dids_decode pc (fst r) (snd r) _ rest acc Hd). cbn [bind]. fold ds.
    subst rest.
    replace ((pre ++ [fst r; Z.of_nat (List.length (snd r))]) ++ flat_map (did_rec ds) (snd r) ++ flat_map (snap_rec ds) l ++ repeat 0 n)
      with ((pre ++ snap_rec ds r) ++ flat_map (snap_rec ds) l ++ repeat 0 n) by (unfold snap_rec; rewrite <- !app_assoc; reflexivity).
    replace (List.length (pre ++ [fst r; Z.of_nat (List.length (snd r))]) + List.length (flat_map (did_rec ds) (snd r)))%nat
      with (List.length (pre ++ snap_rec ds r)) by (unfold snap_rec; rewrite !app_length; cbn [List.length]; lia).
    fold (snaps_of r). etransitivity; [apply IH|]. rewrite <- app_assoc. reflexivity.
Qed.

Lemma loop_snap_by_dtc_decode pc l pre acc fuel :
  Forall (wf_snap pc) l -> (List.length l < fuel)%nat ->
  loop_snap_by_dtc fuel pc (pre ++ flat_map (snap_rec (Z.to_nat (pc_snap pc))) l) (List.length pre) acc
  = inr (acc ++ flat_map snaps_of l).
Proof.
  intros Hw Hf. pose proof (loop_snap_by_dtc_decode_pad pc l pre acc fuel 0 Hw Hf (or_introl eq_refl)) as H.
  cbn [repeat] in H. rewrite app_nil_r in H. exact H.
Qed.

Lemma snap_recs_length pc l : Forall (wf_snap pc) l ->
  (List.length l <= List.length (flat_map (snap_rec (Z.to_nat (pc_snap pc))) l))%nat.
Proof.
  induction l as [|r l IH]; intros Hw; [cbn; lia|]. inversion Hw; subst. cbn [flat_map List.length]. rewrite app_length.
  specialize (IH ltac:(assumption)). unfold snap_rec at 1. cbn [app List.length]. lia.
Qed.

Lemma vint_in v lo hi : lo <= v <= hi -> validate_int v lo hi = inr tt.
Proof. intros H. unfold validate_int. replace ((v <? lo) || (hi <? v)) with false by lia. reflexivity. Qed.

Lemma csv_4 std_ : check_subfunction_valid std_ 4 = inr tt.
Proof. unfold check_subfunction_valid. reflexivity. Qed.

(* reportDTCSnapshotRecordByDTCNumber (0x04), any edition, any dtc_snapshot_did_size 1..8, any number of records, and any number
   of trailing zero bytes when padding is tolerated *)
Lemma snapshots_by_dtc_decode_pad cfg a dtc st l n :
  0 <= dtc < 16777216 -> 0 <= st < 256 -> 1 <= snap_did cfg <= 8 -> Forall (wf_snap (pc_of cfg)) l ->
  (n = 0%nat \/ tol_pad cfg = true) ->
  rdtci_decode cfg 4 a ([4] ++ be_enc 3 dtc ++ [st] ++ flat_map (snap_rec (Z.to_nat (snap_did cfg))) l ++ repeat 0 n)
  = inr {| r_echo := 4; r_memsel := -1; r_status_av := -1; r_sev_av := -1; r_format := -1; r_fgid := -1; r_count := 1;
           r_dtcs := [dtc_with (mk_dtc dtc) st 0 (-1) (-1) (flat_map snaps_of l) []] |}.
Proof.
  intros Hd Hs Hz Hw Hn. unfold rdtci_decode. rewrite csv_4. cbn [bind app].
  change (in_group "subfunctions_with_memory_selection" 4) with false.
  change (in_group "response_subfn_dtc_availability_mask_plus_dtc_record" 4) with false.
  change (in_group "response_subfn_dtc_availability_mask_plus_dtc_record_with_severity" 4) with false.
  change (in_group "response_subfn_dtc_plus_fault_counter" 4) with false.
  change (in_group "response_subfn_dtc_plus_sapshot_record" 4) with false.
  change (in_group "response_subfn_number_of_dtc" 4) with false.
  change (in_group "response_sbfn_dtc_status_snapshots_records" 4) with true.
  cbv iota. cbn [orb].
  rewrite be_enc_3. cbn [app List.length].
  replace (Nat.ltb _ 5) with false by (symmetry; apply Nat.ltb_ge; lia).
  rewrite vint_in by lia. cbn [bind].
  set (hdr := [4; (dtc / 65536) mod 256; (dtc / 256) mod 256; dtc mod 256; st]).
  change (4 :: (dtc / 65536) mod 256 :: (dtc / 256) mod 256 :: dtc mod 256 :: st :: flat_map (snap_rec (Z.to_nat (snap_did cfg))) l ++ repeat 0 n)
    with (hdr ++ flat_map (snap_rec (Z.to_nat (snap_did cfg))) l ++ repeat 0 n).
  change (1 + 4)%nat with (List.length hdr).
  change (snap_did cfg) with (pc_snap (pc_of cfg)).
  rewrite loop_snap_by_dtc_decode_pad; [|exact Hw|rewrite app_length; pose proof (snap_recs_length (pc_of cfg) l Hw); lia|exact Hn].
  cbn [bind ret app]. unfold hdr. cbn [app skipn]. unfold sub3, at_. cbn [firstn nth Nat.add].
  unfold dtc_with, mk_dtc. cbn [d_id d_status]. rewrite <- be_enc_3.
  rewrite be_dec_enc by (change (256 ^ Z.of_nat 3) with 16777216; lia). reflexivity.
Qed.

Lemma snapshots_by_dtc_decode cfg a dtc st l :
  0 <= dtc < 16777216 -> 0 <= st < 256 -> 1 <= snap_did cfg <= 8 -> Forall (wf_snap (pc_of cfg)) l ->
  rdtci_decode cfg 4 a ([4] ++ be_enc 3 dtc ++ [st] ++ flat_map (snap_rec (Z.to_nat (snap_did cfg))) l)
  = inr {| r_echo := 4; r_memsel := -1; r_status_av := -1; r_sev_av := -1; r_format := -1; r_fgid := -1; r_count := 1;
           r_dtcs := [dtc_with (mk_dtc dtc) st 0 (-1) (-1) (flat_map snaps_of l) []] |}.
Proof.
  intros Hd Hs Hz Hw. pose proof (snapshots_by_dtc_decode_pad cfg a dtc st l 0 Hd Hs Hz Hw (or_introl eq_refl)) as H.
  cbn [repeat] in H. rewrite app_nil_r in H. exact H.
Qed.

(* ---- extended data records of one DTC: (record number 1..255, data of the configured size)* --------------------------- *)
Definition ext_rec (x : Z * bytes) : bytes := fst x :: snd x.
Definition wf_ext (size : nat) (x : Z * bytes) : Prop := 1 <= fst x < 256 /\ List.length (snd x) = size.

Lemma loop_ext_by_dtc_decode_pad pc size : forall l pre acc fuel n,
  Forall (wf_ext size) l -> (List.length l < fuel)%nat -> (n = 0%nat \/ pc_tol pc = true) ->
  loop_ext_by_dtc fuel pc size (pre ++ flat_map ext_rec l ++ repeat 0 n) (List.length pre) acc = inr (acc ++ l).
Proof.
  induction l as [|x l IH]; intros pre acc fuel n Hw Hf Hn.
  - destruct fuel as [|k]; [lia|]. cbn [loop_ext_by_dtc flat_map app]. rewrite app_nil_r.
    rewrite app_length, repeat_length. rewrite skipn_app_exact. rewrite zeros_all_zero.
    destruct Hn as [->|Ht].
    + replace (Nat.leb _ _) with true by (symmetry; apply Nat.leb_le; lia). reflexivity.
    + destruct (Nat.leb _ _); [reflexivity|]. rewrite Ht. cbn [andb].
      destruct n as [|m]; [cbn; reflexivity|]. cbn [repeat]. unfold at_. cbn [nth]. reflexivity.
  - destruct fuel as [|k]; [cbn in Hf; lia|]. inversion Hw as [|? ? Hx Hl]; subst. destruct Hx as (Hr & Hs).
    specialize (IH (pre ++ ext_rec x) (acc ++ [x]) k n Hl ltac:(cbn in Hf; lia) Hn).
    cbn [loop_ext_by_dtc flat_map]. rewrite <- app_assoc. remember (flat_map ext_rec l ++ repeat 0 n) as rest eqn:Er.
    assert (skipn (List.length pre) (pre ++ ext_rec x ++ rest) = fst x :: snd x ++ rest) as F1 by (rewrite skipn_app_exact; reflexivity).
    assert (skipn (List.length pre + 1) (pre ++ ext_rec x ++ rest) = snd x ++ rest) as F2.
    { replace (pre ++ ext_rec x ++ rest) with ((pre ++ [fst x]) ++ snd x ++ rest) by (unfold ext_rec; rewrite <- app_assoc; reflexivity).
      replace (List.length pre + 1)%nat with (List.length (pre ++ [fst x])) by (rewrite app_length; reflexivity). apply skipn_app_exact. }
    rewrite F1, !F2. rewrite !app_length. unfold ext_rec at 1. cbn [List.length].
    replace (Nat.leb _ _) with false by (symmetry; apply Nat.leb_gt; lia).
    unfold at_. cbn [nth]. replace (fst x =? 0) with false by lia.
    replace (Nat.ltb _ size) with false by (symmetry; apply Nat.ltb_ge; lia).
    assert (firstn size (snd x ++ rest) = snd x) as F3 by (rewrite <- Hs; apply firstn_app_exact).
    rewrite F3. subst rest. rewrite app_assoc.
    replace (List.length pre + 1 + size)%nat with (List.length (pre ++ ext_rec x))
      by (unfold ext_rec; rewrite !app_length; cbn [List.length]; lia).
    destruct x as [rn raw]. cbn [fst snd] in *. etransitivity; [apply IH|]. rewrite <- app_assoc. reflexivity.
Qed.

Lemma loop_ext_by_dtc_decode pc size l pre acc fuel :
  Forall (wf_ext size) l -> (List.length l < fuel)%nat ->
  loop_ext_by_dtc fuel pc size (pre ++ flat_map ext_rec l) (List.length pre) acc = inr (acc ++ l).
Proof.
  intros Hw Hf. pose proof (loop_ext_by_dtc_decode_pad pc size l pre acc fuel 0 Hw Hf (or_introl eq_refl)) as H.
  cbn [repeat] in H. rewrite app_nil_r in H. exact H.
Qed.

Lemma csv_6 std_ : check_subfunction_valid std_ 6 = inr tt.
Proof. unfold check_subfunction_valid. reflexivity. Qed.

Lemma ext_recs_length size l : Forall (wf_ext size) l -> (List.length l <= List.length (flat_map ext_rec l))%nat.
Proof.
  induction l as [|x l IH]; intros Hw; [cbn; lia|]. inversion Hw; subst. cbn [flat_map List.length]. rewrite app_length.
  specialize (IH ltac:(assumption)). unfold ext_rec at 1. cbn [List.length]. lia.
Qed.

(* reportDTCExtendedDataRecordByDTCNumber (0x06): any number of extended data records of the configured size, and any number of
   trailing zero bytes when padding is tolerated *)
Lemma extdata_by_dtc_decode_pad cfg a dtc st size l n :
  0 <= dtc < 16777216 -> 0 <= st < 256 -> ext_size_of cfg a = inr size -> Forall (wf_ext size) l ->
  (n = 0%nat \/ tol_pad cfg = true) ->
  rdtci_decode cfg 6 a ([6] ++ be_enc 3 dtc ++ [st] ++ flat_map ext_rec l ++ repeat 0 n)
  = inr {| r_echo := 6; r_memsel := -1; r_status_av := -1; r_sev_av := -1; r_format := -1; r_fgid := -1; r_count := 1;
           r_dtcs := [dtc_with (mk_dtc dtc) st 0 (-1) (-1) [] l] |}.
Proof.
  intros Hd Hs Hz Hw Hn. unfold rdtci_decode. rewrite csv_6. cbn [bind app].
  change (in_group "subfunctions_with_memory_selection" 6) with false.
  change (in_group "response_subfn_dtc_availability_mask_plus_dtc_record" 6) with false.
  change (in_group "response_subfn_dtc_availability_mask_plus_dtc_record_with_severity" 6) with false.
  change (in_group "response_subfn_dtc_plus_fault_counter" 6) with false.
  change (in_group "response_subfn_dtc_plus_sapshot_record" 6) with false.
  change (in_group "response_subfn_number_of_dtc" 6) with false.
  change (in_group "response_sbfn_dtc_status_snapshots_records" 6) with false.
  change (in_group "response_sbfn_dtc_status_snapshots_records_record_first" 6) with false.
  change (in_group "response_subfn_mask_record_plus_extdata" 6) with true.
  cbv iota. cbn [orb]. rewrite Hz. cbn [bind].
  rewrite be_enc_3. cbn [app List.length].
  replace (Nat.ltb _ 5) with false by (symmetry; apply Nat.ltb_ge; lia).
  set (hdr := [6; (dtc / 65536) mod 256; (dtc / 256) mod 256; dtc mod 256; st]).
  change (6 :: (dtc / 65536) mod 256 :: (dtc / 256) mod 256 :: dtc mod 256 :: st :: flat_map ext_rec l ++ repeat 0 n)
    with (hdr ++ flat_map ext_rec l ++ repeat 0 n).
  change (1 + 4)%nat with (List.length hdr).
  rewrite loop_ext_by_dtc_decode_pad; [|exact Hw|rewrite app_length; pose proof (ext_recs_length size l Hw); lia|exact Hn].
  cbn [bind ret app]. unfold hdr. cbn [app skipn]. unfold sub3, at_. cbn [firstn nth Nat.add].
  unfold dtc_with, mk_dtc. cbn [d_id d_status]. rewrite <- be_enc_3.
  rewrite be_dec_enc by (change (256 ^ Z.of_nat 3) with 16777216; lia). reflexivity.
Qed.

Lemma extdata_by_dtc_decode cfg a dtc st size l :
  0 <= dtc < 16777216 -> 0 <= st < 256 -> ext_size_of cfg a = inr size -> Forall (wf_ext size) l ->
  rdtci_decode cfg 6 a ([6] ++ be_enc 3 dtc ++ [st] ++ flat_map ext_rec l)
  = inr {| r_echo := 6; r_memsel := -1; r_status_av := -1; r_sev_av := -1; r_format := -1; r_fgid := -1; r_count := 1;
           r_dtcs := [dtc_with (mk_dtc dtc) st 0 (-1) (-1) [] l] |}.
Proof.
  intros Hd Hs Hz Hw. pose proof (extdata_by_dtc_decode_pad cfg a dtc st size l 0 Hd Hs Hz Hw (or_introl eq_refl)) as H.
  cbn [repeat] in H. rewrite app_nil_r in H. exact H.
Qed.

(* ---- severity records: (severity, functional unit, DTC, status)* in 6 bytes (subfunctions 0x08, 0x09) ------------------- *)
Definition rec6 (x : Z * Z * Z * Z) : bytes := let '(sv, fu, id, stt) := x in [sv; fu] ++ be_enc 3 id ++ [stt].
Definition dtc6 (x : Z * Z * Z * Z) : dtc := let '(sv, fu, id, stt) := x in dtc_with (mk_dtc id) stt (Z.land sv 224) fu (-1) [] [].
Definition wf_rec6 (x : Z * Z * Z * Z) : Prop :=
  let '(sv, fu, id, stt) := x in 0 <= sv < 256 /\ 0 <= fu < 256 /\ 0 <= id < 16777216 /\ 0 <= stt < 256.

Lemma rec6_length x : List.length (rec6 x) = 6%nat.
Proof. destruct x as [[[sv fu] id] stt]. unfold rec6. rewrite !app_length, be_enc_length. reflexivity. Qed.

Lemma rec6_all_zero x : wf_rec6 x -> all_zero (rec6 x) = true -> x = (0, 0, 0, 0).
Proof.
  destruct x as [[[sv fu] id] stt]. intros (H1 & H2 & H3 & H4). unfold rec6. rewrite be_enc_3. cbn [app all_zero forallb].
  intros H. repeat f_equal; lia.
Qed.

Lemma loop_records6_step k pc sub pre x rest acc :
  wf_rec6 x -> (all_zero (rec6 x) && pc_ign pc = false) ->
  loop_records (S k) pc sub true (pre ++ rec6 x ++ rest) (List.length pre) acc
  = loop_records k pc sub true ((pre ++ rec6 x) ++ rest) (List.length (pre ++ rec6 x)) (acc ++ [dtc6 x]).
Proof.
  intros Hw Hz. cbn [loop_records]. rewrite !app_length, rec6_length.
  replace (Nat.leb _ _) with false by (symmetry; apply Nat.leb_gt; lia).
  replace (Nat.ltb _ _) with false by (symmetry; apply Nat.ltb_ge; lia).
  rewrite skipn_app_exact.
  assert (firstn 6 (rec6 x ++ rest) = rec6 x) as F by (rewrite <- (rec6_length x) at 1; apply firstn_app_exact).
  rewrite F, Hz. destruct x as [[[sv fu] id] stt]. destruct Hw as (H1 & H2 & H3 & H4).
  unfold dtc6, rec6. rewrite be_enc_3. cbn [app skipn]. unfold sub3, at_. cbn [firstn nth].
  rewrite <- be_enc_3. rewrite be_dec_enc by (change (256 ^ Z.of_nat 3) with 16777216; lia).
  rewrite <- app_assoc. reflexivity.
Qed.

Lemma loop_records6_skip_zero k pc sub pre rest acc : pc_ign pc = true ->
  loop_records (S k) pc sub true (pre ++ [0; 0; 0; 0; 0; 0] ++ rest) (List.length pre) acc
  = loop_records k pc sub true ((pre ++ [0; 0; 0; 0; 0; 0]) ++ rest) (List.length (pre ++ [0; 0; 0; 0; 0; 0])) acc.
Proof.
  intros Hi. cbn [loop_records]. rewrite !app_length. cbn [List.length].
  replace (Nat.leb _ _) with false by (symmetry; apply Nat.leb_gt; lia).
  replace (Nat.ltb _ _) with false by (symmetry; apply Nat.ltb_ge; lia).
  rewrite skipn_app_exact. cbn [firstn app all_zero forallb Z.eqb andb]. rewrite Hi. rewrite <- app_assoc. reflexivity.
Qed.

Lemma loop_records6_padding pc sub pre acc : forall n fuel,
  (n < fuel)%nat -> pc_tol pc = true -> pc_ign pc = true ->
  loop_records fuel pc sub true (pre ++ repeat 0 n) (List.length pre) acc = inr acc.
Proof.
  intros n. revert pre. induction n as [n IH] using lt_wf_ind. intros pre fuel Hf Ht Hi.
  destruct fuel as [|k]; [lia|].
  destruct n as [|[|[|[|[|[|m]]]]]].
  - cbn [loop_records repeat]. rewrite app_nil_r. replace (Nat.leb _ _) with true by (symmetry; apply Nat.leb_le; lia). reflexivity.
  - cbn [loop_records]. rewrite app_length. cbn [repeat List.length].
    replace (Nat.leb _ _) with false by (symmetry; apply Nat.leb_gt; lia).
    replace (Nat.ltb _ _) with true by (symmetry; apply Nat.ltb_lt; lia).
    rewrite skipn_app_exact, Ht. reflexivity.
  - cbn [loop_records]. rewrite app_length. cbn [repeat List.length].
    replace (Nat.leb _ _) with false by (symmetry; apply Nat.leb_gt; lia).
    replace (Nat.ltb _ _) with true by (symmetry; apply Nat.ltb_lt; lia).
    rewrite skipn_app_exact, Ht. reflexivity.
  - cbn [loop_records]. rewrite app_length. cbn [repeat List.length].
    replace (Nat.leb _ _) with false by (symmetry; apply Nat.leb_gt; lia).
    replace (Nat.ltb _ _) with true by (symmetry; apply Nat.ltb_lt; lia).
    rewrite skipn_app_exact, Ht. reflexivity.
  - cbn [loop_records]. rewrite app_length. cbn [repeat List.length].
    replace (Nat.leb _ _) with false by (symmetry; apply Nat.leb_gt; lia).
    replace (Nat.ltb _ _) with true by (symmetry; apply Nat.ltb_lt; lia).
    rewrite skipn_app_exact, Ht. reflexivity.
  - cbn [loop_records]. rewrite app_length. cbn [repeat List.length].
    replace (Nat.leb _ _) with false by (symmetry; apply Nat.leb_gt; lia).
    replace (Nat.ltb _ _) with true by (symmetry; apply Nat.ltb_lt; lia).
    rewrite skipn_app_exact, Ht. reflexivity.
  - change (repeat 0 (S (S (S (S (S (S m))))))) with ([0; 0; 0; 0; 0; 0] ++ repeat 0 m).
    rewrite loop_records6_skip_zero by exact Hi. apply IH; [lia|lia|exact Ht|exact Hi].
Qed.

(* any number of severity records, then any number of zero bytes (none, or both padding settings on): severity bits 5..7,
   functional unit, 24-bit identifier and status of every record come back, in order *)
Lemma loop_records6_decode pc sub l pre acc n fuel :
  Forall wf_rec6 l -> (pc_ign pc = true -> Forall (fun x => x <> (0, 0, 0, 0)) l) ->
  (n = 0%nat \/ (pc_tol pc = true /\ pc_ign pc = true)) ->
  (List.length l + n < fuel)%nat ->
  loop_records fuel pc sub true (pre ++ flat_map rec6 l ++ repeat 0 n) (List.length pre) acc = inr (acc ++ map dtc6 l).
Proof.
  revert pre acc fuel. induction l as [|x l IH]; intros pre acc fuel Hw Hz Hn Hf.
  - cbn [flat_map map app]. rewrite app_nil_r. destruct Hn as [->|[Ht Hi]].
    + destruct fuel as [|k]; [lia|]. cbn [repeat loop_records]. rewrite app_nil_r.
      replace (Nat.leb _ _) with true by (symmetry; apply Nat.leb_le; lia). reflexivity.
    + apply loop_records6_padding; [cbn in Hf; lia|exact Ht|exact Hi].
  - destruct fuel as [|k]; [cbn in Hf; lia|]. inversion Hw as [|? ? Hx Hl]; subst.
    cbn [flat_map]. rewrite <- app_assoc.
    rewrite loop_records6_step; [|exact Hx|].
    + rewrite IH; auto; [|intros Hi; specialize (Hz Hi); inversion Hz; assumption|cbn in Hf; lia]. cbn [map]. rewrite <- app_assoc. reflexivity.
    + destruct (pc_ign pc) eqn:Ei; [|apply andb_false_r]. rewrite andb_true_r.
      destruct (all_zero (rec6 x)) eqn:Ea; [|reflexivity].
      apply rec6_all_zero in Ea; [|exact Hx]. specialize (Hz eq_refl). inversion Hz; congruence.
Qed.

(* ---- (DTC, fault counter)* in 4 bytes (subfunction 0x14) ---------------------------------------------------------------- *)
Definition dtcf (x : Z * Z) : dtc := dtc_with (mk_dtc (fst x)) 0 0 (-1) (snd x) [] [].

Lemma loop_pairs_step k pc pre x rest acc :
  wf_rec4 x -> (all_zero (rec4 x) && pc_ign pc = false) ->
  loop_pairs (S k) pc true (pre ++ rec4 x ++ rest) (List.length pre) acc
  = loop_pairs k pc true ((pre ++ rec4 x) ++ rest) (List.length (pre ++ rec4 x)) (acc ++ [dtcf x]).
Proof.
  intros Hw Hz. cbn [loop_pairs]. rewrite !app_length, rec4_length.
  replace (Nat.leb _ _) with false by (symmetry; apply Nat.leb_gt; lia).
  replace (Nat.ltb _ _) with false by (symmetry; apply Nat.ltb_ge; lia).
  rewrite skipn_app_exact.
  assert (firstn 4 (rec4 x ++ rest) = rec4 x) as F by (rewrite <- (rec4_length x) at 1; apply firstn_app_exact).
  rewrite F, Hz. destruct (sub3_rec4 x [] Hw) as [E1 E2]. rewrite app_nil_r in E1, E2.
  unfold dtcf. rewrite E1, E2. rewrite <- app_assoc. reflexivity.
Qed.

Lemma loop_pairs_skip_zero k pc f pre rest acc : pc_ign pc = true ->
  loop_pairs (S k) pc f (pre ++ [0; 0; 0; 0] ++ rest) (List.length pre) acc
  = loop_pairs k pc f ((pre ++ [0; 0; 0; 0]) ++ rest) (List.length (pre ++ [0; 0; 0; 0])) acc.
Proof.
  intros Hi. cbn [loop_pairs]. rewrite !app_length. cbn [List.length].
  replace (Nat.leb _ _) with false by (symmetry; apply Nat.leb_gt; lia).
  replace (Nat.ltb _ _) with false by (symmetry; apply Nat.ltb_ge; lia).
  rewrite skipn_app_exact. cbn [firstn app all_zero forallb Z.eqb andb]. rewrite Hi. rewrite <- app_assoc. reflexivity.
Qed.

Lemma loop_pairs_padding pc f pre acc : forall n fuel,
  (n < fuel)%nat -> pc_tol pc = true -> pc_ign pc = true ->
  loop_pairs fuel pc f (pre ++ repeat 0 n) (List.length pre) acc = inr acc.
Proof.
  intros n. revert pre. induction n as [n IH] using lt_wf_ind. intros pre fuel Hf Ht Hi.
  destruct fuel as [|k]; [lia|].
  destruct n as [|[|[|[|m]]]].
  - cbn [loop_pairs repeat]. rewrite app_nil_r. replace (Nat.leb _ _) with true by (symmetry; apply Nat.leb_le; lia). reflexivity.
  - cbn [loop_pairs]. rewrite app_length. cbn [repeat List.length].
    replace (Nat.leb _ _) with false by (symmetry; apply Nat.leb_gt; lia).
    replace (Nat.ltb _ _) with true by (symmetry; apply Nat.ltb_lt; lia).
    rewrite skipn_app_exact, Ht. reflexivity.
  - cbn [loop_pairs]. rewrite app_length. cbn [repeat List.length].
    replace (Nat.leb _ _) with false by (symmetry; apply Nat.leb_gt; lia).
    replace (Nat.ltb _ _) with true by (symmetry; apply Nat.ltb_lt; lia).
    rewrite skipn_app_exact, Ht. reflexivity.
  - cbn [loop_pairs]. rewrite app_length. cbn [repeat List.length].
    replace (Nat.leb _ _) with false by (symmetry; apply Nat.leb_gt; lia).
    replace (Nat.ltb _ _) with true by (symmetry; apply Nat.ltb_lt; lia).
    rewrite skipn_app_exact, Ht. reflexivity.
  - change (repeat 0 (S (S (S (S m))))) with ([0; 0; 0; 0] ++ repeat 0 m).
    rewrite loop_pairs_skip_zero by exact Hi. apply IH; [lia|lia|exact Ht|exact Hi].
Qed.

Lemma loop_fault_counters_decode pc l pre acc n fuel :
  Forall wf_rec4 l -> (pc_ign pc = true -> Forall (fun x => x <> (0, 0)) l) ->
  (n = 0%nat \/ (pc_tol pc = true /\ pc_ign pc = true)) ->
  (List.length l + n < fuel)%nat ->
  loop_pairs fuel pc true (pre ++ recs4 l ++ repeat 0 n) (List.length pre) acc = inr (acc ++ map dtcf l).
Proof.
  revert pre acc fuel. induction l as [|x l IH]; intros pre acc fuel Hw Hz Hn Hf.
  - cbn [recs4 flat_map map app]. rewrite app_nil_r. destruct Hn as [->|[Ht Hi]].
    + destruct fuel as [|k]; [lia|]. cbn [repeat loop_pairs]. rewrite app_nil_r.
      replace (Nat.leb _ _) with true by (symmetry; apply Nat.leb_le; lia). reflexivity.
    + apply loop_pairs_padding; [cbn in Hf; lia|exact Ht|exact Hi].
  - destruct fuel as [|k]; [cbn in Hf; lia|]. inversion Hw as [|? ? Hx Hl]; subst.
    cbn [recs4 flat_map]. fold (recs4 l). rewrite <- app_assoc.
    rewrite loop_pairs_step; [|exact Hx|].
    + rewrite IH; auto; [|intros Hi; specialize (Hz Hi); inversion Hz; assumption|cbn in Hf; lia]. cbn [map]. rewrite <- app_assoc. reflexivity.
    + destruct (pc_ign pc) eqn:Ei; [|apply andb_false_r]. rewrite andb_true_r.
      destruct (all_zero (rec4 x)) eqn:Ea; [|reflexivity].
      apply rec4_all_zero in Ea; [|exact Hx]. specialize (Hz eq_refl). inversion Hz; congruence.
Qed.

(* ---- snapshots by record number (0x05): (record number, DTC, status, number of DIDs, DIDs)* ----------------------------- *)
Definition srec (ds : nat) (r : Z * Z * Z * list (Z * bytes)) : bytes :=
  let '(rn, id, stt, dl) := r in [rn] ++ be_enc 3 id ++ [stt; Z.of_nat (List.length dl)] ++ flat_map (did_rec ds) dl.
Definition wf_srec (pc : pcfg) (r : Z * Z * Z * list (Z * bytes)) : Prop :=
  let '(rn, id, stt, dl) := r in
  0 <= rn < 256 /\ 0 <= id < 16777216 /\ 0 <= stt < 256 /\ (1 <= List.length dl <= 255)%nat /\ Forall (wf_sdid pc) dl /\
  (exists x tl, dl = x :: tl /\ 0 < fst x).
Definition dtc_of_srec (r : Z * Z * Z * list (Z * bytes)) : dtc :=
  let '(rn, id, stt, dl) := r in dtc_with (mk_dtc id) stt 0 (-1) (-1) (map (snap_of rn) dl) [].

Lemma be_dec_acc_zeros l : all_zero l = true -> forall acc, be_dec_acc acc l = acc * 256 ^ Z.of_nat (List.length l).
Proof.
  induction l as [|a l IH]; intros H acc; cbn [be_dec_acc List.length].
  - cbn. lia.
  - unfold all_zero in H. cbn [forallb] in H. apply andb_true_iff in H as [Ha Hl]. rewrite (IH Hl).
    rewrite Nat2Z.inj_succ, Z.pow_succ_r by lia. assert (a = 0) as -> by lia. ring.
Qed.

Lemma be_enc_not_all_zero n v rest : 0 < v < 256 ^ Z.of_nat n -> all_zero (be_enc n v ++ rest) = false.
Proof.
  intros Hv. destruct (all_zero (be_enc n v ++ rest)) eqn:E; [|reflexivity]. exfalso.
  assert (all_zero (be_enc n v) = true) as E1.
  { unfold all_zero in *. rewrite forallb_app in E. apply andb_true_iff in E. tauto. }
  pose proof (be_dec_acc_zeros _ E1 0) as E2. fold (be_dec (be_enc n v)) in E2.
  rewrite be_dec_enc in E2 by lia. lia.
Qed.

Lemma srec_shape ds rn id stt dl :
  srec ds (rn, id, stt, dl) = [rn; (id / 65536) mod 256; (id / 256) mod 256; id mod 256; stt; Z.of_nat (List.length dl)] ++ flat_map (did_rec ds) dl.
Proof. unfold srec. rewrite be_enc_3. reflexivity. Qed.

Lemma all_zero_app a b : all_zero (a ++ b) = all_zero a && all_zero b.
Proof. unfold all_zero. apply forallb_app. Qed.

Lemma loop_snap_by_rec_decode pc : forall l pre acc fuel n,
  Forall (wf_srec pc) l -> (List.length l < fuel)%nat -> (n = 0%nat \/ pc_tol pc = true) ->
  loop_snap_by_rec fuel pc (pre ++ flat_map (srec (Z.to_nat (pc_snap pc))) l ++ repeat 0 n) (List.length pre) acc
  = inr (acc ++ map dtc_of_srec l).
Proof.
  set (ds := Z.to_nat (pc_snap pc)).
  induction l as [|r l IH]; intros pre acc fuel n Hw Hf Hn.
  - destruct fuel as [|k]; [lia|]. cbn [loop_snap_by_rec flat_map app map]. rewrite app_nil_r.
    rewrite app_length, repeat_length. rewrite skipn_app_exact. rewrite zeros_all_zero.
    destruct Hn as [->|Ht].
    + replace (Nat.leb _ _) with true by (symmetry; apply Nat.leb_le; lia). reflexivity.
    + rewrite Ht. cbn [andb]. destruct (Nat.leb _ _); reflexivity.
  - destruct fuel as [|k]; [cbn in Hf; lia|]. inversion Hw as [|? ? Hr Hl]; subst.
    destruct r as [[[rn id] stt] dl]. destruct Hr as (H1 & H2 & H3 & H4 & Hd & (x0 & tl0 & Edl & Hx0)).
    specialize (IH (pre ++ srec ds (rn, id, stt, dl)) (acc ++ [dtc_of_srec (rn, id, stt, dl)]) k n Hl ltac:(cbn in Hf; lia) Hn).
    cbn [loop_snap_by_rec flat_map]. fold ds. rewrite <- app_assoc.
    remember (flat_map (srec ds) l ++ repeat 0 n) as rest eqn:Er.
    pose proof (flat_dids_length_ge pc dl Hd ltac:(lia)) as Hge. fold ds in Hge.
    assert (all_zero (flat_map (did_rec ds) dl ++ rest) = false) as Hnz.
    { subst dl. cbn [flat_map]. unfold did_rec at 1. rewrite <- !app_assoc. apply be_enc_not_all_zero.
      inversion Hd as [|? ? Hx _]; subst. destruct Hx as [Hb _]. fold ds in Hb. lia. }
    set (hd6 := [rn; (id / 65536) mod 256; (id / 256) mod 256; id mod 256; stt; Z.of_nat (List.length dl)]).
    set (dids := flat_map (did_rec ds) dl) in *.
    assert (srec ds (rn, id, stt, dl) ++ rest = hd6 ++ dids ++ rest) as ER by (rewrite srec_shape; fold hd6; fold dids; rewrite <- app_assoc; reflexivity).
    rewrite ER.
    assert (skipn (List.length pre) (pre ++ hd6 ++ dids ++ rest) = hd6 ++ dids ++ rest) as F0 by apply skipn_app_exact.
    assert (skipn (List.length pre + 6) (pre ++ hd6 ++ dids ++ rest) = dids ++ rest) as F6.
    { replace (pre ++ hd6 ++ dids ++ rest) with ((pre ++ hd6) ++ dids ++ rest) by (rewrite <- app_assoc; reflexivity).
      replace (List.length pre + 6)%nat with (List.length (pre ++ hd6)) by (rewrite app_length; reflexivity). apply skipn_app_exact. }
    assert (all_zero (hd6 ++ dids ++ rest) = false) as Z0.
    { rewrite all_zero_app. unfold hd6. cbn [all_zero forallb]. replace (0 =? Z.of_nat (List.length dl)) with false by lia. rewrite !andb_false_r. reflexivity. }
    assert (all_zero (skipn 1 (hd6 ++ dids ++ rest)) = false) as Z1.
    { unfold hd6. cbn [app skipn]. cbn [all_zero forallb]. replace (0 =? Z.of_nat (List.length dl)) with false by lia. rewrite !andb_false_r. reflexivity. }
    assert (List.length (hd6 ++ dids ++ rest) = (6 + (List.length dids + List.length rest))%nat) as L0 by (rewrite !app_length; reflexivity).
    rewrite !F0, !F6, Z0, Z1, Hnz. rewrite !L0. rewrite !app_length. change (List.length hd6) with 6%nat.
    replace (Nat.leb _ _) with false by (symmetry; apply Nat.leb_gt; cbn [List.length]; lia).
    rewrite !andb_false_r. cbn [andb].
    replace (Nat.eqb _ 1) with false by (symmetry; apply Nat.eqb_neq; lia). cbn [orb].
    replace (Nat.ltb _ 6) with false by (symmetry; apply Nat.ltb_ge; lia).
    replace (Nat.ltb _ ds) with false by (symmetry; apply Nat.ltb_ge; lia).
    assert (at_ (hd6 ++ dids ++ rest) 5 = Z.of_nat (List.length dl)) as A5 by reflexivity.
    assert (at_ (hd6 ++ dids ++ rest) 0 = rn) as A0 by reflexivity.
    assert (at_ (hd6 ++ dids ++ rest) 4 = stt) as A4 by reflexivity.
    assert (sub3 (skipn 1 (hd6 ++ dids ++ rest)) = id) as A3.
    { unfold hd6, sub3. cbn [app skipn firstn]. rewrite <- be_enc_3. apply be_dec_enc. change (256 ^ Z.of_nat 3) with 16777216. lia. }
    rewrite A5, A0, A4, A3. replace (Z.of_nat (List.length dl) =? 0) with false by lia. rewrite Nat2Z.id.
    replace (pre ++ hd6 ++ dids ++ rest) with ((pre ++ hd6) ++ dids ++ rest) by (rewrite <- app_assoc; reflexivity).
    replace (List.length pre + 6)%nat with (List.length (pre ++ hd6)) by (rewrite app_length; reflexivity).
    unfold dids. rewrite (loop_dids_decode pc rn dl _ rest [] Hd). cbn [bind app]. fold ds. fold dids.
    subst rest.
    replace ((pre ++ hd6) ++ dids ++ flat_map (srec ds) l ++ repeat 0 n)
      with ((pre ++ srec ds (rn, id, stt, dl)) ++ flat_map (srec ds) l ++ repeat 0 n)
      by (rewrite srec_shape; fold hd6; fold dids; rewrite <- !app_assoc; reflexivity).
    replace (List.length (pre ++ hd6) + List.length dids)%nat with (List.length (pre ++ srec ds (rn, id, stt, dl)))
      by (rewrite srec_shape; fold hd6; fold dids; rewrite !app_length; lia).
    etransitivity; [apply IH|]. cbn [map]. rewrite <- app_assoc. reflexivity.
Qed.

(* ---- extended data by record number (0x16): record number, then (DTC, status, data of the configured size)*, DTCs distinct ---- *)
Definition erec (x : Z * Z * bytes) : bytes := let '(id, stt, raw) := x in be_enc 3 id ++ [stt] ++ raw.
Definition wf_erec (size : nat) (x : Z * Z * bytes) : Prop :=
  let '(id, stt, raw) := x in 0 < id < 16777216 /\ 0 <= stt < 256 /\ List.length raw = size.
Definition dtc_of_erec (recnum : Z) (x : Z * Z * bytes) : dtc :=
  let '(id, stt, raw) := x in dtc_with (mk_dtc id) stt 0 (-1) (-1) [] [(recnum, raw)].
Definition eid (x : Z * Z * bytes) : Z := fst (fst x).

Lemma existsb_ids_false acc id : (forall y, In y acc -> d_id y <> id) -> existsb (fun x => d_id x =? id) acc = false.
Proof.
  induction acc as [|y acc IH]; intros H; [reflexivity|]. cbn [existsb].
  replace (d_id y =? id) with false by (specialize (H y (or_introl eq_refl)); lia). apply IH. intros z Hz. apply H. right. exact Hz.
Qed.

Lemma loop_ext_by_rec_decode pc size recnum : forall l pre acc fuel n,
  Forall (wf_erec size) l -> NoDup (map eid l) -> (forall y, In y acc -> ~ In (d_id y) (map eid l)) ->
  (List.length l < fuel)%nat ->
  (n = 0%nat \/ (pc_tol pc = true /\ (pc_ign pc = true \/ (n < size + 4)%nat))) ->
  loop_ext_by_rec fuel pc size recnum (pre ++ flat_map erec l ++ repeat 0 n) (List.length pre) acc
  = inr (acc ++ map (dtc_of_erec recnum) l).
Proof.
  induction l as [|x l IH]; intros pre acc fuel n Hw Hnd Hacc Hf Hn.
  - destruct fuel as [|k]; [lia|]. cbn [loop_ext_by_rec flat_map app map]. rewrite app_nil_r.
    rewrite app_length, repeat_length. rewrite skipn_app_exact. rewrite zeros_all_zero. rewrite ?repeat_length.
    destruct Hn as [->|[Ht Hi]].
    + replace (Nat.eqb _ _) with true by (symmetry; apply Nat.eqb_eq; lia). reflexivity.
    + destruct (Nat.eqb _ _); [reflexivity|]. cbn [andb].
      replace (negb (Nat.leb (size + 4) n && negb (pc_ign pc))) with true.
      * rewrite Ht. reflexivity.
      * symmetry. destruct Hi as [Hi|Hi]; [rewrite Hi; cbn [negb]; rewrite andb_false_r; reflexivity|].
        replace (Nat.leb (size + 4) n) with false by (symmetry; apply Nat.leb_gt; lia). reflexivity.
  - destruct fuel as [|k]; [cbn in Hf; lia|]. inversion Hw as [|? ? Hx Hl]; subst.
    destruct x as [[id stt] raw]. destruct Hx as (H1 & H2 & H3).
    cbn [map eid fst] in Hnd, Hacc. apply NoDup_cons_iff in Hnd as [Hnotin Hnd'].
    specialize (IH (pre ++ erec (id, stt, raw)) (acc ++ [dtc_of_erec recnum (id, stt, raw)]) k n Hl Hnd').
    cbn [loop_ext_by_rec flat_map]. rewrite <- app_assoc.
    remember (flat_map erec l ++ repeat 0 n) as rest eqn:Er.
    assert (erec (id, stt, raw) ++ rest = be_enc 3 id ++ [stt] ++ raw ++ rest) as ER by (unfold erec; rewrite <- !app_assoc; reflexivity).
    rewrite ER.
    assert (skipn (List.length pre) (pre ++ be_enc 3 id ++ [stt] ++ raw ++ rest) = be_enc 3 id ++ [stt] ++ raw ++ rest) as F0 by apply skipn_app_exact.
    rewrite !F0. rewrite !app_length, be_enc_length. cbn [List.length].
    replace (Nat.eqb _ _) with false by (symmetry; apply Nat.eqb_neq; lia).
    rewrite (be_enc_not_all_zero 3 id) by (change (256 ^ Z.of_nat 3) with 16777216; lia). cbn [andb].
    replace (Nat.ltb _ 4) with false by (symmetry; apply Nat.ltb_ge; lia).
    assert (sub3 (be_enc 3 id ++ [stt] ++ raw ++ rest) = id) as A3.
    { unfold sub3. rewrite <- (be_enc_length 3 id) at 1. rewrite firstn_app_exact. apply be_dec_enc. change (256 ^ Z.of_nat 3) with 16777216. lia. }
    assert (at_ (be_enc 3 id ++ [stt] ++ raw ++ rest) 3 = stt) as A4 by (rewrite be_enc_3; reflexivity).
    assert (firstn size (skipn 4 (be_enc 3 id ++ [stt] ++ raw ++ rest)) = raw) as A5.
    { rewrite be_enc_3. cbn [app skipn]. rewrite <- H3. apply firstn_app_exact. }
    rewrite A3, A4, A5.
    rewrite existsb_ids_false by (intros y Hy Hc; apply (Hacc y Hy); left; symmetry; exact Hc).
    replace (Nat.ltb _ size) with false by (symmetry; apply Nat.ltb_ge; lia).
    subst rest.
    replace (pre ++ be_enc 3 id ++ [stt] ++ raw ++ flat_map erec l ++ repeat 0 n)
      with ((pre ++ erec (id, stt, raw)) ++ flat_map erec l ++ repeat 0 n) by (unfold erec; rewrite <- !app_assoc; reflexivity).
    replace (List.length pre + 4 + size)%nat with (List.length (pre ++ erec (id, stt, raw)))
      by (unfold erec; rewrite !app_length, be_enc_length; cbn [List.length]; lia).
    etransitivity; [apply IH|].
    + intros y Hy Hin. apply in_app_or in Hy as [Hy|Hy].
      * apply (Hacc y Hy). right. exact Hin.
      * destruct Hy as [<-|[]]. cbn [dtc_of_erec dtc_with mk_dtc d_id] in Hin. exact (Hnotin Hin).
    + cbn in Hf; lia.
    + exact Hn.
    + cbn [map]. rewrite <- app_assoc. reflexivity.
Qed.

(* ---- non-vacuity: premises are inhabited, results are non-degenerate (closed by computation) ------------------ *)
Definition nv_pc : pcfg := {| pc_tol := true; pc_ign := true; pc_snap := 2; pc_dids := [(61840, 3); (258, 1)] |}.
Definition nv_snaps : list (Z * list (Z * bytes)) := [(1, [(61840, [65; 66; 67]); (258, [9])]); (2, [(258, [0])])].
Example nv_snaps_wf : Forall (wf_snap nv_pc) nv_snaps.
Proof.
  repeat constructor; cbn; try lia; try (eexists; split; [reflexivity|cbn; lia]).
Qed.
Example nv_snaps_decode :
  loop_snap_by_dtc 10 nv_pc ([4; 18; 52; 86; 47] ++ flat_map (snap_rec 2) nv_snaps ++ repeat 0 5) 5 []
  = inr [SnapDid 1 61840 [65; 66; 67]; SnapDid 1 258 [9]; SnapDid 2 258 [0]].
Proof. vm_compute. reflexivity. Qed.
Example nv_ext_by_record :
  loop_ext_by_rec 10 nv_pc 2 18 ([22; 18] ++ flat_map erec [(1193046, 47, [1; 2]); (7, 8, [0; 0])] ++ repeat 0 5) 2 []
  = inr (map (dtc_of_erec 18) [(1193046, 47, [1; 2]); (7, 8, [0; 0])]).
Proof. vm_compute. reflexivity. Qed.
Example nv_severity :
  loop_records 10 nv_pc 8 true ([8; 255] ++ flat_map rec6 [(224, 3, 1193046, 47); (31, 0, 1, 0)] ++ repeat 0 7) 2 []
  = inr (map dtc6 [(224, 3, 1193046, 47); (31, 0, 1, 0)]).
Proof. vm_compute. reflexivity. Qed.
