(* read_data_by_identifier with SYMBOLIC identifiers against a configured table (Gen/Fn_Did.v), as executed up to send_request: identifiers
   outside 0..0xFFFF refused (ValueError), identifiers the table does not serve refused (ConfigError) unless it has a 'default' entry,
   a codec that reads all the remaining data only in last position (ValueError) - the model's rdbi_make (C07, C01). *)
From Coq Require Import ZArith List Bool String Lia ZifyBool.
From UDS Require Import Lib.Bytes Lib.ErrM Lib.PyOps Gen.Fn_Did Model.Message Model.Client Model.Services Model.Helpers Model.Svc_Simple Model.Svc_Did
  Proofs.Tie_common Proofs.Tie_simple_common.
Import ListNotations.
Open Scope Z_scope.

Definition table : list (Z * Z) := [(61840, 3); (258, 1); (65535, -1)].          (* 0xF190: 3 bytes, 0x0102: 1 byte, 0xFFFF: reads all *)
Definition table_default : list (Z * Z) := table ++ [(-1, 2)].                  (* ... and a 'default' entry of 2 bytes *)

Ltac did_tac Hd :=
  unfold payload_of, rdbi_make, readall_rule, fetch_codec, lookup, pc_of, mk_req_data, mk_req, validate_int; cbn [iterM pack_dids pc_dids];
  rewrite Hd; unfold table_default, table; cbn [find app]; eval_svc;
  repeat (progress (msimpl; cbn [iterM pack_dids find]; unfold guard; packs; split_ifs)); rewrite ?app_nil_r; cbn [app]; finish.

Theorem tie_rdbi_request_1 cfg d1 : dids cfg = table -> fn_rdbi_request_1 d1 = payload_of (rdbi_make cfg true [d1]).
Proof. intros Hd. unfold fn_rdbi_request_1. did_tac Hd. Qed.
Theorem tie_rdbi_request_2 cfg d1 d2 : dids cfg = table -> fn_rdbi_request_2 d1 d2 = payload_of (rdbi_make cfg true [d1; d2]).
Proof. intros Hd. unfold fn_rdbi_request_2. did_tac Hd. Qed.
Theorem tie_rdbi_request_2_default cfg d1 d2 : dids cfg = table_default ->
  fn_rdbi_request_2_default d1 d2 = payload_of (rdbi_make cfg true [d1; d2]).
Proof. intros Hd. unfold fn_rdbi_request_2_default. did_tac Hd. Qed.
