(* ... what the context managers leave behind and put on the wire: a bare `with client.suppress_positive_response:` block after a block
   that waited for negative replies does not wait; after a suppress block requests are ordinary again; inside payload_override the frame
   sent is the override (constant, or the function applied to the request's bytes) and after it the request's own bytes (C09, C17). *)
From Coq Require Import ZArith List Bool String Lia ZifyBool.
From UDS Require Import Lib.Bytes Lib.ErrM Lib.PyOps Gen.Fn_SendContext Model.Message Model.Client Model.Services Proofs.Tie_common Proofs.Tie_send_common
  Proofs.Tie_send_flush.
Import ListNotations.
Open Scope Z_scope.

Ltac ctx_tac HT H2 H2s Hcb :=
  unfold spr_exit, ov_exit, ov_enter; sr_setup HT H2 H2s Hcb; change (Z.lor 0 128) with 128;
  repeat (progress (sr_loop Hcb; cbn [flush apply_override app]; split_ifs)); full_finish.

Definition st_bare_after_wait : cstate := spr_enter (spr_exit (spr_enter (spr_call st_init true))).
Definition st_after_wait_block : cstate := spr_exit (spr_enter (spr_call st_init true)).
Definition st_ov_const : cstate := ov_enter st_init (OvConst [17; 34; 51]).
Definition st_ov_fun : cstate := ov_enter st_init (OvFun [170] [187; 204]).
Definition st_after_ov : cstate := ov_exit (ov_enter st_init (OvConst [17; 34; 51])).

Theorem tie_send_request_bare_after_wait_silence cfg T P2 P2S now : timing cfg (Some T) P2 P2S ->
  fn_send_request_bare_after_wait_silence T P2 P2S now = ret (obs_full (send_request cfg st_bare_after_wait tp_req (-1) now [])).
Proof. intros (HT & H2 & H2s & Hcb). unfold fn_send_request_bare_after_wait_silence, st_bare_after_wait. ctx_tac HT H2 H2s Hcb. Qed.
Theorem tie_send_request_bare_after_wait_P cfg T P2 P2S now a1 : timing cfg (Some T) P2 P2S ->
  fn_send_request_bare_after_wait_P T P2 P2S now a1 = ret (obs_full (send_request cfg st_bare_after_wait tp_req (-1) now [(a1, Frame [126; 0])])).
Proof. intros (HT & H2 & H2s & Hcb). unfold fn_send_request_bare_after_wait_P, st_bare_after_wait. ctx_tac HT H2 H2s Hcb. Qed.
Theorem tie_send_request_after_wait_block_silence cfg T P2 P2S now : timing cfg (Some T) P2 P2S ->
  fn_send_request_after_wait_block_silence T P2 P2S now = ret (obs_full (send_request cfg st_after_wait_block tp_req (-1) now [])).
Proof. intros (HT & H2 & H2s & Hcb). unfold fn_send_request_after_wait_block_silence, st_after_wait_block. ctx_tac HT H2 H2s Hcb. Qed.
Theorem tie_send_request_after_wait_block_P cfg T P2 P2S now a1 : timing cfg (Some T) P2 P2S ->
  fn_send_request_after_wait_block_P T P2 P2S now a1 = ret (obs_full (send_request cfg st_after_wait_block tp_req (-1) now [(a1, Frame [126; 0])])).
Proof. intros (HT & H2 & H2s & Hcb). unfold fn_send_request_after_wait_block_P, st_after_wait_block. ctx_tac HT H2 H2s Hcb. Qed.
Theorem tie_send_request_ov_const_silence cfg T P2 P2S now : timing cfg (Some T) P2 P2S ->
  fn_send_request_ov_const_silence T P2 P2S now = ret (obs_full (send_request cfg st_ov_const tp_req (-1) now [])).
Proof. intros (HT & H2 & H2s & Hcb). unfold fn_send_request_ov_const_silence, st_ov_const. ctx_tac HT H2 H2s Hcb. Qed.
Theorem tie_send_request_ov_const_P cfg T P2 P2S now a1 : timing cfg (Some T) P2 P2S ->
  fn_send_request_ov_const_P T P2 P2S now a1 = ret (obs_full (send_request cfg st_ov_const tp_req (-1) now [(a1, Frame [126; 0])])).
Proof. intros (HT & H2 & H2s & Hcb). unfold fn_send_request_ov_const_P, st_ov_const. ctx_tac HT H2 H2s Hcb. Qed.
Theorem tie_send_request_ov_fun_silence cfg T P2 P2S now : timing cfg (Some T) P2 P2S ->
  fn_send_request_ov_fun_silence T P2 P2S now = ret (obs_full (send_request cfg st_ov_fun tp_req (-1) now [])).
Proof. intros (HT & H2 & H2s & Hcb). unfold fn_send_request_ov_fun_silence, st_ov_fun. ctx_tac HT H2 H2s Hcb. Qed.
Theorem tie_send_request_ov_fun_P cfg T P2 P2S now a1 : timing cfg (Some T) P2 P2S ->
  fn_send_request_ov_fun_P T P2 P2S now a1 = ret (obs_full (send_request cfg st_ov_fun tp_req (-1) now [(a1, Frame [126; 0])])).
Proof. intros (HT & H2 & H2s & Hcb). unfold fn_send_request_ov_fun_P, st_ov_fun. ctx_tac HT H2 H2s Hcb. Qed.
Theorem tie_send_request_after_ov_silence cfg T P2 P2S now : timing cfg (Some T) P2 P2S ->
  fn_send_request_after_ov_silence T P2 P2S now = ret (obs_full (send_request cfg st_after_ov tp_req (-1) now [])).
Proof. intros (HT & H2 & H2s & Hcb). unfold fn_send_request_after_ov_silence, st_after_ov. ctx_tac HT H2 H2s Hcb. Qed.
Theorem tie_send_request_after_ov_P cfg T P2 P2S now a1 : timing cfg (Some T) P2 P2S ->
  fn_send_request_after_ov_P T P2 P2S now a1 = ret (obs_full (send_request cfg st_after_ov tp_req (-1) now [(a1, Frame [126; 0])])).
Proof. intros (HT & H2 & H2s & Hcb). unfold fn_send_request_after_ov_P, st_after_ov. ctx_tac HT H2 H2s Hcb. Qed.
