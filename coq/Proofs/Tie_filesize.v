(* udsoncan/common/Filesize.py, as executed (Gen/Fn_Filesize.v), is the model (C01) *)
From Coq Require Import ZArith List Bool Lia ZifyBool.
From UDS Require Import Lib.Bytes Lib.ErrM Lib.PyOps Gen.Maps Gen.Fn_Filesize Model.Helpers Model.MemLoc Model.Svc_File Proofs.Tie_common.
Import ListNotations.
Open Scope Z_scope.
Ltac Zify.zify_post_hook ::= Z.to_euclidean_division_equations.

(* ---- Filesize: the width -------------------------------------------------------------------------------------------- *)
Lemma byte_len_shape v : 0 < v -> byte_len v = (py_bit_length v + 7) / 8.
Proof.
  intros Hv. unfold byte_len, py_bit_length.
  destruct (v <=? 0) eqn:H1; [lia|]. destruct (v =? 0) eqn:H2; [lia|].
  rewrite Z.abs_eq by lia. f_equal. lia.
Qed.

Theorem tie_filesize_width u c w : fn_filesize_width u c w = (f <- mk_filesize u c w ;; ret (fs_width f)).
Proof.
  unfold fn_filesize_width, mk_filesize, guard.
  destruct u as [u|], c as [c|], w as [w|]; cbn [bind ret fail fs_width];
    split_ifs; cbn [bind ret fail fs_width]; try reflexivity; try lia;
    try (f_equal; first [ rewrite Z.max_l by lia | rewrite Z.max_r by lia ];
         first [ symmetry; apply byte_len_shape; lia | replace u with 0 by lia; reflexivity | replace c with 0 by lia; reflexivity
               | unfold byte_len; split_ifs; lia ]).
Qed.
