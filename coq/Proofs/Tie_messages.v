(* Request / Response objects from and to bytes, as executed (Gen/Fn_Messages.v: Request.from_payload and Response.from_payload on
   symbolic bytes of every length class, Request.get_payload with every suppress flag / override, Response.get_payload; the service is
   found by BaseService.from_request_id / from_response_id on a symbolic identifier), are the model's parse_request, parse_response,
   request_payload, response_payload (C17; C01 and C06 build on them). *)
From Coq Require Import ZArith List Bool String Lia ZifyBool.
From UDS Require Import Lib.Bytes Lib.ErrM Lib.PyOps Gen.Fn_Messages Model.Message Proofs.Tie_common.
Import ListNotations.
Open Scope Z_scope.

Definition obs_resp (r : resp) : list Z :=
  [enc_svc (p_svc r); match p_code r with Some v => v | None => -1 end; enc_bool (p_positive r); enc_bool (p_valid r);
   enc_bool (p_unexpected r)] ++ enc_bytes (p_data r).

Ltac use_false := repeat match goal with H : ?c = ?b |- context [?c] => lazymatch c with true => fail | false => fail | _ => idtac end; match b with true => rewrite H | false => rewrite H end end.
Ltac eval_services := let sv := eval vm_compute in services in change services with sv.
Ltac model_unfold := unfold parse_request, parse_response, from_request_id, from_response_id; eval_services;
                     cbn [find s_sid s_sub s_rdata s_name];
                     repeat match goal with |- context [Z.pos ?a + Z.pos ?b] => let v := eval vm_compute in (Z.pos a + Z.pos b) in change (Z.pos a + Z.pos b) with v end;
                     repeat match goal with |- context [?v =? Z.pos ?c] => is_var v; rewrite (Z.eqb_sym v (Z.pos c)) end;
                     repeat match goal with |- context [?v =? 0] => is_var v; rewrite (Z.eqb_sym v 0) end.
Ltac settle_pack :=
  unfold pack_B, pack_be; change (256 ^ Z.of_nat 1) with 256;
  repeat match goal with |- context [(0 <=? ?x) && (?x <? 256)] =>
           first [ replace ((0 <=? x) && (x <? 256)) with true by lia | replace ((0 <=? x) && (x <? 256)) with false by lia ] end.
Ltac leaf := use_false;
             cbn [bind ret fail mk_request request_payload mk_response response_payload q_svc q_sub q_spr q_data p_svc p_code p_positive p_data
                  s_sub s_sid s_name s_rdata andb orb negb app];
             settle_pack; cbn [bind ret fail app]; first [ reflexivity | lia ].
Ltac chain :=
  lazymatch goal with
  | |- (if ?c then _ else _) = _ => let H := fresh "Hc" in destruct c eqn:H; chain
  | |- _ => leaf
  end.

Theorem tie_request_from_payload p : fn_request_from_payload p = ret (enc_req (parse_request p)).
Proof.
  unfold fn_request_from_payload. destruct p as [|p0 [|p1 [|p2 rest]]].
  - reflexivity.
  - model_unfold. chain.
  - model_unfold. chain.
  - model_unfold. chain.
Qed.


Theorem tie_response_from_payload p : fn_response_from_payload p = ret (obs_resp (parse_response p)).
Proof.
  unfold fn_response_from_payload. destruct p as [|p0 [|p1 [|p2 [|p3 rest]]]].
  - reflexivity.
  - model_unfold. chain.
  - model_unfold. chain.
  - model_unfold. chain.
  - model_unfold. chain.
Qed.

Theorem tie_request_payload sid sub spr data ov :
  fn_request_payload sid sub spr data ov = (r <- mk_request (from_request_id sid) (Some sub) spr (Some data) ;; request_payload r ov).
Proof.
  unfold fn_request_payload, request_payload. change (Z.lnot 128) with (-129). model_unfold. destruct spr; [destruct ov as [[|]|] | destruct ov as [[|]|]].
  - chain.
  - chain.
  - chain.
  - chain.
  - chain.
  - chain.
Qed.

Theorem tie_response_payload sid code data :
  fn_response_payload sid code data = (r <- mk_response (from_request_id sid) (Some code) (Some data) ;; response_payload r).
Proof.
  unfold fn_response_payload, mk_response, nrc_is_negative. model_unfold. chain.
Qed.
