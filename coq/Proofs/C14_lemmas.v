(* Proofs for C14: widths of memory addresses and sizes - precedence, announced = transmitted, lossless for every
   value 0 .. 2^64-1, symmetric echo decoding.  Arithmetic over Z; the two width maps are regenerated. *)
From Coq Require Import ZArith List Bool String Lia ZifyBool.
From UDS Require Import Lib.Bytes Lib.ErrM Lib.PyOps Gen.Maps Model.Message Model.Client Model.Services
  Model.Helpers Model.MemLoc Model.Svc_Simple Model.Svc_Memory Lib.Sweep Proofs.Bytes_lemmas Proofs.C17_lemmas Proofs.C19_lemmas Proofs.C05_lemmas.
Import ListNotations.
Open Scope Z_scope.
Open Scope list_scope.

(* ---- the width maps: bits <-> bytes ------------------------------------------------------------------- *)
Lemma map_ok_sound m : alfid_map_ok m = true ->
  (forall f n, map_get m f = Some n -> f = 8 * n /\ 1 <= n <= 8) /\
  (forall n, 1 <= n <= 8 -> map_get m (8 * n) = Some n).
Proof.
  unfold alfid_map_ok. intros H. apply andb_true_iff in H as [H1 H2]. split.
  - intros f n Hg. unfold map_get in Hg. destruct (find (fun '(a, _) => a =? f) m) as [[k v]|] eqn:Ef; [|discriminate].
    injection Hg as Hv. subst v. apply find_some in Ef as [Hin Hk]. rewrite forallb_forall in H1. specialize (H1 _ Hin). cbv beta iota in H1, Hk. lia.
  - intros n Hn. rewrite forallb_forall in H2.
    assert (In n [1; 2; 3; 4; 5; 6; 7; 8]) as Hin by (cbn; lia).
    specialize (H2 n Hin). cbv beta in H2. destruct (map_get m (8 * n)) as [w|]; [|discriminate]. f_equal. lia.
Qed.

Lemma addr_map_facts :
  (forall f n, map_get gen_alfid_address_map f = Some n -> f = 8 * n /\ 1 <= n <= 8) /\
  (forall n, 1 <= n <= 8 -> map_get gen_alfid_address_map (8 * n) = Some n).
Proof. apply map_ok_sound. apply alfid_maps_ok. Qed.
Lemma size_map_facts :
  (forall f n, map_get gen_alfid_memsize_map f = Some n -> f = 8 * n /\ 1 <= n <= 8) /\
  (forall n, 1 <= n <= 8 -> map_get gen_alfid_memsize_map (8 * n) = Some n).
Proof. apply map_ok_sound. apply alfid_maps_ok. Qed.

Definition valid_format (f : Z) : Prop := exists n, 1 <= n <= 8 /\ f = 8 * n.

Lemma mk_alfid_ok af sf : valid_format af -> valid_format sf ->
  mk_alfid af sf = inr {| al_addr := af; al_size := sf |}.
Proof.
  intros (na & Ha & Ea) (ns & Hs & Es). subst. unfold mk_alfid.
  rewrite (proj2 addr_map_facts na Ha), (proj2 size_map_facts ns Hs). reflexivity.
Qed.

Lemma mk_alfid_inv af sf a : mk_alfid af sf = inr a ->
  valid_format af /\ valid_format sf /\ al_addr a = af /\ al_size a = sf.
Proof.
  unfold mk_alfid. destruct (map_get gen_alfid_address_map af) as [na|] eqn:Ea; [|discriminate].
  destruct (map_get gen_alfid_memsize_map sf) as [ns|] eqn:Es; [|discriminate].
  intros H. injection H as H. subst a. cbn.
  destruct (proj1 addr_map_facts af na Ea) as [E1 R1]. destruct (proj1 size_map_facts sf ns Es) as [E2 R2].
  repeat split; [exists na; auto|exists ns; auto].
Qed.

Lemma mk_alfid_bad af sf : ~ valid_format af \/ ~ valid_format sf -> mk_alfid af sf = inl EValue.
Proof.
  intros H. destruct (mk_alfid af sf) as [e|a] eqn:E.
  - unfold mk_alfid in E. destruct (map_get _ af); [destruct (map_get _ sf)|]; inversion E; reflexivity.
  - apply mk_alfid_inv in E. tauto.
Qed.

(* ---- smallest width -------------------------------------------------------------------------------------- *)
(* the smallest whole number of bytes (at least one) that holds v *)
Definition smallest_bytes (v : Z) : Z := Z.max 1 ((bit_length v + 7) / 8).

Lemma bit_length_spec v : 0 < v -> 2 ^ (bit_length v - 1) <= v < 2 ^ bit_length v.
Proof.
  intros Hv. unfold bit_length. replace (v =? 0) with false by lia. rewrite Z.abs_eq by lia.
  replace (Z.log2 v + 1 - 1) with (Z.log2 v) by lia. replace (Z.log2 v + 1) with (Z.succ (Z.log2 v)) by lia.
  apply Z.log2_spec. exact Hv.
Qed.

Lemma smallest_holds v : 0 <= v -> v < 256 ^ smallest_bytes v.
Proof.
  intros Hv. unfold smallest_bytes. destruct (Z.eq_dec v 0) as [->|Hn]; [cbn; lia|].
  pose proof (bit_length_spec v ltac:(lia)) as [_ Hu].
  assert (0 <= bit_length v) as Hb by (unfold bit_length; replace (v =? 0) with false by lia; pose proof (Z.log2_nonneg (Z.abs v)); lia).
  eapply Z.lt_le_trans; [exact Hu|].
  replace 256 with (2 ^ 8) by reflexivity. rewrite <- Z.pow_mul_r by lia.
  apply Z.pow_le_mono_r; [lia|]. lia.
Qed.

Lemma smallest_minimal v n : 0 <= v -> 1 <= n -> v < 256 ^ n -> smallest_bytes v <= n.
Proof.
  intros Hv Hn Hf. unfold smallest_bytes. destruct (Z.eq_dec v 0) as [->|Hz]; [cbn; lia|].
  pose proof (bit_length_spec v ltac:(lia)) as [Hl _].
  assert (0 <= bit_length v) as Hb by (unfold bit_length; replace (v =? 0) with false by lia; pose proof (Z.log2_nonneg (Z.abs v)); lia).
  replace 256 with (2 ^ 8) in Hf by reflexivity. rewrite <- Z.pow_mul_r in Hf by lia.
  assert (bit_length v - 1 < 8 * n) as Hlt.
  { apply (Z.pow_lt_mono_r_iff 2); [lia|lia|]. lia. }
  lia.
Qed.

Lemma autosize_spec v : 0 <= v ->
  (v < 2 ^ 64 -> autosize v = inr (8 * smallest_bytes v) /\ 1 <= smallest_bytes v <= 8) /\
  (2 ^ 64 <= v -> autosize v = inl EValue).
Proof.
  intros Hv. unfold autosize. fold (smallest_bytes v). split; intros H.
  - assert (smallest_bytes v <= 8) as Hs by (apply smallest_minimal; try lia; change (256 ^ 8) with (2 ^ 64); exact H).
    assert (1 <= smallest_bytes v) by (unfold smallest_bytes; lia).
    replace (64 <? smallest_bytes v * 8) with false by lia. split; [unfold ret; f_equal; lia|lia].
  - assert (8 < smallest_bytes v) as Hs.
    { destruct (Z_lt_le_dec 8 (smallest_bytes v)) as [G|G]; [exact G|].
      pose proof (smallest_holds v Hv) as Hh.
      assert (256 ^ smallest_bytes v <= 256 ^ 8) by (apply Z.pow_le_mono_r; unfold smallest_bytes in *; lia).
      change (256 ^ 8) with (2 ^ 64) in *. lia. }
    replace (64 <? smallest_bytes v * 8) with true by lia. reflexivity.
Qed.

(* ---- precedence: explicit, else configured, else smallest ----------------------------------------------------- *)
Definition chosen_format (explicit configured : option Z) (v : Z) : Z :=
  match explicit with
  | Some f => f
  | None => match configured with Some f => f | None => 8 * smallest_bytes v end
  end.

Lemma set_format_formats m a s m' : set_format_if_none m a s = inr m' ->
  ml_addr m' = ml_addr m /\ ml_size m' = ml_size m /\
  ml_af m' = match a with Some x => (match ml_af m with None => Some x | o => o end) | None => ml_af m end /\
  ml_sf m' = match s with Some x => (match ml_sf m with None => Some x | o => o end) | None => ml_sf m end /\
  resolve_alfid (ml_addr m) (ml_size m) (ml_af m') (ml_sf m') = inr (ml_alfid m').
Proof.
  unfold set_format_if_none. destruct (resolve_alfid _ _ _ _) as [e|al] eqn:E; cbn [bind]; [discriminate|].
  intros H. injection H as H. subst m'. cbn. rewrite E. auto.
Qed.

Lemma resolve_spec addr size af sf al : 0 <= addr < 2 ^ 64 -> 0 <= size < 2 ^ 64 ->
  resolve_alfid addr size af sf = inr al ->
  al_addr al = match af with Some x => x | None => 8 * smallest_bytes addr end /\
  al_size al = match sf with Some x => x | None => 8 * smallest_bytes size end /\
  valid_format (al_addr al) /\ valid_format (al_size al).
Proof.
  intros Ha Hs. unfold resolve_alfid.
  destruct (autosize_spec addr ltac:(lia)) as [Aa _]. destruct (autosize_spec size ltac:(lia)) as [As _].
  destruct (Aa ltac:(lia)) as [Ea _]. destruct (As ltac:(lia)) as [Es _].
  destruct af as [fa|]; destruct sf as [fs|]; cbn [bind ret]; rewrite ?Ea, ?Es; cbn [bind ret];
    intros H; apply mk_alfid_inv in H as (V1 & V2 & E1 & E2); rewrite E1, E2; auto.
Qed.

(* the client applies the configured server formats where the caller gave none *)
Lemma client_memloc_precedence cfg addr size af sf m :
  0 <= addr < 2 ^ 64 -> 0 <= size < 2 ^ 64 ->
  client_memloc cfg addr size af sf = inr m ->
  ml_addr m = addr /\ ml_size m = size /\
  al_addr (ml_alfid m) = chosen_format af (srv_addr cfg) addr /\
  al_size (ml_alfid m) = chosen_format sf (srv_size cfg) size /\
  valid_format (al_addr (ml_alfid m)) /\ valid_format (al_size (ml_alfid m)).
Proof.
  intros Ha Hs. unfold client_memloc, mk_memloc, apply_server_formats.
  destruct (resolve_alfid addr size af sf) as [e|al0] eqn:E0; cbn [bind ret]; [discriminate|].
  destruct (set_format_if_none _ (srv_addr cfg) None) as [e|m1] eqn:E1; cbn [bind]; [discriminate|].
  intros E2. apply set_format_formats in E1 as (A1 & S1 & F1 & G1 & _). cbn [ml_addr ml_size ml_af ml_sf] in *.
  apply set_format_formats in E2 as (A2 & S2 & F2 & G2 & R2).
  rewrite A1 in *. rewrite S1 in *. rewrite A2, S2.
  apply resolve_spec in R2 as (X1 & X2 & V1 & V2); [|lia|lia].
  rewrite F2, F1 in X1. rewrite G2, G1 in X2.
  repeat split; auto.
  - rewrite X1. unfold chosen_format. destruct af, (srv_addr cfg); reflexivity.
  - rewrite X2. unfold chosen_format. destruct sf, (srv_size cfg); reflexivity.
Qed.

(* ---- announced widths = transmitted widths; lossless ---------------------------------------------------------- *)
Lemma fit_bytes_spec n v :
  (0 <= v < 256 ^ Z.of_nat n -> fit_bytes n v = inr (be_enc n v)) /\
  (~ (0 <= v < 256 ^ Z.of_nat n) -> fit_bytes n v = inl EValue).
Proof.
  unfold fit_bytes. split; intros H.
  - replace ((v <? 0) || (256 ^ Z.of_nat n <=? v)) with false by lia. reflexivity.
  - replace ((v <? 0) || (256 ^ Z.of_nat n <=? v)) with true by lia. reflexivity.
Qed.

Lemma memloc_wire_spec m na ns :
  1 <= na <= 8 -> 1 <= ns <= 8 ->
  al_addr (ml_alfid m) = 8 * na -> al_size (ml_alfid m) = 8 * ns ->
  (0 <= ml_addr m < 256 ^ na /\ 0 <= ml_size m < 256 ^ ns ->
     memloc_wire m = inr ((16 * ns + na) :: be_enc (Z.to_nat na) (ml_addr m) ++ be_enc (Z.to_nat ns) (ml_size m))) /\
  (~ (0 <= ml_addr m < 256 ^ na /\ 0 <= ml_size m < 256 ^ ns) -> memloc_wire m = inl EValue).
Proof.
  intros Ha Hs Ea Es. unfold memloc_wire, alfid_byte, addr_bytes, size_bytes, nbytes. rewrite Ea, Es.
  rewrite (proj2 addr_map_facts na Ha), (proj2 size_map_facts ns Hs). cbn [bind ret].
  assert (Z.land (Z.lor (Z.shiftl ns 4) na) 255 = 16 * ns + na) as Eb.
  { assert (all_below2 (fun i j => Z.land (Z.lor (Z.shiftl (i + 1) 4) (j + 1)) 255 =? 16 * (i + 1) + (j + 1)) 8 8 = true) as S
      by (vm_compute; reflexivity).
    pose proof (all_below2_spec _ 8 8 ltac:(lia) ltac:(lia) S (ns - 1) (na - 1) ltac:(lia) ltac:(lia)) as Q. cbv beta in Q.
    replace (ns - 1 + 1) with ns in Q by lia. replace (na - 1 + 1) with na in Q by lia. lia. }
  rewrite Eb. rewrite (pack_B_ok (16 * ns + na)) by lia. cbn [bind].
  split.
  - intros [Ra Rs].
    rewrite (proj1 (fit_bytes_spec (Z.to_nat na) (ml_addr m))) by (rewrite Z2Nat.id by lia; exact Ra).
    cbn [bind]. rewrite (proj1 (fit_bytes_spec (Z.to_nat ns) (ml_size m))) by (rewrite Z2Nat.id by lia; exact Rs).
    reflexivity.
  - intros Hn.
    destruct (Z_lt_le_dec (ml_addr m) 0) as [A0|A0];
      [rewrite (proj2 (fit_bytes_spec (Z.to_nat na) (ml_addr m))) by (rewrite Z2Nat.id by lia; lia); reflexivity|].
    destruct (Z_lt_le_dec (ml_addr m) (256 ^ na)) as [A1|A1];
      [|rewrite (proj2 (fit_bytes_spec (Z.to_nat na) (ml_addr m))) by (rewrite Z2Nat.id by lia; lia); reflexivity].
    rewrite (proj1 (fit_bytes_spec (Z.to_nat na) (ml_addr m))) by (rewrite Z2Nat.id by lia; lia). cbn [bind].
    rewrite (proj2 (fit_bytes_spec (Z.to_nat ns) (ml_size m))) by (rewrite Z2Nat.id by lia; lia). reflexivity.
Qed.

(* ---- the server's echo in the same widths decodes to the same numbers ------------------------------------------- *)
Lemma wmba_echo cfg addr size af sf m na ns r extra :
  client_memloc cfg addr size af sf = inr m ->
  1 <= na <= 8 -> 1 <= ns <= 8 ->
  al_addr (ml_alfid m) = 8 * na -> al_size (ml_alfid m) = 8 * ns ->
  ml_addr m = addr -> ml_size m = size ->
  0 <= addr < 256 ^ na -> 0 <= size < 256 ^ ns ->
  p_data r = (16 * ns + na) :: be_enc (Z.to_nat na) addr ++ be_enc (Z.to_nat ns) size ++ extra ->
  wmba_interpret cfg addr size af sf r = inr [16 * ns + na; addr; size].
Proof.
  intros Hm Ha Hs Ea Es Eaddr Esize Ra Rs Hd. unfold wmba_interpret. rewrite Hm. cbn [bind].
  unfold addr_bytes, size_bytes, nbytes. rewrite Ea, Es.
  rewrite (proj2 addr_map_facts na Ha), (proj2 size_map_facts ns Hs). cbn [bind ret]. rewrite Eaddr, Esize.
  rewrite (proj1 (fit_bytes_spec (Z.to_nat na) addr)) by (rewrite Z2Nat.id by lia; exact Ra). cbn [bind].
  rewrite (proj1 (fit_bytes_spec (Z.to_nat ns) size)) by (rewrite Z2Nat.id by lia; exact Rs). cbn [bind].
  rewrite !be_enc_length. rewrite Hd.
  replace (Nat.ltb _ _) with false.
  2:{ symmetry. apply Nat.ltb_ge. cbn [List.length]. rewrite !app_length, !be_enc_length. lia. }
  cbn [nth skipn]. unfold alfid_byte. rewrite Ea, Es.
  rewrite (proj2 addr_map_facts na Ha), (proj2 size_map_facts ns Hs). cbn [bind ret].
  assert (Z.land (Z.lor (Z.shiftl ns 4) na) 255 = 16 * ns + na) as Eb.
  { assert (all_below2 (fun i j => Z.land (Z.lor (Z.shiftl (i + 1) 4) (j + 1)) 255 =? 16 * (i + 1) + (j + 1)) 8 8 = true) as S
      by (vm_compute; reflexivity).
    pose proof (all_below2_spec _ 8 8 ltac:(lia) ltac:(lia) S (ns - 1) (na - 1) ltac:(lia) ltac:(lia)) as Q. cbv beta in Q.
    replace (ns - 1 + 1) with ns in Q by lia. replace (na - 1 + 1) with na in Q by lia. lia. }
  rewrite Eb.
  assert (firstn (Z.to_nat na) (be_enc (Z.to_nat na) addr ++ be_enc (Z.to_nat ns) size ++ extra) = be_enc (Z.to_nat na) addr) as F1.
  { rewrite <- (be_enc_length (Z.to_nat na) addr) at 1. apply firstn_app_exact. }
  assert (skipn (1 + Z.to_nat na) ((16 * ns + na) :: be_enc (Z.to_nat na) addr ++ be_enc (Z.to_nat ns) size ++ extra)
          = be_enc (Z.to_nat ns) size ++ extra) as F2.
  { cbn [skipn Nat.add]. rewrite <- (be_enc_length (Z.to_nat na) addr) at 1. apply skipn_app_exact. }
  assert (firstn (Z.to_nat ns) (be_enc (Z.to_nat ns) size ++ extra) = be_enc (Z.to_nat ns) size) as F3.
  { rewrite <- (be_enc_length (Z.to_nat ns) size) at 1. apply firstn_app_exact. }
  rewrite F2, F1, F3.
  rewrite !be_dec_enc by (rewrite Z2Nat.id by lia; assumption).
  unfold guard. rewrite !Z.eqb_refl. reflexivity.
Qed.

(* non-vacuity: 0 and the 64-bit maximum are both encodable with automatic widths *)
Example zero_and_max_encodable :
  match client_memloc cfg_default 0 (2 ^ 64 - 1) None None with
  | inr m => memloc_wire m = inr (129 :: [0] ++ repeat 255 8)
  | inl _ => False
  end.
Proof. vm_compute. reflexivity. Qed.
