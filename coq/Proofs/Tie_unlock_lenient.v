(* unlock_security_access as executed = the composition the property states (C13); the cases are proved in Tie_unlock_lenient_a/b/c.v *)
From Coq Require Import ZArith List Bool String Lia.
From UDS Require Import Lib.Bytes Lib.ErrM Lib.PyOps Gen.Fn_Unlock Model.Message Model.Client Model.Services
  Proofs.Tie_unlock_common Proofs.Tie_unlock_lenient_a Proofs.Tie_unlock_lenient_b Proofs.Tie_unlock_lenient_c.
Import ListNotations.
Open Scope Z_scope.

Theorem tie_unlock_lenient level params d1 d2 r1 r2 : d1 <> [] -> (List.length d1 < 4)%nat -> d2 <> [] -> p_data r1 = d1 -> p_data r2 = d2 ->
  fn_unlock_lenient level params d1 d2 = ret (unlock_spec level params r1 r2).
Proof.
  intros Hn1 Hl1 Hn2 Hd1 Hd2.
  destruct d1 as [|x0 [|x1 [|x2 [|x3 xr]]]]; [congruence| | | |cbn in Hl1; lia];
    destruct d2 as [|y0 [|y1 yr]]; try congruence;
    eauto using unlock_lenient_1_1, unlock_lenient_1_2, unlock_lenient_2_1, unlock_lenient_2_2, unlock_lenient_3_1, unlock_lenient_3_2.
Qed.
