(* Lemmas and tactics shared by the "code is the model" theorems (Proofs/Tie_*.v): each of those files relates one generated file
   Gen/Fn_*.v - decision trees tools/symtrans.py obtained by executing functions of the repository on symbolic arguments, regenerated
   from the working tree on every run - to the hand-written model the property theorems talk about. *)
From Coq Require Import ZArith List Bool Lia ZifyBool.
From UDS Require Import Lib.Bytes Lib.ErrM Lib.PyOps Gen.Maps Model.Helpers Model.MemLoc.
Import ListNotations.
Open Scope Z_scope.
Ltac Zify.zify_post_hook ::= Z.to_euclidean_division_equations.

Ltac split_ifs :=
  repeat match goal with
         | |- context [if ?c then _ else _] =>
           match c with
           | context [if _ then _ else _] => fail 1
           | _ => let H := fresh "Hc" in destruct c eqn:H
           end
         end.
Ltac use_hyps := repeat match goal with H : ?c = ?b |- context [if ?c then _ else _] => rewrite H end.

Lemma dict_mem_get t k : map_get t k = if py_dict_mem t k then Some (py_dict_get t k) else None.
Proof.
  unfold map_get, py_dict_mem, py_dict_get. induction t as [|[a v] t IH]; [reflexivity|].
  cbn [find existsb]. destruct (a =? k); [reflexivity|]. cbn [orb]. exact IH.
Qed.
Lemma dict_get_range (t : list (Z * Z)) lo hi k :
  lo <= 0 <= hi -> Forall (fun p => lo <= snd p <= hi) t -> lo <= py_dict_get t k <= hi.
Proof.
  intros H0 HF. unfold py_dict_get. induction HF as [|[a v] t Hv HF IH]; cbn [find]; [lia|].
  destruct (a =? k); [exact Hv | exact IH].
Qed.
Lemma baud_get_range k : 0 <= py_dict_get gen_baudrate_map k <= 19.
Proof. apply dict_get_range; [lia|]. unfold gen_baudrate_map. repeat constructor; cbn [snd]; lia. Qed.
Lemma addr_get_range k : 0 <= py_dict_get gen_alfid_address_map k <= 8.
Proof. apply dict_get_range; [lia|]. unfold gen_alfid_address_map. repeat constructor; cbn [snd]; lia. Qed.
Lemma size_get_range k : 0 <= py_dict_get gen_alfid_memsize_map k <= 8.
Proof. apply dict_get_range; [lia|]. unfold gen_alfid_memsize_map. repeat constructor; cbn [snd]; lia. Qed.
Lemma land255 x : 0 <= Z.land x 255 < 256.
Proof. change 255 with (Z.ones 8). rewrite Z.land_ones by lia. lia. Qed.
Lemma ceil_div8 a : py_ceil_div a 8 = (a + 7) / 8.
Proof. unfold py_ceil_div. lia. Qed.
Lemma shl_pow n : 0 <= n -> Z.shiftl 1 (8 * n) = 256 ^ n.
Proof. intros Hn. rewrite Z.shiftl_1_l. change 256 with (2 ^ 8). rewrite <- Z.pow_mul_r by lia. reflexivity. Qed.

