(* Proofs for C12: the reference ECU refines an abstract store (DID map, byte-addressed memory), and a block sequence
   pushed with download / transfer-data / transfer-exit is reassembled at the requested address. *)
From Coq Require Import ZArith List Bool String Lia ZifyBool.
From UDS Require Import Lib.Bytes Lib.ErrM Lib.PyOps Model.Message Model.Client Model.Services Model.Svc_Did Model.History
  Model.Ecu Proofs.Bytes_lemmas.
Import ListNotations.
Open Scope Z_scope.
Open Scope list_scope.

(* ---- abstract store ------------------------------------------------------------------------------------------------- *)
Definition abs_did (e : ecu) (did : Z) : option bytes := lookup did (e_dids e).
Definition abs_mem (e : ecu) (a : Z) : option Z := lookup a (e_mem e).

(* WriteDataByIdentifier stores the value under the identifier and leaves everything else alone *)
Lemma ecu_write_did e d1 d0 v :
  let '(e', rep) := ecu_step e (46 :: d1 :: d0 :: v) in
  rep = [110; d1; d0] /\ abs_did e' (d1 * 256 + d0) = Some v /\
  (forall k, k <> d1 * 256 + d0 -> abs_did e' k = abs_did e k) /\ e_mem e' = e_mem e /\ e_dl e' = e_dl e.
Proof.
  cbn. unfold abs_did, lookup. cbn. rewrite Z.eqb_refl. repeat split; auto.
  intros k Hk. replace (d1 * 256 + d0 =? k) with false by lia. reflexivity.
Qed.

(* ReadDataByIdentifier of a stored identifier returns the stored bytes *)
Lemma ecu_read_did e d1 d0 v : abs_did e (d1 * 256 + d0) = Some v ->
  ecu_step e [34; d1; d0] = (e, 98 :: d1 :: d0 :: v).
Proof. intros H. unfold abs_did in H. cbn. rewrite H. rewrite app_nil_r. reflexivity. Qed.

Lemma ecu_read_unknown e d1 d0 : abs_did e (d1 * 256 + d0) = None -> ecu_step e [34; d1; d0] = (e, [127; 34; 49]).
Proof. intros H. unfold abs_did in H. cbn. rewrite H. reflexivity. Qed.

(* ---- memory ---------------------------------------------------------------------------------------------------------- *)
Lemma lookup_mem_write_below m : forall data addr a, a < addr -> lookup a (mem_write m addr data) = lookup a m.
Proof.
  intros data. revert m. induction data as [|b tl IH]; intros m addr a Ha; [reflexivity|].
  cbn [mem_write]. rewrite IH by lia. unfold lookup. cbn [find]. replace (addr =? a) with false by lia. reflexivity.
Qed.

Lemma mem_read_write m : forall data addr, mem_read (mem_write m addr data) addr (List.length data) = Some data.
Proof.
  intros data. revert m. induction data as [|b tl IH]; intros m addr; [reflexivity|].
  cbn [mem_write List.length mem_read]. rewrite lookup_mem_write_below by lia.
  unfold lookup at 1. cbn [find]. rewrite Z.eqb_refl. rewrite IH. reflexivity.
Qed.

(* bytes outside the written range are untouched *)
Lemma lookup_mem_write_outside m : forall data addr a,
  (a < addr \/ addr + Z.of_nat (List.length data) <= a) -> lookup a (mem_write m addr data) = lookup a m.
Proof.
  intros data. revert m. induction data as [|b tl IH]; intros m addr a Ha; [reflexivity|].
  cbn [mem_write]. cbn [List.length] in Ha. rewrite IH by lia. unfold lookup. cbn [find]. replace (addr =? a) with false by lia. reflexivity.
Qed.

(* ---- download: request, any number of blocks with the counters 1, 2, .., 0xFF, 0, .., exit -------------------------- *)
Fixpoint push_blocks (e : ecu) (ctr : Z) (blocks : list bytes) : ecu :=
  match blocks with
  | [] => e
  | b :: tl => push_blocks (fst (ecu_step e (54 :: ctr :: b))) ((ctr + 1) mod 256) tl
  end.

Lemma push_blocks_spec : forall blocks e d,
  e_dl e = Some d -> 0 <= dl_next d < 256 ->
  let e' := push_blocks e (dl_next d) blocks in
  exists d', e_dl e' = Some d' /\ dl_addr d' = dl_addr d /\ dl_size d' = dl_size d /\
             dl_data d' = dl_data d ++ List.concat blocks /\ e_mem e' = e_mem e /\ e_dids e' = e_dids e.
Proof.
  induction blocks as [|b tl IH]; intros e d Hd Hn; cbn [push_blocks].
  - exists d. rewrite app_nil_r. repeat split; auto.
  - cbn [ecu_step]. change (54 =? 46) with false. change (54 =? 34) with false. change (54 =? 61) with false.
    change (54 =? 35) with false. change (54 =? 52) with false. change (54 =? 54) with true. cbv iota.
    rewrite Hd. rewrite Z.eqb_refl. cbn [fst].
    set (d1 := {| dl_addr := dl_addr d; dl_size := dl_size d; dl_data := dl_data d ++ b; dl_next := (dl_next d + 1) mod 256 |}).
    specialize (IH (set_dl e (Some d1)) d1 eq_refl ltac:(cbn; lia)). cbv zeta in IH. cbn [dl_next d1] in IH.
    destruct IH as (d' & H1 & H2 & H3 & H4 & H5 & H6). exists d'. cbn [List.concat]. rewrite H4. cbn [dl_data d1].
    rewrite <- app_assoc. repeat split; auto.
Qed.

(* the whole sequence: the ECU ends up with exactly the original bytes at the requested address *)
Lemma download_reassembles e addr size blocks :
  let e1 := set_dl e (Some {| dl_addr := addr; dl_size := size; dl_data := []; dl_next := 1 |}) in
  let e2 := push_blocks e1 1 blocks in
  let '(e3, rep) := ecu_step e2 [55] in
  rep = [119] /\ e_dl e3 = None /\
  mem_read (e_mem e3) addr (List.length (List.concat blocks)) = Some (List.concat blocks) /\
  e_dids e3 = e_dids e.
Proof.
  cbv zeta.
  pose proof (push_blocks_spec blocks (set_dl e (Some {| dl_addr := addr; dl_size := size; dl_data := []; dl_next := 1 |}))
                {| dl_addr := addr; dl_size := size; dl_data := []; dl_next := 1 |} eq_refl ltac:(cbn; lia)) as P.
  cbv zeta in P. cbn [dl_next] in P. destruct P as (d' & H1 & H2 & H3 & H4 & H5 & H6).
  cbn [ecu_step]. change (55 =? 46) with false. change (55 =? 34) with false. change (55 =? 61) with false.
  change (55 =? 35) with false. change (55 =? 52) with false. change (55 =? 54) with false. change (55 =? 55) with true. cbv iota.
  rewrite H1. cbn [dl_data] in H4. cbn [app] in H4. rewrite H2, H4. cbn [e_dl set_dl e_mem set_mem e_dids].
  repeat split; auto. apply mem_read_write.
Qed.

(* RequestDownload with 1..8 byte address and size arms the transfer at that address *)
Lemma ecu_request_download e dfi na ns addr size :
  (1 <= na <= 8)%nat -> (1 <= ns <= 8)%nat -> 0 <= addr < 256 ^ Z.of_nat na -> 0 <= size < 256 ^ Z.of_nat ns ->
  ecu_step e (52 :: dfi :: (16 * Z.of_nat ns + Z.of_nat na) :: be_enc na addr ++ be_enc ns size)
  = (set_dl e (Some {| dl_addr := addr; dl_size := size; dl_data := []; dl_next := 1 |}), [116; 32] ++ be_enc 2 (e_blk e)).
Proof.
  intros Ha Hs Ra Rs. cbn [ecu_step]. change (52 =? 46) with false. change (52 =? 34) with false. change (52 =? 61) with false.
  change (52 =? 35) with false. change (52 =? 52) with true. cbv iota. unfold parse_memloc.
  replace ((16 * Z.of_nat ns + Z.of_nat na) mod 16) with (Z.of_nat na) by lia.
  replace ((16 * Z.of_nat ns + Z.of_nat na) / 16) with (Z.of_nat ns) by lia.
  rewrite !Nat2Z.id.
  assert (firstn na (be_enc na addr ++ be_enc ns size) = be_enc na addr) as F1
    by (rewrite <- (be_enc_length na addr) at 1; apply firstn_app_exact).
  assert (skipn na (be_enc na addr ++ be_enc ns size) = be_enc ns size) as F2
    by (rewrite <- (be_enc_length na addr) at 1; apply skipn_app_exact).
  assert (firstn ns (be_enc ns size) = be_enc ns size) as F3
    by (rewrite <- (be_enc_length ns size) at 1; apply firstn_all).
  assert (skipn (na + ns) (be_enc na addr ++ be_enc ns size) = []) as F4
    by (apply skipn_all2; rewrite app_length, !be_enc_length; lia).
  rewrite app_length, !be_enc_length.
  replace (Nat.leb 1 na && Nat.leb na 8 && Nat.leb 1 ns && Nat.leb ns 8 && Nat.leb (na + ns) (na + ns)) with true
    by (symmetry; repeat (apply andb_true_iff; split); apply Nat.leb_le; lia).
  rewrite F1, F2, F3, F4. rewrite !be_dec_enc by assumption. reflexivity.
Qed.

(* ---- non-vacuity: premises are inhabited, results are non-degenerate (closed by computation) ------------------ *)
(* C12_download_reassembles: 300 one-byte blocks: the block counter passes 0xFF -> 0 and goes on *)
Example c12_wrap :
  let e1 := set_dl (ecu_init 3) (Some {| dl_addr := 4096; dl_size := 300; dl_data := []; dl_next := 1 |}) in
  match e_dl (push_blocks e1 1 (repeat [7] 300)) with
  | Some d => dl_next d = 45 /\ List.length (dl_data d) = 300%nat
  | None => False
  end.
Proof. vm_compute. split; reflexivity. Qed.

(* C12: a write to a data identifier and a read of two identifiers through the ECU *)
Example c12_did_roundtrip :
  let e1 := fst (ecu_step (ecu_init 16) [46; 241; 144; 65; 66; 67]) in
  let e2 := fst (ecu_step e1 [46; 1; 2; 9]) in
  snd (ecu_step e2 [34; 1; 2; 241; 144]) = [98; 1; 2; 9; 241; 144; 65; 66; 67].
Proof. vm_compute. reflexivity. Qed.
