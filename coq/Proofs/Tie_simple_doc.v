(* Every path of the executed client methods (Gen/Fn_SimpleInt.v: argument validation, request building, interpretation of a positive
   response carrying ANY data bytes, echo comparisons) ends in a value or in one of the documented exception classes - none ends in
   IndexError, struct.error, TypeError ... .  This is C04 read off the code's own decision trees. *)
From Coq Require Import ZArith List Bool String Lia ZifyBool.
From UDS Require Import Lib.Bytes Lib.ErrM Lib.PyOps Gen.Fn_SimpleInt Proofs.Tie_common.
Import ListNotations.
Open Scope Z_scope.

Definition documented {A} (m : M A) : Prop := match m with inl e => err_internal e = false | inr _ => True end.

Ltac note_land :=
  repeat match goal with
         | |- context [Z.land ?x 255] =>
           lazymatch goal with H : 0 <= Z.land x 255 < 256 |- _ => fail | _ => pose proof (land255 x) end
         end.
Ltac doc_tac := unfold documented; note_land; split_ifs; cbn [err_internal err_code Z.leb Z.compare Pos.compare Pos.compare_cont]; try reflexivity; try exact I; try lia.
Ltac cases2 d := destruct d as [|?d0 [|?d1 ?rest]]; [congruence| |].
Ltac cases3 d := destruct d as [|?d0 [|?d1 [|?d2 ?rest]]]; [congruence| | |].
Ltac cases4 d := destruct d as [|?d0 [|?d1 [|?d2 [|?d3 ?rest]]]]; [congruence| | | |].
Ltac cases6 d := destruct d as [|?d0 [|?d1 [|?d2 [|?d3 [|?d4 [|?d5 ?rest]]]]]]; [congruence| | | | | |].

Theorem doc_ecu_reset t d : d <> [] -> documented (fn_ecu_reset_interpret t d).
Proof. intros Hne. unfold fn_ecu_reset_interpret. cases4 d; doc_tac. Qed.
Theorem doc_routine_control rid ct data d : d <> [] -> documented (fn_routine_control_interpret rid ct data d).
Proof. intros Hne. unfold fn_routine_control_interpret. destruct data; cases4 d; doc_tac. Qed.
Theorem doc_tester_present d : d <> [] -> documented (fn_tester_present_interpret d).
Proof. intros Hne. unfold fn_tester_present_interpret. cases2 d; doc_tac. Qed.
Theorem doc_change_session sn d : d <> [] -> documented (fn_change_session_interpret sn d).
Proof. intros Hne. unfold fn_change_session_interpret. cases6 d; doc_tac. Qed.
Theorem doc_change_session_2006 sn d : d <> [] -> documented (fn_change_session_2006_interpret sn d).
Proof. intros Hne. unfold fn_change_session_2006_interpret. cases3 d; doc_tac. Qed.
Theorem doc_request_seed level data d : d <> [] -> documented (fn_request_seed_interpret level data d).
Proof. intros Hne. unfold fn_request_seed_interpret. cases3 d; doc_tac. Qed.
Theorem doc_send_key level key d : d <> [] -> documented (fn_send_key_interpret level key d).
Proof. intros Hne. unfold fn_send_key_interpret. cases3 d; doc_tac. Qed.
Theorem doc_access_timing_parameter a rc d : d <> [] -> documented (fn_access_timing_parameter_interpret a rc d).
Proof. intros Hne. unfold fn_access_timing_parameter_interpret. destruct rc; cases3 d; doc_tac. Qed.
Theorem doc_transfer_data sq data d : d <> [] -> documented (fn_transfer_data_interpret sq data d).
Proof. intros Hne. unfold fn_transfer_data_interpret. destruct data; cases3 d; doc_tac. Qed.
Theorem doc_control_dtc_setting t data d : d <> [] -> documented (fn_control_dtc_setting_interpret t data d).
Proof. intros Hne. unfold fn_control_dtc_setting_interpret. destruct data; cases2 d; doc_tac. Qed.
Theorem doc_clear_dtc g m d : d <> [] -> documented (fn_clear_dtc_interpret g m d).
Proof. intros Hne. unfold fn_clear_dtc_interpret. destruct m; cases2 d; doc_tac. Qed.
