(* Shared by Tie_unlock_a/b/c.v. unlock_security_access, as executed (Gen/Fn_Unlock.v: the real method with request_seed / send_key underneath, send_request replaced by two
   scripted positive replies, the configured algorithm "key = reversed seed"), against the composition the property states (C13): the seed
   request; nothing more when the seed exchange fails or the seed is all zero; else exactly one key request carrying the computed key. *)
From Coq Require Import ZArith List Bool String Lia ZifyBool.
From UDS Require Import Lib.Bytes Lib.ErrM Lib.PyOps Gen.Fn_Unlock Model.Message Model.Client Model.Services Model.Helpers Model.Svc_Simple
  Proofs.Tie_common Proofs.Tie_simple_common.
Import ListNotations.
Open Scope Z_scope.

(* [error code or 0; number of requests sent] ++ the requests, from the model's pieces: sa_make / sa_interpret for both legs, the
   all-zero-seed rule, the algorithm (reversed seed) *)
Definition unlock_spec (level : Z) (params : bytes) (r1 r2 : resp) : list Z :=
  match payload_of (sa_make false level params) with
  | inl e => [err_code e; 0]
  | inr p1 =>
    match sa_interpret false level r1 with
    | inl e => [err_code e; 1] ++ enc_bytes p1
    | inr sd =>
      let seed := seed_of sd in
      if negb (Nat.eqb (List.length seed) 0) && all_zero seed then [0; 1] ++ enc_bytes p1
      else
        match payload_of (sa_make true level (rev seed)) with
        | inl e => [err_code e; 1] ++ enc_bytes p1
        | inr p2 =>
          match sa_interpret true level r2 with
          | inl e => [err_code e; 2] ++ enc_bytes p1 ++ enc_bytes p2
          | inr _ => [0; 2] ++ enc_bytes p1 ++ enc_bytes p2
          end
        end
    end
  end.

Ltac u_tac level m :=
  unfold unlock_spec, payload_of, sa_make, sa_interpret, normalize_level, seed_of, all_zero, mk_req, validate_int; eval_svc;
  change (level mod 2) with m;
  repeat (progress (msimpl; cbn [forallb rev app List.length Nat.eqb negb andb err_code]; unfold guard; packs; split_ifs));
  cbn [enc_bytes app List.length]; first [ lia | reflexivity | congruence | discriminate | solve [list_eq] ].

