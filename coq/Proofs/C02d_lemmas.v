(* Proofs for C02 / C11, continued: the positive responses of RequestFileTransfer (every mode of operation) and of Authentication
   (every task) decode to exactly what the server encoded, for every field width and every string length; with padding where the
   service tolerates it. *)
From Coq Require Import ZArith List Bool String Lia ZifyBool.
From UDS Require Import Lib.Bytes Lib.ErrM Lib.PyOps Model.Message Model.Client Model.Services Model.Helpers
  Model.Svc_Simple Model.Svc_File Proofs.Bytes_lemmas Proofs.C17_lemmas Proofs.C02_lemmas.
Import ListNotations.
Open Scope Z_scope.
Open Scope list_scope.

Lemma z_nat v : 0 <= v -> Z.of_nat (Z.to_nat v) = v.
Proof. intros H. apply Z2Nat.id. exact H. Qed.

Lemma take_num_at d pre n v post cur :
  d = pre ++ be_enc n v ++ post -> cur = List.length pre -> 0 <= v < 256 ^ Z.of_nat n -> take_num d cur n = inr v.
Proof. intros -> -> H. apply take_num_decode. exact H. Qed.

Lemma nth_error_at {A} (d pre : list A) x post cur : d = pre ++ x :: post -> cur = List.length pre -> nth_error d cur = Some x.
Proof. intros -> ->. rewrite nth_error_app2 by lia. rewrite Nat.sub_diag. reflexivity. Qed.

Lemma pad_ok cfg (body : bytes) k cur : cur = List.length body -> (k = 0%nat \/ tol_pad cfg = true) ->
  (Nat.leb (List.length (body ++ repeat 0 k)) cur || (all_zero (skipn cur (body ++ repeat 0 k)) && tol_pad cfg)) = true.
Proof.
  intros -> [->|Ht].
  - cbn [repeat]. rewrite app_nil_r. rewrite Nat.leb_refl. reflexivity.
  - rewrite skipn_app_exact, zeros_all_zero, Ht. apply orb_true_r.
Qed.

(* the reference server's positive response to RequestFileTransfer, by mode of operation (ISO 14229-1 table 466):
   1 addFile, 3 replaceFile: lengthFormatIdentifier, maxNumberOfBlockLength, dataFormatIdentifier
   2 deleteFile: nothing;  4 readFile: ... + fileSizeOrDirInfoParameterLength (2 bytes), uncompressed and compressed size
   5 readDir: ... dataFormatIdentifier 0, length, dirInfoLength;  6 resumeFile: ... + filePosition (8 bytes) *)
Definition rft_head (moop lfid maxlen dfi : Z) : bytes := [moop; lfid] ++ be_enc (Z.to_nat lfid) maxlen ++ [dfi].

Lemma rft_delete_decode cfg k : (k = 0%nat \/ tol_pad cfg = true) ->
  rft_interpret_raw cfg ([2] ++ repeat 0 k) = (2, inr [2; -1; -1; -1; -1; -1; -1]).
Proof.
  intros Hk. unfold rft_interpret_raw. cbn [app]. cbv iota. f_equal. cbn [Z.eqb Pos.eqb orb bind ret].
  change (2 :: repeat 0 k) with ([2] ++ repeat 0 k). rewrite pad_ok by (try exact Hk; reflexivity). reflexivity.
Qed.



Lemma rft_add_replace_decode cfg lfid maxlen dfi moop k : 1 <= lfid <= 8 -> 0 <= maxlen < 256 ^ lfid ->
  moop = 1 \/ moop = 3 -> (k = 0%nat \/ tol_pad cfg = true) ->
  rft_interpret_raw cfg (rft_head moop lfid maxlen dfi ++ repeat 0 k) = (moop, inr [moop; maxlen; dfi; -1; -1; -1; -1]).
Proof.
  intros Hl Hm Hmo Hk. unfold rft_head. rewrite <- !app_assoc. cbn [app].
  set (rest := be_enc (Z.to_nat lfid) maxlen ++ dfi :: repeat 0 k). set (d := moop :: lfid :: rest).
  assert (d = [moop; lfid] ++ be_enc (Z.to_nat lfid) maxlen ++ (dfi :: repeat 0 k)) as E1 by reflexivity.
  assert (d = ([moop; lfid] ++ be_enc (Z.to_nat lfid) maxlen) ++ dfi :: repeat 0 k) as E2 by (rewrite E1, <- !app_assoc; reflexivity).
  assert (d = ([moop; lfid] ++ be_enc (Z.to_nat lfid) maxlen ++ [dfi]) ++ repeat 0 k) as E3 by (rewrite E1, <- !app_assoc; reflexivity).
  unfold rft_interpret_raw. fold d. unfold d at 1. cbv iota. f_equal.
  replace ((moop =? 1) || (moop =? 6) || (moop =? 3) || (moop =? 4) || (moop =? 5)) with true by lia.
  replace ((moop =? 4) || (moop =? 5)) with false by lia. replace (moop =? 4) with false by lia. replace (moop =? 6) with false by lia.
  unfold d at 1. cbv iota. fold d.
  replace (8 <? lfid) with false by lia. replace (lfid =? 0) with false by lia.
  rewrite (take_num_at d [moop; lfid] (Z.to_nat lfid) maxlen _ 2 E1 eq_refl) by (rewrite z_nat by lia; exact Hm). cbn [bind ret].
  rewrite (nth_error_at d _ dfi _ (2 + Z.to_nat lfid) E2) by (rewrite app_length, be_enc_length; reflexivity).
  replace ((moop =? 5) && negb (dfi =? 0)) with false by lia. cbn [bind ret].
  rewrite E3. rewrite pad_ok by (try exact Hk; rewrite !app_length, be_enc_length; cbn [List.length]; lia). cbn [guard bind ret].
  replace (moop =? 5) with false by lia. reflexivity.
Qed.




Lemma rft_resume_decode cfg lfid maxlen dfi pos k : 1 <= lfid <= 8 -> 0 <= maxlen < 256 ^ lfid ->
  0 <= pos < 256 ^ 8 -> (k = 0%nat \/ tol_pad cfg = true) ->
  rft_interpret_raw cfg (rft_head 6 lfid maxlen dfi ++ be_enc 8 pos ++ repeat 0 k) = (6, inr [6; maxlen; dfi; -1; -1; -1; pos]).
Proof.
  intros Hl Hm Hp Hk. unfold rft_head. rewrite <- !app_assoc. cbn [app].
  set (d := 6 :: lfid :: be_enc (Z.to_nat lfid) maxlen ++ dfi :: be_enc 8 pos ++ repeat 0 k).
  assert (d = [6; lfid] ++ be_enc (Z.to_nat lfid) maxlen ++ (dfi :: be_enc 8 pos ++ repeat 0 k)) as E1 by reflexivity.
  assert (d = ([6; lfid] ++ be_enc (Z.to_nat lfid) maxlen) ++ dfi :: be_enc 8 pos ++ repeat 0 k) as E2 by (rewrite E1, <- !app_assoc; reflexivity).
  assert (d = ([6; lfid] ++ be_enc (Z.to_nat lfid) maxlen ++ [dfi]) ++ be_enc 8 pos ++ repeat 0 k) as E3 by (rewrite E1, <- !app_assoc; reflexivity).
  assert (d = ([6; lfid] ++ be_enc (Z.to_nat lfid) maxlen ++ [dfi] ++ be_enc 8 pos) ++ repeat 0 k) as E4 by (rewrite E1, <- !app_assoc; reflexivity).
  unfold rft_interpret_raw. fold d. unfold d at 1. cbv iota. f_equal. cbn [Z.eqb Pos.eqb orb].
  unfold d at 1. cbv iota. fold d.
  replace (8 <? lfid) with false by lia. replace (lfid =? 0) with false by lia.
  rewrite (take_num_at d [6; lfid] (Z.to_nat lfid) maxlen _ 2 E1 eq_refl) by (rewrite z_nat by lia; exact Hm). cbn [bind ret].
  rewrite (nth_error_at d _ dfi _ (2 + Z.to_nat lfid) E2) by (rewrite app_length, be_enc_length; reflexivity).
  cbn [andb bind ret].
  rewrite (take_num_at d _ 8 pos _ (S (2 + Z.to_nat lfid)) E3) by (try exact Hp; rewrite !app_length, be_enc_length; cbn [List.length]; lia).
  cbn [bind ret]. rewrite E4. rewrite pad_ok by (try exact Hk; rewrite !app_length, !be_enc_length; cbn [List.length]; lia). reflexivity.
Qed.

Lemma rft_read_file_decode cfg lfid maxlen dfi n unc comp k : 1 <= lfid <= 8 -> 0 <= maxlen < 256 ^ lfid -> 1 <= n <= 8 ->
  0 <= unc < 256 ^ n -> 0 <= comp < 256 ^ n -> (k = 0%nat \/ tol_pad cfg = true) ->
  rft_interpret_raw cfg (rft_head 4 lfid maxlen dfi ++ be_enc 2 n ++ be_enc (Z.to_nat n) unc ++ be_enc (Z.to_nat n) comp ++ repeat 0 k)
  = (4, inr [4; maxlen; dfi; unc; comp; -1; -1]).
Proof.
  intros Hl Hm Hn Hu Hc Hk. unfold rft_head. rewrite <- !app_assoc. cbn [app].
  set (N := Z.to_nat n). set (L := Z.to_nat lfid).
  set (d := 4 :: lfid :: be_enc L maxlen ++ dfi :: be_enc 2 n ++ be_enc N unc ++ be_enc N comp ++ repeat 0 k).
  assert (d = [4; lfid] ++ be_enc L maxlen ++ (dfi :: be_enc 2 n ++ be_enc N unc ++ be_enc N comp ++ repeat 0 k)) as E1 by reflexivity.
  assert (d = ([4; lfid] ++ be_enc L maxlen) ++ dfi :: be_enc 2 n ++ be_enc N unc ++ be_enc N comp ++ repeat 0 k) as E2 by (rewrite E1, <- !app_assoc; reflexivity).
  assert (d = ([4; lfid] ++ be_enc L maxlen ++ [dfi]) ++ be_enc 2 n ++ (be_enc N unc ++ be_enc N comp ++ repeat 0 k)) as E3 by (rewrite E1, <- !app_assoc; reflexivity).
  assert (d = ([4; lfid] ++ be_enc L maxlen ++ [dfi] ++ be_enc 2 n) ++ be_enc N unc ++ (be_enc N comp ++ repeat 0 k)) as E4 by (rewrite E1, <- !app_assoc; reflexivity).
  assert (d = ([4; lfid] ++ be_enc L maxlen ++ [dfi] ++ be_enc 2 n ++ be_enc N unc) ++ be_enc N comp ++ repeat 0 k) as E5 by (rewrite E1, <- !app_assoc; reflexivity).
  assert (d = ([4; lfid] ++ be_enc L maxlen ++ [dfi] ++ be_enc 2 n ++ be_enc N unc ++ be_enc N comp) ++ repeat 0 k) as E6 by (rewrite E1, <- !app_assoc; reflexivity).
  unfold rft_interpret_raw. fold d. unfold d at 1. cbv iota. f_equal. cbn [Z.eqb Pos.eqb orb].
  unfold d at 1. cbv iota. fold d.
  replace (8 <? lfid) with false by lia. replace (lfid =? 0) with false by lia.
  fold L. rewrite (take_num_at d [4; lfid] L maxlen _ 2 E1 eq_refl) by (unfold L; rewrite z_nat by lia; exact Hm). cbn [bind ret].
  rewrite (nth_error_at d _ dfi _ (2 + L) E2) by (rewrite app_length, be_enc_length; reflexivity).
  cbn [andb bind ret].
  rewrite (take_num_at d _ 2 n _ (S (2 + L)) E3) by (try (change (256 ^ Z.of_nat 2) with 65536; lia); rewrite !app_length, be_enc_length; cbn [List.length]; lia).
  cbn [bind]. replace (8 <? n) with false by lia. replace (n =? 0) with false by lia. fold N.
  rewrite (take_num_at d _ N unc _ (S (2 + L) + 2) E4) by (try (unfold N; rewrite z_nat by lia; exact Hu); rewrite !app_length, !be_enc_length; cbn [List.length]; lia).
  cbn [bind].
  rewrite (take_num_at d _ N comp _ (S (2 + L) + 2 + N) E5) by (try (unfold N; rewrite z_nat by lia; exact Hc); rewrite !app_length, !be_enc_length; cbn [List.length]; lia).
  cbn [bind ret]. rewrite E6. rewrite pad_ok by (try exact Hk; rewrite !app_length, !be_enc_length; cbn [List.length]; lia). reflexivity.
Qed.

Lemma rft_read_dir_decode cfg lfid maxlen n unc k : 1 <= lfid <= 8 -> 0 <= maxlen < 256 ^ lfid -> 1 <= n <= 8 ->
  0 <= unc < 256 ^ n -> (k = 0%nat \/ tol_pad cfg = true) ->
  rft_interpret_raw cfg (rft_head 5 lfid maxlen 0 ++ be_enc 2 n ++ be_enc (Z.to_nat n) unc ++ repeat 0 k)
  = (5, inr [5; maxlen; 0; -1; -1; unc; -1]).
Proof.
  intros Hl Hm Hn Hu Hk. unfold rft_head. rewrite <- !app_assoc. cbn [app].
  set (N := Z.to_nat n). set (L := Z.to_nat lfid).
  set (d := 5 :: lfid :: be_enc L maxlen ++ 0 :: be_enc 2 n ++ be_enc N unc ++ repeat 0 k).
  assert (d = [5; lfid] ++ be_enc L maxlen ++ (0 :: be_enc 2 n ++ be_enc N unc ++ repeat 0 k)) as E1 by reflexivity.
  assert (d = ([5; lfid] ++ be_enc L maxlen) ++ 0 :: be_enc 2 n ++ be_enc N unc ++ repeat 0 k) as E2 by (rewrite E1, <- !app_assoc; reflexivity).
  assert (d = ([5; lfid] ++ be_enc L maxlen ++ [0]) ++ be_enc 2 n ++ (be_enc N unc ++ repeat 0 k)) as E3 by (rewrite E1, <- !app_assoc; reflexivity).
  assert (d = ([5; lfid] ++ be_enc L maxlen ++ [0] ++ be_enc 2 n) ++ be_enc N unc ++ repeat 0 k) as E4 by (rewrite E1, <- !app_assoc; reflexivity).
  assert (d = ([5; lfid] ++ be_enc L maxlen ++ [0] ++ be_enc 2 n ++ be_enc N unc) ++ repeat 0 k) as E6 by (rewrite E1, <- !app_assoc; reflexivity).
  unfold rft_interpret_raw. fold d. unfold d at 1. cbv iota. f_equal. cbn [Z.eqb Pos.eqb orb].
  unfold d at 1. cbv iota. fold d.
  replace (8 <? lfid) with false by lia. replace (lfid =? 0) with false by lia.
  fold L. rewrite (take_num_at d [5; lfid] L maxlen _ 2 E1 eq_refl) by (unfold L; rewrite z_nat by lia; exact Hm). cbn [bind ret].
  rewrite (nth_error_at d _ 0 _ (2 + L) E2) by (rewrite app_length, be_enc_length; reflexivity).
  cbn [andb negb Z.eqb bind ret].
  rewrite (take_num_at d _ 2 n _ (S (2 + L)) E3) by (try (change (256 ^ Z.of_nat 2) with 65536; lia); rewrite !app_length, be_enc_length; cbn [List.length]; lia).
  cbn [bind]. replace (8 <? n) with false by lia. replace (n =? 0) with false by lia. fold N.
  rewrite (take_num_at d _ N unc _ (S (2 + L) + 2) E4) by (try (unfold N; rewrite z_nat by lia; exact Hu); rewrite !app_length, !be_enc_length; cbn [List.length]; lia).
  cbn [bind ret]. rewrite E6. rewrite pad_ok by (try exact Hk; rewrite !app_length, !be_enc_length; cbn [List.length]; lia). reflexivity.
Qed.


Lemma extract_param_at d pre b post cur :
  d = pre ++ lenpref b ++ post -> cur = List.length pre -> Z.of_nat (List.length b) < 65536 ->
  extract_param d cur = inr (b, (cur + 2 + List.length b)%nat).
Proof. intros -> -> H. apply extract_param_decode. exact H. Qed.

Lemma lenpref_length b : List.length (lenpref b) = (2 + List.length b)%nat.
Proof. unfold lenpref. rewrite app_length, be_enc_length. reflexivity. Qed.

(* Authentication positive responses (ISO 14229-1:2020 tables 74-90): task echo, authenticationReturnParameter, then per task the
   length-prefixed byte strings / the 16-byte algorithmIndicator; every string of any length below 65536 comes back as sent *)
Definition none7 := enc_obytes None ++ enc_obytes None ++ enc_obytes None ++ enc_obytes None ++ enc_obytes None ++ enc_obytes None ++ enc_obytes None.

Ltac lens := rewrite ?app_length, ?lenpref_length; cbn [List.length]; lia.

Lemma auth_plain_decode sub rv r : sub = 0 \/ sub = 4 \/ sub = 8 -> p_data r = [sub; rv] ->
  auth_interpret sub r = inr (sub :: rv :: none7).
Proof.
  intros Hs Hd. unfold auth_interpret. rewrite Hd. replace ((sub =? 0) || (sub =? 4) || (sub =? 8)) with true by lia.
  cbn [bind ret List.length Nat.leb guard]. rewrite Z.eqb_refl. reflexivity.
Qed.


Lemma auth_unidirectional_decode a b rv r : Z.of_nat (List.length a) < 65536 -> Z.of_nat (List.length b) < 65536 ->
  p_data r = [1; rv] ++ lenpref a ++ lenpref b ->
  auth_interpret 1 r = inr (1 :: rv :: enc_obytes (Some a) ++ enc_obytes (Some b) ++ enc_obytes None ++ enc_obytes None ++ enc_obytes None
                              ++ enc_obytes None ++ enc_obytes None).
Proof.
  intros Ha Hb Hd. unfold auth_interpret. rewrite Hd. cbn [app]. cbn [Z.eqb Pos.eqb orb].
  set (d := 1 :: rv :: lenpref a ++ lenpref b).
  assert (d = [1; rv] ++ lenpref a ++ lenpref b) as E1 by reflexivity.
  assert (d = ([1; rv] ++ lenpref a) ++ lenpref b ++ []) as E2 by (rewrite E1, app_nil_r, <- !app_assoc; reflexivity).
  rewrite (extract_param_at d [1; rv] a _ 2 E1 eq_refl Ha). cbn [bind].
  rewrite (extract_param_at d _ b [] (2 + 2 + List.length a) E2) by (try exact Hb; lens). cbn [bind ret].
  replace (Nat.leb (List.length d) _) with true by (symmetry; apply Nat.leb_le; unfold d; cbn [List.length]; lens).
  cbn [guard bind ret]. reflexivity.
Qed.

Lemma auth_bidirectional_decode a b c e rv r :
  Z.of_nat (List.length a) < 65536 -> Z.of_nat (List.length b) < 65536 -> Z.of_nat (List.length c) < 65536 -> Z.of_nat (List.length e) < 65536 ->
  p_data r = [2; rv] ++ lenpref a ++ lenpref b ++ lenpref c ++ lenpref e ->
  auth_interpret 2 r = inr (2 :: rv :: enc_obytes (Some a) ++ enc_obytes (Some e) ++ enc_obytes (Some b) ++ enc_obytes (Some c) ++ enc_obytes None
                              ++ enc_obytes None ++ enc_obytes None).
Proof.
  intros Ha Hb Hc He Hd. unfold auth_interpret. rewrite Hd. cbn [app]. cbn [Z.eqb Pos.eqb orb].
  set (d := 2 :: rv :: lenpref a ++ lenpref b ++ lenpref c ++ lenpref e).
  assert (d = [2; rv] ++ lenpref a ++ (lenpref b ++ lenpref c ++ lenpref e)) as E1 by reflexivity.
  assert (d = ([2; rv] ++ lenpref a) ++ lenpref b ++ (lenpref c ++ lenpref e)) as E2 by (rewrite E1, <- !app_assoc; reflexivity).
  assert (d = ([2; rv] ++ lenpref a ++ lenpref b) ++ lenpref c ++ lenpref e) as E3 by (rewrite E1, <- !app_assoc; reflexivity).
  assert (d = ([2; rv] ++ lenpref a ++ lenpref b ++ lenpref c) ++ lenpref e ++ []) as E4 by (rewrite E1, app_nil_r, <- !app_assoc; reflexivity).
  rewrite (extract_param_at d [2; rv] a _ 2 E1 eq_refl Ha). cbn [bind].
  rewrite (extract_param_at d _ b _ (2 + 2 + List.length a) E2) by (try exact Hb; lens). cbn [bind].
  rewrite (extract_param_at d _ c _ (2 + 2 + List.length a + 2 + List.length b) E3) by (try exact Hc; lens). cbn [bind].
  rewrite (extract_param_at d _ e [] (2 + 2 + List.length a + 2 + List.length b + 2 + List.length c) E4) by (try exact He; lens). cbn [bind ret].
  replace (Nat.leb (List.length d) _) with true by (symmetry; apply Nat.leb_le; unfold d; cbn [List.length]; lens).
  cbn [guard bind ret]. reflexivity.
Qed.

Lemma auth_proof_of_ownership_decode a rv r : Z.of_nat (List.length a) < 65536 ->
  p_data r = [3; rv] ++ lenpref a ->
  auth_interpret 3 r = inr (3 :: rv :: enc_obytes None ++ enc_obytes None ++ enc_obytes None ++ enc_obytes None ++ enc_obytes (Some a)
                              ++ enc_obytes None ++ enc_obytes None).
Proof.
  intros Ha Hd. unfold auth_interpret. rewrite Hd. cbn [app]. cbn [Z.eqb Pos.eqb orb].
  set (d := 3 :: rv :: lenpref a).
  assert (d = [3; rv] ++ lenpref a ++ []) as E1 by (rewrite app_nil_r; reflexivity).
  rewrite (extract_param_at d [3; rv] a _ 2 E1 eq_refl Ha). cbn [bind ret].
  replace (Nat.leb (List.length d) _) with true by (symmetry; apply Nat.leb_le; unfold d; cbn [List.length]; lens).
  cbn [guard bind ret]. reflexivity.
Qed.


Lemma al_first (al rest : bytes) : List.length al = 16%nat -> firstn 16 (al ++ rest) = al.
Proof. intros Hal. rewrite <- Hal. apply firstn_app_exact. Qed.

Lemma auth_request_challenge_decode a b al rv r : Z.of_nat (List.length a) < 65536 -> Z.of_nat (List.length b) < 65536 -> List.length al = 16%nat ->
  p_data r = [5; rv] ++ al ++ lenpref a ++ lenpref b ->
  auth_interpret 5 r = inr (5 :: rv :: enc_obytes (Some a) ++ enc_obytes None ++ enc_obytes None ++ enc_obytes None ++ enc_obytes None
                              ++ enc_obytes (Some al) ++ enc_obytes (Some b)).
Proof.
  intros Ha Hb Hal Hd. unfold auth_interpret. rewrite Hd. cbn [app]. cbn [Z.eqb Pos.eqb orb].
  set (d := 5 :: rv :: al ++ lenpref a ++ lenpref b).
  assert (d = ([5; rv] ++ al) ++ lenpref a ++ lenpref b) as E1 by (rewrite <- !app_assoc; reflexivity).
  assert (d = ([5; rv] ++ al ++ lenpref a) ++ lenpref b ++ []) as E2 by (rewrite app_nil_r, <- !app_assoc; reflexivity).
  replace (Nat.ltb (List.length d) 18) with false by (symmetry; apply Nat.ltb_ge; unfold d; cbn [List.length]; rewrite app_length, Hal; lia).
  rewrite (extract_param_at d _ a _ 18 E1) by (try exact Ha; rewrite app_length, Hal; reflexivity). cbn [bind].
  rewrite (extract_param_at d _ b [] (18 + 2 + List.length a) E2) by (try exact Hb; rewrite !app_length, lenpref_length, Hal; cbn [List.length]; lia).
  cbn [bind ret].
  replace (Nat.leb (List.length d) _) with true by (symmetry; apply Nat.leb_le; unfold d; cbn [List.length]; rewrite !app_length, !lenpref_length, Hal; lia).
  cbn [guard bind ret]. unfold d. cbn [skipn]. rewrite al_first by exact Hal. reflexivity.
Qed.

Lemma auth_verify_pown_unidirectional_decode a al rv r : Z.of_nat (List.length a) < 65536 -> List.length al = 16%nat ->
  p_data r = [6; rv] ++ al ++ lenpref a ->
  auth_interpret 6 r = inr (6 :: rv :: enc_obytes None ++ enc_obytes None ++ enc_obytes None ++ enc_obytes None ++ enc_obytes (Some a)
                              ++ enc_obytes (Some al) ++ enc_obytes None).
Proof.
  intros Ha Hal Hd. unfold auth_interpret. rewrite Hd. cbn [app]. cbn [Z.eqb Pos.eqb orb].
  set (d := 6 :: rv :: al ++ lenpref a).
  assert (d = ([6; rv] ++ al) ++ lenpref a ++ []) as E1 by (rewrite app_nil_r, <- !app_assoc; reflexivity).
  replace (Nat.ltb (List.length d) 18) with false by (symmetry; apply Nat.ltb_ge; unfold d; cbn [List.length]; rewrite app_length, Hal; lia).
  rewrite (extract_param_at d _ a _ 18 E1) by (try exact Ha; rewrite app_length, Hal; reflexivity). cbn [bind ret].
  replace (Nat.leb (List.length d) _) with true by (symmetry; apply Nat.leb_le; unfold d; cbn [List.length]; rewrite !app_length, !lenpref_length, Hal; lia).
  cbn [guard bind ret]. unfold d. cbn [skipn]. rewrite al_first by exact Hal. reflexivity.
Qed.

Lemma auth_verify_pown_bidirectional_decode a b al rv r : Z.of_nat (List.length a) < 65536 -> Z.of_nat (List.length b) < 65536 -> List.length al = 16%nat ->
  p_data r = [7; rv] ++ al ++ lenpref a ++ lenpref b ->
  auth_interpret 7 r = inr (7 :: rv :: enc_obytes None ++ enc_obytes None ++ enc_obytes None ++ enc_obytes (Some a) ++ enc_obytes (Some b)
                              ++ enc_obytes (Some al) ++ enc_obytes None).
Proof.
  intros Ha Hb Hal Hd. unfold auth_interpret. rewrite Hd. cbn [app]. cbn [Z.eqb Pos.eqb orb].
  set (d := 7 :: rv :: al ++ lenpref a ++ lenpref b).
  assert (d = ([7; rv] ++ al) ++ lenpref a ++ lenpref b) as E1 by (rewrite <- !app_assoc; reflexivity).
  assert (d = ([7; rv] ++ al ++ lenpref a) ++ lenpref b ++ []) as E2 by (rewrite app_nil_r, <- !app_assoc; reflexivity).
  replace (Nat.ltb (List.length d) 18) with false by (symmetry; apply Nat.ltb_ge; unfold d; cbn [List.length]; rewrite app_length, Hal; lia).
  rewrite (extract_param_at d _ a _ 18 E1) by (try exact Ha; rewrite app_length, Hal; reflexivity). cbn [bind].
  rewrite (extract_param_at d _ b [] (18 + 2 + List.length a) E2) by (try exact Hb; rewrite !app_length, lenpref_length, Hal; cbn [List.length]; lia).
  cbn [bind ret].
  replace (Nat.leb (List.length d) _) with true by (symmetry; apply Nat.leb_le; unfold d; cbn [List.length]; rewrite !app_length, !lenpref_length, Hal; lia).
  cbn [guard bind ret]. unfold d. cbn [skipn]. rewrite al_first by exact Hal. reflexivity.
Qed.
