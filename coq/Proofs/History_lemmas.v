(* Facts about client state across calls and histories (C09 after-exit, C10 timing adoption, C13 unlock
   structure, C15 independence). *)
From Coq Require Import ZArith List Bool String Lia ZifyBool.
From UDS Require Import Lib.Bytes Lib.ErrM Lib.PyOps Lib.Sweep Spec.Timing Model.Message Model.Client
  Model.Services Model.Svc_Simple Model.Svc_Memory Model.Svc_Did Model.Svc_File Model.Svc_Dtc Model.History Proofs.C17_lemmas Proofs.C05_lemmas Proofs.Client_lemmas Proofs.Bytes_lemmas.
Import ListNotations.
Open Scope Z_scope.
Open Scope list_scope.

Definition flags_of (st : cstate) := (spr_on st, spr_wait st, ov st).
Definition timing_of (st : cstate) := (st_p2 st, st_p2s st).

Lemma dsc_post_flags cfg sd st : flags_of (dsc_post cfg sd st) = flags_of st.
Proof. unfold dsc_post. destruct (_ && _); [|reflexivity]. destruct sd as [|? [|? [|? ?]]]; reflexivity. Qed.

Lemma single_request_flags cfg st mk interp post now s :
  (forall sd x, flags_of (post sd x) = flags_of x) ->
  let '(_, st', _, _, _) := single_request cfg st mk interp post now s in flags_of st' = flags_of st.
Proof.
  intros Hp. pose proof (single_request_state cfg st mk interp post now s) as H.
  destruct (single_request cfg st mk interp post now s) as [[[[res st'] t] s'] tr].
  destruct res as [[[r sd]|]|e r]; subst; auto.
Qed.

Lemma single_request_timing cfg st mk interp now s :
  let '(_, st', _, _, _) := single_request cfg st mk interp no_post now s in st' = st.
Proof.
  pose proof (single_request_state cfg st mk interp no_post now s) as H.
  destruct (single_request cfg st mk interp no_post now s) as [[[[res st'] t] s'] tr].
  destruct res as [[[r sd]|]|e r]; subst; auto.
Qed.

Global Hint Unfold request_seed send_key tester_present ecu_reset clear_dtc routine_control access_timing_parameter
  transfer_data request_transfer_exit link_control control_dtc_setting read_memory_by_address write_memory_by_address
  request_upload_download dynamically_define_did do_clear_dynamically_defined_did read_data_by_identifier
  test_data_identifier write_data_by_identifier io_control request_file_transfer authentication
  read_dtc_information : calls.
Ltac unfold_call_head := autounfold with calls.

Lemma unlock_state cfg st level params now s :
  let '(_, st', _, _, _) := unlock_security_access cfg st level params now s in st' = st.
Proof.
  unfold unlock_security_access. destruct (algo cfg <=? 0); [reflexivity|].
  unfold request_seed, send_key.
  pose proof (single_request_timing cfg st (sa_make false level params) (sa_interpret false level) now s) as H1.
  destruct (single_request cfg st (sa_make false level params) (sa_interpret false level) no_post now s)
    as [[[[res st1] t1] s1] tr1]. subst st1.
  destruct res as [[[r sd]|]|e r]; try reflexivity.
  destruct (_ && _); [reflexivity|]. destruct (algo_run cfg (seed_of sd) level) as [key e].
  destruct (algo_fails cfg); [reflexivity|].
  pose proof (single_request_timing cfg st (sa_make true level key) (sa_interpret true level) t1 s1) as H2.
  destruct (single_request cfg st (sa_make true level key) (sa_interpret true level) no_post t1 s1)
    as [[[[res2 st2] t2] s2] tr2]. subst st2. reflexivity.
Qed.

(* only change_session can change the client state at all *)
Lemma run_inner_timing cfg st c now s :
  match c with CChangeSession _ => True | _ =>
    let '(_, st', _, _, _) := run_inner cfg st c now s in st' = st end.
Proof.
  destruct c; cbn [run_inner]; auto;
    try solve [unfold_call_head; apply single_request_timing].
  - unfold raw_request. destruct (mk_request _ _ _ _); [reflexivity|].
    destruct (send_request cfg st r timeout now s) as [[[res t] s'] tr]. destruct res as [[r0|]|e r0]; reflexivity.
  - apply unlock_state.
  - unfold communication_control. destruct (ct_normalize a); [reflexivity|]. apply single_request_timing.
  - unfold read_data_by_identifier_first. destruct (iterM (fun d => validate_int d 0 65535) l); [reflexivity|].
    match goal with |- context [single_request ?a ?b ?c ?d no_post ?f ?g] =>
      pose proof (single_request_timing a b c d f g) as H; destruct (single_request a b c d no_post f g) as [[[[res st'] t] s'] tr] end.
    exact H.
Qed.

(* no call ever changes the context-manager flags *)
Lemma run_inner_flags cfg st c now s :
  let '(_, st', _, _, _) := run_inner cfg st c now s in flags_of st' = flags_of st.
Proof.
  destruct c.
  all: match goal with
       | |- context [run_inner _ _ (CChangeSession ?x) _ _] =>
         cbn [run_inner]; unfold change_session; apply single_request_flags; intros; apply dsc_post_flags
       | |- context [run_inner ?cf ?s0 ?cl ?n ?sc] =>
         pose proof (run_inner_timing cf s0 cl n sc) as H; cbv iota in H;
         destruct (run_inner cf s0 cl n sc) as [[[[? stx] ?] ?] ?]; subst stx; reflexivity
       end.
Qed.

(* ---- C09: once the block has exited, suppression is off until a new block is entered ------------- *)
Definition is_spr_enter (o : op) : bool := match o with OSprEnter _ => true | _ => false end.

Lemma step_op_spr cfgv st now o :
  let '(_, _, st', _) := step_op cfgv st now o in
  match o with
  | OSprEnter _ => spr_on st' = true
  | OSprExit => spr_on st' = false
  | _ => spr_on st' = spr_on st
  end.
Proof.
  destruct o; cbn [step_op]; try reflexivity.
  - pose proof (run_inner_flags (cfg_of cfgv) st c now (map (fun '(d, it) => (now + d, it)) replies)) as H.
    unfold run_call. destruct (run_inner _ _ _ _ _) as [[[[res st'] t] s'] tr].
    unfold flags_of in H. congruence.
  - pose proof (run_inner_flags (cfg_of cfgv) st c now []) as H.
    unfold run_call. destruct (run_inner _ _ _ _ _) as [[[[res st'] t] s'] tr].
    destruct (upto_first_send _); [reflexivity|]. unfold flags_of in H. congruence.
Qed.

Lemma state_after_no_enter ops : forallb (fun o => negb (is_spr_enter o)) ops = true ->
  forall cfgv st now, spr_on st = false -> spr_on (state_after cfgv st now ops) = false.
Proof.
  induction ops as [|o rest IH]; intros Hn cfgv st now Hoff; [exact Hoff|].
  cbn [forallb] in Hn. apply andb_true_iff in Hn as [Ho Hr]. cbn [state_after].
  pose proof (step_op_spr cfgv st now o) as S.
  destruct (step_op cfgv st now o) as [[[out cfgv'] st'] now'].
  apply IH; [exact Hr|]. destruct o; try congruence. discriminate.
Qed.

Lemma state_after_app cfgv st now a b :
  exists cfgv' now', state_after cfgv st now (a ++ b) = state_after cfgv' (state_after cfgv st now a) now' b.
Proof.
  revert cfgv st now. induction a as [|o rest IH]; intros cfgv st now; [exists cfgv, now; reflexivity|].
  cbn [app state_after]. destruct (step_op cfgv st now o) as [[[out cfgv'] st'] now']. apply IH.
Qed.

Lemma after_exit_off cfgv st now before after :
  forallb (fun o => negb (is_spr_enter o)) after = true ->
  spr_on (state_after cfgv st now (before ++ OSprExit :: after)) = false.
Proof.
  intros Hn. destruct (state_after_app cfgv st now before (OSprExit :: after)) as (c' & n' & E). rewrite E.
  cbn [state_after step_op]. apply state_after_no_enter; [exact Hn|reflexivity].
Qed.

(* inside a block: on *)
Lemma inside_block_on cfgv st now before w inside :
  forallb (fun o => match o with OSprExit | OSprEnter _ => false | _ => true end) inside = true ->
  spr_on (state_after cfgv st now (before ++ OSprEnter w :: inside)) = true.
Proof.
  intros Hn. destruct (state_after_app cfgv st now before (OSprEnter w :: inside)) as (c' & n' & E). rewrite E.
  cbn [state_after step_op]. clear E.
  generalize (spr_enter (match w with Some b => spr_call (state_after cfgv st now before) b | None => state_after cfgv st now before end))
             (eq_refl : spr_on (spr_enter (match w with Some b => spr_call (state_after cfgv st now before) b | None => state_after cfgv st now before end)) = true).
  generalize c' n'. clear - Hn. induction inside as [|o rest IH]; intros c n st0 Hon; [exact Hon|].
  cbn [forallb] in Hn. apply andb_true_iff in Hn as [Ho Hr]. cbn [state_after].
  pose proof (step_op_spr c st0 n o) as S. destruct (step_op c st0 n o) as [[[out c2] st2] n2].
  apply IH; [exact Hr|]. destruct o; try congruence; discriminate.
Qed.

(* the bare form "with client.suppress_positive_response:" after an earlier block has exited: on, and NOT waiting for
   an NRC, whatever that earlier block asked for *)
Definition no_spr_op (o : op) : bool := match o with OSprExit | OSprEnter _ => false | _ => true end.

Lemma step_op_wait cfgv st now o : no_spr_op o = true ->
  let '(_, _, st', _) := step_op cfgv st now o in spr_wait st' = spr_wait st /\ spr_on st' = spr_on st.
Proof.
  intros Hn. destruct o; cbn [step_op]; try discriminate Hn; try (split; reflexivity).
  - pose proof (run_inner_flags (cfg_of cfgv) st c now (map (fun '(d, it) => (now + d, it)) replies)) as H.
    unfold run_call. destruct (run_inner _ _ _ _ _) as [[[[res st'] t] s'] tr].
    unfold flags_of in H. split; congruence.
  - pose proof (run_inner_flags (cfg_of cfgv) st c now []) as H.
    unfold run_call. destruct (run_inner _ _ _ _ _) as [[[[res st'] t] s'] tr].
    destruct (upto_first_send _); [split; reflexivity|]. unfold flags_of in H. split; congruence.
Qed.

Lemma state_after_wait ops : forallb no_spr_op ops = true ->
  forall cfgv st now, spr_wait (state_after cfgv st now ops) = spr_wait st /\ spr_on (state_after cfgv st now ops) = spr_on st.
Proof.
  induction ops as [|o rest IH]; intros Hn cfgv st now; [split; reflexivity|].
  cbn [forallb] in Hn. apply andb_true_iff in Hn as [Ho Hr]. cbn [state_after].
  pose proof (step_op_wait cfgv st now o Ho) as S.
  destruct (step_op cfgv st now o) as [[[out cfgv'] st'] now'].
  destruct S as [S1 S2]. destruct (IH Hr cfgv' st' now') as [I1 I2]. split; congruence.
Qed.

Lemma bare_block_not_waiting cfgv st now before mid inside :
  forallb no_spr_op mid = true -> forallb no_spr_op inside = true ->
  let st' := state_after cfgv st now (before ++ OSprExit :: mid ++ OSprEnter None :: inside) in
  spr_on st' = true /\ spr_wait st' = None.
Proof.
  intros Hm Hi. cbv zeta.
  destruct (state_after_app cfgv st now before (OSprExit :: mid ++ OSprEnter None :: inside)) as (c1 & n1 & E). rewrite E. clear E.
  cbn [state_after step_op].
  destruct (state_after_app c1 (spr_exit (state_after cfgv st now before)) n1 mid (OSprEnter None :: inside)) as (c2 & n2 & E). rewrite E. clear E.
  destruct (state_after_wait mid Hm c1 (spr_exit (state_after cfgv st now before)) n1) as [W1 O1].
  cbn [state_after step_op].
  destruct (state_after_wait inside Hi c2 (spr_enter (state_after c1 (spr_exit (state_after cfgv st now before)) n1 mid)) n2) as [W2 O2].
  rewrite W2, O2. cbn [spr_enter spr_on spr_wait]. split; [reflexivity|]. rewrite W1. reflexivity.
Qed.

(* a call whose send() fails after writing: exactly one frame on the wire, nothing after it *)
Definition is_send (e : ev) : bool := match e with EvS _ => true | _ => false end.

Lemma upto_first_send_shape tr pre : upto_first_send tr = Some pre ->
  exists l p, pre = l ++ [EvS p] /\ forallb (fun e => negb (is_send e)) l = true.
Proof.
  revert pre. induction tr as [|e tl IH]; intros pre H; [discriminate H|].
  destruct e; cbn [upto_first_send] in H;
    try (destruct (upto_first_send tl) as [l0|] eqn:E; [|discriminate H]; injection H as <-;
         destruct (IH l0 eq_refl) as (l & p & -> & Hl); eexists (_ :: l), p; split; [reflexivity|cbn; exact Hl]).
  injection H as <-. exists [], p. split; reflexivity.
Qed.

Definition trace_of {A B C D} (x : A * B * C * D * list ev) : list ev := let '(_, _, _, _, tr) := x in tr.

Lemma send_fault_one_frame cfgv st now c code pre :
  upto_first_send (trace_of (run_call (cfg_of cfgv) st c now [])) = Some pre ->
  step_op cfgv st now (OCallSendFault c code) = (2 :: code :: 0 :: enc_trace pre ++ [now], cfgv, st, now)
  /\ exists l p, pre = l ++ [EvS p] /\ forallb (fun e => negb (is_send e)) l = true.
Proof.
  cbn [step_op]. destruct (run_call (cfg_of cfgv) st c now []) as [[[[o st'] t] s'] tr]. cbn [trace_of].
  intros Hp. rewrite Hp. split; [reflexivity|]. exact (upto_first_send_shape tr pre Hp).
Qed.

(* ---- C10: timing adoption ------------------------------------------------------------------------- *)
Lemma dsc_interpret_ok cfg session a1 a0 b1 b0 r :
  2013 <= std cfg -> p_data r = [session; a1; a0; b1; b0] ->
  dsc_interpret cfg session r =
  inr (session :: (a1 * 256 + a0) * 1000 :: (b1 * 256 + b0) * 10000 :: enc_bytes [a1; a0; b1; b0]).
Proof.
  intros Hs Hd. unfold dsc_interpret. rewrite Hd. replace (2013 <=? std cfg) with true by lia.
  cbn [bind ret]. rewrite Z.eqb_refl. reflexivity.
Qed.

Lemma be16 a1 a0 : be_dec [a1; a0] = a1 * 256 + a0.
Proof. unfold be_dec. cbn. lia. Qed.

(* after change_session: adopted exactly when accepted, under >= 2013 with server timing on; scaled 1 ms / 10 ms *)
Lemma change_session_timing cfg st session now s :
  let '(res, st', _, _, _) := change_session cfg st session now s in
  match res with
  | COk (Some (r, sd)) =>
    if (2006 <? std cfg) && use_srv cfg then
      match sd with
      | _ :: a :: b :: _ => timing_of st' = (Some a, Some b) /\ flags_of st' = flags_of st
      | _ => st' = st
      end
    else st' = st
  | _ => st' = st
  end.
Proof.
  unfold change_session.
  pose proof (single_request_state cfg st (dsc_make session) (dsc_interpret cfg session) (dsc_post cfg) now s) as H.
  destruct (single_request cfg st (dsc_make session) (dsc_interpret cfg session) (dsc_post cfg) now s)
    as [[[[res st'] t] s'] tr].
  destruct res as [[[r sd]|]|e r]; auto. subst st'. unfold dsc_post.
  destruct ((2006 <? std cfg) && use_srv cfg); [|reflexivity].
  destruct sd as [|x [|a [|b rest]]]; auto.
Qed.

(* the service data of an accepted reply under >= 2013 is the scaled pair of 16-bit fields *)
Lemma dsc_accepted_shape cfg session r sd :
  2013 <= std cfg -> dsc_interpret cfg session r = inr sd ->
  exists a1 a0 b1 b0, p_data r = [session; a1; a0; b1; b0] /\
    sd = session :: be_dec [a1; a0] * 1000 :: be_dec [b1; b0] * 10000 :: enc_bytes [a1; a0; b1; b0].
Proof.
  intros Hs. unfold dsc_interpret. destruct (p_data r) as [|echo rec]; [discriminate|].
  replace (2013 <=? std cfg) with true by lia.
  destruct rec as [|a1 [|a0 [|b1 [|b0 [|x rec']]]]]; cbn [bind ret fail]; try discriminate.
  unfold guard. destruct (session =? echo) eqn:E; cbn [bind ret fail]; [|discriminate].
  intros H. injection H as H. exists a1, a0, b1, b0. apply Z.eqb_eq in E. subst echo. rewrite !be16. split; [reflexivity|].
  symmetry. exact H.
Qed.

(* under 2006 nothing is ever adopted; with server timing off neither *)
Lemma change_session_unchanged cfg st session now s :
  (std cfg <= 2006 \/ use_srv cfg = false) ->
  let '(_, st', _, _, _) := change_session cfg st session now s in st' = st.
Proof.
  intros Hc. pose proof (change_session_timing cfg st session now s) as H.
  destruct (change_session cfg st session now s) as [[[[res st'] t] s'] tr].
  destruct res as [[[r sd]|]|e r]; auto.
  replace ((2006 <? std cfg) && use_srv cfg) with false in H; [exact H|].
  destruct Hc as [Hc|Hc]; [replace (2006 <? std cfg) with false by lia; reflexivity|rewrite Hc; symmetry; apply andb_false_r].
Qed.

(* ---- C13: structure of unlock_security_access ------------------------------------------------- *)
Lemma unlock_structure cfg st level params now s :
  0 < algo cfg ->
  let '(res1, st1, t1, s1, tr1) := request_seed cfg st level params now s in
  let '(res, _, _, _, tr) := unlock_security_access cfg st level params now s in
  match res1 with
  | COk (Some (r, sd)) =>
    let seed := seed_of sd in
    if negb (Nat.eqb (List.length seed) 0) && all_zero seed then tr = tr1 /\ res = res1
    else if algo_fails cfg then tr = tr1 ++ [snd (algo_run cfg seed level)] /\ res = CErr ERuntime None
    else
      let '(res2, _, _, _, tr2) := send_key cfg st1 level (fst (algo_run cfg seed level)) t1 s1 in
      tr = tr1 ++ snd (algo_run cfg seed level) :: tr2 /\ res = res2
  | _ => tr = tr1 /\ res = res1
  end.
Proof.
  intros Ha. unfold unlock_security_access. replace (algo cfg <=? 0) with false by lia.
  destruct (request_seed cfg st level params now s) as [[[[res1 st1] t1] s1] tr1].
  destruct res1 as [[[r sd]|]|e r]; auto.
  destruct (negb (Nat.eqb (List.length (seed_of sd)) 0) && all_zero (seed_of sd)); auto.
  destruct (algo_run cfg (seed_of sd) level) as [key e]. cbn [fst snd].
  destruct (algo_fails cfg); [auto|].
  destruct (send_key cfg st1 level key t1 s1) as [[[[res2 st2] t2] s2] tr2]. auto.
Qed.

Lemma unlock_no_algo cfg st level params now s :
  algo cfg <= 0 -> unlock_security_access cfg st level params now s = (CErr ENotImpl None, st, now, s, []).
Proof. intros H. unfold unlock_security_access. replace (algo cfg <=? 0) with true by lia. reflexivity. Qed.

(* the algorithm event records exactly the seed received and the requested level; the key is its result *)
Lemma algo_run_event cfg seed level :
  exists lvl prm, snd (algo_run cfg seed level) = EvALGO seed lvl prm /\ (lvl = level \/ lvl = -1).
Proof.
  unfold algo_run. destruct ((algo cfg =? 1) || (algo cfg =? 6)); [|destruct ((algo cfg =? 2) || (algo cfg =? 5) || (algo cfg =? 7) || (algo cfg =? 8))]; cbn [snd]; eauto.
Qed.

Definition sa_sid : Z := 39.
Lemma security_access_in_table :
  exists s, svc_by_name "SecurityAccess" = Some s /\ s_sid s = sa_sid /\ s_sub s = true /\ In s services.
Proof.
  assert (match svc_by_name "SecurityAccess" with
          | Some s => (s_sid s =? sa_sid) && s_sub s && existsb (svc_beq s) services
          | None => false end = true) as H by (vm_compute; reflexivity).
  destruct (svc_by_name "SecurityAccess") as [s|]; [|discriminate].
  apply andb_true_iff in H as [H H3]. apply andb_true_iff in H as [H1 H2].
  exists s. repeat split; auto; [lia|].
  apply existsb_exists in H3 as [t [Hin Ht]]. apply svc_beq_eq in Ht. subst. exact Hin.
Qed.

(* the two requests of the exchange: odd subfunction 2k-1 with the seed parameters, even 2k with the key *)
Lemma normalize_level_spec send_key level : 1 <= level <= 126 ->
  exists lv, normalize_level send_key level = inr lv /\ 1 <= lv <= 126 /\
    (if send_key then lv mod 2 = 0 else lv mod 2 = 1) /\ (lv + 1) / 2 = (level + 1) / 2.
Proof.
  intros H. unfold normalize_level, validate_int.
  replace ((level <? 1) || (126 <? level)) with false by lia. cbn [bind ret].
  destruct send_key.
  - destruct (level mod 2 =? 0) eqn:E; eexists; (split; [reflexivity|]); lia.
  - destruct (level mod 2 =? 1) eqn:E; eexists; (split; [reflexivity|]); lia.
Qed.

Lemma sa_make_payload st send_key level data : 1 <= level <= 126 -> spr_on st = false ->
  exists rq lv, sa_make send_key level data = inr rq /\ normalize_level send_key level = inr lv /\
    wire_payload st rq = inr (apply_override (ov st) (sa_sid :: lv :: data)).
Proof.
  intros H Hoff. destruct (normalize_level_spec send_key level H) as (lv & Hn & Hr & _).
  destruct security_access_in_table as (s & Hs & Hsid & Hsub & Hin).
  unfold sa_make, validate_int. replace ((level <? 0) || (127 <? level)) with false by lia. cbn [bind ret].
  rewrite Hn. cbn [bind]. unfold mk_req. rewrite Hs.
  destruct (mk_request (Some s) (Some lv) false (Some data)) as [e|rq] eqn:Em.
  - unfold mk_request in Em. cbn in Em. discriminate.
  - exists rq, lv. split; [reflexivity|]. split; [reflexivity|].
    rewrite (wire_payload_spec st s lv (Some data) rq Hin ltac:(lia) Em). rewrite Hsub, Hoff, Hsid. reflexivity.
Qed.

Lemma sa_make_rejects send_key level data : level < 1 \/ 126 < level -> sa_make send_key level data = inl EValue.
Proof.
  intros H. unfold sa_make, validate_int, normalize_level, validate_int.
  destruct ((level <? 0) || (127 <? level)) eqn:E; [reflexivity|]. cbn [bind ret].
  replace ((level <? 1) || (126 <? level)) with true by lia. reflexivity.
Qed.

(* ---- non-vacuity: premises are inhabited, results are non-degenerate (closed by computation) ------------------ *)
(* C10: an accepted session-change reply under the 2020 edition with P2 = 0x0032, P2* = 0x01F4 *)
Example c10_accepted :
  dsc_interpret (cfg_of [1;1;1;1;1;1;2020;5000000;1000000;5000000;0;-1;-1;2;-1;0;-1;0;0]) 3
                (parse_response [80; 3; 0; 50; 1; 244]) = inr [3; 50000; 5000000; 4; 0; 50; 1; 244].
Proof. vm_compute. reflexivity. Qed.

(* C09_bare_block_not_waiting: a block that waited for an NRC, a call, its exit, another call, then the bare form *)
Example c09_history :
  let cfgv := [1;1;1;1;1;1;2020;5000000;1000000;5000000;0;-1;-1;2;-1;0;-1;0;0] in
  let h := [OSprEnter (Some true); OCall CTesterPresent []; OSprExit; OCall CTesterPresent [(1000, Frame [126; 0])]; OSprEnter None; OCall CTesterPresent []] in
  let st := state_after cfgv st_init 0 h in spr_on st = true /\ spr_wait st = None.
Proof. vm_compute. split; reflexivity. Qed.

(* C13: an unlock whose seed reply is valid and non-zero: seed request, one algorithm run, key request *)
Example c13_unlock :
  let cfg := cfg_of [1;1;1;1;1;1;2020;5000000;1000000;5000000;0;-1;-1;2;-1;1;-1;0;0] in
  let '(out, _, _, _, tr) := run_call cfg st_init (CUnlock 3 []) 0 [(10, Frame [103; 3; 17; 34]); (20, Frame [103; 4])] in
  map (fun e => match e with EvS p => firstn 2 p | _ => [] end) (filter is_send tr) = [[39; 3]; [39; 4]] /\
  List.length (filter (fun e => match e with EvALGO _ _ _ => true | _ => false end) tr) = 1%nat /\
  match out with ORet (Some _) => True | _ => False end.
Proof. vm_compute. repeat split. Qed.

(* C13: an all-zero seed (already unlocked): nothing after the seed request, no algorithm run *)
Example c13_already_unlocked :
  let cfg := cfg_of [1;1;1;1;1;1;2020;5000000;1000000;5000000;0;-1;-1;2;-1;1;-1;0;0] in
  let '(out, _, _, _, tr) := run_call cfg st_init (CUnlock 3 []) 0 [(10, Frame [103; 3; 0; 0])] in
  filter is_send tr = [EvS [39; 3]] /\ filter (fun e => match e with EvALGO _ _ _ => true | _ => false end) tr = [].
Proof. vm_compute. repeat split. Qed.

(* C15_stale / C05: two stale frames (arrived before the request), then a pending reply and the answer *)
Example c15_stale_ignored :
  let cfg := cfg_of [1;1;1;1;1;1;2020;5000000;1000000;5000000;1;-1;-1;2;-1;0;-1;0;0] in
  let live := [(100 + 1000, Frame [127; 62; 120]); (100 + 2000, Frame [126; 0])] in
  let '(o1, _, t1, _, tr1) := run_call cfg st_init CTesterPresent 100 ([(40, Frame [127; 62; 34]); (100, Frame [126; 0])] ++ live) in
  let '(o2, _, t2, _, tr2) := run_call cfg st_init CTesterPresent 100 live in
  enc_outcome enc_sdata_resp o1 = enc_outcome enc_sdata_resp o2 /\ t1 = t2 /\ tr1 = tr2 /\ t1 = 2100 /\
  List.length (filter (fun e => match e with EvCB => true | _ => false end) tr1) = 1%nat.
Proof. vm_compute. repeat split. Qed.
