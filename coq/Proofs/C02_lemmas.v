(* Proofs for C02 (well-formed responses decode to the encoded values) and C11 (zero padding), for the decoders with
   real structure: length-prefixed unsigned integers, the multi-record DTC loops, the WWH-OBD loop, the length-prefixed
   Authentication parameters, the multi-DID loop.  Reference encoders are defined here from Appendix B of DESIGN.md. *)
From Coq Require Import ZArith List Bool String Lia ZifyBool.
From UDS Require Import Lib.Bytes Lib.ErrM Lib.PyOps Model.Message Model.Client Model.Services Model.Helpers
  Model.Svc_Simple Model.Svc_Memory Model.Svc_Did Model.Svc_File Model.Svc_Dtc
  Proofs.Bytes_lemmas Proofs.C17_lemmas.
Import ListNotations.
Open Scope Z_scope.
Open Scope list_scope.

(* ---- length-prefixed unsigned integers (RequestDownload / RequestUpload) --------------------------------------------- *)
(* response data: [n << 4] ++ n bytes big-endian; decoded unsigned for every n in 1..8 and every value *)
Lemma rud_decode r n v extra : 0 <= n <= 8 -> 0 <= v < 256 ^ n ->
  p_data r = (16 * n) :: be_enc (Z.to_nat n) v ++ extra -> rud_interpret r = inr [v].
Proof.
  intros Hn Hv Hd. unfold rud_interpret. rewrite Hd.
  assert (Z.shiftr (16 * n) 4 = n) as Es by (rewrite Z.shiftr_div_pow2 by lia; change (2 ^ 4) with 16; lia).
  rewrite Es. replace (8 <? n) with false by lia.
  rewrite app_length, be_enc_length.
  replace (Z.of_nat (Z.to_nat n + List.length extra) <? n) with false by lia.
  rewrite <- (be_enc_length (Z.to_nat n) v) at 1. rewrite firstn_app_exact.
  rewrite be_dec_enc by (rewrite Z2Nat.id by lia; exact Hv). reflexivity.
Qed.

(* a field of n bytes read at a cursor (RequestFileTransfer) is the unsigned big-endian value *)
Lemma take_num_decode pre n v post : 0 <= v < 256 ^ Z.of_nat n ->
  take_num (pre ++ be_enc n v ++ post) (List.length pre) n = inr v.
Proof.
  intros Hv. unfold take_num. rewrite !app_length, be_enc_length.
  replace (Nat.ltb _ _) with false by (symmetry; apply Nat.ltb_ge; lia).
  rewrite skipn_app_exact. rewrite <- (be_enc_length n v) at 1. rewrite firstn_app_exact.
  rewrite be_dec_enc by exact Hv. reflexivity.
Qed.

(* ---- length-prefixed byte strings (Authentication) --------------------------------------------------------------------- *)
Definition lenpref (b : bytes) : bytes := be_enc 2 (Z.of_nat (List.length b)) ++ b.

Lemma extract_param_decode pre b post : Z.of_nat (List.length b) < 65536 ->
  extract_param (pre ++ lenpref b ++ post) (List.length pre) = inr (b, (List.length pre + 2 + List.length b)%nat).
Proof.
  intros Hl. unfold extract_param, lenpref. rewrite skipn_app_exact.
  rewrite be_enc_2. cbn [app].
  assert ((Z.of_nat (List.length b) / 256) mod 256 * 256 + Z.of_nat (List.length b) mod 256 = Z.of_nat (List.length b)) as E by lia.
  rewrite E. rewrite Nat2Z.id. rewrite app_length.
  replace (Nat.leb _ _) with true by (symmetry; apply Nat.leb_le; lia).
  rewrite firstn_app_exact. reflexivity.
Qed.

(* ---- DTC records: availability mask + (DTC, status)* ------------------------------------------------------------------ *)
Definition rec4 (x : Z * Z) : bytes := be_enc 3 (fst x) ++ [snd x].
Definition recs4 (l : list (Z * Z)) : bytes := flat_map rec4 l.
Definition dtc4 (x : Z * Z) : dtc := dtc_with (mk_dtc (fst x)) (snd x) 0 (-1) (-1) [] [].
Definition wf_rec4 (x : Z * Z) : Prop := 0 <= fst x < 16777216 /\ 0 <= snd x < 256.

Lemma rec4_length x : List.length (rec4 x) = 4%nat.
Proof. unfold rec4. rewrite app_length, be_enc_length. reflexivity. Qed.

Lemma rec4_all_zero x : wf_rec4 x -> all_zero (rec4 x) = true -> x = (0, 0).
Proof.
  intros [H1 H2]. destruct x as [i s]. cbn [fst snd] in *. unfold rec4. cbn [fst snd]. rewrite be_enc_3. cbn [app all_zero forallb].
  intros H. f_equal; lia.
Qed.

Lemma sub3_rec4 x rest : wf_rec4 x -> sub3 (rec4 x ++ rest) = fst x /\ at_ (rec4 x ++ rest) 3 = snd x.
Proof.
  intros [H1 H2]. unfold sub3, at_, rec4. rewrite <- app_assoc.
  split.
  - rewrite <- (be_enc_length 3 (fst x)) at 1. rewrite firstn_app_exact. apply be_dec_enc. exact H1.
  - rewrite be_enc_3. reflexivity.
Qed.

(* one record consumed *)
Lemma loop_records_step k pc sub pre x rest acc :
  wf_rec4 x -> (all_zero (rec4 x) && pc_ign pc = false) ->
  loop_records (S k) pc sub false (pre ++ rec4 x ++ rest) (List.length pre) acc
  = loop_records k pc sub false ((pre ++ rec4 x) ++ rest) (List.length (pre ++ rec4 x)) (acc ++ [dtc4 x]).
Proof.
  intros Hw Hz. cbn [loop_records]. rewrite !app_length, rec4_length.
  replace (Nat.leb _ _) with false by (symmetry; apply Nat.leb_gt; lia).
  replace (Nat.ltb _ _) with false by (symmetry; apply Nat.ltb_ge; lia).
  rewrite skipn_app_exact.
  assert (firstn 4 (rec4 x ++ rest) = rec4 x) as F by (rewrite <- (rec4_length x) at 1; apply firstn_app_exact).
  rewrite F, Hz. destruct (sub3_rec4 x [] Hw) as [E1 E2]. rewrite app_nil_r in E1, E2.
  unfold dtc4. rewrite E1, E2. rewrite <- app_assoc. reflexivity.
Qed.

(* all-zero record skipped when ignore_all_zero_dtc is on *)
Lemma loop_records_skip_zero k pc sub pre rest acc : pc_ign pc = true ->
  loop_records (S k) pc sub false (pre ++ [0; 0; 0; 0] ++ rest) (List.length pre) acc
  = loop_records k pc sub false ((pre ++ [0; 0; 0; 0]) ++ rest) (List.length (pre ++ [0; 0; 0; 0])) acc.
Proof.
  intros Hi. cbn [loop_records]. rewrite !app_length. cbn [List.length].
  replace (Nat.leb _ _) with false by (symmetry; apply Nat.leb_gt; lia).
  replace (Nat.ltb _ _) with false by (symmetry; apply Nat.ltb_ge; lia).
  rewrite skipn_app_exact. cbn [firstn app all_zero forallb Z.eqb andb]. rewrite Hi. rewrite <- app_assoc. reflexivity.
Qed.

(* C02: any number of well-formed records (none all-zero when such records are ignored), nothing after them *)
Lemma loop_records_decode pc sub : forall l pre acc fuel,
  Forall wf_rec4 l -> (pc_ign pc = true -> Forall (fun x => x <> (0, 0)) l) ->
  (List.length l < fuel)%nat ->
  loop_records fuel pc sub false (pre ++ recs4 l) (List.length pre) acc = inr (acc ++ map dtc4 l).
Proof.
  induction l as [|x l IH]; intros pre acc fuel Hw Hz Hf.
  - destruct fuel as [|k]; [lia|]. cbn [loop_records recs4 flat_map map]. rewrite app_nil_r.
    replace (Nat.leb _ _) with true by (symmetry; apply Nat.leb_le; lia). rewrite app_nil_r. reflexivity.
  - destruct fuel as [|k]; [cbn in Hf; lia|]. inversion Hw as [|? ? Hx Hl]; subst.
    cbn [recs4 flat_map]. fold (recs4 l).
    rewrite loop_records_step; [| exact Hx |].
    + rewrite IH.
      * cbn [map]. rewrite <- app_assoc. reflexivity.
      * exact Hl.
      * intros Hi. specialize (Hz Hi). inversion Hz; assumption.
      * cbn in Hf. lia.
    + destruct (pc_ign pc) eqn:Ei; [|apply andb_false_r].
      destruct (all_zero (rec4 x)) eqn:Ea; [|reflexivity].
      apply rec4_all_zero in Ea; [|exact Hx]. specialize (Hz eq_refl). inversion Hz; congruence.
Qed.

(* ---- C11 on the same loop: n trailing zero bytes ------------------------------------------------------------------------ *)
Lemma zeros_all_zero n : all_zero (repeat 0 n) = true.
Proof. induction n; cbn; auto. Qed.

Lemma loop_records_padding pc sub pre acc : forall n fuel,
  (n < fuel)%nat -> pc_tol pc = true -> pc_ign pc = true ->
  loop_records fuel pc sub false (pre ++ repeat 0 n) (List.length pre) acc = inr acc.
Proof.
  intros n. revert pre. induction n as [n IH] using lt_wf_ind. intros pre fuel Hf Ht Hi.
  destruct fuel as [|k]; [lia|].
  destruct n as [|[|[|[|m]]]].
  - cbn [loop_records repeat]. rewrite app_nil_r. replace (Nat.leb _ _) with true by (symmetry; apply Nat.leb_le; lia). reflexivity.
  - cbn [loop_records]. rewrite app_length. cbn [repeat List.length].
    replace (Nat.leb _ _) with false by (symmetry; apply Nat.leb_gt; lia).
    replace (Nat.ltb _ _) with true by (symmetry; apply Nat.ltb_lt; lia).
    rewrite skipn_app_exact, Ht. reflexivity.
  - cbn [loop_records]. rewrite app_length. cbn [repeat List.length].
    replace (Nat.leb _ _) with false by (symmetry; apply Nat.leb_gt; lia).
    replace (Nat.ltb _ _) with true by (symmetry; apply Nat.ltb_lt; lia).
    rewrite skipn_app_exact, Ht. reflexivity.
  - cbn [loop_records]. rewrite app_length. cbn [repeat List.length].
    replace (Nat.leb _ _) with false by (symmetry; apply Nat.leb_gt; lia).
    replace (Nat.ltb _ _) with true by (symmetry; apply Nat.ltb_lt; lia).
    rewrite skipn_app_exact, Ht. reflexivity.
  - change (repeat 0 (S (S (S (S m))))) with ([0; 0; 0; 0] ++ repeat 0 m).
    rewrite loop_records_skip_zero by exact Hi. apply IH; [lia|lia|exact Ht|exact Hi].
Qed.

(* tolerance on + ignore on: appending any number of zero bytes to a complete valid record list changes nothing *)
Lemma loop_records_tolerant pc sub l pre acc n fuel :
  Forall wf_rec4 l -> Forall (fun x => x <> (0, 0)) l -> pc_tol pc = true -> pc_ign pc = true ->
  (List.length l + n < fuel)%nat ->
  loop_records fuel pc sub false (pre ++ recs4 l ++ repeat 0 n) (List.length pre) acc = inr (acc ++ map dtc4 l).
Proof.
  revert pre acc fuel. induction l as [|x l IH]; intros pre acc fuel Hw Hz Ht Hi Hf.
  - cbn [recs4 flat_map map app]. rewrite app_nil_r. apply loop_records_padding; [cbn in Hf; lia|exact Ht|exact Hi].
  - destruct fuel as [|k]; [cbn in Hf; lia|]. inversion Hw as [|? ? Hx Hl]; subst. inversion Hz as [|? ? Nx Nl]; subst.
    cbn [recs4 flat_map]. fold (recs4 l). rewrite <- app_assoc.
    rewrite loop_records_step; [|exact Hx|].
    + rewrite IH; auto; [|cbn in Hf; lia]. cbn [map]. rewrite <- app_assoc. reflexivity.
    + rewrite Hi, andb_true_r. destruct (all_zero (rec4 x)) eqn:Ea; [|reflexivity].
      apply rec4_all_zero in Ea; [congruence|exact Hx].
Qed.

(* tolerance off: trailing zero bytes that do not form whole records are refused *)
Lemma loop_records_strict_partial pc sub pre acc n fuel :
  (1 <= n <= 3)%nat -> (0 < fuel)%nat -> pc_tol pc = false -> sub <> 9 ->
  loop_records fuel pc sub false (pre ++ repeat 0 n) (List.length pre) acc = inl EInvalid.
Proof.
  intros Hn Hf Ht Hs. destruct fuel as [|k]; [lia|]. cbn [loop_records]. rewrite app_length, repeat_length.
  replace (Nat.leb _ _) with false by (symmetry; apply Nat.leb_gt; lia).
  replace (Nat.ltb _ _) with true by (symmetry; apply Nat.ltb_lt; lia).
  rewrite Ht. cbn [andb]. replace (sub =? 9) with false by lia. reflexivity.
Qed.

(* ---- WWH-OBD records: (severity, DTC, status)* ------------------------------------------------------------------------ *)
Definition rec5 (x : Z * Z * Z) : bytes := let '(sv, id, stt) := x in sv :: be_enc 3 id ++ [stt].
Definition dtc5 (x : Z * Z * Z) : dtc := let '(sv, id, stt) := x in dtc_with (mk_dtc id) stt (Z.land sv 224) (-1) (-1) [] [].
Definition wf_rec5 (x : Z * Z * Z) : Prop := let '(sv, id, stt) := x in 0 <= sv < 256 /\ 0 <= id < 16777216 /\ 0 <= stt < 256.

Lemma loop_wwh_decode pc : forall l acc fuel n,
  Forall wf_rec5 l -> (pc_ign pc = true -> Forall (fun x => x <> (0, 0, 0)) l) ->
  (List.length l + n < fuel)%nat -> (n = 0%nat \/ (pc_tol pc = true /\ pc_ign pc = true)) ->
  loop_wwh fuel pc (flat_map rec5 l ++ repeat 0 n) acc = inr (acc ++ map dtc5 l).
Proof.
  induction l as [|[[sv id] stt] l IH]; intros acc fuel n Hw Hz Hf Hn.
  - cbn [flat_map map app]. rewrite app_nil_r. revert fuel Hf. induction n as [n IHn] using lt_wf_ind. intros fuel Hf.
    destruct fuel as [|k]; [lia|]. destruct n as [|[|[|[|[|m]]]]]; cbn [loop_wwh repeat]; try reflexivity;
      try (destruct Hn as [Hn|[Ht Hi]]; [lia|rewrite Ht; reflexivity]).
    destruct Hn as [Hn|[Ht Hi]]; [lia|]. cbn [all_zero forallb Z.eqb andb]. rewrite Hi. apply IHn; [lia|right; auto|cbn in Hf |- *; lia].
  - destruct fuel as [|k]; [cbn in Hf; lia|]. inversion Hw as [|? ? Hx Hl]; subst. destruct Hx as (H1 & H2 & H3).
    cbn [flat_map rec5]. rewrite be_enc_3. cbn [app loop_wwh].
    replace (all_zero [sv; (id / 65536) mod 256; (id / 256) mod 256; id mod 256; stt] && pc_ign pc) with false.
    + rewrite IH; [| exact Hl | | cbn in Hf; lia | exact Hn].
      * cbn [map dtc5]. rewrite <- app_assoc. cbn [app].
        assert (be_dec [(id / 65536) mod 256; (id / 256) mod 256; id mod 256] = id) as E
          by (rewrite <- be_enc_3; apply be_dec_enc; change (256 ^ Z.of_nat 3) with 16777216; lia).
        rewrite E. reflexivity.
      * intros Hi. specialize (Hz Hi). inversion Hz; assumption.
    + symmetry. destruct (pc_ign pc) eqn:Ei; [|apply andb_false_r]. rewrite andb_true_r.
      cbn [all_zero forallb]. specialize (Hz eq_refl). inversion Hz as [|? ? Nx _]; subst.
      destruct (0 =? sv) eqn:E1; [|reflexivity]. destruct (0 =? (id / 65536) mod 256) eqn:E2; [|reflexivity].
      destruct (0 =? (id / 256) mod 256) eqn:E3; [|reflexivity]. destruct (0 =? id mod 256) eqn:E4; [|reflexivity].
      destruct (0 =? stt) eqn:E5; [|reflexivity]. exfalso. apply Nx. f_equal; [f_equal|]; lia.
Qed.

Lemma loop_wwh_strict_partial pc fuel d : (0 < fuel)%nat -> (1 <= List.length d <= 4)%nat -> pc_tol pc = false ->
  loop_wwh fuel pc d [] = inl EInvalid.
Proof.
  intros Hf Hl Ht. destruct fuel as [|k]; [lia|]. cbn [loop_wwh].
  destruct d as [|a [|b [|c [|e [|f tl]]]]]; cbn [List.length] in Hl; try lia; rewrite Ht; reflexivity.
Qed.

(* ---- the multi-DID loop of ReadDataByIdentifier ------------------------------------------------------------------------ *)
Definition enc_did (x : Z * bytes) : bytes := be_enc 2 (fst x) ++ snd x.
Definition enc_dids (l : list (Z * bytes)) : bytes := flat_map enc_did l.
(* a DID value is well formed for a configuration when the DID is a 16-bit number whose codec has the value's length *)
Definition wf_did (pc : pcfg) (x : Z * bytes) : Prop :=
  0 <= fst x < 65536 /\ fetch_codec pc (fst x) = inr (Z.of_nat (List.length (snd x))).

Lemma dict_set_fresh k v l : ~ In k (map fst l) -> dict_set k v l = l ++ [(k, v)].
Proof.
  induction l as [|[k' v'] tl IH]; intros H; [reflexivity|]. cbn [dict_set]. cbn [map fst In] in H.
  replace (k' =? k) with false by lia. rewrite IH by tauto. reflexivity.
Qed.

Lemma rdbi_loop_step k pc req pre x rest vals :
  wf_did pc x -> (fst x <> 0 \/ pc_tol pc = false \/ lookup 0 (pc_dids pc) <> None) -> ~ In (fst x) (map fst vals) ->
  rdbi_loop (S k) pc req (pre ++ enc_did x ++ rest) (List.length pre) vals
  = rdbi_loop k pc req ((pre ++ enc_did x) ++ rest) (List.length (pre ++ enc_did x)) (vals ++ [x]).
Proof.
  intros [Hd Hc] Hz Hf. destruct x as [did v]. cbn [fst snd] in *. cbn [rdbi_loop]. unfold enc_did. cbn [fst snd].
  rewrite !app_length, be_enc_length.
  replace (Nat.leb _ _) with false by (symmetry; apply Nat.leb_gt; lia).
  replace (Nat.leb (List.length pre + (2 + List.length v + List.length rest)) (List.length pre + 1)) with false
    by (symmetry; apply Nat.leb_gt; lia).
  rewrite skipn_app_exact.
  assert (firstn 2 ((be_enc 2 did ++ v) ++ rest) = be_enc 2 did) as F.
  { rewrite <- app_assoc. rewrite <- (be_enc_length 2 did) at 1. apply firstn_app_exact. }
  rewrite F. rewrite be_dec_enc by (change (256 ^ Z.of_nat 2) with 65536; lia).
  replace ((did =? 0) && negb match lookup did (pc_dids pc) with Some _ => true | None => false end && pc_tol pc
           && all_zero ((be_enc 2 did ++ v) ++ rest)) with false.
  2:{ symmetry. destruct Hz as [Hz|[Hz|Hz]].
      - replace (did =? 0) with false by lia. reflexivity.
      - rewrite Hz. rewrite andb_false_r. reflexivity.
      - destruct (did =? 0) eqn:E0; [|reflexivity]. assert (did = 0) by lia. subst did.
        destruct (lookup 0 (pc_dids pc)); [reflexivity|congruence]. }
  rewrite Hc. replace (Z.of_nat (List.length v) <? 0) with false by lia. rewrite Nat2Z.id.
  replace (Nat.ltb _ _) with false by (symmetry; apply Nat.ltb_ge; lia).
  rewrite dict_set_fresh by exact Hf.
  replace (skipn (List.length pre + 2) (pre ++ (be_enc 2 did ++ v) ++ rest)) with (v ++ rest).
  2:{ rewrite <- app_assoc. rewrite (app_assoc pre). rewrite <- (be_enc_length 2 did) at 1. rewrite <- app_length.
      rewrite skipn_app_exact. reflexivity. }
  rewrite firstn_app_exact. rewrite <- !app_assoc. f_equal. lia.
Qed.

(* C02: any number of DID values with distinct identifiers decode to exactly those values, in order *)
Lemma rdbi_loop_decode pc req : forall l pre vals fuel,
  Forall (wf_did pc) l -> Forall (fun x => fst x <> 0 \/ pc_tol pc = false \/ lookup 0 (pc_dids pc) <> None) l ->
  NoDup (map fst vals ++ map fst l) -> (List.length l < fuel)%nat ->
  rdbi_loop fuel pc req (pre ++ enc_dids l) (List.length pre) vals = inr (vals ++ l).
Proof.
  induction l as [|x l IH]; intros pre vals fuel Hw Hz Hn Hf.
  - destruct fuel as [|k]; [lia|]. cbn [rdbi_loop enc_dids flat_map]. rewrite !app_nil_r.
    replace (Nat.leb _ _) with true by (symmetry; apply Nat.leb_le; lia). reflexivity.
  - destruct fuel as [|k]; [cbn in Hf; lia|]. inversion Hw as [|? ? Hx Hl]; subst. inversion Hz as [|? ? Zx Zl]; subst.
    cbn [enc_dids flat_map]. fold (enc_dids l).
    rewrite rdbi_loop_step; [|exact Hx|exact Zx|].
    + rewrite IH; [rewrite <- app_assoc; reflexivity|exact Hl|exact Zl| |cbn in Hf; lia].
      rewrite map_app. cbn [map]. rewrite <- app_assoc. exact Hn.
    + cbn [map] in Hn. apply NoDup_remove_2 in Hn. intros Hin. apply Hn. apply in_or_app. left. exact Hin.
Qed.

(* C11 on this loop: with tolerance on and DID 0 not configured, any number of trailing zero bytes ends the parse *)
Lemma rdbi_loop_padding pc req pre vals n fuel :
  (0 < fuel)%nat -> pc_tol pc = true -> lookup 0 (pc_dids pc) = None ->
  rdbi_loop fuel pc req (pre ++ repeat 0 n) (List.length pre) vals = inr vals.
Proof.
  intros Hf Ht H0. destruct fuel as [|k]; [lia|]. cbn [rdbi_loop]. rewrite app_length, repeat_length.
  destruct n as [|[|m]].
  - replace (Nat.leb _ _) with true by (symmetry; apply Nat.leb_le; lia). reflexivity.
  - replace (Nat.leb (List.length pre + 1) (List.length pre)) with false by (symmetry; apply Nat.leb_gt; lia).
    replace (Nat.leb (List.length pre + 1) (List.length pre + 1)) with true by (symmetry; apply Nat.leb_le; lia).
    rewrite Ht. cbn [repeat]. rewrite last_last. reflexivity.
  - replace (Nat.leb (List.length pre + S (S m)) (List.length pre)) with false by (symmetry; apply Nat.leb_gt; lia).
    replace (Nat.leb (List.length pre + S (S m)) (List.length pre + 1)) with false by (symmetry; apply Nat.leb_gt; lia).
    rewrite skipn_app_exact. cbn [repeat firstn]. change (be_dec [0; 0]) with 0. rewrite H0. cbn [Z.eqb negb andb].
    rewrite Ht. change (0 :: 0 :: repeat 0 m) with (repeat 0 (S (S m))). rewrite zeros_all_zero. reflexivity.
Qed.

(* tolerance off: a single trailing byte is refused *)
Lemma rdbi_loop_strict_one pc req pre vals b fuel :
  (0 < fuel)%nat -> pc_tol pc = false ->
  rdbi_loop fuel pc req (pre ++ [b]) (List.length pre) vals = inl EInvalid.
Proof.
  intros Hf Ht. destruct fuel as [|k]; [lia|]. cbn [rdbi_loop]. rewrite app_length. cbn [List.length].
  replace (Nat.leb (List.length pre + 1) (List.length pre)) with false by (symmetry; apply Nat.leb_gt; lia).
  replace (Nat.leb (List.length pre + 1) (List.length pre + 1)) with true by (symmetry; apply Nat.leb_le; lia).
  rewrite Ht. reflexivity.
Qed.

(* ---- non-vacuity: premises are inhabited, results are non-degenerate (closed by computation) ------------------ *)
(* C02_dtc_records / C11_dtc_tolerant: three well-formed non-zero records after a two-byte header, seven pad bytes *)
Definition c02_recs : list (Z * Z) := [(1193046, 47); (1, 255); (16777215, 8)].
Example c02_records_wf : Forall wf_rec4 c02_recs /\ Forall (fun x => x <> (0, 0)) c02_recs.
Proof. split; repeat constructor; unfold wf_rec4; cbn; try lia; intros H; discriminate H. Qed.
Example c11_padded_decodes :
  let pc := {| pc_tol := true; pc_ign := true; pc_snap := 2; pc_dids := [] |} in
  loop_records 20 pc 2 false ([2; 255] ++ recs4 c02_recs ++ repeat 0 7) 2 [] = inr (map dtc4 c02_recs).
Proof. vm_compute. reflexivity. Qed.
Example c11_strict_refuses :
  let pc := {| pc_tol := false; pc_ign := true; pc_snap := 2; pc_dids := [] |} in
  loop_records 20 pc 2 false ([2; 255] ++ recs4 c02_recs ++ repeat 0 3) 2 [] = inl EInvalid.
Proof. vm_compute. reflexivity. Qed.
